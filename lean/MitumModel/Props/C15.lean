import MitumModel.Model.Import
import MitumModel.Props.C14
import MitumModel.Gen.C15
import MitumModel.Pins
/-!
C15  Importing a block range stores every block.
-/
namespace Mitum.C15
open Mitum.BatchWork Mitum.Import Mitum.C14

def hs (frm a n : Nat) : List Nat := (List.range' a n).map (· + frm)

theorem hs_append (frm a m n : Nat) : hs frm a m ++ hs frm (a + m) n = hs frm a (m + n) := by
  unfold hs
  rw [← List.map_append, List.range'_append_1]

theorem batchHeights_eq (frm : Nat) (b : Batch) : batchHeights frm b = hs frm b.first (b.last + 1 - b.first) := rfl

/-- with a pending (unsaved) batch `p` ending right before `i`, the run saves everything from
    `p.first` to the end -/
theorem savedBy_pending (fs : FinalSave) (hfs : fs ≠ FinalSave.lenLtLimit) (frm limit size : Nat) :
    ∀ (bs : List Batch) (i : Nat) (p : Batch), Covers limit size i bs →
      p.first ≤ p.last → p.last + 1 = i →
      savedBy fs frm limit bs (some p) = hs frm p.first (size - p.first) := by
  intro bs
  induction bs with
  | nil =>
    intro i p hc hp1 hp2
    unfold Covers at hc
    subst hc
    unfold savedBy
    simp only
    have hlen : 0 < p.last + 1 - p.first := by omega
    cases fs with
    | lenLtLimit => exact absurd rfl hfs
    | lenPos => simp only [hlen, if_true, batchHeights_eq]; congr 1; omega
    | always => simp only [batchHeights_eq]; congr 1; omega
  | cons b rest ih =>
    intro i p hc hp1 hp2
    unfold Covers at hc
    obtain ⟨hb1, hb2, hb3, _, hrest⟩ := hc
    unfold savedBy
    simp only
    rw [ih (b.last + 1) b hrest hb2 rfl, batchHeights_eq]
    have h1 : p.last + 1 - p.first + (size - b.first) = size - p.first := by omega
    have h2 : b.first = p.first + (p.last + 1 - p.first) := by omega
    rw [h2, hs_append]
    congr 1
    omega

/-- ✦ `import_saves_all`: for every range `from ≤ to` and every batch limit ≥ 1, a successful
    import has saved exactly the heights `from … to` (in order), provided the final save does not
    depend on the last batch being short — the regenerated fact. -/
theorem import_saves_all (fs : FinalSave) (hfs : fs ≠ FinalSave.lenLtLimit) (frm to limit : Nat)
    (hft : frm ≤ to) (hl : 0 < limit) :
    run fs frm to limit = some ((List.range' frm (to + 1 - frm))) := by
  unfold run
  obtain ⟨bs, hplan, hcov⟩ := batch_plan_partition (to + 1 - frm) limit (by omega) hl
  rw [hplan]
  simp only [Option.map_some, Option.some.injEq]
  cases bs with
  | nil => unfold Covers at hcov; omega
  | cons b rest =>
    unfold Covers at hcov
    obtain ⟨hb1, hb2, hb3, _, hrest⟩ := hcov
    unfold savedBy
    simp only [List.nil_append]
    rw [savedBy_pending fs hfs frm limit (to + 1 - frm) rest (b.last + 1) b hrest hb2 rfl]
    unfold hs
    rw [hb1]
    simp only [Nat.sub_zero]
    apply List.ext_getElem
    · simp
    · intro n h1 h2
      simp [List.getElem_range']
      omega

/-- ✗ the unrepaired condition: with 6 blocks and batch limit 3 (and whenever the count is a
    multiple of the limit) the last batch is never saved, and the run still reports success. -/
theorem multiple_of_limit_witness :
    run FinalSave.lenLtLimit 0 5 3 = some [0, 1, 2] ∧ run FinalSave.lenLtLimit 0 2 3 = some [] := by decide

/-- the final-save condition of the current source -/
def genFinalSave : FinalSave :=
  if Gen.C15.finalSaveCond = "len(ims) > 0" then .lenPos
  else if Gen.C15.finalSaveCond = "" then .always
  else .lenLtLimit

/-- ✦ facts of the current source -/
theorem facts_ok :
    Gen.C15.extractErrors = [] ∧ genFinalSave ≠ FinalSave.lenLtLimit ∧
    Gen.C15.prefSavesPrevious = true ∧ Gen.C15.pins = Pins.C15 := by
  refine ⟨by decide, by decide, by decide, by decide⟩

example : run FinalSave.lenPos 0 5 3 = some [0, 1, 2, 3, 4, 5] := by decide

end Mitum.C15
