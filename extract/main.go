package main

import (
	"fmt"
	"os"
	"sort"
)

type genFunc func(o *Out)

var gens = map[string]genFunc{}

func register(id string, g genFunc) { gens[id] = g }

func main() {
	if len(os.Args) < 3 {
		fmt.Fprintln(os.Stderr, "usage: extract <repo> <outdir> [Cxx ...]")
		os.Exit(2)
	}
	repoRoot = os.Args[1]
	outdir := os.Args[2]
	ids := os.Args[3:]
	if len(ids) == 0 {
		for id := range gens {
			ids = append(ids, id)
		}
	}
	sort.Strings(ids)
	if err := os.MkdirAll(outdir, 0o755); err != nil {
		fmt.Fprintln(os.Stderr, err)
		os.Exit(1)
	}
	for _, id := range ids {
		g, ok := gens[id]
		if !ok {
			continue
		}
		o := newOut(id)
		g(o)
		if err := o.finish(outdir); err != nil {
			fmt.Fprintln(os.Stderr, err)
			os.Exit(1)
		}
		for _, e := range o.errs {
			fmt.Printf("extract-error %s %s\n", id, e)
		}
	}
}
