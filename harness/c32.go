package main

import (
	"bufio"
	"bytes"
	"encoding/json"
	"fmt"
	"os"
	"os/exec"
	"runtime"
	"sort"
	"strconv"
	"strings"
	"sync"
	"sync/atomic"
	"time"

	"github.com/pkg/errors"
	"github.com/spikeekips/mitum/util"
)

func init() {
	register("C32", runC32)
	registerChild("c32", childC32)
}

var errC32cb = errors.New("callback error")

type c32map = util.LockedMap[uint64, uint64]

func c32err(err error) string {
	switch {
	case err == nil:
		return "n"
	case errors.Is(err, util.ErrLockedMapClosed):
		return "c"
	default:
		return "e"
	}
}

func c32res(v uint64, b1, b2 bool, err error) string {
	return fmt.Sprintf("%d/%s/%s/%s", v, b01(b1), b01(b2), c32err(err))
}

func c32bit(s string, i int) bool { return i < len(s) && s[i] == '1' }

// outcome tokens: o<v> ok with v | p ok with existing+1 | i ignore | e error
func c32cb(tok string, cur uint64) (uint64, error) {
	switch {
	case tok == "i":
		return 0, util.ErrLockedSetIgnore.WithStack()
	case tok == "e":
		return 0, errC32cb
	case tok == "p":
		return cur + 1, nil
	default:
		v, _ := strconv.ParseUint(tok[1:], 10, 64)
		return v, nil
	}
}

func c32rm(tok string) error {
	switch tok {
	case "i":
		return util.ErrLockedSetIgnore.WithStack()
	case "e":
		return errC32cb
	}
	return nil
}

// applies one operation token to a real map; noise() is called inside callbacks
func c32apply(m c32map, tok string, noise func()) string {
	p := strings.Split(tok, ":")
	k := uint64(0)
	if len(p) > 1 {
		k, _ = strconv.ParseUint(p[1], 10, 64)
	}
	switch p[0] {
	case "ex":
		return c32res(0, m.Exists(k), false, nil)
	case "va":
		v, found := m.Value(k)
		return c32res(v, found, false, nil)
	case "sv":
		v, _ := strconv.ParseUint(p[2], 10, 64)
		return c32res(0, m.SetValue(k, v), false, nil)
	case "rv":
		return c32res(0, m.RemoveValue(k), false, nil)
	case "ge":
		var gv uint64
		var gf bool
		err := m.Get(k, func(v uint64, found bool) error {
			noise()
			gv, gf = v, found
			if (found && c32bit(p[2], 0)) || (!found && c32bit(p[2], 1)) {
				return errC32cb
			}
			return nil
		})
		return c32res(gv, gf, false, err)
	case "gc":
		var gv uint64
		var created, called bool
		err := m.GetOrCreate(k, func(v uint64, c bool) error {
			noise()
			gv, created, called = v, c, true
			if (c && c32bit(p[3], 1)) || (!c && c32bit(p[3], 0)) {
				return errC32cb
			}
			return nil
		}, func() (uint64, error) {
			noise()
			return c32cb(p[2], 0)
		})
		return c32res(gv, created, called, err)
	case "se":
		v, created, err := m.Set(k, func(cur uint64, found bool) (uint64, error) {
			noise()
			if found {
				return c32cb(p[2], cur)
			}
			return c32cb(p[3], 0)
		})
		return c32res(v, created, false, err)
	case "rm":
		removed, err := m.Remove(k, func(_ uint64, found bool) error {
			noise()
			if found {
				return c32rm(p[2])
			}
			return c32rm(p[3])
		})
		return c32res(0, removed, false, err)
	case "sr":
		v, created, removed, err := m.SetOrRemove(k, func(cur uint64, found bool) (uint64, bool, error) {
			noise()
			t := p[3]
			if found {
				t = p[2]
			} else {
				cur = 0
			}
			switch {
			case t == "r":
				return 0, true, nil
			case t == "i":
				return 0, false, util.ErrLockedSetIgnore.WithStack()
			case t == "e":
				return 0, false, errC32cb
			case t == "p":
				return cur + 1, false, nil
			default:
				x, _ := strconv.ParseUint(t[1:], 10, 64)
				return x, false, nil
			}
		})
		return c32res(v, created, removed, err)
	case "len":
		return fmt.Sprint(m.Len())
	case "map":
		return c32items(m.Map())
	case "tr":
		mm := map[uint64]uint64{}
		m.Traverse(func(k, v uint64) bool { mm[k] = v; return true })
		return c32items(mm)
	case "empty":
		m.Empty()
		return "-"
	case "close":
		m.Close()
		return "-"
	}
	return "bad-op"
}

func c32items(m map[uint64]uint64) string {
	if len(m) == 0 {
		return "-"
	}
	ks := make([]uint64, 0, len(m))
	for k := range m {
		ks = append(ks, k)
	}
	sort.Slice(ks, func(i, j int) bool { return ks[i] < ks[j] })
	var t []string
	for _, k := range ks {
		t = append(t, fmt.Sprintf("%d=%d", k, m[k]))
	}
	return strings.Join(t, ",")
}

// ---- the sequential specification in Go (used only to *search* for a
// linearisation; the order found is re-checked by the Lean model)
func c32spec(st map[uint64]uint64, tok string) string {
	p := strings.Split(tok, ":")
	k := uint64(0)
	if len(p) > 1 {
		k, _ = strconv.ParseUint(p[1], 10, 64)
	}
	cur, found := st[k]
	switch p[0] {
	case "ex":
		return c32res(0, found, false, nil)
	case "va":
		return c32res(cur, found, false, nil)
	case "sv":
		v, _ := strconv.ParseUint(p[2], 10, 64)
		st[k] = v
		return c32res(0, !found, false, nil)
	case "rv":
		delete(st, k)
		return c32res(0, found, false, nil)
	case "ge":
		var err error
		if (found && c32bit(p[2], 0)) || (!found && c32bit(p[2], 1)) {
			err = errC32cb
		}
		return c32res(cur, found, false, err)
	case "gc":
		if found {
			var err error
			if c32bit(p[3], 0) {
				err = errC32cb
			}
			return c32res(cur, false, true, err)
		}
		v, err := c32cb(p[2], 0)
		switch {
		case err == nil:
			st[k] = v
			var ferr error
			if c32bit(p[3], 1) {
				ferr = errC32cb
			}
			return c32res(v, true, true, ferr)
		case errors.Is(err, util.ErrLockedSetIgnore):
			return c32res(0, false, false, nil)
		default:
			return c32res(0, false, false, err)
		}
	case "se":
		t := p[3]
		if found {
			t = p[2]
		}
		v, err := c32cb(t, cur)
		switch {
		case err == nil:
			st[k] = v
			return c32res(v, !found, false, nil)
		case errors.Is(err, util.ErrLockedSetIgnore):
			return c32res(cur, false, false, nil)
		default:
			return c32res(0, false, false, err)
		}
	case "rm":
		t := p[3]
		if found {
			t = p[2]
		}
		switch err := c32rm(t); {
		case err == nil:
			delete(st, k)
			return c32res(0, found, false, nil)
		case errors.Is(err, util.ErrLockedSetIgnore):
			return c32res(0, false, false, nil)
		default:
			return c32res(0, false, false, err)
		}
	case "sr":
		t := p[3]
		if found {
			t = p[2]
		}
		switch {
		case t == "i":
			return c32res(cur, false, false, nil)
		case t == "e":
			return c32res(0, false, false, errC32cb)
		case t == "r":
			if found {
				delete(st, k)
				return c32res(0, false, true, nil)
			}
			return c32res(0, false, false, nil)
		case t == "p":
			st[k] = cur + 1
			return c32res(cur+1, !found, false, nil)
		default:
			x, _ := strconv.ParseUint(t[1:], 10, 64)
			st[k] = x
			return c32res(x, !found, false, nil)
		}
	case "empty":
		for kk := range st {
			delete(st, kk)
		}
		return "-"
	}
	return "bad-op"
}

func (c *Ctx) c32keyop(nkeys int) string {
	k := c.Intn(nkeys)
	cbs := []string{"o" + fmt.Sprint(10+c.Intn(80)), "p", "i", "e"}
	cb := func() string { return cbs[c.Intn(len(cbs))] }
	rms := []string{"o", "o", "i", "e"}
	rm := func() string { return rms[c.Intn(len(rms))] }
	srs := []string{"s" + fmt.Sprint(10+c.Intn(80)), "p", "r", "r", "i", "e"}
	sr := func() string { return srs[c.Intn(len(srs))] }
	bits := func() string { return b01(c.Chance(1, 4)) + b01(c.Chance(1, 4)) }
	switch c.Intn(11) {
	case 0:
		return fmt.Sprintf("ex:%d", k)
	case 1:
		return fmt.Sprintf("va:%d", k)
	case 2, 3:
		return fmt.Sprintf("sv:%d:%d", k, 10+c.Intn(80))
	case 4:
		return fmt.Sprintf("rv:%d", k)
	case 5:
		return fmt.Sprintf("ge:%d:%s", k, bits())
	case 6, 7:
		cr := []string{"o" + fmt.Sprint(10+c.Intn(80)), "o" + fmt.Sprint(10+c.Intn(80)), "i", "e"}[c.Intn(4)]
		return fmt.Sprintf("gc:%d:%s:%s", k, cr, bits())
	case 8:
		return fmt.Sprintf("se:%d:%s:%s", k, cb(), cb())
	case 9:
		return fmt.Sprintf("rm:%d:%s:%s", k, rm(), rm())
	default:
		return fmt.Sprintf("sr:%d:%s:%s", k, sr(), sr())
	}
}

func c32newMap(kind string) (c32map, int) {
	switch {
	case kind == "single":
		return util.NewSingleLockedMap[uint64, uint64](), 1
	case strings.HasPrefix(kind, "deep"):
		var sizes []uint64
		total := 1
		for _, s := range strings.Split(kind[4:], "x") {
			n, _ := strconv.Atoi(s)
			sizes = append(sizes, uint64(n))
			total *= n
		}
		m, err := util.NewDeepShardedMap[uint64, uint64](sizes, nil)
		if err != nil {
			panic(err)
		}
		return m, total
	case strings.HasPrefix(kind, "lm"): // NewLockedMap(size)
		n, _ := strconv.Atoi(kind[2:])
		m, err := util.NewLockedMap[uint64, uint64](uint64(n), nil)
		if err != nil {
			panic(err)
		}
		return m, n
	default:
		n, _ := strconv.Atoi(kind)
		m, err := util.NewShardedMap[uint64, uint64](uint64(n), nil)
		if err != nil {
			panic(err)
		}
		return m, n
	}
}

func runC32(c *Ctx) error {
	nseq, nlk, nconc := 400, 150, 300
	if c.Thorough() {
		nseq, nlk, nconc = 8000, 3000, 8000
	}
	kinds := []string{"single", "2", "3", "5", "deep2x2", "deep2x3", "deep3x2x2", "lm1", "lm4"}
	// ---- sequential correspondence: maps
	for i := 0; i < nseq; i++ {
		kind := kinds[c.Intn(len(kinds))]
		m, n := c32newMap(kind)
		nops := 4 + c.Intn(30)
		var toks, outs []string
		closed := false
		for j := 0; j < nops; j++ {
			var tok string
			switch r := c.Intn(40); {
			case r < 3:
				tok = "len"
			case r < 5:
				tok = "map"
			case r == 5:
				tok = "empty"
			case r == 6 && j > nops/2:
				tok = "close"
				closed = true
			default:
				tok = c.c32keyop(8)
			}
			toks = append(toks, tok)
			outs = append(outs, c32apply(m, tok, func() {}))
			c.Count("op", strings.SplitN(tok, ":", 2)[0])
		}
		toks = append(toks, "len", "map")
		ln, mp := m.Len(), m.Map()
		outs = append(outs, fmt.Sprint(ln), c32items(mp))
		if ln != len(mp) {
			c.Violation("C32:len-not-number-of-keys", fmt.Sprintf("%s map after %s: Len()=%d, Map() has %d keys", kind, strings.Join(toks, " "), ln, len(mp)),
				map[string]interface{}{"kind": kind, "ops": toks})
		}
		c.Count("kind", kind)
		c.Count("closed", b01(closed))
		head := "sharded " + fmt.Sprint(n)
		if n == 1 {
			head = "single"
		}
		c.Case(head+" "+strings.Join(toks, " "), strings.Join(outs, " "))
		c.Nontrivial(kind + strings.Join(toks, " "))
		if i%100 == 0 {
			c.Sample(map[string]interface{}{"kind": kind, "ops": toks, "results": outs})
		}
	}
	// ---- sequential correspondence: Locked
	for i := 0; i < nlk; i++ {
		var l *util.Locked[uint64]
		init := "e"
		if c.Bool() {
			v := uint64(1 + c.Intn(50))
			l = util.NewLocked(v)
			init = fmt.Sprintf("v%d", v)
		} else {
			l = util.EmptyLocked[uint64]()
		}
		var toks, outs []string
		for j, nops := 0, 3+c.Intn(14); j < nops; j++ {
			tok := c.c32lockedOp()
			toks = append(toks, tok)
			outs = append(outs, c32applyLocked(l, tok))
			c.Count("lockedop", strings.SplitN(tok, ":", 2)[0])
		}
		toks = append(toks, "lv", "lm")
		outs = append(outs, c32applyLocked(l, "lv"), c32applyLocked(l, "lm"))
		c.Case("locked "+init+" "+strings.Join(toks, " "), strings.Join(outs, " "))
		c.Nontrivial("locked" + init + strings.Join(toks, " "))
	}
	// ---- concurrent histories, in child processes (a broken lock discipline kills the process)
	for start := 0; start < nconc; start += 100 {
		cnt := 100
		if start+cnt > nconc {
			cnt = nconc - start
		}
		seed := c.U64()
		lines, stderr, ok := c32child(seed, cnt)
		for _, l := range lines {
			f := strings.SplitN(l, "\t", 4)
			switch f[0] {
			case "CASE":
				c.Case(f[1], f[2])
				c.Nontrivial(f[1])
				c.Count("concurrent", "linearised")
			case "VIOL":
				var in interface{}
				_ = json.Unmarshal([]byte(f[3]), &in)
				c.Violation(f[1], f[2], in)
			case "STAT":
				c.Count("concurrent-ops", f[1])
			}
		}
		if !ok {
			c.Violation("C32:crash-in-concurrent-ops", "concurrent histories crashed the process: "+tail(stderr, 600),
				map[string]interface{}{"child_seed": seed, "count": cnt})
		}
		c.Eval(cnt)
	}
	// ---- forced schedules (no sleeps: gates)
	c32traverseWitness(c)
	c32lenAfterEmptyWitness(c, false)
	c32lenAfterEmptyWitness(c, true)
	c32closeVsInflightWriter(c)
	return nil
}

func tail(s string, n int) string {
	if len(s) > n {
		return s[len(s)-n:]
	}
	return s
}

func (c *Ctx) c32lockedOp() string {
	cbs := []string{"o" + fmt.Sprint(10+c.Intn(80)), "p", "i", "e"}
	cb := func() string { return cbs[c.Intn(len(cbs))] }
	rms := []string{"o", "o", "i", "e"}
	bits := func() string { return b01(c.Chance(1, 4)) + b01(c.Chance(1, 4)) }
	switch c.Intn(9) {
	case 0:
		return "lv"
	case 1:
		return "lm"
	case 2:
		return fmt.Sprintf("ls:%d", 1+c.Intn(80))
	case 3:
		return "le"
	case 4:
		return "lg:" + bits()
	case 5, 6:
		return fmt.Sprintf("lgc:%s:%s", []string{"o" + fmt.Sprint(10+c.Intn(80)), "i", "e"}[c.Intn(3)], bits())
	case 7:
		return fmt.Sprintf("lset:%s:%s", cb(), cb())
	default:
		return fmt.Sprintf("lemp:%s:%s", rms[c.Intn(4)], rms[c.Intn(4)])
	}
}

func c32applyLocked(l *util.Locked[uint64], tok string) string {
	p := strings.Split(tok, ":")
	switch p[0] {
	case "lv":
		v, isempty := l.Value()
		return c32res(v, isempty, false, nil)
	case "lm":
		return c32res(l.MustValue(), false, false, nil)
	case "ls":
		v, _ := strconv.ParseUint(p[1], 10, 64)
		l.SetValue(v)
		return c32res(0, false, false, nil)
	case "le":
		l.EmptyValue()
		return c32res(0, false, false, nil)
	case "lg":
		var gv uint64
		var ge bool
		err := l.Get(func(v uint64, isempty bool) error {
			gv, ge = v, isempty
			if (isempty && c32bit(p[1], 1)) || (!isempty && c32bit(p[1], 0)) {
				return errC32cb
			}
			return nil
		})
		return c32res(gv, ge, false, err)
	case "lgc":
		var gv uint64
		var created, called bool
		err := l.GetOrCreate(func(v uint64, c bool) error {
			gv, created, called = v, c, true
			if (c && c32bit(p[2], 1)) || (!c && c32bit(p[2], 0)) {
				return errC32cb
			}
			return nil
		}, func() (uint64, error) { return c32cb(p[1], 0) })
		return c32res(gv, created, called, err)
	case "lset":
		v, err := l.Set(func(cur uint64, isempty bool) (uint64, error) {
			if isempty {
				return c32cb(p[2], cur)
			}
			return c32cb(p[1], cur)
		})
		return c32res(v, false, false, err)
	case "lemp":
		err := l.Empty(func(_ uint64, isempty bool) error {
			if isempty {
				return c32rm(p[2])
			}
			return c32rm(p[1])
		})
		return c32res(0, false, false, err)
	}
	return "bad-op"
}

// ---------------------------------------------------------------- concurrent histories

type c32hop struct {
	Thread int    `json:"thread"`
	Tok    string `json:"op"`
	Res    string `json:"result"`
	Call   int64  `json:"call"`
	Ret    int64  `json:"ret"`
}

func c32child(seed uint64, count int) (lines []string, stderr string, ok bool) {
	cmd := exec.Command(os.Args[0], "child", "c32", fmt.Sprint(seed), fmt.Sprint(count))
	var eb bytes.Buffer
	cmd.Stderr = &eb
	outb, err := cmd.Output()
	s := strings.TrimRight(string(outb), "\n")
	if s != "" {
		lines = strings.Split(s, "\n")
	}
	return lines, eb.String(), err == nil
}

func childC32(args []string) int {
	if len(args) < 2 {
		return 2
	}
	seed, _ := strconv.ParseUint(args[0], 10, 64)
	count, _ := strconv.Atoi(args[1])
	c := &Ctx{rng: seed}
	out := bufio.NewWriter(os.Stdout)
	defer out.Flush()
	for i := 0; i < count; i++ {
		c32concurrent(c, out)
		out.Flush()
	}
	return 0
}

func c32concurrent(c *Ctx, out *bufio.Writer) {
	kind := []string{"2", "3", "4", "deep2x2", "single"}[c.Intn(5)]
	m, n := c32newMap(kind)
	nthreads := 2 + c.Intn(5)
	nkeys := 2 + c.Intn(4)
	// a few keys to start with (sequential prefix)
	var hist []*c32hop
	var clock int64
	for i, np := 0, c.Intn(4); i < np; i++ {
		tok := fmt.Sprintf("sv:%d:%d", c.Intn(nkeys), 1+c.Intn(9))
		h := &c32hop{Thread: -1, Tok: tok}
		h.Call = atomic.AddInt64(&clock, 1)
		h.Res = c32apply(m, tok, func() {})
		h.Ret = atomic.AddInt64(&clock, 1)
		hist = append(hist, h)
	}
	plans := make([][]*c32hop, nthreads)
	withEmpty := c.Chance(1, 8)
	for t := range plans {
		for j, no := 0, 1+c.Intn(5); j < no; j++ {
			tok := c.c32keyop(nkeys)
			if withEmpty && t == 0 && j == no/2 {
				tok = "empty"
			}
			h := &c32hop{Thread: t, Tok: tok}
			plans[t] = append(plans[t], h)
			hist = append(hist, h)
		}
	}
	noiseSeed := c.U64()
	var wg sync.WaitGroup
	startCh := make(chan struct{})
	for t := range plans {
		wg.Add(1)
		go func(t int) {
			defer wg.Done()
			r := noiseSeed + uint64(t)*7919
			noise := func() {
				r = r*6364136223846793005 + 1442695040888963407
				switch (r >> 33) % 4 {
				case 0:
					runtime.Gosched()
				case 1:
					time.Sleep(time.Duration((r>>40)%50) * time.Microsecond)
				}
			}
			<-startCh
			for _, h := range plans[t] {
				h.Call = atomic.AddInt64(&clock, 1)
				h.Res = c32apply(m, h.Tok, noise)
				h.Ret = atomic.AddInt64(&clock, 1)
				noise()
			}
		}(t)
	}
	close(startCh)
	wg.Wait()
	ln, mp := m.Len(), m.Map()
	fmt.Fprintf(out, "STAT\t%d\n", len(hist))
	order, final := c32linearise(hist, c32items(mp))
	if order == nil {
		b, _ := json.Marshal(map[string]interface{}{"kind": kind, "history": hist, "final_map": c32items(mp)})
		fmt.Fprintf(out, "VIOL\tC32:not-linearizable\t%s map, %d threads: no order of the %d recorded operations consistent with real time gives the recorded results and the final contents\t%s\n", kind, nthreads, len(hist), b)
		return
	}
	if c32items(final) != c32items(mp) {
		b, _ := json.Marshal(map[string]interface{}{"kind": kind, "history": hist, "final_map": c32items(mp), "spec_final": c32items(final)})
		fmt.Fprintf(out, "VIOL\tC32:not-linearizable\t%s map: final contents %s differ from the sequential map %s after the only admissible orders\t%s\n", kind, c32items(mp), c32items(final), b)
		return
	}
	if ln != len(mp) {
		cls := "C32:len-not-number-of-keys"
		if withEmpty {
			cls = "C32:len-after-empty-or-close"
		}
		b, _ := json.Marshal(map[string]interface{}{"kind": kind, "history": hist})
		fmt.Fprintf(out, "VIOL\t%s\t%s map at quiescence: Len()=%d, Map() has %d keys\t%s\n", cls, kind, ln, len(mp), b)
	}
	// the certificate: the operations in the order found, for the Lean model to re-run
	var toks, outs []string
	for _, i := range order {
		toks = append(toks, hist[i].Tok)
		outs = append(outs, hist[i].Res)
	}
	toks = append(toks, "map")
	outs = append(outs, c32items(mp))
	head := "sharded " + fmt.Sprint(n)
	if n == 1 {
		head = "single"
	}
	fmt.Fprintf(out, "CASE\t%s %s\t%s\n", head, strings.Join(toks, " "), strings.Join(outs, " "))
}

// c32linearise searches for an order of the history that respects real time
// (an operation that returned before another was called comes first) and in
// which the sequential map gives every recorded result.
func c32linearise(hist []*c32hop, finalItems string) ([]int, map[uint64]uint64) {
	n := len(hist)
	if n > 62 {
		return nil, nil
	}
	failed := map[string]struct{}{}
	var order []int
	var rec func(done uint64, st map[uint64]uint64) map[uint64]uint64
	rec = func(done uint64, st map[uint64]uint64) map[uint64]uint64 {
		if len(order) == n {
			if c32items(st) != finalItems { // the contents read at quiescence are part of the history
				return nil
			}
			return st
		}
		key := fmt.Sprintf("%x|%s", done, c32items(st))
		if _, bad := failed[key]; bad {
			return nil
		}
		// minimal return stamp among the remaining operations
		minRet := int64(1) << 62
		for i, h := range hist {
			if done&(1<<uint(i)) == 0 && h.Ret < minRet {
				minRet = h.Ret
			}
		}
		for i, h := range hist {
			if done&(1<<uint(i)) != 0 || h.Call > minRet {
				continue
			}
			st2 := make(map[uint64]uint64, len(st))
			for k, v := range st {
				st2[k] = v
			}
			if c32spec(st2, h.Tok) != h.Res {
				continue
			}
			order = append(order, i)
			if f := rec(done|1<<uint(i), st2); f != nil {
				return f
			}
			order = order[:len(order)-1]
		}
		failed[key] = struct{}{}
		return nil
	}
	final := rec(0, map[uint64]uint64{})
	if final == nil {
		return nil, nil
	}
	return append([]int{}, order...), final
}

// ---------------------------------------------------------------- forced schedules

// A traversal that has left shard 0 and waits inside shard 1 while a writer
// inserts into shard 0 and removes from shard 2 reports a content the map never had.
func c32traverseWitness(c *Ctx) {
	m, _ := util.NewShardedMap[uint64, uint64](3, nil)
	m.SetValue(1, 11) // shard 1 (uint64 keys: index = key % size)
	m.SetValue(2, 22) // shard 2
	inShard1 := make(chan struct{})
	writerDone := make(chan struct{})
	seen := map[uint64]uint64{}
	var wg sync.WaitGroup
	wg.Add(1)
	go func() {
		defer wg.Done()
		<-inShard1
		m.SetValue(0, 100) // shard 0, already visited
		m.RemoveValue(2)   // shard 2, not yet visited
		close(writerDone)
	}()
	m.Traverse(func(k, v uint64) bool {
		if k == 1 {
			close(inShard1)
			<-writerDone
		}
		seen[k] = v
		return true
	})
	wg.Wait()
	c.Eval(1)
	// contents over time: {1,2} -> {0,1,2} -> {0,1}
	got := c32items(seen)
	if got != "1=11,2=22" && got != "0=100,1=11,2=22" && got != "0=100,1=11" {
		c.Violation("C32:traverse-not-atomic", fmt.Sprintf("sharded map (3 shards) went through {1,2} -> {0,1,2} -> {0,1}; a concurrent Traverse reported {%s}, a content it never had", got),
			map[string]interface{}{"schedule": "Traverse visits shard 0; waits in shard 1's callback; writer: SetValue(0), RemoveValue(2); Traverse visits shard 2", "seen": got})
	}
}

// a leaf whose SetValue returns only after `gate` (the leaf's own lock is already released)
type c32gatedLeaf struct {
	util.LockedMap[uint64, uint64]
	after func()
}

func (g *c32gatedLeaf) SetValue(k, v uint64) bool {
	added := g.LockedMap.SetValue(k, v)
	g.after()
	return added
}

// Empty()/Close() between an operation's leaf step and its update of the length counter
func c32lenAfterEmptyWitness(c *Ctx, useClose bool) {
	stored := make(chan struct{})
	resume := make(chan struct{})
	var once sync.Once
	m, _ := util.NewShardedMap[uint64, uint64](2, func() util.LockedMap[uint64, uint64] {
		return &c32gatedLeaf{LockedMap: util.NewSingleLockedMap[uint64, uint64](), after: func() {
			once.Do(func() { close(stored); <-resume })
		}}
	})
	var wg sync.WaitGroup
	wg.Add(1)
	go func() {
		defer wg.Done()
		m.SetValue(0, 7)
	}()
	<-stored
	what := "Empty"
	if useClose {
		what = "Close"
		m.Close()
	} else {
		m.Empty()
	}
	close(resume)
	wg.Wait()
	c.Eval(1)
	if ln, keys := m.Len(), len(m.Map()); ln != keys {
		c.Violation("C32:len-after-empty-or-close", fmt.Sprintf("SetValue stored its key, %s() ran, SetValue then added 1 to the length: at quiescence Len()=%d, Map() has %d keys", what, ln, keys),
			map[string]interface{}{"schedule": "SetValue: leaf step done; " + what + "(); SetValue: length += 1"})
	}
}

// a leaf that parks its caller BEFORE the leaf operation: the sharded map has handed the shard out already
type c32parkingLeaf struct {
	util.LockedMap[uint64, uint64]
	before func()
}

func (g *c32parkingLeaf) SetValue(k, v uint64) bool {
	g.before()
	return g.LockedMap.SetValue(k, v)
}

func (g *c32parkingLeaf) GetOrCreate(k uint64, f func(uint64, bool) error, create func() (uint64, error)) error {
	g.before()
	return g.LockedMap.GetOrCreate(k, f, create)
}

// Close() runs to completion while a writer holds its shard but has not entered it yet: the write, arriving after
// Close returned, must be refused like every write to a closed map, and the closed map stays empty
func c32closeVsInflightWriter(c *Ctx) {
	for _, deep := range []bool{false, true} {
		for _, op := range []string{"SetValue", "GetOrCreate"} {
			entered := make(chan struct{})
			resume := make(chan struct{})
			var once sync.Once
			newLeaf := func() util.LockedMap[uint64, uint64] {
				return &c32parkingLeaf{LockedMap: util.NewSingleLockedMap[uint64, uint64](), before: func() {
					once.Do(func() { close(entered); <-resume })
				}}
			}
			var m util.LockedMap[uint64, uint64]
			if deep {
				m, _ = util.NewDeepShardedMap[uint64, uint64]([]uint64{2, 3}, newLeaf)
			} else {
				m, _ = util.NewShardedMap[uint64, uint64](4, newLeaf)
			}
			var wg sync.WaitGroup
			stored := false
			wg.Add(1)
			go func() {
				defer wg.Done()
				if op == "SetValue" {
					stored = m.SetValue(7, 7)
					return
				}
				created := false
				err := m.GetOrCreate(7, func(_ uint64, cr bool) error { created = cr; return nil }, func() (uint64, error) { return 7, nil })
				stored = err == nil && created
			}()
			select {
			case <-entered:
			case <-time.After(3 * time.Second):
				close(resume)
				wg.Wait()
				continue
			}
			m.Close()
			close(resume)
			wg.Wait()
			c.Eval(1)
			keys := 0
			m.Traverse(func(uint64, uint64) bool { keys++; return true })
			_, found := m.Value(7)
			if stored || found || m.Len() != 0 || keys != 0 {
				c.Violation("C32:write-accepted-after-close", fmt.Sprintf("%s on a %s map: the writer got its shard, Close() ran to completion, the writer went on: accepted=%v, key found=%v, Len()=%d, keys=%d",
					op, map[bool]string{true: "deep sharded", false: "sharded"}[deep], stored, found, m.Len(), keys), map[string]interface{}{"op": op, "deep": deep})
			}
		}
	}
}
