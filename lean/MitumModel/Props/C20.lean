import MitumModel.Model.Reopen
import MitumModel.Model.ReopenTemps
import MitumModel.Model.WriterStates
import MitumModel.Gen.C20
import MitumModel.Pins
/-!
C20  Reopening storage returns exactly what was stored.
-/
namespace Mitum.C20
open Mitum.Reopen

/-- **reopen_reads_equal.**  A loader that assigns object, hdr and body rebuilds exactly the in-memory
copy the write left, so every read — object and raw bytes — answers as before closing. -/
theorem reopen_reads_equal (f : Frame) :
    load true (persist f).2 = (persist f).1 ∧
    readObject (load true (persist f).2) = readObject (persist f).1 ∧
    readBytes (load true (persist f).2) = readBytes (persist f).1 := by
  simp [load, persist, readObject, readBytes]

/-- a loader that drops the body still serves the object, but the bytes served to peers are empty -/
theorem body_dropped_witness :
    let f : Frame := { enchint := "json", hdr := [1], body := [7, 8, 9] }
    readObject (load false (persist f).2) = readObject (persist f).1 ∧
    readBytes (load false (persist f).2) = ([1], []) ∧ readBytes (persist f).1 = ([1], [7, 8, 9]) := by
  decide

theorem body_needed (f : Frame) (h : f.body ≠ []) : readBytes (load false (persist f).2) ≠ readBytes (persist f).1 := by
  simp [load, persist, readBytes]
  exact fun e => h e

/-! ### the temps a Center loads when it is opened anew -/
section temps
open Mitum.ReopenTemps

/-- ids of the merged prefixes of a height, newest first -/
def mergedAt (disk : List Pfx) (h : Nat) : List Nat :=
  (disk.filter (fun p => decide (p.height = h) && p.merged)).map (·.id)

def fixed : Code := { scansAll := true, removesOnDisk := true }

theorem loadTemp_fixed (disk : List Pfx) (h : Nat) : loadTemp fixed disk h = (mergedAt disk h).head? := by
  unfold loadTemp mergedAt fixed
  simp only [if_true]
  have : disk.filter (fun p => decide (p.height = h) && p.merged) =
      (disk.filter (fun p => decide (p.height = h))).filter (·.merged) := by
    rw [List.filter_filter]
    congr 1
    funext p
    exact Bool.and_comm _ _
  rw [this, List.head?_map, List.head?_filter]

theorem le_maxH (disk : List Pfx) (p : Pfx) (hp : p ∈ disk) : p.height ≤ maxH disk := by
  induction disk with
  | nil => cases hp
  | cons q rest ih =>
    unfold maxH
    simp only [List.foldr_cons]
    rcases List.mem_cons.mp hp with rfl | h
    · exact Nat.le_max_left _ _
    · exact Nat.le_trans (ih h) (Nat.le_max_right _ _)

structure Inv (s : St) : Prop where
  one : ∀ k (hk : k < s.mem.length), mergedAt s.disk (s.perm + k) = [s.mem[k]]
  above : ∀ h, s.perm + s.mem.length ≤ h → mergedAt s.disk h = []
  fresh : ∀ p ∈ s.disk, p.id < s.next
  memFresh : ∀ x ∈ s.mem, x < s.next
  nodup : s.mem.Nodup

theorem loadTemps_spec (disk : List Pfx) : ∀ (mem : List Nat) (perm fuel : Nat),
    (∀ k (hk : k < mem.length), mergedAt disk (perm + k) = [mem[k]]) →
    mergedAt disk (perm + mem.length) = [] → mem.length < fuel →
    loadTemps fixed disk fuel perm = mem := by
  intro mem
  induction mem with
  | nil =>
    intro perm fuel _ h0 hf
    cases fuel with
    | zero => simp at hf
    | succ f => simp only [loadTemps, loadTemp_fixed]; simp at h0; rw [h0]; rfl
  | cons x rest ih =>
    intro perm fuel h1 h0 hf
    cases fuel with
    | zero => simp at hf
    | succ f =>
      have hx := h1 0 (by simp)
      simp only [Nat.add_zero, List.getElem_cons_zero] at hx
      simp only [loadTemps, loadTemp_fixed, hx, List.head?_cons]
      congr 1
      apply ih (perm + 1) f
      · intro k hk
        have := h1 (k + 1) (by simp; omega)
        simpa [Nat.add_assoc, Nat.add_comm 1 k] using this
      · simpa [Nat.add_assoc, Nat.add_comm 1] using h0
      · simp at hf; omega

/-- **reopen_temps_equal** (one state): when the invariant holds, a Center opened anew on the storage has
exactly the temps the running Center had -/
theorem reopen_of_inv (s : St) (hi : Inv s) : reopen fixed s = s.mem := by
  unfold reopen
  cases hm : s.mem with
  | nil =>
    cases hf : maxH s.disk + 2 - s.perm with
    | zero => rfl
    | succ f =>
      have := loadTemps_spec s.disk [] s.perm (f + 1) (fun k hk => by simp at hk)
        (by have := hi.above s.perm (by rw [hm]; simp); simpa using this) (by simp)
      exact this
  | cons x rest =>
    rw [← hm]
    apply loadTemps_spec s.disk s.mem s.perm _ hi.one (hi.above _ (Nat.le_refl _))
    -- the newest temp has a prefix on disk, so `maxH` reaches its height
    have hk : s.mem.length - 1 < s.mem.length := by rw [hm]; simp
    have h1 := hi.one (s.mem.length - 1) hk
    have : s.mem[s.mem.length - 1] ∈ mergedAt s.disk (s.perm + (s.mem.length - 1)) := by rw [h1]; simp
    unfold mergedAt at this
    obtain ⟨p, hp, _⟩ := List.mem_map.mp this
    have hp' := List.mem_filter.mp hp
    have hh : p.height = s.perm + (s.mem.length - 1) := by
      have := hp'.2; simp at this; exact this.1
    have := le_maxH s.disk p hp'.1
    have hl : s.mem.length = rest.length + 1 := by rw [hm]; simp
    omega


theorem mergedAt_cons (p : Pfx) (disk : List Pfx) (h : Nat) :
    mergedAt (p :: disk) h = if p.height = h ∧ p.merged = true then p.id :: mergedAt disk h else mergedAt disk h := by
  unfold mergedAt
  by_cases hc : p.height = h ∧ p.merged = true
  · simp [hc.1, hc.2]
  · simp only [hc, if_false, List.filter_cons]
    have : (decide (p.height = h) && p.merged) = false := by
      cases hm : p.merged <;> simp_all
    simp [this]

theorem mergedAt_filter_id (disk : List Pfx) (q : Nat → Bool) (h : Nat) :
    mergedAt (disk.filter (fun p => q p.id)) h = (mergedAt disk h).filter q := by
  unfold mergedAt
  rw [List.filter_map, List.filter_filter, List.filter_filter]
  congr 1
  apply List.filter_congr
  intro p _
  simp [Bool.and_comm]

theorem mergedAt_clean (disk : List Pfx) (perm h : Nat) (hh : perm ≤ h) :
    mergedAt (disk.filter (fun p => !(decide (p.height < perm)))) h = mergedAt disk h := by
  unfold mergedAt
  rw [List.filter_filter]
  congr 1
  apply List.filter_congr
  intro p _
  by_cases e : p.height = h
  · have : decide (p.height < perm) = false := by simp; omega
    simp [this]
  · simp [e]

theorem inv_init : Inv init := by
  refine ⟨fun k hk => by simp [init] at hk, fun h _ => rfl, fun p hp => by simp [init] at hp,
    fun x hx => by simp [init] at hx, by simp [init]⟩

theorem inv_step (s : St) (op : Op) (hi : Inv s) : Inv (step fixed s op) := by
  cases op with
  | commit =>
    refine ⟨?_, ?_, ?_, ?_, ?_⟩
    · intro k hk
      simp only [step, List.length_append, List.length_singleton] at hk ⊢
      rw [mergedAt_cons]
      by_cases e : k = s.mem.length
      · subst e
        simp [hi.above _ (Nat.le_refl _)]
      · have hk' : k < s.mem.length := by omega
        rw [if_neg (fun hc => by have := hc.1; simp only at this; omega)]
        rw [hi.one k hk', List.getElem_append_left hk']
    · intro h hh
      simp only [step, List.length_append, List.length_singleton] at hh ⊢
      rw [mergedAt_cons]
      rw [if_neg (fun hc => by have := hc.1; simp only at this; omega)]
      exact hi.above h (by omega)
    · intro p hp
      simp only [step, List.mem_cons] at hp ⊢
      rcases hp with rfl | hp
      · simp
      · exact Nat.lt_succ_of_lt (hi.fresh p hp)
    · intro x hx
      simp only [step, List.mem_append, List.mem_singleton] at hx ⊢
      rcases hx with hx | rfl
      · exact Nat.lt_succ_of_lt (hi.memFresh x hx)
      · exact Nat.lt_succ_self _
    · simp only [step]
      rw [List.nodup_append]
      refine ⟨hi.nodup, by simp, ?_⟩
      intro a ha b hb
      simp only [List.mem_singleton] at hb
      subst hb
      have := hi.memFresh a ha
      omega
  | abandon h =>
    refine ⟨?_, ?_, ?_, ?_, hi.nodup⟩
    · intro k hk
      simp only [step] at hk ⊢
      rw [mergedAt_cons]
      simp only [Bool.false_eq_true, and_false, if_false]
      exact hi.one k hk
    · intro h' hh
      simp only [step] at hh ⊢
      rw [mergedAt_cons]
      simp only [Bool.false_eq_true, and_false, if_false]
      exact hi.above h' hh
    · intro p hp
      simp only [step, List.mem_cons] at hp ⊢
      rcases hp with rfl | hp
      · simp
      · exact Nat.lt_succ_of_lt (hi.fresh p hp)
    · intro x hx
      exact Nat.lt_succ_of_lt (hi.memFresh x hx)
  | remove h =>
    by_cases hc : s.perm ≤ h ∧ h < s.perm + s.mem.length
    · have hstep : step fixed s (.remove h) =
          { s with mem := s.mem.take (h - s.perm),
                   disk := s.disk.filter (fun p => !(s.mem.drop (h - s.perm)).contains p.id) } := by
        simp [step, hc, fixed]
      rw [hstep]
      have hj : h - s.perm < s.mem.length := by omega
      have hdisj : ∀ x, x ∈ s.mem.take (h - s.perm) → x ∈ s.mem.drop (h - s.perm) → False := by
        intro x h1 h2
        have hn := hi.nodup
        rw [← List.take_append_drop (h - s.perm) s.mem, List.nodup_append] at hn
        exact hn.2.2 x h1 x h2 rfl
      refine ⟨?_, ?_, ?_, ?_, ?_⟩
      · intro k hk
        simp only [List.length_take] at hk
        have hk' : k < s.mem.length := by omega
        simp only
        rw [mergedAt_filter_id s.disk (fun i => !(s.mem.drop (h - s.perm)).contains i), hi.one k hk', List.getElem_take]
        have hin : s.mem[k] ∈ s.mem.take (h - s.perm) := by
          rw [List.mem_take_iff_getElem]
          exact ⟨k, by omega, rfl⟩
        have hnot : ¬ s.mem[k] ∈ s.mem.drop (h - s.perm) := fun h2 => hdisj _ hin h2
        simp [hnot]
      · intro h' hh
        simp only [List.length_take] at hh
        simp only
        rw [mergedAt_filter_id s.disk (fun i => !(s.mem.drop (h - s.perm)).contains i)]
        by_cases hlt : h' < s.perm + s.mem.length
        · have hk' : h' - s.perm < s.mem.length := by omega
          have := hi.one (h' - s.perm) hk'
          rw [show s.perm + (h' - s.perm) = h' by omega] at this
          rw [this]
          have hin : s.mem[h' - s.perm] ∈ s.mem.drop (h - s.perm) := by
            rw [List.mem_drop_iff_getElem]
            refine ⟨h' - s.perm - (h - s.perm), by omega, ?_⟩
            congr 1
            omega
          simp [hin]
        · rw [hi.above h' (by omega)]; rfl
      · intro p hp
        exact hi.fresh p (List.mem_filter.mp hp).1
      · intro x hx
        exact hi.memFresh x (List.mem_of_mem_take hx)
      · exact hi.nodup.sublist (List.take_sublist _ _)
    · have : step fixed s (.remove h) = s := by simp [step, hc]
      rw [this]; exact hi
  | mergePerm =>
    cases hm : s.mem with
    | nil =>
      have : step fixed s .mergePerm = s := by simp [step, hm]
      rw [this]; exact hi
    | cons x rest =>
      have hstep : step fixed s .mergePerm = { s with perm := s.perm + 1, mem := rest } := by simp [step, hm]
      rw [hstep]
      refine ⟨?_, ?_, hi.fresh, ?_, ?_⟩
      · intro k hk
        simp only at hk ⊢
        have := hi.one (k + 1) (by rw [hm]; simp; omega)
        rw [show s.perm + 1 + k = s.perm + (k + 1) by omega, this]
        simp [hm]
      · intro h hh
        simp only at hh
        exact hi.above h (by rw [hm]; simp; omega)
      · intro y hy
        exact hi.memFresh y (by rw [hm]; exact List.mem_cons_of_mem _ hy)
      · have := hi.nodup; rw [hm] at this; exact (List.nodup_cons.mp this).2
  | clean =>
    refine ⟨?_, ?_, ?_, hi.memFresh, hi.nodup⟩
    · intro k hk
      simp only [step] at hk ⊢
      rw [mergedAt_clean _ _ _ (by omega)]
      exact hi.one k hk
    · intro h hh
      simp only [step] at hh ⊢
      rw [mergedAt_clean _ _ _ (by omega)]
      exact hi.above h hh
    · intro p hp
      exact hi.fresh p (List.mem_filter.mp hp).1

theorem inv_run (ops : List Op) : Inv (run fixed ops) := by
  unfold run
  suffices h : ∀ (s : St), Inv s → Inv (ops.foldl (step fixed) s) from h init inv_init
  induction ops with
  | nil => intro s hs; exact hs
  | cons op rest ih => intro s hs; exact ih _ (inv_step s op hs)

/-- **reopen_temps_equal.**  After every history of commits, abandoned writers (of any height), roll-backs,
merges into the permanent database and clean-ups, a Center opened anew on the same storage loads exactly
the temps the running Center holds: same blocks, same order, nothing of an abandoned or rolled-back writer. -/
theorem reopen_temps_equal (ops : List Op) : reopen fixed (run fixed ops) = (run fixed ops).mem :=
  reopen_of_inv _ (inv_run ops)

/-- why `loadTemp` has to look past the newest prefix: an abandoned writer of the newest height hides the
    merged one (seeded change C20-C) -/
theorem newest_only_witness :
    let c : Code := { scansAll := false, removesOnDisk := true }
    let s := run c [.commit, .commit, .abandon 1]
    s.mem = [0, 1] ∧ reopen c s = [0] := by decide

/-- why `RemoveBlocks` has to delete the temps on disk: they carry their merged marker (seeded change C20-D) -/
theorem rolled_back_returns_witness :
    let c : Code := { scansAll := true, removesOnDisk := false }
    let s := run c [.commit, .commit, .commit, .remove 1]
    s.mem = [0] ∧ reopen c s = [0, 1, 2] := by decide

example : (run fixed [.commit, .commit, .abandon 1, .mergePerm, .commit, .remove 2, .commit, .clean]).mem = [1, 4] ∧
    reopen fixed (run fixed [.commit, .commit, .abandon 1, .mergePerm, .commit, .remove 2, .commit, .clean]) = [1, 4] := by decide


/-- the code as extracted from the source on this run -/
def current : Code := { scansAll := Gen.C20.loadTempScansAll, removesOnDisk := Gen.C20.removeBlocksRemovesOnDisk }

end temps

/-! ### the state a block writer remembers and the state it wrote -/
section writer
open Mitum.WriterStates


theorem step_agree (c : Code) (h : c.diskKeepsFirst = c.memKeepsFirst) (w : W) (hw : w.mem = w.disk) (s : St) :
    (setState c w s).mem = (setState c w s).disk := by
  unfold setState
  cases hd : w.disk with
  | none => simp
  | some d =>
    simp only
    by_cases hr : refuses c.diskKeepsFirst d s = true
    · simp [hr, hw, hd]
    · simp only [hr, Bool.false_eq_true, if_false]
      rw [hw, hd]
      simp only
      rw [← h]
      simp [hr]

/-- **writer_memory_is_what_it_wrote.**  When the two comparisons are the same, whatever states the writer is given
for a key, in whatever order and however often, the state it answers reads with is the state a database opened anew on
its storage finds. -/
theorem writer_memory_is_what_it_wrote (c : Code) (h : c.diskKeepsFirst = c.memKeepsFirst) (ss : List St) :
    (run c ss).mem = (run c ss).disk := by
  unfold run
  have : ∀ (w : W), w.mem = w.disk → (ss.foldl (setState c) w).mem = (ss.foldl (setState c) w).disk := by
    induction ss with
    | nil => intro w hw; exact hw
    | cons s rest ih => intro w hw; exact ih _ (step_agree c h w hw s)
  exact this _ rfl

/-- with different comparisons a second state of the same height is written and not remembered -/
theorem second_state_witness :
    let c : Code := { diskKeepsFirst := false, memKeepsFirst := true }
    (run c [⟨33, 1⟩, ⟨33, 2⟩]).disk = some ⟨33, 2⟩ ∧ (run c [⟨33, 1⟩, ⟨33, 2⟩]).mem = some ⟨33, 1⟩ := by decide

example : (run { diskKeepsFirst := true, memKeepsFirst := true } [⟨33, 1⟩, ⟨33, 2⟩, ⟨34, 3⟩, ⟨33, 4⟩]).mem = some ⟨34, 3⟩ := by decide

/-- the comparisons as extracted from the source on this run -/
def currentWriter : WriterStates.Code :=
  { diskKeepsFirst := Gen.C20.writerDiskKeepsFirst, memKeepsFirst := Gen.C20.writerMemKeepsFirst }

theorem writer_current (ss : List WriterStates.St) : (WriterStates.run currentWriter ss).mem = (WriterStates.run currentWriter ss).disk :=
  writer_memory_is_what_it_wrote currentWriter (by decide) ss
end writer

theorem facts_ok :
    Gen.C20.blockMapLoaderKeepsBody = true ∧ Gen.C20.proofLoaderKeepsBody = true ∧
    Gen.C20.loadTempScansAll = true ∧ Gen.C20.removeBlocksRemovesOnDisk = true ∧
    Gen.C20.writerDiskKeepsFirst = Gen.C20.writerMemKeepsFirst ∧ Gen.C20.writerMemoryFollowsDisk = true ∧ Gen.C20.extractErrors = [] := by decide

theorem source_pinned : Gen.C20.pins = Pins.C20 := by decide

end Mitum.C20
