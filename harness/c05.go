package main

import (
	"fmt"
	"sort"
	"strings"
	"time"

	"github.com/spikeekips/mitum/base"
	"github.com/spikeekips/mitum/isaac"
	isaacstates "github.com/spikeekips/mitum/isaac/states"
	"github.com/spikeekips/mitum/util"
	"github.com/spikeekips/mitum/util/valuehash"
)

func init() { register("C05", runC05) }

// stage points of the scripts: INIT points of 18 consecutive heights, so that the protocol
// order (LastPoint.Before) is the plain order of the ranks for plain and suffrage-confirm ballots alike
func c05point(rank int) base.StagePoint {
	return base.NewStagePoint(base.NewPoint(base.Height(int64(32+rank)), base.Round(0)), base.StageINIT)
}

func runC05(c *Ctx) error {
	n := 300
	if c.Thorough() {
		n = 8000
	}
	nodes := make([]base.LocalNode, 6)
	for i := range nodes {
		nodes[i] = base.RandomLocalNode()
	}
	nodeIdx := map[string]int{}
	for i, nd := range nodes {
		nodeIdx[nd.Address().String()] = i
	}
	prev, prop := valuehash.RandomSHA256(), valuehash.RandomSHA256()
	signFact := func(rank int, sc bool, node int) base.BallotSignFact {
		sp := c05point(rank)
		ln := nodes[node]
		if sp.Stage() == base.StageACCEPT {
			sf := isaac.NewACCEPTBallotSignFact(isaac.NewACCEPTBallotFact(sp.Point, prop, valuehash.RandomSHA256(), nil))
			_ = sf.NodeSign(ln.Privatekey(), hNetworkID, ln.Address())
			return sf
		}
		var fact base.INITBallotFact = isaac.NewINITBallotFact(sp.Point, prev, prop, nil)
		if sc {
			fact = isaac.NewSuffrageConfirmBallotFact(sp.Point, prev, prop, []util.Hash{valuehash.RandomSHA256()})
		}
		sf := isaac.NewINITBallotSignFact(fact)
		_ = sf.NodeSign(ln.Privatekey(), hNetworkID, ln.Address())
		return sf
	}
	var puts []string
	restore := isaacstates.VerifInstrumentPool(func(ptr string) { puts = append(puts, ptr) })
	defer restore()
	fixed := [][]string{
		{"v:1:s:0", "l:2", "c", "c", "c"},
		{"v:1:s:0", "v:1:n:1", "l:3", "c", "v:5:n:2", "c", "v:7:s:3", "c", "v:9:n:1"},
	}
	for i := 0; i < len(fixed)+n; i++ {
		box := isaacstates.NewBallotbox(nodes[0].Address(), func() base.Threshold { return base.Threshold(100) },
			func(base.Height) (base.Suffrage, bool, error) { return nil, false, nil }) // suffrage not known yet: sign facts are kept, nothing is counted
		puts = nil
		var toks []string
		last := 0
		voted := map[string]map[int]bool{}
		expelled := map[string]map[int]bool{} // key -> nodes whose ballot carried expels
		// logical record ids in creation order
		nextID := 0
		keyID := map[string]int{} // live key -> id
		ptrID := map[string]int{} // pointer -> id of the record it currently is
		idKey := map[int]string{} // id -> the key it was created for
		putSeen := 0
		var poolIDs []int
		reported := map[string]bool{}
		viol := func(cls, detail string) {
			if !reported[cls] {
				reported[cls] = true
				c.Violation(cls, fmt.Sprintf("script %s: %s", strings.Join(toks, " "), detail), map[string]interface{}{"script": append([]string{}, toks...)})
			}
		}
		nops := 4 + c.Intn(16)
		if i < len(fixed) {
			nops = len(fixed[i])
		}
		snapshot := ""
		for st := 0; st < nops; st++ {
			var tok string
			if i < len(fixed) {
				tok = fixed[i][st]
			} else {
				switch k := c.Intn(11); {
				case k == 10 && last > 0:
					// a late sign fact: of a stage point behind the last point (also one whose records are cleaned already)
					rank := 1 + c.Intn(last)
					kind := "n"
					if rank < last && c.Chance(2, 5) {
						kind = "s"
					}
					tok = fmt.Sprintf("w:%d:%s:%d", rank, kind, c.Intn(len(nodes)))
				case k < 6:
					rank := last + 1 + c.Intn(4)
					if rank > 18 {
						rank = 18
					}
					kind := "n"
					if c.Chance(2, 5) {
						kind = "s"
					}
					key := fmt.Sprintf("%d%s", rank, kind)
					var free []int
					for nd := range nodes {
						if !voted[key][nd] {
							free = append(free, nd)
						}
					}
					if len(free) == 0 || rank <= last {
						tok = "c"
					} else {
						tok = fmt.Sprintf("v:%d:%s:%d", rank, kind, free[c.Intn(len(free))])
						if kind == "n" && c.Chance(1, 3) {
							tok += ":x" // the ballot carries an expel operation
						}
					}
				case k < 8:
					if last < 17 {
						tok = fmt.Sprintf("l:%d", last+1+c.Intn(3))
					} else {
						tok = "c"
					}
				default:
					tok = "c"
				}
			}
			p := strings.Split(tok, ":")
			switch p[0] {
			case "v":
				var rank, node int
				fmt.Sscan(p[1], &rank)
				fmt.Sscan(p[3], &node)
				key := p[1] + p[2]
				if voted[key] == nil {
					voted[key] = map[int]bool{}
				}
				voted[key][node] = true
				sf := signFact(rank, p[2] == "s", node)
				if len(p) > 4 { // a whole ballot with an expel operation (no embedded voteproof)
					ef := isaac.NewSuffrageExpelFact(nodes[5].Address(), base.Height(int64(32+rank)), base.Height(int64(40+rank)), "no response")
					eop := isaac.NewSuffrageExpelOperation(ef)
					_ = eop.NodeSign(nodes[node].Privatekey(), hNetworkID, nodes[node].Address())
					if expelled[key] == nil {
						expelled[key] = map[int]bool{}
					}
					expelled[key][node] = true
					_, _ = box.Vote(isaac.NewINITBallot(nil, sf.(isaac.INITBallotSignFact), []base.SuffrageExpelOperation{eop}))
					tok = strings.Join(p[:4], ":") // the model does not distinguish
				} else {
					_, _ = box.VoteSignFact(sf)
				}
			case "w":
				var rank, node int
				fmt.Sscan(p[1], &rank)
				fmt.Sscan(p[3], &node)
				if lp, err := isaac.NewLastPoint(c05point(last), false, false); err == nil && isaac.IsNewBallot(lp, c05point(rank), p[2] == "s") {
					tok = "c" // (not refused after all: not what this step is about)
					box.VerifClean()
				} else {
					_, _ = box.VoteSignFact(signFact(rank, p[2] == "s", node))
				}
			case "l":
				var q int
				fmt.Sscan(p[1], &q)
				if q > 18 {
					q = 18
				}
				tok = fmt.Sprintf("l:%d", q)
				if lp, err := isaac.NewLastPoint(c05point(q), false, false); err == nil && box.SetLastPoint(lp) && q > last {
					last = q
				}
			case "c":
				box.VerifClean()
			}
			toks = append(toks, tok)
			c.Count("op", p[0])
			// ---- observe
			for ; putSeen < len(puts); putSeen++ {
				id, ok := ptrID[puts[putSeen]]
				if !ok {
					id = -1
				}
				for _, x := range poolIDs {
					if x == id {
						viol("C05:record-released-twice", fmt.Sprintf("the record created for %s was handed to the pool a second time", idKey[id]))
					}
				}
				poolIDs = append(poolIDs, id)
			}
			recs := box.VerifRecords()
			liveByPtr := map[string]string{}
			var lines []string
			for _, r := range recs {
				rank, kind := c05keyRank(r.Key)
				key := fmt.Sprintf("%d%s", rank, kind)
				id, ok := keyID[key]
				if !ok || ptrID[r.Ptr] != id {
					if other, dup := liveByPtr[r.Ptr]; dup {
						viol("C05:records-share-one-object", fmt.Sprintf("the records of %s and %s are the same object", other, key))
					}
					if !ok {
						id = nextID
						nextID++
						keyID[key] = id
						idKey[id] = key
						ptrID[r.Ptr] = id
					}
				}
				liveByPtr[r.Ptr] = key
				for _, x := range poolIDs {
					if x == id {
						viol("C05:record-released-while-reachable", fmt.Sprintf("the record of %s is in the pool but still in the map", key))
					}
				}
				own := c05spRank(r.SP)
				if own != rank {
					viol("C05:record-released-while-reachable", fmt.Sprintf("the record stored under %s carries stage point rank %d (zeroed while reachable)", key, own))
				}
				var vs []int
				for _, a := range append(append([]string{}, r.Voted...), r.Ballots...) {
					vs = append(vs, nodeIdx[a])
				}
				// votes in arrival order are not observable (maps): compare as sets, sorted
				sort.Ints(vs)
				var vt []string
				for _, v := range vs {
					vt = append(vt, fmt.Sprint(v))
				}
				// isolation: exactly the nodes that voted for this key
				var want []int
				for nd := range voted[key] {
					want = append(want, nd)
				}
				sort.Ints(want)
				if own == rank && fmt.Sprint(vs) != fmt.Sprint(want) {
					viol("C05:votes-leak-between-stage-points", fmt.Sprintf("record of %s holds votes of %v, voted there: %v", key, vs, want))
				}
				for _, a := range r.Expels {
					if own == rank && !expelled[key][nodeIdx[a]] {
						viol("C05:votes-leak-between-stage-points", fmt.Sprintf("the record of %s holds expels of node %d, whose ballot for that stage point carried none", key, nodeIdx[a]))
					}
				}
				lines = append(lines, fmt.Sprintf("%d%s=r%d@%d:%s", rank, kind, id, own, strings.Join(vt, ".")))
			}
			sort.Slice(lines, func(a, b int) bool { return c05less(lines[a], lines[b]) })
			live := "-"
			if len(lines) > 0 {
				live = strings.Join(lines, ",")
			}
			var rmi []int
			for _, ptr := range box.VerifRemoved() {
				rmi = append(rmi, ptrID[ptr])
			}
			sort.Ints(rmi)
			var rm []string
			for _, id := range rmi {
				rm = append(rm, fmt.Sprintf("r%d", id))
			}
			rms := "-"
			if len(rm) > 0 {
				rms = strings.Join(rm, ",")
			}
			var pl []string
			sorted := append([]int{}, poolIDs...)
			sort.Ints(sorted)
			for _, id := range sorted {
				pl = append(pl, fmt.Sprintf("r%d", id))
			}
			pls := "-"
			if len(pl) > 0 {
				pls = strings.Join(pl, ",")
			}
			snapshot = live + "|" + rms + "|" + pls
			// keys dropped from the map
			for key, id := range keyID {
				found := false
				for _, r := range recs {
					rank, kind := c05keyRank(r.Key)
					if fmt.Sprintf("%d%s", rank, kind) == key {
						found = true
					}
				}
				if !found {
					delete(keyID, key)
					_ = id
				}
			}
		}
		// the model keeps votes in arrival order; the real maps do not: the driver's output is normalised by the check below
		c.Case("seq "+strings.Join(toks, " "), snapshot)
		c.Nontrivial(strings.Join(toks, " "))
		if i%60 == 0 {
			c.Sample(map[string]interface{}{"script": toks, "snapshot": snapshot})
		}
	}
	return c05counting(c, nodes)
}

var c05ranks = func() map[string]int {
	m := map[string]int{}
	for r := 1; r <= 18; r++ {
		m[c05point(r).String()] = r
	}
	return m
}()

func c05keyRank(key string) (int, string) {
	if strings.HasPrefix(key, "sf-") {
		return c05ranks[key[3:]], "s"
	}
	return c05ranks[key], "n"
}

func c05spRank(sp string) int { return c05ranks[sp] }

// order of the snapshot lines: by rank, plain record before suffrage-confirm record
func c05less(a, b string) bool {
	var ra, rb int
	var ka, kb string
	fmt.Sscanf(a, "%d%1s", &ra, &ka)
	fmt.Sscanf(b, "%d%1s", &rb, &kb)
	if ra != rb {
		return ra < rb
	}
	return ka < kb
}

// the box counting for real (suffrage known): after every voteproof it emits, plain or suffrage confirm, no record of a
// stage point behind the voteproof's may stay among the live records
func c05counting(c *Ctx, nodes []base.LocalNode) error {
	n := 40
	if c.Thorough() {
		n = 800
	}
	for i := 0; i < n; i++ {
		size := 3 + c.Intn(3)
		bn := make([]base.Node, size)
		for j := 0; j < size; j++ {
			bn[j] = nodes[j]
		}
		suf, err := isaac.NewSuffrage(bn)
		if err != nil {
			return err
		}
		box := isaacstates.NewBallotbox(base.RandomAddress(""), func() base.Threshold { return base.Threshold(100) },
			func(base.Height) (base.Suffrage, bool, error) { return suf, true, nil })
		known := map[string]base.StagePoint{}
		var toks []string
		h := 33
		stages := 2 + c.Intn(4)
		// every fourth box starts with a record that is put on hold: INIT ballots that bring an expel and disagree on
		// the proposal (a draw whose expels are not agreed yet waits for countHoldeds); the ACCEPT stage of the same
		// height then reaches its majority and the box moves past the held record
		if i%4 == 0 {
			point := base.NewPoint(base.Height(int64(h)), base.Round(0))
			isp := base.NewStagePoint(point, base.StageINIT)
			known[isp.String()] = isp
			toks = append(toks, fmt.Sprintf("%d.INIT.held", h))
			target := nodes[size-1]
			xf := isaac.NewSuffrageExpelFact(target.Address(), point.Height()-1, point.Height()+5, "no response")
			xop := isaac.NewSuffrageExpelOperation(xf)
			for j := 0; j < size-1; j++ {
				_ = xop.NodeSign(nodes[j].Privatekey(), hNetworkID, nodes[j].Address())
			}
			prev, pa, pb := valuehash.RandomSHA256(), valuehash.RandomSHA256(), valuehash.RandomSHA256()
			for j := 0; j < size-1; j++ {
				proposal := pa
				if j == size-2 {
					proposal = pb
				}
				sf := isaac.NewINITBallotSignFact(isaac.NewINITBallotFact(point, prev, proposal, []util.Hash{xf.Hash()}))
				_ = sf.NodeSign(nodes[j].Privatekey(), hNetworkID, nodes[j].Address())
				_, _ = box.Vote(isaac.NewINITBallot(nil, sf, []base.SuffrageExpelOperation{xop}))
			}
			time.Sleep(300 * time.Microsecond)
			box.Count()
			held := 0
		drainHeld:
			for {
				select {
				case <-box.Voteproof():
					held++
				case <-time.After(500 * time.Microsecond):
					break drainHeld
				}
			}
			c.Count("counting-stage", fmt.Sprintf("held/%d-voteproofs", held))
			asp := base.NewStagePoint(point, base.StageACCEPT)
			known[asp.String()] = asp
			toks = append(toks, fmt.Sprintf("%d.ACCEPT.majority", h))
			afact := isaac.NewACCEPTBallotFact(point, valuehash.RandomSHA256(), valuehash.RandomSHA256(), nil)
			for j := 0; j < size; j++ {
				x := isaac.NewACCEPTBallotSignFact(afact)
				_ = x.NodeSign(nodes[j].Privatekey(), hNetworkID, nodes[j].Address())
				_, _ = box.VoteSignFact(x)
			}
			time.Sleep(300 * time.Microsecond)
			box.Count()
			var emitted []base.Voteproof
		drainAcc:
			for {
				select {
				case vp := <-box.Voteproof():
					emitted = append(emitted, vp)
				case <-time.After(500 * time.Microsecond):
					break drainAcc
				}
			}
			c.Eval(1)
			c.Count("counting-stage", fmt.Sprintf("after-held/%d-voteproofs", len(emitted)))
			for _, vp := range emitted {
				for _, r := range box.VerifRecords() {
					rsp, ok := known[r.SP]
					if ok && rsp.Compare(vp.Point()) < 0 {
						c.Violation("C05:passed-records-stay-live", fmt.Sprintf("stages %s: after the voteproof of %v the held record of %v is still among the live records (key %s, %d sign facts)",
							strings.Join(toks, " "), vp.Point(), rsp, r.Key, len(r.Voted)), map[string]interface{}{"stages": append([]string{}, toks...), "suffrage": size})
					}
				}
			}
			h++
		}
		for st := 0; st < stages; st++ {
			acc := c.Bool()
			kind := []string{"majority", "majority", "confirm", "partial"}[c.Intn(4)]
			if kind == "confirm" {
				acc = false
			}
			stage := base.StageINIT
			if acc {
				stage = base.StageACCEPT
			}
			point := base.NewPoint(base.Height(int64(h)), base.Round(0))
			sp := base.NewStagePoint(point, stage)
			known[sp.String()] = sp
			toks = append(toks, fmt.Sprintf("%d.%s.%s", h, stage, kind))
			voters := size
			if kind == "partial" {
				voters = 1 + c.Intn(size-1)
			}
			var fact base.BallotFact
			switch {
			case kind == "confirm":
				fact = isaac.NewSuffrageConfirmBallotFact(point, valuehash.RandomSHA256(), valuehash.RandomSHA256(), []util.Hash{valuehash.RandomSHA256()})
			case acc:
				fact = isaac.NewACCEPTBallotFact(point, valuehash.RandomSHA256(), valuehash.RandomSHA256(), nil)
			default:
				fact = isaac.NewINITBallotFact(point, valuehash.RandomSHA256(), valuehash.RandomSHA256(), nil)
			}
			for j := 0; j < voters; j++ {
				var sf base.BallotSignFact
				if acc {
					x := isaac.NewACCEPTBallotSignFact(fact.(isaac.ACCEPTBallotFact))
					_ = x.NodeSign(nodes[j].Privatekey(), hNetworkID, nodes[j].Address())
					sf = x
				} else {
					x := isaac.NewINITBallotSignFact(fact.(base.INITBallotFact))
					_ = x.NodeSign(nodes[j].Privatekey(), hNetworkID, nodes[j].Address())
					sf = x
				}
				_, _ = box.VoteSignFact(sf)
			}
			time.Sleep(300 * time.Microsecond) // the deferred count of the last vote
			box.Count()
			var emitted []base.Voteproof
		drain:
			for {
				select {
				case vp := <-box.Voteproof():
					emitted = append(emitted, vp)
				case <-time.After(500 * time.Microsecond):
					break drain
				}
			}
			c.Eval(1)
			c.Count("counting-stage", fmt.Sprintf("%s/%d-voteproofs", kind, len(emitted)))
			for _, vp := range emitted {
				for _, r := range box.VerifRecords() {
					rsp, ok := known[r.SP]
					if ok && rsp.Compare(vp.Point()) < 0 {
						c.Violation("C05:passed-records-stay-live", fmt.Sprintf("stages %s: after the voteproof of %v (%s) the record of %v is still among the live records (key %s, %d sign facts)",
							strings.Join(toks, " "), vp.Point(), kind, rsp, r.Key, len(r.Voted)), map[string]interface{}{"stages": append([]string{}, toks...), "suffrage": size})
					}
				}
			}
			if !(acc || kind == "partial") || c.Bool() {
				h++
			}
		}
	}
	return nil
}
