package main

import "strings"

func init() { register("C03", genC03) }

func genC03(o *Out) {
	fs := o.pinFile("isaac/suffrage.go", "NewSuffrage", "Suffrage.Exists", "Suffrage.ExistsPublickey", "NewSuffrageWithExpels")
	fv := o.pinFile("isaac/voteproof_isvalid.go", "IsValidVoteproofWithSuffrage")
	fb := o.pinFile("base/voteproof_isvalid.go", "IsValidVoteproof", "isValidVoteproofDuplicatedSignNode", "isValidVoteproofVoteResult",
		"isValidVoteproofSignFacts", "IsValidVoteproofWithSuffrage", "isValidFactInVoteproof", "isValidSignFactInVoteproof")
	fo := o.pinFile("isaac/suffrage_operation.go", "SuffrageExpelOperation.IsValid", "SuffrageExpelOperation.NodeSigns", "IsValidExpelWithSuffrage")
	fp := o.pinFile("isaac/voteproof.go", "baseExpelVoteproof.isValid", "isValidithdrawVoteproof", "baseVoteproof.Result", "baseVoteproof.SetMajority")
	fn := o.pinFile("base/base_operation.go", "BaseNodeOperation.IsValid")
	_ = fn
	if fs == nil || fv == nil || fb == nil || fo == nil {
		return
	}
	branch, count := false, false
	if fd := fs.Func("", "NewSuffrageWithExpels"); fd != nil {
		src := normSpace(fs.Src(fd.Body))
		branch = strings.Contains(src, "th := threshold.Threshold(uint(suf.Len()))") &&
			strings.Contains(src, "if n := uint(len(expels)); n > uint(suf.Len())-th { th = uint(suf.Len()) - n }")
		count = strings.Contains(src, "if n := uint(len(expels[i].NodeSigns())); n < th { return nil, errors.Errorf(")
	}
	o.boolean("expelThresholdBranch", branch)
	o.boolean("expelSignCountChecked", count)
	maxTh, every := false, false
	if fd := fv.Func("", "IsValidVoteproofWithSuffrage"); fd != nil {
		src := normSpace(fv.Src(fd.Body))
		maxTh = strings.Contains(src, "rsuf = i th = base.MaxThreshold") &&
			strings.Contains(src, "base.IsValidVoteproofWithSuffrage(vp, rsuf, th)")
		every = strings.Contains(src, "for i := range expels { if err := IsValidExpelWithSuffrage(vp.Point().Height(), expels[i], suf); err != nil { return e.Wrap(err) } }")
	}
	o.boolean("expelsGiveMaxThreshold", maxTh)
	o.boolean("everyExpelValidated", every)
	own := false
	if fd := fo.Func("SuffrageExpelOperation", "NodeSigns"); fd != nil {
		src := normSpace(fo.Src(fd.Body))
		own = strings.Contains(src, "return util.FilterSlice(signs, func(i base.NodeSign) bool { return !fact.Node().Equal(i.Node()) })")
	}
	o.boolean("nodeSignsDropOwnSign", own)
	member := false
	if fd := fb.Func("", "IsValidVoteproofWithSuffrage"); fd != nil {
		src := normSpace(fb.Src(fd.Body))
		member = strings.Contains(src, "case !suf.Exists(n.Node()):") && strings.Contains(src, "case !suf.ExistsPublickey(n.Node(), n.Signer()):") &&
			strings.Contains(src, "result, majoritykey := th.VoteResult(uint(suf.Len()), set)") &&
			strings.Contains(src, "case result != vp.Result():")
	}
	o.boolean("recountChecksMembership", member)
	stuck := false
	if fp != nil {
		if fd := fp.Func("baseStuckVoteproof", "isValid"); fd != nil {
			src := normSpace(fp.Src(fd.Body))
			stuck = strings.Contains(src, "if ovp.majority != nil { return util.ErrInvalid.Errorf(")
		}
		o.pin(fp, "baseStuckVoteproof", "isValid")
	}
	o.boolean("stuckRejectsMajority", stuck)
	pointCmp := false
	if fd := fb.Func("", "isValidFactInVoteproof"); fd != nil {
		pointCmp = strings.Contains(normSpace(fb.Src(fd.Body)), "if !vp.Point().Equal(fact.Point()) {")
	}
	o.boolean("factPointCompared", pointCmp)
}
