import MitumModel.Common
import MitumModel.Model.BlockMaps
import MitumModel.Gen.C14
namespace Mitum.Driver
open Mitum Mitum.BlockMaps Mitum.BatchWork

def parseBM (s : String) : Option BM :=
  match (s.splitOn ".").mapM String.toNat? with
  | some [h, x, p] => some { height := h, hash := x, prev := p }
  | _ => none

/-- `v <prev|-> <limit> <resp…>` (responses in request order) and `plan size limit` -/
def stepC14 (ts : List String) : String :=
  match ts with
  | ["plan", size, limit] =>
    match size.toNat?, limit.toNat? with
    | some size, some limit =>
      match plan size limit with
      | some bs => ",".intercalate (bs.map (fun b => s!"{b.first}-{b.last}"))
      | none => "err"
    | _, _ => "bad-op"
  | "v" :: prev :: limit :: resps =>
    match limit.toNat?, resps.mapM parseBM with
    | some limit, some rs =>
      let prevM := if prev = "-" then none else parseBM prev
      if prev ≠ "-" && prevM.isNone then "bad-op" else
      let reqBase := match prevM with | some p => p.height + 1 | none => 0
      match plan rs.length limit with
      | none => "err"
      | some bs =>
        let arrive := fun (b : Batch) =>
          (List.range (b.last + 1 - b.first)).filterMap (fun k => (rs[b.first + k]?).map (fun m => (reqBase + b.first + k, m)))
        if validate Gen.C14.checksReturnedHeight prevM limit bs arrive then "ok" else "err"
    | _, _ => "bad-op"
  | _ => "bad-op"

end Mitum.Driver
