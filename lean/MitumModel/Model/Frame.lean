import MitumModel.Common
/-
Model of the length-prefixed framing of util/bytes.go:
`Uint64ToBytes`/`BytesToUint64` (big endian), `WriteLengthed`,
`WriteLengthedSlice`, `ReadLengthBytes`, `ReadLengthedBytes`,
`ReadLengthedBytesSlice` (buffer form) and `EnsureRead`, `ReadLength`,
`ReadLengthed`, `ReadLengthedSlice` (stream form, over a reader that delivers
the data in arbitrary chunks).

Every Go slice expression is an explicit bounds check here: a failed check is
the outcome `panic`, distinct from the error the code returns on purpose.
-/
namespace Mitum.Frame

abbrev Bytes := List UInt8

inductive Outcome (α : Type) where
  | ok (v : α)
  | error
  | panic
deriving Repr, DecidableEq

/-- `Uint64ToBytes`: 8 bytes, big endian (value taken mod 2^64, as `uint64(len(...))`) -/
def be64 (n : Nat) : Bytes :=
  [UInt8.ofNat (n / 2 ^ 56), UInt8.ofNat (n / 2 ^ 48), UInt8.ofNat (n / 2 ^ 40), UInt8.ofNat (n / 2 ^ 32),
   UInt8.ofNat (n / 2 ^ 24), UInt8.ofNat (n / 2 ^ 16), UInt8.ofNat (n / 2 ^ 8), UInt8.ofNat n]

/-- `BytesToUint64` on exactly 8 bytes -/
def readBe64 : Bytes → Option Nat
  | [a, b, c, d, e, f, g, h] =>
    some (a.toNat * 2 ^ 56 + b.toNat * 2 ^ 48 + c.toNat * 2 ^ 40 + d.toNat * 2 ^ 32 +
          e.toNat * 2 ^ 24 + f.toNat * 2 ^ 16 + g.toNat * 2 ^ 8 + h.toNat)
  | _ => none

/-- `WriteLengthed` -/
def encodeItem (b : Bytes) : Bytes := be64 b.length ++ b

def encodeItems : List Bytes → Bytes
  | [] => []
  | x :: xs => encodeItem x ++ encodeItems xs

/-- `WriteLengthedSlice`: refuses more than `maxLen` items (returns an error) -/
def encode (maxLen : Nat) (m : List Bytes) : Option Bytes :=
  if maxLen < m.length then none else some (be64 m.length ++ encodeItems m)

/-- `ReadLengthBytes` -/
def readLengthBytes (b : Bytes) : Outcome Nat :=
  if b.length < 8 then .error
  else match readBe64 (b.take 8) with
    | some n => .ok n
    | none => .panic

/-- `ReadLengthedBytes`: `b[8 : i+8], b[i+8:]` after the guard `uint64(len(b)-8) < i` -/
def readLengthedBytes (b : Bytes) : Outcome (Bytes × Bytes) :=
  match readLengthBytes b with
  | .error => .error
  | .panic => .panic
  | .ok i =>
    if b.length - 8 < i then .error
    else if b.length < i + 8 then .panic     -- slice bounds out of range
    else .ok ((b.drop 8).take i, b.drop (i + 8))

def readItems : Nat → Bytes → Outcome (List Bytes × Bytes)
  | 0, b => .ok ([], b)
  | n + 1, b =>
    match readLengthedBytes b with
    | .error => .error
    | .panic => .panic
    | .ok (x, rest) =>
      match readItems n rest with
      | .ok (xs, l) => .ok (x :: xs, l)
      | .error => .error
      | .panic => .panic

/-- `ReadLengthedBytesSlice`; `hugeIsError` is the regenerated fact "the over-limit branch
    returns a non-nil error" (the unrepaired code returned `nil, nil, nil`). -/
def decodeBuf (maxLen : Nat) (hugeIsError : Bool) (b : Bytes) : Outcome (List Bytes × Bytes) :=
  if b.length < 8 then .error
  else match readLengthBytes b with
    | .error => .error
    | .panic => .panic
    | .ok i =>
      if maxLen < i then (if hugeIsError then .error else .ok ([], []))
      else if b.length < 8 then .panic
      else readItems i (b.drop 8)

/-! ### stream form -/

/-- `EnsureRead`: read exactly `k` bytes from a reader that returns the chunks one by one
    (a `Read` never returns more than asked: the surplus of a chunk stays in the reader).
    Returns the bytes and the remaining chunks, or `none` on a short stream. Empty chunks
    (a `Read` returning 0, nil) are skipped. -/
def ensureRead : List Bytes → Nat → Option (Bytes × List Bytes)
  | cs, 0 => some ([], cs)
  | [], _ + 1 => none
  | c :: cs, k + 1 =>
    if c.length ≤ k + 1 then
      match ensureRead cs (k + 1 - c.length) with
      | some (b, rest) => some (c ++ b, rest)
      | none => none
    else some (c.take (k + 1), c.drop (k + 1) :: cs)

/-- `ReadLengthed` on a chunked reader (`maxItem` = maxLengthedBytes) -/
def readLengthedStream (maxItem : Nat) (cs : List Bytes) : Outcome (Bytes × List Bytes) :=
  match ensureRead cs 8 with
  | none => .error
  | some (p, cs1) =>
    match readBe64 p with
    | none => .panic
    | some i =>
      if i < 1 then .ok ([], cs1)
      else if maxItem < i then .error
      else match ensureRead cs1 i with
        | none => .error
        | some (b, cs2) => .ok (b, cs2)

def readItemsStream (maxItem : Nat) : Nat → List Bytes → Outcome (List Bytes × List Bytes)
  | 0, cs => .ok ([], cs)
  | n + 1, cs =>
    match readLengthedStream maxItem cs with
    | .error => .error
    | .panic => .panic
    | .ok (x, rest) =>
      match readItemsStream maxItem n rest with
      | .ok (xs, l) => .ok (x :: xs, l)
      | .error => .error
      | .panic => .panic

/-- `ReadLengthedSlice` -/
def decodeStream (maxLen maxItem : Nat) (cs : List Bytes) : Outcome (List Bytes × List Bytes) :=
  match ensureRead cs 8 with
  | none => .error
  | some (p, cs1) =>
    match readBe64 p with
    | none => .panic
    | some i =>
      if i < 1 then .ok ([], cs1)
      else if maxLen < i then .error
      else readItemsStream maxItem i cs1

end Mitum.Frame
