import MitumModel.Common
import MitumModel.Model.BallotStore
import MitumModel.Gen.C05
namespace Mitum.Driver
open Mitum Mitum.BallotStore

def c05same : Bool := Gen.C05.scPrefixInsert == Gen.C05.scPrefixRemove

/-- the observable snapshot: live keys with their record, the record's own stage point and votes; removed; pool puts -/
def c05snap (s : Store) : String :=
  let live := sortBy (fun a b => decide (a.1.1 < b.1.1 ∨ (a.1.1 = b.1.1 ∧ (a.1.2 = false ∨ b.1.2 = true)))) s.vrs
  let ls := live.map (fun e => s!"{e.1.1}{if e.1.2 then "s" else "n"}=r{e.2}@{(s.recs e.2).sp}:{".".intercalate ((sortBy (fun a b => decide (a ≤ b)) (s.recs e.2).voted).map toString)}")
  let l := if ls.isEmpty then "-" else ",".intercalate ls
  -- the order inside `removed` and of the puts of one cleanup follows the map traversal: compared as multisets
  let le := fun (a b : Nat) => decide (a ≤ b)
  let rm := if s.removed.isEmpty then "-" else ",".intercalate ((sortBy le s.removed).map (fun i => s!"r{i}"))
  let pl := if s.pool.isEmpty then "-" else ",".intercalate ((sortBy le s.pool).map (fun i => s!"r{i}"))
  s!"{l}|{rm}|{pl}"

/-- `seq v:<sp>:<n|s>:<node> l:<sp> c` → the snapshot after the last operation -/
def stepC05 (ts : List String) : String :=
  match ts with
  | "seq" :: ops =>
    let s := ops.foldl (fun (acc : Option Store) t =>
      match acc with
      | none => none
      | some s =>
        match t.splitOn ":" with
        | ["v", sp, k, n] =>
          match sp.toNat?, n.toNat? with
          | some sp, some n => some (step c05same s (.vote sp (k == "s") n))
          | _, _ => none
        | ["l", q] => q.toNat?.map (fun q => step c05same s (.setLast q))
        | ["c"] => some (step c05same s .clean)
        -- a sign fact of a stage point that is no longer new (behind the last point): refused before any record is made
        | ["w", _, _, _] => some s
        | _ => none) (some {})
    match s with
    | some s => c05snap s
    | none => "bad-op"
  | _ => "bad-op"

end Mitum.Driver
