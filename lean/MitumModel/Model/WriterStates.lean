import MitumModel.Common
/-
Model of the two places a block writer keeps the suffrage / network-policy state it was given
(isaac/database/block_write.go): the record it writes to the storage (`setState`, guarded by
`isLastStates`: key → height of the state written last) and the copy it keeps in memory for the reads of
the running node (`updateLockedStates`).  A database opened anew sees the record; the running one the copy.
-/
namespace Mitum.WriterStates

structure St where
  height : Nat
  val : Nat
deriving Repr, DecidableEq

/-- which comparisons the code has (extracted): `true` = a state of the same height does not replace (`<=`) -/
structure Code where
  diskKeepsFirst : Bool
  memKeepsFirst : Bool
deriving Repr, DecidableEq

/-- the writer's view of one key: what it wrote, what it holds in memory -/
structure W where
  disk : Option St
  mem : Option St
deriving Repr, DecidableEq

def refuses (keepsFirst : Bool) (old new : St) : Bool :=
  if keepsFirst then decide (new.height ≤ old.height) else decide (new.height < old.height)

/-- `setState` for the key -/
def setState (c : Code) (w : W) (s : St) : W :=
  match w.disk with
  | some d =>
    if refuses c.diskKeepsFirst d s then w      -- `isLastStates` says no: nothing happens at all
    else { disk := some s,
           mem := match w.mem with
             | some m => if refuses c.memKeepsFirst m s then some m else some s
             | none => some s }
  | none => { disk := some s, mem := some s }

def run (c : Code) (ss : List St) : W := ss.foldl (setState c) { disk := none, mem := none }

end Mitum.WriterStates
