import MitumModel.Common
import MitumModel.Model.FixedTree
import Driver.C25
namespace Mitum.Driver
open Mitum Mitum.FixedTree

def showOptNat (o : Option Nat) : String := match o with | some v => toString v | none => "none"

def c12Shape (p : List (PEntry SHash)) : String :=
  ",".intercalate (p.map (fun e => match e with | some n => hexNat n.key | none => "-"))

/-- split a token list at `;` tokens -/
def splitToks : List String → List (List String)
  | [] => [[]]
  | t :: ts =>
    if t = ";" then [] :: splitToks ts
    else match splitToks ts with
      | [] => [[t]]
      | g :: gs => (t :: g) :: gs

/-- `idx i size` and `tree k1,k2,… ; tm <kind> <i> <arg> ; pk <key|-> ; pm <kind> <pos> <arg>` -/
def stepC12 (ts : List String) : String :=
  match ts with
  | ["idx", i, size] =>
    match i.toNat?, size.toNat? with
    | some i, some size =>
      let c := match childrenCode size i with | some (a, b) => s!"{a},{b}" | none => "none"
      s!"{indexHeight i} {c} {showOptNat (parentCode i)}"
    | _, _ => "bad-op"
  | "tree" :: keys :: ";" :: rest =>
    match (keys.splitOn ",").mapM toNatBytes with
    | none => "bad-op"
    | some ks =>
      let t : List (Node SHash) := generate snh ks
      -- split the remaining tokens into the three `;`-separated groups
      let groups := splitToks rest
      match groups with
      | [tm, pk, pm] =>
        let mt : Option (List (Node SHash)) :=
          match tm with
          | ["tm", "none"] => some t
          | ["tm", "key", i, k] =>
            match i.toNat?, toNatBytes k with
            | some i, some k => some (t.modify i (fun n => { n with key := k }))
            | _, _ => none
          | ["tm", "hash", i, j] =>
            match i.toNat?, j.toNat? with
            | some i, some j => (t[j]?).map (fun nj => t.modify i (fun n => { n with hash := nj.hash }))
            | _, _ => none
          | ["tm", "hashg", i, _] =>
            match i.toNat? with
            | some i => some (t.modify i (fun n => { n with hash := .garbage 0 }))
            | none => none
          | _ => none
        match mt with
        | none => "bad-op"
        | some mt =>
          let tv := boolStr (isValid snh mt)
          match pk with
          | ["pk", "-"] => s!"{tv} - -"
          | ["pk", k] =>
            match toNatBytes k with
            | none => "bad-op"
            | some key =>
              match extract t key with
              | none => s!"{tv} noproof 0"
              | some p =>
                let mp : Option (List (PEntry SHash)) :=
                  match pm with
                  | ["pm", "none"] => some p
                  | ["pm", "key", pos, nk] =>
                    match pos.toNat?, toNatBytes nk with
                    | some pos, some nk => some (p.modify pos (fun e => e.map (fun n => { n with key := nk })))
                    | _, _ => none
                  | ["pm", "hashn", pos, j] =>
                    match pos.toNat?, j.toNat? with
                    | some pos, some j => (t[j]?).map (fun nj => p.modify pos (fun e => e.map (fun n => { n with hash := nj.hash })))
                    | _, _ => none
                  | ["pm", "hashg", pos, _] =>
                    match pos.toNat? with
                    | some pos => some (p.modify pos (fun e => e.map (fun n => { n with hash := .garbage 0 })))
                    | none => none
                  | _ => none
                match mp with
                | none => "bad-op"
                | some mp => s!"{tv} {c12Shape mp} {boolStr (prove snh mp key)}"
          | _ => "bad-op"
      | _ => "bad-op"
  | _ => "bad-op"

end Mitum.Driver
