import MitumModel.Model.CodecRepo
import MitumModel.Pins
/-!
C27  Encoded objects decode to the same object.

Proved for the codec *mechanism* (hint dispatch + member tables, any nesting depth) and for
the complete extracted member tables of /repo.  What each `DecodeJSON` does with a member's
value is not modelled; it is carried by the differential run on the real encoder (level: partial).
-/
namespace Mitum.C27
open Mitum.Codec

/-! ### members -/

theorem getM_encMembers {V W : Type} (f : V → W) (fs : List (String × V)) (tags : List String) (t : String) :
    getM (encMembers tags f fs) t = if t ∈ tags then (getM fs t).map f else none := by
  induction tags with
  | nil => simp [encMembers, getM]
  | cons a rest ih =>
    simp only [encMembers, List.filterMap_cons] at ih ⊢
    cases hga : getM fs a with
    | none =>
      simp only [Option.map_none]
      rw [ih]
      by_cases hta : t = a
      · subst hta; simp [hga]
      · simp [hta]
    | some v =>
      simp only [Option.map_some, getM]
      by_cases hat : a = t
      · subst hat; simp [hga]
      · have hta : ¬ t = a := fun h => hat h.symm
        simp only [hat, if_false]
        rw [ih]; simp [hta]

theorem encMembers_congr {V W : Type} (f : V → W) (fs fs' : List (String × V)) (tags : List String)
    (h : ∀ t, t ∈ tags → (getM fs t).map f = (getM fs' t).map f) :
    encMembers tags f fs = encMembers tags f fs' := by
  induction tags with
  | nil => rfl
  | cons a rest ih =>
    simp only [encMembers, List.filterMap_cons]
    have ha := h a (by simp)
    have hr := ih (fun t ht => h t (by simp [ht]))
    simp only [encMembers] at hr
    cases h1 : getM fs a <;> cases h2 : getM fs' a <;> simp [h1, h2] at ha ⊢
    · exact hr
    · exact ⟨ha, hr⟩

theorem decMembers_some {V W : Type} (g : W → Option V) (ms : List (String × W)) (tags : List String)
    (h : ∀ t, t ∈ tags → ∃ v, (getM ms t).bind g = some v) :
    ∃ fs', decMembers tags g ms = some fs' ∧ ∀ t, t ∈ tags → getM fs' t = (getM ms t).bind g := by
  induction tags with
  | nil => exact ⟨[], rfl, by simp⟩
  | cons a rest ih =>
    obtain ⟨v, hv⟩ := h a (by simp)
    obtain ⟨r, hr, hget⟩ := ih (fun t ht => h t (by simp [ht]))
    refine ⟨(a, v) :: r, by simp [decMembers, hv, hr], ?_⟩
    intro t ht
    by_cases hat : a = t
    · subst hat; simp [getM, hv]
    · simp only [getM, hat, if_false]
      rcases List.mem_cons.mp ht with h1 | h1
      · exact absurd h1.symm hat
      · exact hget t h1

/-- one level: if the members read are exactly the members written and each member's value decodes to a
value with the same encoding, the record decodes, and the decoded record is encoded to the same members -/
theorem members_roundtrip {V W : Type} (f : V → W) (g : W → Option V) (mtags utags : List String)
    (fs : List (String × V))
    (hum : ∀ t, t ∈ utags → t ∈ mtags) (hmu : ∀ t, t ∈ mtags → t ∈ utags)
    (h : ∀ t, t ∈ mtags → ∃ v v', getM fs t = some v ∧ g (f v) = some v' ∧ f v' = f v) :
    ∃ fs', decMembers utags g (encMembers mtags f fs) = some fs' ∧
      encMembers mtags f fs' = encMembers mtags f fs := by
  have hdec : ∀ t, t ∈ utags → ∃ v, (getM (encMembers mtags f fs) t).bind g = some v := by
    intro t ht
    obtain ⟨v, v', h1, h2, _⟩ := h t (hum t ht)
    exact ⟨v', by rw [getM_encMembers]; simp [hum t ht, h1, h2]⟩
  obtain ⟨fs', hfs', hget⟩ := decMembers_some g _ utags hdec
  refine ⟨fs', hfs', encMembers_congr f fs' fs mtags ?_⟩
  intro t ht
  obtain ⟨v, v', h1, h2, h3⟩ := h t ht
  rw [hget t (hmu t ht), getM_encMembers]
  simp [ht, h1, h2, h3]

/-! ### dispatch, any depth -/

theorem tableOK_lookup (tbl : List Entry) (hok : tableOK tbl = true) (h : String) (e : Entry)
    (hl : lookup tbl h = some e) :
    (∀ t, t ∈ e.utags → t ∈ e.mtags) ∧ (∀ t, t ∈ e.mtags → t ∈ e.utags) := by
  induction tbl with
  | nil => simp [lookup] at hl
  | cons a r ih =>
    simp only [tableOK, List.all_cons, Bool.and_eq_true] at hok
    simp only [lookup] at hl
    split at hl
    · injection hl with hl; subst hl
      obtain ⟨⟨h1, h2⟩, _⟩ := hok
      simp only [List.all_eq_true, List.contains_iff_mem] at h1 h2
      exact ⟨h1, h2⟩
    · exact ih (by simpa [tableOK] using hok.2) hl

/-- **dispatch_roundtrip.**  With a member table in which every member read is written and every
member written is read, every well-formed object of every nesting depth decodes from its encoding,
and the decoded object is encoded to the same value again (same bytes). -/
theorem dispatch_roundtrip (tbl : List Entry) (hok : tableOK tbl = true) :
    ∀ (n : Nat) (x : Obj n), wf tbl n x →
      ∃ x', dec tbl n (enc tbl n x) = some x' ∧ enc tbl n x' = enc tbl n x := by
  intro n
  induction n with
  | zero => intro x _; exact ⟨x, rfl, rfl⟩
  | succ n ih =>
    intro x hx
    match x, hx with
    | .inl a, _ => exact ⟨.inl a, rfl, rfl⟩
    | .inr (h, fs), hx =>
      obtain ⟨e, hl, hm⟩ := hx
      obtain ⟨hum, hmu⟩ := tableOK_lookup tbl hok h e hl
      have hmem : ∀ t, t ∈ e.mtags → ∃ v v', getM fs t = some v ∧
          dec tbl n (enc tbl n v) = some v' ∧ enc tbl n v' = enc tbl n v := by
        intro t ht
        obtain ⟨v, hv, hwf⟩ := hm t ht
        obtain ⟨v', h1, h2⟩ := ih v hwf
        exact ⟨v, v', hv, h1, h2⟩
      obtain ⟨fs', h1, h2⟩ := members_roundtrip (enc tbl n) (dec tbl n) e.mtags e.utags fs hum hmu hmem
      refine ⟨.inr (h, fs'), ?_, ?_⟩
      · simp only [enc, dec, hl, h1]; rfl
      · simp only [enc, hl, h2]; rfl

/-- the decoded object holds, member by member, the decoded value of what was written -/
theorem decoded_members (tbl : List Entry) (n : Nat) (h : String) (e : Entry) (fs fs' : List (String × Obj n))
    (hl : lookup tbl h = some e)
    (hd : dec tbl (n + 1) (enc tbl (n + 1) (.inr (h, fs))) = some (.inr (h, fs')))
    (hsome : ∀ t, t ∈ e.utags → ∃ v, (getM (encMembers e.mtags (enc tbl n) fs) t).bind (dec tbl n) = some v) :
    ∀ t, t ∈ e.utags → getM fs' t = (getM (encMembers e.mtags (enc tbl n) fs) t).bind (dec tbl n) := by
  obtain ⟨r, hr, hget⟩ := decMembers_some (dec tbl n) (encMembers e.mtags (enc tbl n) fs) e.utags hsome
  simp only [enc, dec, hl, hr] at hd
  have hd' : (some (Sum.inr (h, r)) : Option (Nat ⊕ (String × List (String × Obj n)))) = some (Sum.inr (h, fs')) := hd
  injection hd' with hd'
  injection hd' with hd'
  injection hd' with _ hd'
  subst hd'
  exact hget

/-! ### why both inclusions are needed -/

def lossy : List Entry := [{ hint := "x-v0.0.1", mtags := ["a", "b"], utags := ["a"] }]
def blind : List Entry := [{ hint := "x-v0.0.1", mtags := ["a"], utags := ["a", "b"] }]
def sample : Obj 1 := .inr ("x-v0.0.1", [("a", (1 : Nat)), ("b", (2 : Nat))])

/-- a member that is written but never read is lost: the decoded object is encoded to other bytes -/
theorem written_not_read_witness :
    tableOK lossy = false ∧
    dec lossy 1 (enc lossy 1 sample) = some (.inr ("x-v0.0.1", [("a", (1 : Nat))])) ∧
    enc lossy 1 (.inr ("x-v0.0.1", [("a", (1 : Nat))])) = (.inr ("x-v0.0.1", [("a", (1 : Nat))]) : Obj 1) ∧
    enc lossy 1 sample = (.inr ("x-v0.0.1", [("a", (1 : Nat)), ("b", (2 : Nat))]) : Obj 1) := by
  refine ⟨by decide, rfl, rfl, rfl⟩

/-- a member that is read but never written fails every decode -/
theorem read_not_written_witness : tableOK blind = false ∧ dec blind 1 (enc blind 1 sample) = none := by
  refine ⟨by decide, rfl⟩

/-- non-vacuity: a two-level object of a good table meets the hypotheses -/
def good : List Entry :=
  [{ hint := "outer", mtags := ["_hint", "fact", "n"], utags := ["n", "fact", "_hint"] },
   { hint := "inner", mtags := ["_hint", "h"], utags := ["_hint", "h"] }]
def nested : Obj 2 :=
  .inr ("outer", [("n", .inl 3), ("fact", .inr ("inner", [("h", (9 : Nat)), ("_hint", (0 : Nat))])), ("_hint", .inl 0)])

example : tableOK good = true ∧ wf good 2 nested := by
  refine ⟨by decide, ?_⟩
  refine ⟨_, rfl, ?_⟩
  intro t ht
  simp only [List.mem_cons, List.not_mem_nil, or_false] at ht
  rcases ht with rfl | rfl | rfl
  · exact ⟨_, rfl, trivial⟩
  · refine ⟨_, rfl, _, rfl, ?_⟩
    intro t ht
    simp only [List.mem_cons, List.not_mem_nil, or_false] at ht
    rcases ht with rfl | rfl <;> exact ⟨_, rfl, trivial⟩
  · exact ⟨_, rfl, trivial⟩

/-! ### the extracted tables of /repo -/

def rowOK (row : String × List String × List String) : Bool :=
  row.2.2.all (fun t => row.2.1.contains t) &&
  row.2.1.all (fun t => row.2.2.contains t || readElsewhere.contains t)

/-- **table_tags_ok.**  Over the complete table extracted from the source on this run: every member an
unmarshaler struct reads is written by the paired marshaler struct, and every member written is read —
by the paired unmarshaler struct or by one of the embedded decoders listed above. -/
theorem table_tags_ok : Gen.C27.tagTable.all rowOK = true := by decide +kernel

theorem repo_table_ok : tableOK repoTable = true := by decide +kernel

/-- the round trip for the tables of /repo -/
theorem repo_roundtrip (n : Nat) (x : Obj n) (hx : wf repoTable n x) :
    ∃ x', dec repoTable n (enc repoTable n x) = some x' ∧ enc repoTable n x' = enc repoTable n x :=
  dispatch_roundtrip repoTable repo_table_ok n x hx

theorem facts_ok : Gen.C27.extractErrors = [] ∧ 60 ≤ Gen.C27.tagPairs ∧ 90 ≤ Gen.C27.registered.length := by decide

theorem source_pinned : Gen.C27.pins = Pins.C27 := by decide

end Mitum.C27
