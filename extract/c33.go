package main

func init() { register("C33", genC33) }

func genC33(o *Out) {
	o.pinFile("util/worker.go", "NewBaseJobWorker", "BaseJobWorker.Cancel", "BaseJobWorker.Close", "BaseJobWorker.Done", "BaseJobWorker.NewJob",
		"BaseJobWorker.Wait", "BaseJobWorker.LazyWait", "NewErrCallbackJobWorker", "BatchWork", "RunJobWorker", "RunErrCallbackJobWorker", "runWorker")
}
