import MitumModel.Model.FixedTree
import MitumModel.Gen.C12
import MitumModel.Pins
/-!
C12  Merkle fixed tree commits to every node and proofs are sound.
-/
namespace Mitum.C12
open Mitum.FixedTree

/-! ### index arithmetic -/

theorem log2_bounds (i : Nat) : 2 ^ indexHeight i ≤ i + 1 ∧ i + 1 < 2 ^ (indexHeight i + 1) := by
  unfold indexHeight
  exact ⟨Nat.log2_self_le (by omega), Nat.lt_log2_self⟩

/-- ✦ the code's level/position arithmetic computes the heap children `2i+1`, `2i+2`. -/
theorem children_eq (size i : Nat) :
    childrenCode size i = if size ≤ 2 * i + 1 then none else some (2 * i + 1, 2 * i + 2) := by
  obtain ⟨h1, h2⟩ := log2_bounds i
  unfold childrenCode
  simp only
  generalize indexHeight i = h at h1 h2
  have hp : 2 ^ (h + 1) = 2 * 2 ^ h := by rw [Nat.pow_succ]; omega
  rw [hp] at h2 ⊢
  generalize 2 ^ h = x at h1 h2
  have e1 : 2 * x - 1 + (i - (x - 1)) * 2 = 2 * i + 1 := by omega
  rw [e1]

/-- ✦ … and the heap parent `(i-1)/2` (none for the root). -/
theorem parent_eq (i : Nat) : parentCode i = if i = 0 then none else some ((i - 1) / 2) := by
  obtain ⟨h1, h2⟩ := log2_bounds i
  unfold parentCode
  simp only
  generalize hh : indexHeight i = h at h1 h2
  cases h with
  | zero =>
    have : i = 0 := by simp at h2; omega
    simp [this]
  | succ k =>
    have hp : 2 ^ (k + 1) = 2 * 2 ^ k := by rw [Nat.pow_succ]; omega
    have hp2 : 2 ^ (k + 1 + 1) = 4 * 2 ^ k := by rw [Nat.pow_succ, Nat.pow_succ]; omega
    rw [hp] at h1
    rw [hp2] at h2
    have hpos : 0 < 2 ^ k := Nat.pow_pos (by omega)
    have hi : i ≠ 0 := by omega
    simp only [Nat.succ_ne_zero, if_false, hi, Nat.add_sub_cancel, hp]
    generalize 2 ^ k = x at h1 h2 hpos
    congr 1
    split <;> omega

/-! ### validity -/

section
variable {η : Type} [DecidableEq η] (nh : Bytes → Option η → Option η → η)

/-- what an injective hash with fixed-length output gives for `nodeHash`: on arguments of the
    same shape (same children present) equal hashes mean equal key and equal child hashes -/
def NhInj : Prop :=
  ∀ k k' (l l' r r' : Option η), l.isSome = l'.isSome → r.isSome = r'.isSome →
    nh k l r = nh k' l' r' → k = k' ∧ l = l' ∧ r = r'

theorem validFrom_iff (t : List (Node η)) : ∀ (rest : List (Node η)) (i : Nat),
    (validFrom nh t i rest = true ↔ ∀ j n, rest[j]? = some n → nodeOK nh t (i + j) n = true) := by
  intro rest
  induction rest with
  | nil => intro i; simp [validFrom]
  | cons x xs ih =>
    intro i
    simp only [validFrom, Bool.and_eq_true, ih (i + 1)]
    constructor
    · rintro ⟨h0, hr⟩ j n hj
      cases j with
      | zero => simp at hj; subst hj; simpa using h0
      | succ j => simp at hj; have := hr j n hj; rwa [show i + 1 + j = i + (j + 1) by omega] at this
    · intro h
      refine ⟨by simpa using h 0 x (by simp), ?_⟩
      intro j n hj
      have := h (j + 1) n (by simpa using hj)
      rwa [show i + (j + 1) = i + 1 + j by omega] at this

/-- ✦ a tree validates exactly when every node has a non-empty key and its hash is the node
    hash of its key and its actual children (`2i+1`, `2i+2`). -/
theorem isValid_iff (t : List (Node η)) :
    isValid nh t = true ↔ ∀ i n, t[i]? = some n →
      n.key ≠ [] ∧ n.hash = nh n.key (childHash t (2 * i + 1)) (childHash t (2 * i + 2)) := by
  unfold isValid
  rw [validFrom_iff]
  constructor
  · intro h i n hi
    have := h i n hi
    simp only [Nat.zero_add, nodeOK, Bool.and_eq_true, Bool.not_eq_true', decide_eq_false_iff_not,
      decide_eq_true_eq] at this
    exact this
  · intro h i n hi
    have := h i n hi
    simp only [Nat.zero_add, nodeOK, Bool.and_eq_true, Bool.not_eq_true', decide_eq_false_iff_not,
      decide_eq_true_eq]
    exact this

theorem childHash_modify_ne (t : List (Node η)) (i j : Nat) (f : Node η → Node η) (h : j ≠ i) :
    childHash (t.modify i f) j = childHash t j := by
  unfold childHash
  rw [List.getElem?_modify]
  simp [Ne.symm h]

/-- ✦ changing any node's hash in a valid tree makes validation fail. -/
theorem tree_hash_mutation_detected (t : List (Node η)) (hv : isValid nh t = true)
    (i : Nat) (n : Node η) (hi : t[i]? = some n) (h' : η) (hne : h' ≠ n.hash) :
    isValid nh (t.modify i (fun x => { x with hash := h' })) = false := by
  cases hm : isValid nh (t.modify i (fun x => { x with hash := h' })) with
  | false => rfl
  | true =>
    exfalso
    have hold := ((isValid_iff nh t).mp hv i n hi).2
    have hnew := ((isValid_iff nh _).mp hm i { n with hash := h' } (by
      rw [List.getElem?_modify]; simp [hi])).2
    simp only at hnew
    rw [childHash_modify_ne _ _ _ _ (by omega), childHash_modify_ne _ _ _ _ (by omega)] at hnew
    exact hne (hnew.trans hold.symm)

/-- ✦ changing any node's key in a valid tree makes validation fail (ideal hash). -/
theorem tree_key_mutation_detected (hinj : NhInj nh) (t : List (Node η)) (hv : isValid nh t = true)
    (i : Nat) (n : Node η) (hi : t[i]? = some n) (k' : Bytes) (hne : k' ≠ n.key) :
    isValid nh (t.modify i (fun x => { x with key := k' })) = false := by
  cases hm : isValid nh (t.modify i (fun x => { x with key := k' })) with
  | false => rfl
  | true =>
    exfalso
    have hold := ((isValid_iff nh t).mp hv i n hi).2
    have hnew := ((isValid_iff nh _).mp hm i { n with key := k' } (by
      rw [List.getElem?_modify]; simp [hi])).2
    simp only at hnew
    rw [childHash_modify_ne _ _ _ _ (by omega), childHash_modify_ne _ _ _ _ (by omega)] at hnew
    have := hinj _ _ _ _ _ _ rfl rfl (hold.symm.trans hnew)
    exact hne this.1.symm

/-- ✦ the root binds every key: two valid trees of the same size with the same root hash have
    the same key (and hash) at every node — so the root changes whenever any node's key changes. -/
theorem root_binds_keys (hinj : NhInj nh) (t t' : List (Node η))
    (hv : isValid nh t = true) (hv' : isValid nh t' = true) (hlen : t.length = t'.length)
    (hroot : childHash t 0 = childHash t' 0) :
    ∀ (j : Nat) (n n' : Node η), t[j]? = some n → t'[j]? = some n' → n.key = n'.key ∧ n.hash = n'.hash := by
  have hshape : ∀ k, (childHash t k).isSome = (childHash t' k).isSome := by
    intro k
    unfold childHash
    by_cases hk : k < t.length
    · simp [List.getElem?_eq_getElem hk, List.getElem?_eq_getElem (hlen ▸ hk)]
    · simp [List.getElem?_eq_none (by omega : t.length ≤ k), List.getElem?_eq_none (by omega : t'.length ≤ k)]
  -- first: hashes agree everywhere (strong induction on the index, going through the parent)
  have hhash : ∀ j, childHash t j = childHash t' j := by
    intro j
    induction j using Nat.strongRecOn with
    | _ j ih =>
      cases j with
      | zero => exact hroot
      | succ m =>
        -- parent p = m / 2 ; m+1 = 2p+1 or 2p+2
        have hp := ih (m / 2) (by omega)
        by_cases hin : m / 2 < t.length
        · obtain ⟨np, hnp⟩ : ∃ np, t[m / 2]? = some np := ⟨t[m / 2], List.getElem?_eq_getElem hin⟩
          obtain ⟨np', hnp'⟩ : ∃ np', t'[m / 2]? = some np' := ⟨t'[m / 2], List.getElem?_eq_getElem (hlen ▸ hin)⟩
          have e1 := ((isValid_iff nh t).mp hv _ np hnp).2
          have e2 := ((isValid_iff nh t').mp hv' _ np' hnp').2
          have hh : np.hash = np'.hash := by
            have := hp; unfold childHash at this; simp [hnp, hnp'] at this; exact this
          have := hinj _ _ _ _ _ _ (hshape _) (hshape _) (e1.symm.trans (hh.trans e2))
          rcases Nat.mod_two_eq_zero_or_one m with hm | hm
          · have : m + 1 = 2 * (m / 2) + 1 := by omega
            rw [this]; exact ‹_ ∧ _ ∧ _›.2.1
          · have : m + 1 = 2 * (m / 2) + 2 := by omega
            rw [this]; exact ‹_ ∧ _ ∧ _›.2.2
        · -- parent outside the tree: so is the child
          unfold childHash
          rw [List.getElem?_eq_none (by omega : t.length ≤ m + 1), List.getElem?_eq_none (by omega : t'.length ≤ m + 1)]
  intro j n n' hj hj'
  have hh : n.hash = n'.hash := by
    have := hhash j; unfold childHash at this; simp [hj, hj'] at this; exact this
  have e1 := ((isValid_iff nh t).mp hv j n hj).2
  have e2 := ((isValid_iff nh t').mp hv' j n' hj').2
  exact ⟨(hinj _ _ _ _ _ _ (hshape _) (hshape _) (e1.symm.trans (hh.trans e2))).1, hh⟩

end

/-- why `NhInj` is the right abstraction: with an injective hash over bytes, the preimage
    `key ‖ leftHash ‖ rightHash` determines its three parts as soon as the child hashes have the
    same lengths on both sides (fixed-length hash output; an absent child contributes nothing). -/
theorem flat_hash_unambiguous (H : Bytes → Bytes) (hH : Function.Injective H)
    (k k' l l' r r' : Bytes) (hl : l.length = l'.length) (hr : r.length = r'.length)
    (h : H (k ++ l ++ r) = H (k' ++ l' ++ r')) : k = k' ∧ l = l' ∧ r = r' := by
  have h0 := hH h
  have hlen := congrArg List.length h0
  simp only [List.length_append] at hlen
  have h1 := List.append_inj h0 (by simp only [List.length_append]; omega)
  have h2 := List.append_inj h1.1 (by omega)
  exact ⟨h2.1, h2.2, h1.2⟩

/-- the symbolic hash of the driver satisfies `NhInj` -/
theorem snh_inj : NhInj snh := by
  intro k k' l l' r r' hl hr h
  cases l <;> cases l' <;> cases r <;> cases r' <;> simp_all [snh]

/-! ### completeness of proofs: what `ExtractProofMaterial` returns, `Prove` accepts -/

set_option linter.unusedSectionVars false
section
variable {η : Type} [DecidableEq η] (nh : Bytes → Option η → Option η → η)

/-- the children pair the walk records at node `l` -/
def pairOf (t : List (Node η)) (l : Nat) : List (PEntry η) :=
  if 2 * l + 1 < t.length then [t[2 * l + 1]?, t[2 * l + 2]?] else [none, none]

/-- the walk of `ExtractProofMaterial` when it succeeds -/
def walk (t : List (Node η)) : Nat → Nat → List (PEntry η)
  | 0, _ => []
  | f + 1, l => pairOf t l ++ (if l = 0 then [t[0]?] else walk t f ((l - 1) / 2))

theorem pairOf_length (t : List (Node η)) (l : Nat) : (pairOf t l).length = 2 := by
  unfold pairOf; split <;> rfl

theorem walk_eq (t : List (Node η)) (index : Nat) : ∀ (f l : Nat), l + 1 < 2 ^ f → l < t.length →
    (l = index ∨ 2 * l + 1 < t.length) → extractWalk t index f l = some (walk t f l) := by
  intro f
  induction f with
  | zero => intro l h; simp at h
  | succ f ih =>
    intro l hl hlt hc
    have hpair : (if 2 * l + 1 < t.length then some [t[2 * l + 1]?, t[2 * l + 2]?]
        else if l = index then some [none, none] else none) = some (pairOf t l) := by
      unfold pairOf
      by_cases h : 2 * l + 1 < t.length
      · simp [h]
      · rcases hc with hc | hc
        · subst hc; simp [h]
        · exact absurd hc h
    unfold extractWalk walk
    simp only [hpair]
    by_cases h0 : l = 0
    · subst h0
      have : t[0]? = some (t[0]'hlt) := List.getElem?_eq_getElem hlt
      simp [this]
    · simp only [h0, if_false]
      have hm : (l - 1) / 2 + 1 < 2 ^ f := by
        rw [Nat.pow_succ] at hl; omega
      rw [ih ((l - 1) / 2) hm (by omega) (Or.inr (by omega))]
      rfl

theorem walk_length (t : List (Node η)) : ∀ (f l : Nat), l + 1 < 2 ^ f →
    ∃ k, (walk t f l).length = 2 * k + 3 := by
  intro f
  induction f with
  | zero => intro l h; simp at h
  | succ f ih =>
    intro l hl
    unfold walk
    by_cases h0 : l = 0
    · exact ⟨0, by simp [h0, pairOf_length]⟩
    · have hm : (l - 1) / 2 + 1 < 2 ^ f := by
        rw [Nat.pow_succ] at hl; omega
      obtain ⟨k, hk⟩ := ih _ hm
      exact ⟨k + 1, by simp [h0, pairOf_length, hk]; omega⟩

theorem pairOf_hash0 (t : List (Node η)) (l : Nat) :
    entryHash ((pairOf t l)[0]?.getD none) = childHash t (2 * l + 1) := by
  unfold pairOf childHash entryHash
  by_cases h : 2 * l + 1 < t.length
  · simp [h]
  · simp [h]

theorem pairOf_hash1 (t : List (Node η)) (l : Nat) :
    entryHash ((pairOf t l)[1]?.getD none) = childHash t (2 * l + 2) := by
  unfold pairOf childHash entryHash
  by_cases h : 2 * l + 1 < t.length
  · simp [h]
  · have : t.length ≤ 2 * l + 2 := by omega
    simp [h, List.getElem?_eq_none this]

end

section
variable {η : Type} [DecidableEq η] (nh : Bytes → Option η → Option η → η)

theorem pairOf_cases (t : List (Node η)) (l : Nat) :
    ∃ a b, pairOf t l = [a, b] ∧ entryHash a = childHash t (2 * l + 1) ∧ entryHash b = childHash t (2 * l + 2) := by
  have h0 := pairOf_hash0 t l
  have h1 := pairOf_hash1 t l
  have hl := pairOf_length t l
  match hp : pairOf t l, hl with
  | [a, b], _ =>
    rw [hp] at h0 h1
    exact ⟨a, b, rfl, by simpa using h0, by simpa using h1⟩

theorem proveLoop_step (pre : List (PEntry η)) (a b : PEntry η) (rest : List (PEntry η)) (i cnt : Nat)
    (hp : pre.length = 2 * i) :
    proveLoop nh (pre ++ a :: b :: rest) (cnt + 1) i =
      (levelOK nh a b (if 2 < rest.length then rest.take 2 else rest.take 1) &&
        proveLoop nh (pre ++ a :: b :: rest) cnt (i + 1)) := by
  rw [proveLoop]
  have h0 : (pre ++ a :: b :: rest)[2 * i]? = some a := by
    rw [List.getElem?_append_right (by omega)]; simp [hp]
  have h1 : (pre ++ a :: b :: rest)[2 * i + 1]? = some b := by
    rw [List.getElem?_append_right (by omega)]; simp [hp]
  have hd : (pre ++ a :: b :: rest).drop (2 * i + 2) = rest := by
    have : 2 * i + 2 = pre.length + 2 := by omega
    rw [this, List.drop_append]
    simp
  have hl : (pre ++ a :: b :: rest).length = 2 * i + 2 + rest.length := by simp [hp]; omega
  rw [h0, h1, hd, hl]
  have : (2 * i + 4 < 2 * i + 2 + rest.length) = (2 < rest.length) := by
    apply propext; omega
  simp only [this, Option.getD_some]

theorem levelOK_of_mem (a b : PEntry η) (parents : List (PEntry η)) (n : Node η) (hm : some n ∈ parents)
    (hk : n.key ≠ []) (hh : n.hash = nh n.key (entryHash a) (entryHash b)) : levelOK nh a b parents = true := by
  unfold levelOK
  rw [List.any_eq_true]
  exact ⟨some n, hm, by simp [hk, ← hh]⟩

/-- the node-validity facts `isValid_iff` gives -/
def NodesOK (t : List (Node η)) : Prop := ∀ i n, t[i]? = some n →
  n.key ≠ [] ∧ n.hash = nh n.key (childHash t (2 * i + 1)) (childHash t (2 * i + 2))

theorem walk_take2 (t : List (Node η)) (f m : Nat) (hm : m + 1 < 2 ^ f) :
    (walk t f m).take 2 = pairOf t m ∧ 2 < (walk t f m).length := by
  cases f with
  | zero => simp at hm
  | succ f =>
    obtain ⟨k, hk⟩ := walk_length t (f + 1) m hm
    refine ⟨?_, by omega⟩
    unfold walk
    rw [List.take_append_of_le_length (by rw [pairOf_length]; omega)]
    rw [List.take_of_length_le (by rw [pairOf_length]; omega)]

theorem prove_walk (t : List (Node η)) (hv : NodesOK nh t) : ∀ (f l : Nat) (pre : List (PEntry η)) (i : Nat),
    l + 1 < 2 ^ f → l < t.length → pre.length = 2 * i →
    proveLoop nh (pre ++ walk t f l) (((walk t f l).length - 1) / 2) i = true := by
  intro f
  induction f with
  | zero => intro l _ _ h; simp at h
  | succ f ih =>
    intro l pre i hl hlt hp
    obtain ⟨a, b, hab, ha, hb⟩ := pairOf_cases t l
    obtain ⟨n, hn⟩ : ∃ n, t[l]? = some n := ⟨t[l], List.getElem?_eq_getElem hlt⟩
    have hnv := hv l n hn
    rw [← ha, ← hb] at hnv
    by_cases h0 : l = 0
    · subst h0
      have hw : walk t (f + 1) 0 = a :: b :: [t[0]?] := by
        rw [walk, hab]; simp
      rw [hw]
      simp only [List.length_cons, List.length_nil]
      rw [proveLoop_step nh pre a b [t[0]?] i 0 hp]
      simp only [List.length_cons, List.length_nil, proveLoop, Bool.and_true]
      apply levelOK_of_mem nh a b _ n _ hnv.1 hnv.2
      simp [hn]
    · have hm : (l - 1) / 2 + 1 < 2 ^ f := by
        rw [Nat.pow_succ] at hl; omega
      have hw : walk t (f + 1) l = a :: b :: walk t f ((l - 1) / 2) := by
        rw [walk, hab]; simp [h0]
      obtain ⟨k, hk⟩ := walk_length t f _ hm
      obtain ⟨ht2, hlen⟩ := walk_take2 t f _ hm
      rw [hw]
      have hcnt : ((a :: b :: walk t f ((l - 1) / 2)).length - 1) / 2 =
          ((walk t f ((l - 1) / 2)).length - 1) / 2 + 1 := by
        simp only [List.length_cons]; omega
      rw [hcnt, proveLoop_step nh pre a b _ i _ hp]
      simp only [hlen, if_true, ht2, Bool.and_eq_true]
      constructor
      · apply levelOK_of_mem nh a b _ n _ hnv.1 hnv.2
        have h2 : 2 * ((l - 1) / 2) + 1 < t.length := by omega
        unfold pairOf
        simp only [h2, if_true]
        rcases (show l = 2 * ((l - 1) / 2) + 1 ∨ l = 2 * ((l - 1) / 2) + 2 by omega) with e | e
        · rw [← e, hn]; simp
        · rw [← e, hn]; simp
      · have := ih ((l - 1) / 2) (pre ++ [a, b]) (i + 1) hm (by omega) (by simp [hp]; omega)
        simpa using this

/-- the keys of the tree are pairwise different (the keys are fact hashes / state keys) -/
def KeysDistinct (t : List (Node η)) : Prop :=
  ∀ (i j : Nat) (n m : Node η), t[i]? = some n → t[j]? = some m → n.key = m.key → i = j

theorem isKey_other (t : List (Node η)) (hd : KeysDistinct t) (index : Nat) (n : Node η)
    (hn : t[index]? = some n) (j : Nat) (hj : j ≠ index) : isKey n.key (t[j]?) = false := by
  cases hm : t[j]? with
  | none => rfl
  | some m =>
    simp only [isKey, decide_eq_false_iff_not]
    intro e
    exact hj (hd j index m n hm hn e)

theorem isKey_pair (t : List (Node η)) (hd : KeysDistinct t) (index : Nat) (n : Node η)
    (hn : t[index]? = some n) (l : Nat) (h1 : 2 * l + 1 ≠ index) (h2 : 2 * l + 2 ≠ index) :
    ∀ e ∈ pairOf t l, isKey n.key e = false := by
  intro e he
  unfold pairOf at he
  split at he
  · simp only [List.mem_cons, List.not_mem_nil, or_false] at he
    rcases he with rfl | rfl
    · exact isKey_other t hd index n hn _ h1
    · exact isKey_other t hd index n hn _ h2
  · simp only [List.mem_cons, List.not_mem_nil, or_false] at he
    rcases he with rfl | rfl <;> rfl

theorem filter_walk (t : List (Node η)) (hd : KeysDistinct t) (index : Nat) (n : Node η)
    (hn : t[index]? = some n) (f : Nat) (hf : index + 1 < 2 ^ f) :
    filterNodes (walk t f index) n.key = walk t f index := by
  have hlt : index < t.length := by
    apply Nat.lt_of_not_ge; intro h; rw [List.getElem?_eq_none h] at hn; cases hn
  obtain ⟨k, hk⟩ := walk_length t f index hf
  have hidx : (walk t f index).findIdx? (isKey n.key) = some 2 ∨ (walk t f index).findIdx? (isKey n.key) = some 3 := by
    cases f with
    | zero => simp at hf
    | succ f =>
      obtain ⟨a, b, hab, _, _⟩ := pairOf_cases t index
      have hpa := isKey_pair t hd index n hn index (by omega) (by omega)
      rw [hab] at hpa
      have ha : isKey n.key a = false := hpa a (by simp)
      have hb : isKey n.key b = false := hpa b (by simp)
      by_cases h0 : index = 0
      · left
        rw [walk, hab]
        subst h0
        have hr : isKey n.key (t[0]?) = true := by rw [hn]; simp [isKey]
        simp [List.findIdx?_cons, ha, hb, hr]
      · have hm : (index - 1) / 2 + 1 < 2 ^ f := by
          rw [Nat.pow_succ] at hf; omega
        have h2 : 2 * ((index - 1) / 2) + 1 < t.length := by omega
        cases f with
        | zero => simp at hm
        | succ f =>
          have hw : walk t (f + 1 + 1) index =
              a :: b :: t[2 * ((index - 1) / 2) + 1]? :: t[2 * ((index - 1) / 2) + 2]? ::
                (if (index - 1) / 2 = 0 then [t[0]?] else walk t f (((index - 1) / 2 - 1) / 2)) := by
            rw [walk, hab, walk]
            unfold pairOf
            simp [h0, h2]
          rw [hw]
          rcases (show index = 2 * ((index - 1) / 2) + 1 ∨ index = 2 * ((index - 1) / 2) + 2 by omega) with e | e
          · left
            have : isKey n.key (t[2 * ((index - 1) / 2) + 1]?) = true := by
              rw [← e, hn]; simp [isKey]
            simp [List.findIdx?_cons, ha, hb, this]
          · right
            have h3 : isKey n.key (t[2 * ((index - 1) / 2) + 1]?) = false :=
              isKey_other t hd index n hn _ (by omega)
            have : isKey n.key (t[2 * ((index - 1) / 2) + 2]?) = true := by
              rw [← e, hn]; simp [isKey]
            simp [List.findIdx?_cons, ha, hb, h3, this]
  unfold filterNodes
  rcases hidx with h | h
  · rw [h]; simp
  · rw [h]
    have : ¬ (3 + 1 = (walk t f index).length) := by omega
    simp [this]

/-- **proof_complete.**  From a tree that validates and whose keys are pairwise different, the proof
material extracted for any key of the tree exists and proves that key: `ExtractProofMaterial` never
fails on a present key and `Proof.Prove` accepts what it returns — for every tree size and every
position of the key. -/
theorem proof_complete (t : List (Node η)) (hv : isValid nh t = true) (hd : KeysDistinct t)
    (n : Node η) (hmem : n ∈ t) :
    ∃ p, extract t n.key = some p ∧ prove nh p n.key = true := by
  obtain ⟨j, hj, hjn⟩ := List.getElem_of_mem hmem
  have hjn' : t[j]? = some n := by rw [List.getElem?_eq_getElem hj, hjn]
  have hnodes : NodesOK nh t := (isValid_iff nh t).mp hv
  have hfind : t.findIdx? (fun n' => decide (n'.key = n.key)) = some j := by
    rw [List.findIdx?_eq_some_iff_getElem]
    refine ⟨hj, by simp [hjn], ?_⟩
    intro i hij
    simp only [decide_eq_true_eq]
    intro e
    have hi : i < t.length := by omega
    have := hd i j t[i] n (List.getElem?_eq_getElem hi) hjn' e
    omega
  have hb := (log2_bounds j).2
  refine ⟨walk t (indexHeight j + 1) j, ?_, ?_⟩
  · unfold extract
    rw [hfind]
    exact walk_eq t j _ j hb hj (Or.inl rfl)
  · unfold prove
    simp only [filter_walk t hd j n hjn' _ hb]
    obtain ⟨k, hk⟩ := walk_length t (indexHeight j + 1) j hb
    have : ¬ ((walk t (indexHeight j + 1) j).length < 1) := by omega
    simp only [this, if_false]
    have := prove_walk nh t hnodes (indexHeight j + 1) j [] 0 hb hj rfl
    simpa using this

end

/-- the premises are met by generated trees (five keys: a tree with an only child), and the
    proof of every key proves -/
example : isValid snh (generate snh [[1], [2], [3], [4], [5]]) = true ∧
    ([[1], [2], [3], [4], [5]].all (fun k =>
      match extract (generate snh [[1], [2], [3], [4], [5]]) k with
      | some p => prove snh p k
      | none => false)) = true := by decide

/-- ✗ known finding C12:proof-nonpath-key-not-bound — in the proof of `k3` of a 7-node tree,
    renaming the sibling entry `k4` (only its hash enters any node hash) still proves. -/
def siblingWitness : Bool :=
  let keys : List Bytes := [[0], [1], [2], [3], [4], [5], [6]]
  let t := generate snh keys
  isValid snh t &&
  (match extract t [3] with
   | some p =>
     prove snh p [3] &&
     prove snh (p.modify 3 (fun e => e.map (fun n => { n with key := [99] }))) [3]
   | none => false)

theorem proof_sibling_key_witness : siblingWitness = true := by decide

/-- ✦ facts of the current source: the byte layout of `nodeHash`; pins. -/
theorem facts_ok :
    Gen.C12.extractErrors = [] ∧ Gen.C12.nodeHashConcat = "util.ConcatBytesSlice(key, lh, rh)" ∧
    Gen.C12.pins = Pins.C12 := by
  refine ⟨by decide, by decide, by decide⟩

end Mitum.C12
