import MitumModel.Common
/-
Model of the two gates a block fetched from a sync source passes
(isaac/block/importer.go BlockImporter, isaac/block/validator.go
IsValidBlockFromLocalFS, base/block.go IsValid…WithManifest).

Hashes are ideal: an operation is its fact hash (a number), a state is (hash, height);
whether the body of an item still hashes to the hashes it carries (Operation.IsValid,
State.IsValid) is the count of items for which it does not (`badOps`, `badSts`),
a tree is the list of its node keys and the *root of a tree is identified with that list*
(collision-free hash), the manifest hash is a number.  Item checksums and the signature of
the block map are outside the model: every block the model speaks of carries a properly
signed map whose checksums match the items (that is what a consistently re-signed tampered
block is).
-/
namespace Mitum.BlockImport

structure Blk where
  height : Nat
  mHash : Nat
  mProposal : Nat
  mOpsRoot : Option (List Nat)   -- manifest.OperationsTree(); none = nil
  mStsRoot : Option (List Nat)
  prHeight : Nat
  prHash : Nat
  ops : List Nat                 -- fact hashes of the operations item
  opsTree : List Nat             -- keys of the operations tree item
  sts : List (Nat × Nat)         -- (state hash, state height) of the states item
  stsTree : List Nat
  ivpHeight : Nat
  ivpRound : Nat
  avpHeight : Nat
  avpRound : Nat
  avpMajority : Option Nat       -- new block of the ACCEPT majority; none = draw
  badOps : Nat := 0              -- operations of the item whose own IsValid fails (body rewritten under the old hashes)
  badSts : Nat := 0              -- the same for states
deriving Repr, DecidableEq

/-- which clauses the code has (extracted from the source on every run) -/
structure Checks where
  emptyRootChecked : Bool      -- the `n < 1` case of IsValid…TreeWithManifest compares the manifest root with nil
  majorityChecked : Bool       -- IsValidVoteproofsWithManifest compares the ACCEPT majority's new block with the manifest hash
  importerChecksItems : Bool   -- BlockImporter runs the proposal / tree checks before it saves
  validatorOpSelf : Bool := true        -- IsValidOperationsOfBlock runs Operation.IsValid on every operation, whatever callback it is given
  validatorStateSelf : Bool := true     -- IsValidStatesOfBlock runs State.IsValid on every state, whatever callback it is given
  importerOpSelf : Bool := true         -- importOperations runs Operation.IsValid (blocks above genesis)
  importerGenesisOpSelf : Bool := true  -- IsValidGenesisOperation, which replaces it for a genesis block, runs Operation.IsValid
  importerStateSelf : Bool := true      -- importStates runs State.IsValid
deriving Repr, DecidableEq

def nodupB : List Nat → Bool
  | [] => true
  | a :: r => !r.contains a && nodupB r

/-- base.IsValidProposalWithManifest -/
def proposalOK (b : Blk) : Bool := b.prHeight == b.height && b.prHash == b.mProposal

/-- base.IsValidOperationsTreeWithManifest -/
def opsOK (c : Checks) (b : Blk) : Bool :=
  b.opsTree.length == b.ops.length &&
  (if b.ops.length == 0 then (!c.emptyRootChecked || b.mOpsRoot == none)
   else nodupB b.ops && b.opsTree.all (fun k => b.ops.contains k) && b.mOpsRoot == some b.opsTree)

def heightOf : List (Nat × Nat) → Nat → Option Nat
  | [], _ => none
  | (h, ht) :: r, k => if h = k then some ht else heightOf r k

/-- base.IsValidStatesTreeWithManifest -/
def stsOK (c : Checks) (b : Blk) : Bool :=
  b.stsTree.length == b.sts.length &&
  (if b.sts.length == 0 then (!c.emptyRootChecked || b.mStsRoot == none)
   else nodupB (b.sts.map (·.1)) && b.stsTree.all (fun k => heightOf b.sts k == some b.height) &&
        b.mStsRoot == some b.stsTree)

/-- base.IsValidVoteproofsWithManifest -/
def vpOK (c : Checks) (b : Blk) : Bool :=
  b.ivpHeight == b.height && b.avpHeight == b.height && b.ivpRound == b.avpRound &&
  (!c.majorityChecked || b.avpMajority == some b.mHash)

/-- the validator's own-validity pass over the items -/
def vSelf (c : Checks) (b : Blk) : Bool :=
  (!c.validatorOpSelf || b.badOps == 0) && (!c.validatorStateSelf || b.badSts == 0)

/-- the importer's: a genesis block's operations go through IsValidGenesisOperation instead -/
def iSelf (c : Checks) (b : Blk) : Bool :=
  (!(if b.height == 0 then c.importerGenesisOpSelf else c.importerOpSelf) || b.badOps == 0) &&
  (!c.importerStateSelf || b.badSts == 0)

/-- IsValidBlockFromLocalFS -/
def validatorAccepts (c : Checks) (b : Blk) : Bool :=
  (proposalOK b && opsOK c b && stsOK c b && vpOK c b) && vSelf c b

/-- BlockImporter (WriteItem … Save): the voteproofs check, and the item checks only if the code has them -/
def importerAccepts (c : Checks) (b : Blk) : Bool :=
  (vpOK c b && (!c.importerChecksItems || (proposalOK b && opsOK c b && stsOK c b))) && iSelf c b

/-- the property's notion of a block that is consistent with its manifest -/
def consistent (b : Blk) : Prop :=
  b.prHeight = b.height ∧ b.prHash = b.mProposal ∧
  (∀ k, k ∈ b.opsTree ↔ k ∈ b.ops) ∧ b.opsTree.length = b.ops.length ∧
  b.mOpsRoot = (if b.ops = [] then none else some b.opsTree) ∧
  (∀ k, k ∈ b.stsTree ↔ k ∈ b.sts.map (·.1)) ∧ b.stsTree.length = b.sts.length ∧
  (∀ s, s ∈ b.sts → s.2 = b.height) ∧
  b.mStsRoot = (if b.sts = [] then none else some b.stsTree) ∧
  b.ivpHeight = b.height ∧ b.avpHeight = b.height ∧ b.ivpRound = b.avpRound ∧
  b.avpMajority = some b.mHash ∧
  b.badOps = 0 ∧ b.badSts = 0

end Mitum.BlockImport
