import MitumModel.Common
/-
Model of the read side of `isaacdatabase.Center` (isaac/database/center.go) over
a permanent store and temp databases (one per block, newest first), and of the
specification the property names: a store that simply keeps all committed
blocks.

A block carries its height, the identity of its block map, the states it sets,
optionally a suffrage proof (suffrage height, identity), optionally a network
policy, the known operations and the in-state operations.
-/
namespace Mitum.Center

structure Block where
  height : Nat
  mapID : String
  states : List (String × String)
  suf : Option (Nat × String)        -- (suffrage height, proof id)
  policy : Option String
  known : List String
  inState : List String
deriving Repr, DecidableEq

/-- the committed chain, oldest first -/
abbrev Chain := List Block

/-! ### specification: reads over all committed blocks -/

def lastHeight (c : Chain) : Option Nat := c.getLast?.map (·.height)

def specState (c : Chain) (k : String) : Option (String × Nat) :=
  (c.reverse.findSome? (fun b => (b.states.find? (fun e => e.1 = k)).map (fun e => (e.2, b.height))))

def specBlockMap (c : Chain) (h : Nat) : Option String := (c.find? (fun b => b.height = h)).map (·.mapID)
def specLastBlockMap (c : Chain) : Option String := c.getLast?.map (·.mapID)

/-- does this block carry the proof asked for (exactly that suffrage height, or — the code before the repair — any lower one) -/
def pickProof (exact : Bool) (sh : Nat) (b : Block) : Option String :=
  match b.suf with
  | some (s, id) => if (if exact then s = sh else s ≤ sh) then some id else none
  | none => none

/-- the proof of exactly that suffrage height -/
def specProof (c : Chain) (sh : Nat) : Option String := c.findSome? (pickProof true sh)

/-- the proof in effect at a block height: the newest one at or below it -/
def specProofByBlock (c : Chain) (h : Nat) : Option String :=
  match lastHeight c with
  | none => none
  | some l => if l < h then none
    else (c.filter (fun b => b.height ≤ h)).reverse.findSome? (fun b => b.suf.map (·.2))

def specLastProof (c : Chain) : Option String := c.reverse.findSome? (fun b => b.suf.map (·.2))

/-- `LastSuffrageProofBytes`: the height reported with the last proof is the newest block's -/
def specLastProofHeight (c : Chain) : Option Nat := if (specLastProof c).isSome then lastHeight c else none

def specInState (c : Chain) (op : String) : Bool := c.any (fun b => b.inState.contains op)
def specKnown (c : Chain) (op : String) : Bool := c.any (fun b => b.known.contains op)
def specPolicy (c : Chain) : Option String := c.reverse.findSome? (·.policy)

/-! ### the Center: `perm` holds the oldest blocks, `temps` the rest, newest first -/

structure Fixes where
  proofExact : Bool        -- `suffrageProofInTemps` takes only the temp whose suffrage height is the asked one
  byBlockBelowTemps : Bool -- `SuffrageProofByBlockHeight` asks the permanent store for `height` when it is below the temps
  lastProofHeight : Bool   -- `LastSuffrageProofBytes` reports the newest block's height

structure Ctr where
  perm : Chain             -- oldest first
  temps : List Block       -- newest first

def ofChain (c : Chain) (permCount : Nat) : Ctr := { perm := c.take permCount, temps := (c.drop permCount).reverse }

/-- `Center.SuffrageProof` -/
def ctrProof (f : Fixes) (s : Ctr) (sh : Nat) : Option String :=
  match s.temps.findSome? (pickProof f.proofExact sh) with
  | some id => some id
  | none => specProof s.perm sh

/-- `Center.SuffrageProofByBlockHeight` -/
def ctrProofByBlock (f : Fixes) (s : Ctr) (h : Nat) : Option String :=
  match s.temps with
  | [] => specProofByBlock s.perm h
  | newest :: _ =>
    if newest.height < h then none
    else
      let lowest := (s.temps.getLast?.map (·.height)).getD 0
      let inTemps := if lowest ≤ h then (s.temps.filter (fun b => b.height ≤ h)).findSome? (fun b => b.suf.map (·.2)) else none
      match inTemps with
      | some id => some id
      | none =>
        if lowest = 0 then none
        else specProofByBlock s.perm (if f.byBlockBelowTemps then min h (lowest - 1) else lowest - 1)

/-- `Center.LastSuffrageProofBytes`: the height returned with the proof -/
def newestHeight (s : Ctr) : Option Nat :=
  match s.temps with
  | b :: _ => some b.height
  | [] => lastHeight s.perm

def ctrLastProofHeight (f : Fixes) (s : Ctr) : Option Nat :=
  match s.temps.find? (fun b => b.suf.isSome) with
  | some b => if f.lastProofHeight then newestHeight s else some b.height
  | none => if (specLastProof s.perm).isSome then (if f.lastProofHeight then newestHeight s else lastHeight s.perm) else none

/-! ### the other reads of the Center: temps newest first, then the permanent store -/

def stateOf (k : String) (b : Block) : Option (String × Nat) :=
  (b.states.find? (fun e => e.1 = k)).map (fun e => (e.2, b.height))

/-- `Center.State`: the temps newest first, then the permanent store -/
def ctrState (s : Ctr) (k : String) : Option (String × Nat) :=
  (s.temps.findSome? (stateOf k)).or (specState s.perm k)

/-- `Center.BlockMap` -/
def ctrBlockMap (s : Ctr) (h : Nat) : Option String :=
  ((s.temps.find? (fun b => b.height = h)).map (·.mapID)).or (specBlockMap s.perm h)

/-- `Center.LastBlockMap` -/
def ctrLastBlockMap (s : Ctr) : Option String :=
  match s.temps with
  | b :: _ => some b.mapID
  | [] => specLastBlockMap s.perm

/-- `Center.LastSuffrageProof` -/
def ctrLastProof (s : Ctr) : Option String :=
  (s.temps.findSome? (fun b => b.suf.map (·.2))).or (specLastProof s.perm)

/-- `Center.LastNetworkPolicy` -/
def ctrPolicy (s : Ctr) : Option String :=
  (s.temps.findSome? (·.policy)).or (specPolicy s.perm)

/-- `Center.ExistsInStateOperation` / `ExistsKnownOperation` -/
def ctrInState (s : Ctr) (op : String) : Bool := s.temps.any (fun b => b.inState.contains op) || specInState s.perm op
def ctrKnown (s : Ctr) (op : String) : Bool := s.temps.any (fun b => b.known.contains op) || specKnown s.perm op

end Mitum.Center
