import MitumModel.Model.BlockMaps
import MitumModel.Gen.C14
import MitumModel.Pins
/-!
C14  Block-map chain validation accepts exactly linked chains.
-/
namespace Mitum.C14
open Mitum.BatchWork Mitum.BlockMaps

/-! ### `BatchWork` plan -/

/-- consecutive batches starting at `i`, each of at most `limit` jobs, ending exactly at `size-1` -/
def Covers (limit size : Nat) : Nat → List Batch → Prop
  | i, [] => i = size
  | i, b :: rest => b.first = i ∧ b.first ≤ b.last ∧ b.last < size ∧ b.last + 1 ≤ b.first + limit ∧
      Covers limit size (b.last + 1) rest

theorem planFrom_covers (size limit : Nat) (hl : 0 < limit) : ∀ (fuel i : Nat),
    i < size → size ≤ i + fuel * limit → Covers limit size i (planFrom size limit fuel i) := by
  intro fuel
  induction fuel with
  | zero => intro i h1 h2; simp at h2; omega
  | succ f ih =>
    intro i h1 h2
    unfold planFrom
    by_cases hover : i + limit > size
    · simp only [hover, if_true]
      unfold Covers
      refine ⟨rfl, ?_, ?_, ?_, ?_⟩ <;> (try unfold Covers) <;> dsimp only <;> omega
    · simp only [hover, if_false]
      by_cases he : i + limit = size
      · simp only [he, if_true]
        unfold Covers
        refine ⟨rfl, ?_, ?_, ?_, ?_⟩ <;> (try unfold Covers) <;> dsimp only <;> omega
      · simp only [he, if_false]
        unfold Covers
        refine ⟨rfl, by dsimp only; omega, by dsimp only; omega, by dsimp only; omega, ?_⟩
        dsimp only
        have : i + limit - 1 + 1 = i + limit := by omega
        rw [this]
        apply ih
        · omega
        · have : (f + 1) * limit = f * limit + limit := by rw [Nat.add_mul]; omega
          omega

/-- ✦ `batch_plan_partition`: for every size ≥ 1 and limit ≥ 1 the batches are consecutive, each
    holds at most `limit` jobs, and together they are exactly `[0, size)`. -/
theorem batch_plan_partition (size limit : Nat) (hs : 0 < size) (hl : 0 < limit) :
    ∃ bs, plan size limit = some bs ∧ Covers limit size 0 bs := by
  unfold plan
  have h1 : ¬ size < 1 := by omega
  simp only [h1, if_false]
  by_cases hle : size ≤ limit
  · simp only [hle, if_true]
    refine ⟨_, rfl, ?_⟩
    unfold Covers
    refine ⟨rfl, ?_, ?_, ?_, ?_⟩ <;> (try unfold Covers) <;> dsimp only <;> omega
  · simp only [hle, if_false]
    refine ⟨_, rfl, planFrom_covers size limit hl (size + 1) 0 hs ?_⟩
    have : size ≤ (size + 1) * 1 := by omega
    calc size ≤ (size + 1) * 1 := this
      _ ≤ (size + 1) * limit := Nat.mul_le_mul_left _ hl
      _ = 0 + (size + 1) * limit := by omega

theorem plan_none_iff (size limit : Nat) : plan size limit = none ↔ size < 1 := by
  unfold plan
  by_cases h : size < 1
  · simp [h]
  · by_cases h2 : size ≤ limit <;> simp [h, h2]

/-! ### one batch: arrivals in any order -/

section
variable (lastprev : Option BM) (slotBase lh len : Nat) (resp : Nat → BM)

/-- what the batch must satisfy: every response has the requested height, the first one links to
    the previous map (or is the genesis map), each next one links to its predecessor -/
def Good : Prop :=
  (∀ k, k < len → (resp (slotBase + k)).height = slotBase + k) ∧
  (0 < len → ((resp slotBase).height = 0 ∨ ∃ p, lastprev = some p ∧ (resp slotBase).prev = p.hash)) ∧
  (∀ k, k + 1 < len → (resp (slotBase + k + 1)).prev = (resp (slotBase + k)).hash)

/-- state after the requests in `done` have arrived (all with the requested heights) -/
def StateOf (done : List Nat) (maps : List (Option BM)) : Prop :=
  maps.length = len ∧ ∀ j, j < len → maps[j]? = some (if slotBase + j ∈ done then some (resp (slotBase + j)) else none)

theorem stateOf_nil : StateOf slotBase len resp [] (List.replicate len none) := by
  refine ⟨by simp, ?_⟩
  intro j hj
  rw [List.getElem?_replicate]
  simp [hj]

/-- the exact condition under which the arrival of request `rq` is accepted -/
def StepOK (done : List Nat) (rq : Nat) : Prop :=
  (resp rq).height = rq ∧
  (rq = slotBase → ((resp rq).height = 0 ∨ ∃ p, lastprev = some p ∧ (resp rq).prev = p.hash)) ∧
  (slotBase < rq → rq - 1 ∈ done → (resp rq).prev = (resp (rq - 1)).hash) ∧
  (rq + 1 < slotBase + len → rq + 1 ∈ done → (resp (rq + 1)).prev = (resp rq).hash)

theorem job_iff (done : List Nat) (s : BState) (hs : StateOf slotBase len resp done s.maps)
    (rq : Nat) (hrq1 : slotBase ≤ rq) (hrq2 : rq < slotBase + len) (hnew : rq ∉ done) :
    (∃ s', job true lastprev slotBase lh s rq (resp rq) = some s' ∧ StateOf slotBase len resp (rq :: done) s'.maps) ↔
      StepOK lastprev slotBase len resp done rq := by
  obtain ⟨hlen, hmaps⟩ := hs
  by_cases hh : (resp rq).height = rq
  · have h1 : ¬ (resp rq).height < slotBase := by omega
    have h2 : ¬ s.maps.length ≤ (resp rq).height - slotBase := by omega
    -- neighbours after the set
    have hback : rq - slotBase ≠ 0 →
        (s.maps.set (rq - slotBase) (some (resp rq)))[rq - slotBase - 1]? =
          some (if rq - 1 ∈ done then some (resp (rq - 1)) else none) := by
      intro hne
      rw [List.getElem?_set_ne (by omega)]
      have := hmaps (rq - slotBase - 1) (by omega)
      rw [show slotBase + (rq - slotBase - 1) = rq - 1 by omega] at this
      exact this
    have hfwd : (s.maps.set (rq - slotBase) (some (resp rq)))[rq - slotBase + 1]? =
        if rq + 1 < slotBase + len then some (if rq + 1 ∈ done then some (resp (rq + 1)) else none) else none := by
      rw [List.getElem?_set_ne (by omega)]
      by_cases hin : rq + 1 < slotBase + len
      · have := hmaps (rq - slotBase + 1) (by omega)
        rw [show slotBase + (rq - slotBase + 1) = rq + 1 by omega] at this
        simp [hin, this]
      · simp only [hin, if_false]
        exact List.getElem?_eq_none (by omega)
    have hstate : StateOf slotBase len resp (rq :: done) (s.maps.set (rq - slotBase) (some (resp rq))) := by
      refine ⟨by simp [hlen], ?_⟩
      intro j hj
      by_cases hje : j = rq - slotBase
      · subst hje
        rw [List.getElem?_set_self (by omega)]
        simp [show slotBase + (rq - slotBase) = rq by omega]
      · rw [List.getElem?_set_ne (by omega), hmaps j hj]
        have : slotBase + j ≠ rq := by omega
        simp [this]
    -- the two link checks, separately
    have hB : backOK (resp rq) (s.maps.set (rq - slotBase) (some (resp rq))) lastprev (rq - slotBase) = true ↔
        (rq = slotBase → ((resp rq).height = 0 ∨ ∃ p, lastprev = some p ∧ (resp rq).prev = p.hash)) ∧
        (slotBase < rq → rq - 1 ∈ done → (resp rq).prev = (resp (rq - 1)).hash) := by
      unfold backOK
      by_cases hidx : rq - slotBase = 0
      · have hrqe : rq = slotBase := by omega
        have hnlt : ¬ slotBase < rq := by omega
        simp only [hidx, if_true, hrqe, true_implies, Nat.lt_irrefl, false_implies, and_true]
        by_cases h0 : (resp slotBase).height = 0
        · simp [h0]
        · simp only [h0, if_false, false_or]
          cases lastprev with
          | none => simp
          | some p => simp
      · have hne : rq ≠ slotBase := by omega
        have hgt : slotBase < rq := by omega
        simp only [hidx, if_false, hne, false_implies, true_and, hgt, true_implies]
        rw [hback hidx]
        by_cases hin : rq - 1 ∈ done <;> simp [hin]
    have hF : fwdOK (resp rq) (s.maps.set (rq - slotBase) (some (resp rq))) (rq - slotBase) = true ↔
        (rq + 1 < slotBase + len → rq + 1 ∈ done → (resp (rq + 1)).prev = (resp rq).hash) := by
      unfold fwdOK
      rw [hfwd]
      by_cases hlt : rq + 1 < slotBase + len
      · by_cases hin : rq + 1 ∈ done <;> simp [hlt, hin]
      · simp [hlt]
    have hstep : StepOK lastprev slotBase len resp done rq ↔
        (backOK (resp rq) (s.maps.set (rq - slotBase) (some (resp rq))) lastprev (rq - slotBase) = true ∧
         fwdOK (resp rq) (s.maps.set (rq - slotBase) (some (resp rq))) (rq - slotBase) = true) := by
      unfold StepOK
      constructor
      · rintro ⟨_, a, b, c⟩; exact ⟨hB.mpr ⟨a, b⟩, hF.mpr c⟩
      · rintro ⟨hb, hf⟩; have := hB.mp hb; exact ⟨hh, this.1, this.2, hF.mp hf⟩
    rw [hstep]
    unfold job isValidMaps
    simp only [hh, decide_true, Bool.not_true, Bool.and_false, Bool.false_eq_true, if_false, h1, h2]
    constructor
    · rintro ⟨s', hs', _⟩
      by_cases hok : (backOK (resp rq) (s.maps.set (rq - slotBase) (some (resp rq))) lastprev (rq - slotBase) &&
          fwdOK (resp rq) (s.maps.set (rq - slotBase) (some (resp rq))) (rq - slotBase)) = true
      · simpa using hok
      · simp [hok] at hs'
    · intro hok
      have : (backOK (resp rq) (s.maps.set (rq - slotBase) (some (resp rq))) lastprev (rq - slotBase) &&
          fwdOK (resp rq) (s.maps.set (rq - slotBase) (some (resp rq))) (rq - slotBase)) = true := by simpa using hok
      simp only [this, if_true]
      exact ⟨{ maps := s.maps.set (rq - slotBase) (some (resp rq)),
               newprev := if rq = lh then some (resp rq) else s.newprev },
             by simp [show ¬ rq < slotBase by omega, show ¬ s.maps.length ≤ rq - slotBase by omega], hstate⟩
  · -- wrong height: rejected
    unfold job
    simp only [hh, decide_false, Bool.not_false, Bool.and_true, if_true]
    constructor
    · rintro ⟨s', hs', _⟩; cases hs'
    · intro h; exact absurd h.1 hh

/-- a successful job always leaves the expected slot state -/
theorem job_some_state (done : List Nat) (s : BState) (hs : StateOf slotBase len resp done s.maps)
    (rq : Nat) (hrq1 : slotBase ≤ rq) (hrq2 : rq < slotBase + len) (s' : BState)
    (hj : job true lastprev slotBase lh s rq (resp rq) = some s') :
    StateOf slotBase len resp (rq :: done) s'.maps := by
  obtain ⟨hlen, hmaps⟩ := hs
  unfold job at hj
  by_cases hh : (resp rq).height = rq
  · simp only [hh, decide_true, Bool.not_true, Bool.and_false, Bool.false_eq_true, if_false] at hj
    unfold isValidMaps at hj
    simp only [hh, show ¬ rq < slotBase by omega, show ¬ s.maps.length ≤ rq - slotBase by omega, if_false] at hj
    by_cases hok : (backOK (resp rq) (s.maps.set (rq - slotBase) (some (resp rq))) lastprev (rq - slotBase) &&
        fwdOK (resp rq) (s.maps.set (rq - slotBase) (some (resp rq))) (rq - slotBase)) = true
    · simp only [hok, if_true] at hj
      injection hj with hj; subst hj
      refine ⟨by simp [hlen], ?_⟩
      intro j hjl
      by_cases hje : j = rq - slotBase
      · subst hje
        rw [List.getElem?_set_self (by omega)]
        simp [show slotBase + (rq - slotBase) = rq by omega]
      · simp only
        rw [List.getElem?_set_ne (by omega), hmaps j hjl]
        have : slotBase + j ≠ rq := by omega
        simp [this]
    · simp [hok] at hj
  · simp [hh] at hj

def foldJobs (s0 : Option BState) (rqs : List Nat) : Option BState :=
  rqs.foldl (fun acc rq => acc.bind (fun s => job true lastprev slotBase lh s rq (resp rq))) s0

theorem foldJobs_none (rqs : List Nat) : foldJobs lastprev slotBase lh resp none rqs = none := by
  unfold foldJobs
  induction rqs with
  | nil => rfl
  | cons r rs ih => simpa using ih

theorem runBatch_eq (order : List Nat) (np : Option BM) :
    runBatch true lastprev slotBase lh len (order.map (fun rq => (rq, resp rq))) np =
      foldJobs lastprev slotBase lh resp (some { maps := List.replicate len none, newprev := np }) order := by
  unfold runBatch foldJobs
  rw [List.foldl_map]

/-- the jobs in `rest` all succeed from a state reached through `done` exactly when each arrival's
    step condition holds w.r.t. the arrivals before it -/
theorem fold_iff : ∀ (rest done : List Nat) (s : BState),
    StateOf slotBase len resp done s.maps → (rest ++ done).Nodup →
    (∀ rq ∈ rest, slotBase ≤ rq ∧ rq < slotBase + len) →
    ((foldJobs lastprev slotBase lh resp (some s) rest).isSome = true ↔
      ∀ pre rq post, rest = pre ++ rq :: post → StepOK lastprev slotBase len resp (pre.reverse ++ done) rq) := by
  intro rest
  induction rest with
  | nil =>
    intro done s _ _ _
    simp [foldJobs]
  | cons r rs ih =>
    intro done s hs hnd hin
    have hr := hin r (by simp)
    have hnew : r ∉ done := by
      intro hm
      have := List.nodup_append.mp hnd
      exact this.2.2 r (by simp) r hm rfl
    have hjob := job_iff lastprev slotBase lh len resp done s hs r hr.1 hr.2 hnew
    have hunf : foldJobs lastprev slotBase lh resp (some s) (r :: rs) =
        foldJobs lastprev slotBase lh resp (job true lastprev slotBase lh s r (resp r)) rs := by
      simp [foldJobs]
    rw [hunf]
    constructor
    · intro hsome
      cases hj : job true lastprev slotBase lh s r (resp r) with
      | none => rw [hj, foldJobs_none] at hsome; cases hsome
      | some s' =>
        rw [hj] at hsome
        -- the first step is OK
        have hstep0 : StepOK lastprev slotBase len resp done r :=
          hjob.mp ⟨s', hj, job_some_state lastprev slotBase lh len resp done s hs r hr.1 hr.2 s' hj⟩
        have hs' : StateOf slotBase len resp (r :: done) s'.maps := by
          obtain ⟨s'', h1, h2⟩ := hjob.mpr hstep0
          rw [hj] at h1; injection h1 with h1; subst h1; exact h2
        have hnd' : (rs ++ (r :: done)).Nodup := by
          have : (rs ++ (r :: done)).Perm ((r :: rs) ++ done) := by
            simp only [List.cons_append]
            exact List.perm_middle
          exact this.nodup_iff.mpr hnd
        have ihh := (ih (r :: done) s' hs' hnd' (fun x hx => hin x (List.mem_cons_of_mem _ hx))).mp hsome
        intro pre rq post hsplit
        cases pre with
        | nil =>
          simp only [List.nil_append, List.cons.injEq] at hsplit
          obtain ⟨rfl, _⟩ := hsplit
          simpa using hstep0
        | cons p ps =>
          simp only [List.cons_append, List.cons.injEq] at hsplit
          obtain ⟨rfl, hrs⟩ := hsplit
          have := ihh ps rq post hrs
          simpa [List.reverse_cons, List.append_assoc] using this
    · intro hall
      have hstep0 : StepOK lastprev slotBase len resp done r := by
        have := hall [] r rs rfl; simpa using this
      obtain ⟨s', hj, hs'⟩ := hjob.mpr hstep0
      rw [hj]
      have hnd' : (rs ++ (r :: done)).Nodup := by
        have : (rs ++ (r :: done)).Perm ((r :: rs) ++ done) := by
          simp only [List.cons_append]
          exact List.perm_middle
        exact this.nodup_iff.mpr hnd
      apply (ih (r :: done) s' hs' hnd' (fun x hx => hin x (List.mem_cons_of_mem _ hx))).mpr
      intro pre rq post hsplit
      have := hall (r :: pre) rq post (by rw [hsplit]; rfl)
      simpa [List.reverse_cons, List.append_assoc] using this

/-- ✦ one batch, any arrival order: the batch is accepted exactly when every fetched map has the
    requested height and links to its predecessor (the first one to the previous batch's last map,
    or is the genesis map). The right-hand side does not mention the order. -/
theorem batch_ok_iff (order : List Nat) (hperm : order.Perm (List.range' slotBase len)) (np : Option BM) :
    (runBatch true lastprev slotBase lh len (order.map (fun rq => (rq, resp rq))) np).isSome = true ↔
      Good lastprev slotBase len resp := by
  rw [runBatch_eq]
  have hnd : order.Nodup := hperm.nodup_iff.mpr (List.nodup_range' (step := 1) (by omega))
  have hin : ∀ rq ∈ order, slotBase ≤ rq ∧ rq < slotBase + len := by
    intro rq hrq
    have := (hperm.mem_iff).mp hrq
    simp [List.mem_range'] at this
    omega
  have hmem : ∀ k, k < len → slotBase + k ∈ order := by
    intro k hk
    apply (hperm.mem_iff).mpr
    simp [List.mem_range']; omega
  rw [fold_iff lastprev slotBase lh len resp order [] _ (stateOf_nil slotBase len resp) (by simpa using hnd) hin]
  constructor
  · intro hall
    -- every request occurs in `order`: split there
    have hsplit : ∀ rq ∈ order, ∃ pre post, order = pre ++ rq :: post := fun rq h => List.append_of_mem h
    refine ⟨?_, ?_, ?_⟩
    · intro k hk
      obtain ⟨pre, post, hs⟩ := hsplit _ (hmem k hk)
      exact (hall pre _ post hs).1
    · intro hpos
      obtain ⟨pre, post, hs⟩ := hsplit _ (by simpa using hmem 0 hpos)
      exact (hall pre _ post hs).2.1 rfl
    · intro k hk
      -- positions of slotBase+k and slotBase+k+1 in order
      obtain ⟨pre, post, hs⟩ := hsplit _ (hmem (k + 1) hk)
      have hk0 := hmem k (by omega)
      rw [hs] at hk0
      rcases List.mem_append.mp hk0 with hpre | hpost
      · -- k arrived before k+1: checked backward at k+1
        have := (hall pre _ post hs).2.2.1 (by omega) (by simpa using hpre)
        simpa [show slotBase + (k + 1) - 1 = slotBase + k by omega, Nat.add_assoc] using this
      · rcases List.mem_cons.mp hpost with heq | hpost'
        · omega
        · -- k+1 arrived before k: checked forward at k
          obtain ⟨pre2, post2, hs2⟩ := List.append_of_mem hpost'
          have hs3 : order = (pre ++ (slotBase + (k + 1)) :: pre2) ++ (slotBase + k) :: post2 := by
            rw [hs, hs2]; simp
          have := (hall _ _ post2 hs3).2.2.2 (by omega) (by simp [Nat.add_assoc])
          simpa [Nat.add_assoc] using this
  · intro hg pre rq post hs
    obtain ⟨hheight, h0, hlink⟩ := hg
    have hrq := hin rq (by rw [hs]; simp)
    obtain ⟨k, hk⟩ : ∃ k, rq = slotBase + k := ⟨rq - slotBase, by omega⟩
    subst hk
    have hkl : k < len := by omega
    refine ⟨hheight k hkl, ?_, ?_, ?_⟩
    · intro he
      have : k = 0 := by omega
      subst this
      simpa using h0 (by omega)
    · intro hgt _
      have hk1 : k - 1 + 1 < len := by omega
      have := hlink (k - 1) hk1
      rw [show slotBase + (k - 1) + 1 = slotBase + k by omega] at this
      rw [show slotBase + k - 1 = slotBase + (k - 1) by omega]
      exact this
    · intro hlt _
      have := hlink k (by omega)
      simpa [Nat.add_assoc] using this

end


/-! ### all batches: the hand-over from one batch to the next -/

theorem job_newprev (lastprev : Option BM) (slotBase lh : Nat) (resp : Nat → BM) (s s' : BState) (rq : Nat)
    (hj : job true lastprev slotBase lh s rq (resp rq) = some s') :
    (resp rq).height = rq ∧ s'.newprev = if rq = lh then some (resp rq) else s.newprev := by
  unfold job at hj
  by_cases hh : (resp rq).height = rq
  · simp only [hh, decide_true, Bool.not_true, Bool.and_false, Bool.false_eq_true, if_false] at hj
    refine ⟨hh, ?_⟩
    cases hv : isValidMaps (resp rq) s.maps lastprev slotBase with
    | none => rw [hv] at hj; cases hj
    | some m => rw [hv] at hj; injection hj with hj; subst hj; rfl
  · simp [hh] at hj

theorem foldJobs_newprev (lastprev : Option BM) (slotBase lh : Nat) (resp : Nat → BM) :
    ∀ (rest : List Nat) (s s' : BState), foldJobs lastprev slotBase lh resp (some s) rest = some s' →
      s'.newprev = if lh ∈ rest then some (resp lh) else s.newprev := by
  intro rest
  induction rest with
  | nil => intro s s' h; simp [foldJobs] at h; subst h; simp
  | cons r rs ih =>
    intro s s' h
    have hunf : foldJobs lastprev slotBase lh resp (some s) (r :: rs) =
        foldJobs lastprev slotBase lh resp (job true lastprev slotBase lh s r (resp r)) rs := by
      simp [foldJobs]
    rw [hunf] at h
    cases hj : job true lastprev slotBase lh s r (resp r) with
    | none => rw [hj, foldJobs_none] at h; cases h
    | some s1 =>
      rw [hj] at h
      have h1 := ih s1 s' h
      have h2 := (job_newprev lastprev slotBase lh resp s s1 r hj).2
      rw [h1, h2]
      by_cases e : r = lh
      · subst e; by_cases hm : r ∈ rs <;> simp [hm]
      · have : (lh ∈ r :: rs) ↔ lh ∈ rs := by simp [Ne.symm e]
        by_cases hm : lh ∈ rs <;> simp [hm, e, Ne.symm e]

/-- the chain from job `i` on: requested heights, the first of them linked to `np` (or genesis), each next one to
    its predecessor -/
def GoodFrom (np : Option BM) (reqBase size : Nat) (resp : Nat → BM) (i : Nat) : Prop :=
  (∀ k, i ≤ k → k < size → (resp (reqBase + k)).height = reqBase + k) ∧
  (i < size → ((resp (reqBase + i)).height = 0 ∨ ∃ p, np = some p ∧ (resp (reqBase + i)).prev = p.hash)) ∧
  (∀ k, i ≤ k → k + 1 < size → (resp (reqBase + k + 1)).prev = (resp (reqBase + k)).hash)

/-- the batches start at multiples of the limit (so the slot count the code computes is the batch size) -/
def Aligned (limit : Nat) (bs : List Batch) : Prop := ∀ b ∈ bs, b.first % limit = 0

theorem len_eq (limit : Nat) (b : Batch) (hl : 0 < limit) (ha : b.first % limit = 0) (h1 : b.first ≤ b.last)
    (h2 : b.last + 1 ≤ b.first + limit) :
    (if (b.last + 1) % limit = 0 then limit else (b.last + 1) % limit) = b.last - b.first + 1 := by
  obtain ⟨q, hq⟩ : ∃ q, b.first = limit * q := ⟨b.first / limit, by have := Nat.div_add_mod b.first limit; omega⟩
  have hn : b.last + 1 = limit * q + (b.last - b.first + 1) := by omega
  by_cases hfull : b.last - b.first + 1 = limit
  · have : (b.last + 1) % limit = 0 := by
      rw [hn, hfull, ← Nat.mul_succ]; exact Nat.mul_mod_right _ _
    simp [this, hfull]
  · have hlt : b.last - b.first + 1 < limit := by omega
    have : (b.last + 1) % limit = b.last - b.first + 1 := by
      rw [hn, Nat.mul_add_mod]; exact Nat.mod_eq_of_lt hlt
    rw [this]
    have : ¬ (b.last - b.first + 1 = 0) := by omega
    simp [this]


theorem go_iff (limit size reqBase : Nat) (hl : 0 < limit) (resp : Nat → BM)
    (arrive : Batch → List (Nat × BM)) :
    ∀ (bs : List Batch) (i : Nat) (np : Option BM),
      Covers limit size i bs → Aligned limit bs →
      slotBaseOf np = reqBase + i →
      (∀ b ∈ bs, ∃ order : List Nat, order.Perm (List.range' (reqBase + b.first) (b.last - b.first + 1)) ∧
          arrive b = order.map (fun rq => (rq, resp rq))) →
      (validate.go true limit arrive reqBase bs np = true ↔ GoodFrom np reqBase size resp i) := by
  intro bs
  induction bs with
  | nil =>
    intro i np hc _ _ _
    simp only [Covers] at hc
    subst hc
    simp only [validate.go, true_iff]
    exact ⟨fun k h1 h2 => by omega, fun h => by omega, fun k h1 h2 => by omega⟩
  | cons b rest ih =>
    intro i np hc hal hsb harr
    simp only [Covers] at hc
    obtain ⟨hf, hle, hlt, hsz, hcov⟩ := hc
    have halb : b.first % limit = 0 := hal b (by simp)
    obtain ⟨order, hperm, harrb⟩ := harr b (by simp)
    have hlen := len_eq limit b hl halb hle hsz
    -- the batch, as `batch_ok_iff` speaks of it
    have hbatch := batch_ok_iff np (reqBase + i) (reqBase + b.last) (b.last - b.first + 1) resp order
      (by rw [← hf]; exact hperm) np
    simp only [validate.go, hlen, hsb, harrb]
    have hlh_mem : reqBase + b.last ∈ order := by
      apply (hperm.mem_iff).mpr
      rw [List.mem_range'_1]; omega
    cases hr : runBatch true np (reqBase + i) (reqBase + b.last) (b.last - b.first + 1)
        (order.map (fun rq => (rq, resp rq))) np with
    | none =>
      simp only [Bool.false_eq_true, false_iff]
      intro hg
      have : Good np (reqBase + i) (b.last - b.first + 1) resp := by
        obtain ⟨g1, g2, g3⟩ := hg
        refine ⟨?_, ?_, ?_⟩
        · intro k hk
          have := g1 (i + k) (by omega) (by omega)
          simpa [Nat.add_assoc] using this
        · intro _
          exact g2 (by omega)
        · intro k hk
          have := g3 (i + k) (by omega) (by omega)
          simpa [Nat.add_assoc] using this
      have := hbatch.mpr this
      rw [hr] at this
      cases this
    | some s =>
      simp only
      have hgood : Good np (reqBase + i) (b.last - b.first + 1) resp := hbatch.mp (by rw [hr]; rfl)
      obtain ⟨b1, b2, b3⟩ := hgood
      -- what is handed to the next batch
      have hnp : s.newprev = some (resp (reqBase + b.last)) := by
        rw [runBatch_eq] at hr
        have := foldJobs_newprev np (reqBase + i) (reqBase + b.last) resp order _ s hr
        rw [this]; simp [hlh_mem]
      have hlastheight : (resp (reqBase + b.last)).height = reqBase + b.last := by
        have := b1 (b.last - b.first) (by clear b2; omega)
        rw [show reqBase + i + (b.last - b.first) = reqBase + b.last by clear b2; omega] at this
        exact this
      rw [hnp]
      rw [ih (b.last + 1) (some (resp (reqBase + b.last))) hcov (fun x hx => hal x (List.mem_cons_of_mem _ hx))
        (by simp only [slotBaseOf, hlastheight]; clear b2; omega) (fun x hx => harr x (List.mem_cons_of_mem _ hx))]
      constructor
      · rintro ⟨g1, g2, g3⟩
        refine ⟨?_, ?_, ?_⟩
        · intro k hk1 hk2
          by_cases hin : k ≤ b.last
          · have := b1 (k - i) (by clear b2; omega)
            rw [show reqBase + i + (k - i) = reqBase + k by clear b2; omega] at this
            exact this
          · exact g1 k (by clear b2; omega) hk2
        · intro _
          have := b2 (by omega)
          simpa using this
        · intro k hk1 hk2
          by_cases hin : k + 1 ≤ b.last
          · have := b3 (k - i) (by clear b2; omega)
            rw [show reqBase + i + (k - i) + 1 = reqBase + k + 1 by omega,
              show reqBase + i + (k - i) = reqBase + k by clear b2; omega] at this
            exact this
          · by_cases hk : k = b.last
            · subst hk
              rcases g2 (by clear b2; omega) with h0 | ⟨p, hp, hlink⟩
              · have := g1 (b.last + 1) (by clear b2; omega) (by clear b2; omega)
                rw [show reqBase + (b.last + 1) = reqBase + b.last + 1 by clear b2; omega] at this h0
                omega
              · injection hp with hp
                subst hp
                rw [show reqBase + (b.last + 1) = reqBase + b.last + 1 by clear b2; omega] at hlink
                exact hlink
            · exact g3 k (by clear b2; omega) hk2
      · rintro ⟨g1, g2, g3⟩
        refine ⟨fun k hk1 hk2 => g1 k (by clear b2; omega) hk2, ?_, fun k hk1 hk2 => g3 k (by clear b2; omega) hk2⟩
        intro hlt2
        right
        refine ⟨_, rfl, ?_⟩
        have := g3 b.last (by clear b2; omega) (by clear b2; omega)
        rw [show reqBase + (b.last + 1) = reqBase + b.last + 1 by clear b2; omega]
        exact this


theorem planFrom_aligned (size limit : Nat) : ∀ (fuel i : Nat), i % limit = 0 →
    Aligned limit (planFrom size limit fuel i) := by
  intro fuel
  induction fuel with
  | zero => intro i _ b hb; simp [planFrom] at hb
  | succ f ih =>
    intro i hi b hb
    unfold planFrom at hb
    simp only at hb
    have hrec := ih (i + limit) (by rw [Nat.add_mod_right]; exact hi)
    by_cases h1 : (if i + limit > size then size else i + limit) = size
    · rw [if_pos h1] at hb
      simp only [List.mem_singleton] at hb; subst hb; exact hi
    · rw [if_neg h1] at hb
      rcases List.mem_cons.mp hb with rfl | hb'
      · exact hi
      · exact hrec b hb'

theorem plan_aligned (size limit : Nat) (bs : List Batch) (h : plan size limit = some bs) : Aligned limit bs := by
  unfold plan at h
  split at h
  · cases h
  · split at h
    · injection h with h; subst h
      intro b hb; simp only [List.mem_singleton] at hb; subst hb; simp
    · injection h with h; subst h
      exact planFrom_aligned size limit (size + 1) 0 (by simp)

/-- **validate_iff_linked.**  For every number of requested heights, every batch limit and every arrival order
inside each batch: `BatchIsValidMaps` accepts exactly when every fetched map has the requested height, the first
one links to the previous map (or is the genesis map) and each next one links to its predecessor — across the
batch boundaries too (the last map of a batch is what the first of the next is linked to). -/
theorem validate_iff_linked (prev : Option BM) (limit size : Nat) (hs : 0 < size) (hl : 0 < limit)
    (resp : Nat → BM) (arrive : Batch → List (Nat × BM)) (bs : List Batch) (hplan : plan size limit = some bs)
    (harr : ∀ b ∈ bs, ∃ order : List Nat,
      order.Perm (List.range' (slotBaseOf prev + b.first) (b.last - b.first + 1)) ∧
      arrive b = order.map (fun rq => (rq, resp rq))) :
    validate true prev limit bs arrive = true ↔ GoodFrom prev (slotBaseOf prev) size resp 0 := by
  obtain ⟨bs', hbs', hcov⟩ := batch_plan_partition size limit hs hl
  rw [hplan] at hbs'
  injection hbs' with hbs'
  subst hbs'
  unfold validate
  exact go_iff limit size (slotBaseOf prev) hl resp arrive bs 0 prev hcov (plan_aligned size limit bs hplan) (by simp) harr

/-- two batches of three with a last batch of one, each batch arriving backwards -/
example :
    let resp : Nat → BM := fun h => { height := h, hash := 100 + h, prev := 99 + h }
    let prev : Option BM := some { height := 4, hash := 104, prev := 103 }
    validate true prev 3 ((plan 7 3).getD []) (fun b => ((List.range' (5 + b.first) (b.last - b.first + 1)).reverse.map (fun rq => (rq, resp rq)))) = true := by
  decide


/-- ✗ without the height check (the unrepaired code) a duplicated height slips through: requests
    h+1, h+2, h+3 answered with M(h+1), M(h+1), M(h+2) are accepted. -/
theorem duplicate_height_witness :
    let prev : BM := { height := 4, hash := 1004, prev := 1003 }
    let m5 : BM := { height := 5, hash := 1005, prev := 1004 }
    let m6 : BM := { height := 6, hash := 1006, prev := 1005 }
    (runBatch false (some prev) 5 7 3 [(5, m5), (6, m5), (7, m6)] (some prev)).isSome = true ∧
    (runBatch true (some prev) 5 7 3 [(5, m5), (6, m5), (7, m6)] (some prev)).isSome = false := by decide

/-- ✦ facts of the current source -/
theorem facts_ok : Gen.C14.extractErrors = [] ∧ Gen.C14.checksReturnedHeight = true ∧ Gen.C14.pins = Pins.C14 := by
  refine ⟨by decide, by decide, by decide⟩

example : Good (some ⟨4, 1004, 1003⟩) 5 2 (fun h => ⟨h, 1000 + h, 999 + h⟩) := by
  refine ⟨fun k _ => rfl, fun _ => Or.inr ⟨_, rfl, rfl⟩, ?_⟩
  intro k hk; simp; omega

end Mitum.C14
