import MitumModel.Common
/-
Model of the suffrage-expel-operation part of `TempPool`
(isaac/database/pool.go): keys are `prefix ‖ end ‖ factHash`, the three
readers iterate in descending key order.  `startAboveContinues` and
`endBelowStops` are the regenerated branch outcomes of the iteration callbacks.
-/
namespace Mitum.ExpelPool

structure Ex where
  node : Nat
  start : Nat
  stop : Nat      -- `ExpelEnd`
  hash : Nat      -- rank of the fact hash bytes (tie-break of the key order)
deriving Repr, DecidableEq

structure Cfg where
  startAboveContinues : Bool
  endBelowStops : Bool
deriving Repr, DecidableEq

def covers (r : Ex) (h : Nat) : Bool := decide (r.start ≤ h) && decide (h ≤ r.stop)

/-- key order, descending: by end, then by hash -/
def keyGe (a b : Ex) : Bool := decide (b.stop < a.stop) || (decide (a.stop = b.stop) && decide (b.hash ≤ a.hash))

/-- `SetSuffrageExpelOperation`: put under the key (end, hash) (overwrites the same key) -/
def put (store : List Ex) (r : Ex) : List Ex :=
  sortBy keyGe (r :: store.filter (fun x => !(x.stop = r.stop ∧ x.hash = r.hash)))

/-- `TraverseSuffrageExpelOperations` with a callback that always continues -/
def traverse (c : Cfg) (h : Nat) : List Ex → List Ex
  | [] => []
  | r :: rs =>
    if r.stop < h then (if c.endBelowStops then [] else traverse c h rs)
    else if h < r.start then (if c.startAboveContinues then traverse c h rs else [])
    else r :: traverse c h rs

/-- `SuffrageExpelOperation(height, node)` -/
def lookup (c : Cfg) (h node : Nat) : List Ex → Option Ex
  | [] => none
  | r :: rs =>
    if r.node ≠ node then lookup c h node rs
    else if r.stop < h then (if c.endBelowStops then none else lookup c h node rs)
    else if h < r.start then (if c.startAboveContinues then lookup c h node rs else none)
    else some r

/-- `RemoveSuffrageExpelOperationsByHeight` -/
def removeByHeight (h : Nat) (store : List Ex) : List Ex := store.filter (fun r => decide (h < r.stop))

end Mitum.ExpelPool
