import MitumModel.Common
/-! Lemmas about `Mitum.sortBy` (insertion sort): permutation, sortedness, uniqueness. -/
namespace Mitum

theorem insertBy_perm {α : Type} (le : α → α → Bool) (x : α) (l : List α) :
    (insertBy le x l).Perm (x :: l) := by
  induction l with
  | nil => exact List.Perm.refl _
  | cons y ys ih =>
    unfold insertBy
    split
    · exact List.Perm.refl _
    · exact ((List.Perm.cons y ih).trans (List.Perm.swap x y ys))

theorem sortBy_perm {α : Type} (le : α → α → Bool) (l : List α) : (sortBy le l).Perm l := by
  induction l with
  | nil => exact List.Perm.refl _
  | cons x xs ih =>
    unfold sortBy
    exact (insertBy_perm le x _).trans (List.Perm.cons x ih)

theorem insertBy_pairwise {α : Type} (le : α → α → Bool)
    (htotal : ∀ a b, le a b = true ∨ le b a = true)
    (htrans : ∀ a b c, le a b = true → le b c = true → le a c = true)
    (x : α) (l : List α) (h : l.Pairwise (fun a b => le a b = true)) :
    (insertBy le x l).Pairwise (fun a b => le a b = true) := by
  induction l with
  | nil => simp [insertBy]
  | cons y ys ih =>
    unfold insertBy
    have hy := (List.pairwise_cons.mp h)
    split
    · rename_i hxy
      refine List.pairwise_cons.mpr ⟨?_, h⟩
      intro z hz
      rcases List.mem_cons.mp hz with rfl | hz'
      · exact hxy
      · exact htrans _ _ _ hxy (hy.1 z hz')
    · rename_i hxy
      have hyx : le y x = true := by
        rcases htotal x y with h1 | h1
        · exact absurd h1 hxy
        · exact h1
      refine List.pairwise_cons.mpr ⟨?_, ih hy.2⟩
      intro z hz
      have := (insertBy_perm le x ys).subset hz
      rcases List.mem_cons.mp this with rfl | hz'
      · exact hyx
      · exact hy.1 z hz'

theorem sortBy_pairwise {α : Type} (le : α → α → Bool)
    (htotal : ∀ a b, le a b = true ∨ le b a = true)
    (htrans : ∀ a b c, le a b = true → le b c = true → le a c = true)
    (l : List α) : (sortBy le l).Pairwise (fun a b => le a b = true) := by
  induction l with
  | nil => simp [sortBy]
  | cons x xs ih => unfold sortBy; exact insertBy_pairwise le htotal htrans x _ ih

/-- two permutations of each other, both sorted by an antisymmetric order, are equal -/
theorem sortBy_eq_of_perm {α : Type} (le : α → α → Bool)
    (htotal : ∀ a b, le a b = true ∨ le b a = true)
    (htrans : ∀ a b c, le a b = true → le b c = true → le a c = true)
    (hanti : ∀ a b, le a b = true → le b a = true → a = b)
    (l₁ l₂ : List α) (h : l₁.Perm l₂) : sortBy le l₁ = sortBy le l₂ := by
  have hp : (sortBy le l₁).Perm (sortBy le l₂) :=
    ((sortBy_perm le l₁).trans h).trans (sortBy_perm le l₂).symm
  exact List.Perm.eq_of_pairwise (le := fun a b => le a b = true)
    (fun a b _ _ hab hba => hanti a b hab hba)
    (sortBy_pairwise le htotal htrans l₁) (sortBy_pairwise le htotal htrans l₂) hp

end Mitum
