package main

import "strings"

func init() { register("C10", genC10) }

func genC10(o *Out) {
	fp := o.pinFile("isaac/proposal_processor.go", "DefaultProposalProcessor.processOperations", "DefaultProposalProcessor.processOperation",
		"DefaultProposalProcessor.doPreProcessOperation", "DefaultProposalProcessor.doProcessOperation", "DefaultProposalProcessor.getOperation",
		"DefaultProposalProcessor.collectOperations")
	fw := o.pinFile("isaac/block/writer.go", "Writer.SetProcessResult", "Writer.SetStates", "Writer.closeStateValues", "Writer.statesMergerClose", "Writer.Manifest")
	fm := o.pinFile("isaac/block/states_merger.go", "DefaultStatesMerger.SetStates", "DefaultStatesMerger.CloseStates", "DefaultStatesMerger.setState", "DefaultStatesMerger.sortStateKeys")
	fj := o.pinFile("isaac/operation/suffrage_join_processor.go", "SuffrageJoinStateValueMerger.Merge", "SuffrageJoinStateValueMerger.CloseValue", "SuffrageJoinStateValueMerger.closeValue",
		"SuffrageJoinProcessor.Process")
	fc := o.pinFile("isaac/operation/suffrage_candidate_processor.go", "SuffrageCandidatesStateValueMerger.Merge", "SuffrageCandidatesStateValueMerger.CloseValue",
		"SuffrageCandidatesStateValueMerger.closeValue", "SuffrageCandidateProcessor.Process")
	fb := o.pinFile("base/base_state.go", "BaseStateValueMerger.Merge", "BaseStateValueMerger.CloseValue", "BaseStateValueMerger.addOperation")
	fn := o.pinFile("isaac/operation/policy_network_processor.go", "NetworkPolicyProcessor.PreProcess", "NetworkPolicyProcessor.Process")
	fd := o.pinFile("isaac/operation/suffrage_disjoin_processor.go", "SuffrageDisjoinProcessor.Process")
	fx := o.pinFile("isaac/operation/suffrage_expel_processor.go", "SuffrageExpelProcessor.Process")
	_ = o.pinFile("util/fixedtree/writer.go", "Writer.Add", "Writer.Tree", "Writer.shrinkNodes")
	if fp == nil || fw == nil || fm == nil || fj == nil || fc == nil || fb == nil || fn == nil || fd == nil || fx == nil {
		return
	}
	body := func(fl *File, recv, name string) string {
		d := fl.Func(recv, name)
		if d == nil {
			o.errf("%s.%s not found", recv, name)
			return ""
		}
		return normSpace(fl.Src(d.Body))
	}
	po := body(fp, "DefaultProposalProcessor", "processOperation")
	pos := body(fp, "DefaultProposalProcessor", "processOperations")
	// pre-processing runs on the calling goroutine, in index order; Process is handed to the worker
	o.boolean("preProcessSequential", strings.Contains(pos, "for i := 0; i < len(cops)+len(reserved); i++ {") &&
		strings.Contains(pos, "pctx, hasresult, err = p.processOperation(pctx, worker, op, index)") &&
		strings.Contains(po, "switch pctx, reasonerr, passed, err := p.doPreProcessOperation(ctx, op); {") &&
		!strings.Contains(po[:strings.Index(po, "p.doPreProcessOperation")], "worker.NewJob(func(ctx context.Context, _ uint64) error { return p.do"))
	o.boolean("processInWorker", strings.Contains(po, "worker.NewJob(func(ctx context.Context, _ uint64) error { return p.doProcessOperation(ctx, writer, newOperationProcessor, uint64(opsindex), op) })") &&
		strings.Contains(pos, "worker.Done() if err := worker.Wait(); err != nil {"))
	cs := body(fm, "DefaultStatesMerger", "CloseStates")
	o.boolean("keysSorted", strings.Contains(body(fm, "DefaultStatesMerger", "sortStateKeys"), "sort.Strings(sortedkeys)") &&
		strings.Contains(cs, "sortedkeys := sm.sortStateKeys()") && strings.Contains(cs, "index := uint64(i)") && strings.Contains(cs, "return oneState(newst, total, index)"))
	o.boolean("treeByIndex", strings.Contains(body(fw, "Writer", "SetProcessResult"), "w.opstreeg.Add(index, node)") &&
		strings.Contains(body(fw, "Writer", "statesMergerClose"), "tg.Add(index, fixedtree.NewBaseNode(st.Hash().String()))"))
	o.boolean("joinedSortedByAddress", strings.Contains(body(fj, "SuffrageJoinStateValueMerger", "closeValue"),
		"sort.Slice(s.joined, func(i, j int) bool { // NOTE sort by address return s.joined[i].Address().String() < s.joined[j].Address().String() })") ||
		strings.Contains(body(fj, "SuffrageJoinStateValueMerger", "closeValue"), "return s.joined[i].Address().String() < s.joined[j].Address().String()"))
	o.boolean("candidatesSortedByAddress", strings.Contains(body(fc, "SuffrageCandidatesStateValueMerger", "closeValue"), "return s.added[i].Address().String() < s.added[j].Address().String()"))
	o.boolean("stateOpsSorted", strings.Contains(body(fb, "BaseStateValueMerger", "CloseValue"), "sort.Slice(s.ops, func(i, j int) bool { return s.ops[i].String() < s.ops[j].String() })"))
	np := body(fn, "NetworkPolicyProcessor", "PreProcess")
	o.boolean("onePolicyPerBlock", strings.HasPrefix(strings.TrimPrefix(np, "{ e := util.StringError(\"preprocess for network policy\") "),
		"if p.newop != nil { return ctx, base.NewBaseOperationProcessReason(\"only one network policy operation allowed\"), nil }") &&
		strings.Contains(np, "p.newop = op.Hash()"))
	// every value for the suffrage key names the join merger, every value for the candidates key the candidates merger
	jm := "func(height base.Height, st base.State) base.StateValueMerger { return NewSuffrageJoinStateValueMerger(height, st) }"
	cm := "func(height base.Height, st base.State) base.StateValueMerger { return NewSuffrageCandidatesStateValueMerger(height, st) }"
	jp := body(fj, "SuffrageJoinProcessor", "Process")
	o.boolean("mergersPerKeyConsistent", strings.Count(jp, jm) == 1 && strings.Count(jp, cm) == 1 &&
		strings.Count(body(fd, "SuffrageDisjoinProcessor", "Process"), jm) == 1 && strings.Count(body(fx, "SuffrageExpelProcessor", "Process"), jm) == 1 &&
		strings.Count(body(fc, "SuffrageCandidateProcessor", "Process"), cm) == 1)
}
