package main

import (
	"go/ast"
	"strings"
)

func init() { register("C15", genC15) }

func genC15(o *Out) {
	f := o.pinFile("isaac/block/import_block.go", "ImportBlocks", "importBlock", "saveImporters", "cancelImporters")
	o.pinFile("util/worker.go", "BatchWork")
	if f == nil {
		return
	}
	fd := f.Func("", "ImportBlocks")
	cond := "?"
	prefSaves := false
	if fd != nil {
		// the top-level `if <cond> { saveImporters(...) }` after the BatchWork call
		for _, st := range fd.Body.List {
			is, ok := st.(*ast.IfStmt)
			if !ok || is.Init != nil {
				continue
			}
			if strings.Contains(f.Src(is.Body), "saveImporters(") {
				cond = normSpace(f.Src(is.Cond))
			}
		}
		// an unconditional final save would be a plain `if err := saveImporters(...)` statement
		if cond == "?" {
			for _, st := range fd.Body.List {
				if is, ok := st.(*ast.IfStmt); ok && is.Init != nil && strings.Contains(f.Src(is.Init), "saveImporters(") {
					cond = ""
				}
			}
		}
		// pref callback: `if ims != nil { saveImporters(...) }`
		ast.Inspect(fd.Body, func(n ast.Node) bool {
			fl, ok := n.(*ast.FuncLit)
			if !ok {
				return true
			}
			for _, st := range fl.Body.List {
				if is, ok := st.(*ast.IfStmt); ok && normSpace(f.Src(is.Cond)) == "ims != nil" && strings.Contains(f.Src(is.Body), "saveImporters(") {
					prefSaves = true
				}
			}
			return true
		})
	}
	if cond == "?" {
		o.errf("import_block.go: final saveImporters call not found")
	}
	o.str("finalSaveCond", cond)
	o.boolean("prefSavesPrevious", prefSaves)
	// saveImporters: the one-importer branch returns the merge step's error; the merge loop runs every merge
	single, loop := false, false
	if sd := f.Func("", "saveImporters"); sd != nil {
		src := normSpace(f.Src(sd.Body))
		single = strings.Contains(src, "case len(ims) < 2: deferred, err := ims[0].Save(ctx) if err != nil { _ = cancelImporters(ctx, ims) return err } if err := deferred(ctx); err != nil { _ = cancelImporters(ctx, ims) return err }")
		loop = strings.Contains(src, "for i := range deferreds { if err := deferreds[i](ctx); err != nil { _ = cancelImporters(ctx, ims) return err } }")
	} else {
		o.errf("saveImporters not found")
	}
	o.boolean("singleBranchReturnsMergeError", single)
	o.boolean("mergeLoopIgnoresContext", loop)
}
