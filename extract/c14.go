package main

import (
	"go/ast"
	"strings"
)

func init() { register("C14", genC14) }

func genC14(o *Out) {
	f := o.pinFile("base/block.go", "IsValidManifests", "BatchIsValidMaps", "IsValidMaps")
	o.pinFile("util/worker.go", "BatchWork", "RunJobWorker", "runWorker")
	if f == nil {
		return
	}
	// the job callback rejects a fetched map whose height differs from the requested height
	chk := false
	if fd := f.Func("", "BatchIsValidMaps"); fd != nil {
		ast.Inspect(fd.Body, func(n ast.Node) bool {
			is, ok := n.(*ast.IfStmt)
			if !ok {
				return true
			}
			c := normSpace(f.Src(is.Cond))
			if (c == "m.Manifest().Height() != height" || c == "height != m.Manifest().Height()") && strings.Contains(f.Src(is.Body), "return") &&
				strings.Contains(f.Src(is.Body), "Errorf") {
				chk = true
			}
			return true
		})
	}
	o.boolean("checksReturnedHeight", chk)
}
