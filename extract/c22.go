package main

func init() { register("C22", genC22) }

func genC22(o *Out) {
	o.pinFile("isaac/database/pool.go", "TempPool.OperationHashes", "TempPool.SetOperation", "TempPool.setRemoveNewOperations",
		"TempPool.removeNewOperationOrdereds", "newNewOperationLeveldbKeys")
	o.pinFile("isaac/database/leveldb.go", "leveldbNewOperationOrderedKey", "leveldbNewOperationKeysKey", "leveldbNewOperationKey")
}
