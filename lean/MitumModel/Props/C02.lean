import MitumModel.Model.Threshold
import MitumModel.Gen.C02
/-!
C02  Required vote count is exactly the ceiling of n·t/100.
Property theorems only.
-/
namespace Mitum.C02
open Mitum.Threshold

/-- ✦ `required n t10` is the least integer that is at least `n*t10/1000`
    (i.e. `n*t/100`), for every suffrage size and every threshold. -/
theorem required_is_least (n t10 : Nat) :
    n * t10 ≤ 1000 * required n t10 ∧
    ∀ k, n * t10 ≤ 1000 * k → required n t10 ≤ k := by
  unfold required
  generalize n * t10 = x
  constructor
  · omega
  · intro k hk; omega

/-- ✦ the required count never exceeds the suffrage size for thresholds ≤ 100 %. -/
theorem required_le_n (n t10 : Nat) (h : t10 ≤ 1000) : required n t10 ≤ n := by
  have h1 : n * t10 ≤ 1000 * n := by
    rw [Nat.mul_comm 1000 n]; exact Nat.mul_le_mul_left n h
  exact (required_is_least n t10).2 n h1

/-- ✦ a non-empty suffrage with a positive threshold requires at least one vote. -/
theorem required_pos (n t10 : Nat) (hn : 0 < n) (ht : 0 < t10) : 0 < required n t10 := by
  have hx : 0 < n * t10 := Nat.mul_pos hn ht
  unfold required
  generalize n * t10 = x at hx
  omega

/-- ✦ 100 % requires everybody. -/
theorem required_full (n : Nat) : required n 1000 = n := by
  unfold required; omega

/-- ✦ monotone in the suffrage size and in the threshold. -/
theorem required_mono (n m t u : Nat) (h1 : n ≤ m) (h2 : t ≤ u) :
    required n t ≤ required m u := by
  have h : n * t ≤ m * u := Nat.mul_le_mul h1 h2
  unfold required
  generalize n * t = x at h
  generalize m * u = y at h
  omega

/-- quorum intersection arithmetic used by C03: with `t ≥ 67 %` two quorums overlap
    in more than `n - required` nodes. -/
theorem two_quorums_exceed (n t10 : Nat) (ht : 670 ≤ t10) (hn : 0 < n) :
    2 * n < 3 * required n t10 := by
  have h := (required_is_least n t10).1
  have h2 : n * 670 ≤ n * t10 := Nat.mul_le_mul_left n ht
  omega

/-- ✦ tie (regenerated): the return expression translated from the current source of
    `base.Threshold.Threshold` *is* the exact ceiling, for all arguments. -/
theorem code_is_exact :
    Gen.C02.thresholdTranslated = true ∧ Gen.C02.extractErrors = [] ∧
    Gen.C02.t10Definition = "uint64(math.Round(t.Float64()*10))" ∧
    ∀ q t10, Gen.C02.thresholdReturn q t10 = required q t10 := by
  refine ⟨by decide, by decide, by decide, ?_⟩
  intro q t10
  show ((((q * t10) + 999)) / 1000) = (q * t10 + 999) / 1000
  rfl

/-- ✦ hence the code's result is the least sufficient count. -/
theorem code_required_is_least (q t10 : Nat) :
    q * t10 ≤ 1000 * Gen.C02.thresholdReturn q t10 ∧
    ∀ k, q * t10 ≤ 1000 * k → Gen.C02.thresholdReturn q t10 ≤ k := by
  rw [code_is_exact.2.2.2 q t10]; exact required_is_least q t10

-- non-vacuity / sanity: the float code's first bad point, computed exactly
example : required 1875 536 = 1005 := by decide
example : required 100 670 = 67 := by decide
example : required 100 550 = 55 := by decide

end Mitum.C02
