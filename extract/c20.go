package main

import "strings"

func init() { register("C20", genC20) }

func genC20(o *Out) {
	f := o.pinFile("isaac/database/perm_leveldb.go", "NewLeveldbPermanent", "LeveldbPermanent.loadLastBlockMap", "LeveldbPermanent.loadLastSuffrageProof",
		"LeveldbPermanent.loadNetworkPolicy")
	_ = o.pinFile("isaac/database/perm_base.go", "basePermanent.LastSuffrageProofBytes", "basePermanent.LastBlockMapBytes", "basePermanent.LastSuffrageProof", "basePermanent.LastBlockMap")
	g := o.pinFile("isaac/database/leveldb.go", "baseLeveldb.loadLastBlockMap", "baseLeveldb.loadNetworkPolicy")
	ct := o.pinFile("isaac/database/center.go", "Center.load", "loadTemps", "loadTemp", "Center.RemoveBlocks", "Center.removeTemp", "Center.cleanRemoved")
	bw := o.pinFile("isaac/database/block_write.go", "removeHigherHeights", "LeveldbBlockWrite.setState", "LeveldbBlockWrite.isLastStates", "LeveldbBlockWrite.updateLockedStates")
	// what a merge into the permanent database copies (the model's mergePerm moves a whole block): verified against the
	// chain model under C19 / C21, pinned here
	_ = o.pinFile("isaac/database/perm_leveldb.go", "LeveldbPermanent.mergeTempDatabaseFromLeveldb")
	if f == nil || g == nil || ct == nil {
		return
	}
	// the temps of a Center opened anew (Model/ReopenTemps.lean)
	scansAll := false
	if fd := ct.Func("", "loadTemp"); fd != nil {
		src := normSpace(ct.Src(fd.Body))
		scansAll = strings.Contains(src, "for i := range prefixes { prefix := prefixes[i] if found != nil { useless = append(useless, prefix) continue }") &&
			strings.Contains(src, "case !ismerged: useless = append(useless, prefix) continue default: found = temp")
	} else {
		o.errf("loadTemp not found")
	}
	o.boolean("loadTempScansAll", scansAll)
	removes := false
	if fd := ct.Func("Center", "RemoveBlocks"); fd != nil {
		src := normSpace(ct.Src(fd.Body))
		removes = strings.Contains(src, "util.TraverseSlice(db.temps[:index+1], func(_ int, temp isaac.TempDatabase) error { return temp.Remove() })")
	} else {
		o.errf("Center.RemoveBlocks not found")
	}
	o.boolean("removeBlocksRemovesOnDisk", removes)
	bm := false
	if fd := g.Func("baseLeveldb", "loadLastBlockMap"); fd != nil {
		src := normSpace(g.Src(fd.Body))
		bm = strings.Contains(src, "enchint, meta, body, err = ReadOneHeaderFrame(b)") && strings.Contains(src, "return m, enchint, meta, body, nil")
	}
	if fd := f.Func("LeveldbPermanent", "loadLastBlockMap"); fd != nil {
		bm = bm && strings.Contains(normSpace(f.Src(fd.Body)), "db.mp.SetValue([3]interface{}{m, meta, body})")
	}
	o.boolean("blockMapLoaderKeepsBody", bm)
	pf := false
	if fd := f.Func("LeveldbPermanent", "loadLastSuffrageProof"); fd != nil {
		src := normSpace(f.Src(fd.Body))
		// body must be assigned from the frame before it is stored
		pf = strings.Contains(src, "db.proof.SetValue([3]interface{}{proof, meta, body})") &&
			(strings.Contains(src, "meta, body, err = ReadOneHeaderFrame(b)") || strings.Contains(src, ", body, err = ReadOneHeaderFrame(b)"))
	}
	o.boolean("proofLoaderKeepsBody", pf)
	// the block writer: which state of a key it writes and which it keeps in memory (Model/WriterStates.lean)
	if bw != nil {
		src := func(recv, name string) string {
			fd := bw.Func(recv, name)
			if fd == nil {
				o.errf("%s.%s not found", recv, name)
				return ""
			}
			return normSpace(bw.Src(fd.Body))
		}
		il, ul, ss := src("LeveldbBlockWrite", "isLastStates"), src("LeveldbBlockWrite", "updateLockedStates"), src("LeveldbBlockWrite", "setState")
		disk, diskOK := false, true
		switch {
		case strings.Contains(il, "if found && st.Height() <= i { return base.NilHeight, errors.Errorf(\"old\") }"):
			disk = true
		case strings.Contains(il, "if found && st.Height() < i { return base.NilHeight, errors.Errorf(\"old\") }"):
		default:
			diskOK = false
		}
		mem, memOK := false, true
		switch {
		case strings.Contains(ul, "if i != nil && st.Height() <= i.Height() { return i, nil }"):
			mem = true
		case strings.Contains(ul, "if i != nil && st.Height() < i.Height() { return i, nil }"):
		default:
			memOK = false
		}
		if !diskOK || !memOK {
			o.errf("block writer: the comparison of isLastStates / updateLockedStates is not of a known form")
		}
		o.boolean("writerDiskKeepsFirst", disk)
		o.boolean("writerMemKeepsFirst", mem)
		// nothing is remembered that was not written: the guard comes first, the memory update and the record follow it
		a, b, c := strings.Index(ss, "if !db.isLastStates(st) { return nil }"), strings.Index(ss, "db.updateLockedStates(st, db.sufst)"), strings.Index(ss, "db.batchAdd(leveldbStateKey(st.Key()), b)")
		o.boolean("writerMemoryFollowsDisk", a >= 0 && a < b && b < c && strings.Contains(ss, "db.updateLockedStates(st, db.policy)"))
	}
}
