import MitumModel.Model.LastPoint
import MitumModel.Model.LastVoteproofs
import MitumModel.Gen.C06
import MitumModel.Pins
/-!
C06  Consensus progress is monotonic.
-/
namespace Mitum.C06
open Mitum.LastPoint

/-- ✦ an accepted update never lowers the height. -/
theorem height_monotone (l : LP) (p : Pt) (sc : Bool) (h : before (some l) p sc = true) :
    l.pt.h ≤ p.h := by
  unfold before at h
  simp only at h
  split at h
  · simp at h; omega
  · omega

/-- ✦ ballots and voteproofs for lower heights are always rejected. -/
theorem lower_height_rejected (l : LP) (p : Pt) (maj sc : Bool) (hlow : p.h < l.pt.h) :
    before (some l) p sc = false ∧ isNewVoteproofByPoint (some l) p maj sc = false := by
  have hne : p.h ≠ l.pt.h := by omega
  have hb : before (some l) p sc = false := by
    unfold before; simp only [hne, if_true, ne_eq, not_false_eq_true]; simp; omega
  refine ⟨hb, ?_⟩
  unfold isNewVoteproofByPoint
  rw [hb]
  simp
  intro _ _ h; omega

/-- ✦ within a height the position moves to an earlier round or stage only to take a
    suffrage-confirm result while the current position is not a majority. -/
theorem backward_only_sc (l : LP) (p : Pt) (sc : Bool)
    (h : before (some l) p sc = true) (hb : backward l p = true) :
    sc = true ∧ l.maj = false := by
  obtain ⟨⟨lh, lr, la⟩, lm, ls⟩ := l
  obtain ⟨ph, pr, pa⟩ := p
  simp only [before, backward, beforeSamePoint, beforeNotSamePoint, ptGt, stageN] at *
  by_cases h1 : pr = lr <;> by_cases h2 : ph = lh <;> (try subst h1) <;> (try subst h2) <;>
  cases sc <;> cases lm <;> cases pa <;> cases la <;> (try simp_all) <;> (try omega)

/-- ✦ the current position is never accepted again as it is. -/
theorem irreflexive (l : LP) : before (some l) l.pt l.sc = false := by
  obtain ⟨⟨lh, lr, la⟩, lm, ls⟩ := l
  simp only [before, beforeSamePoint]
  cases ls <;> cases lm <;> simp

/-- ✦ the same stage point is new for a voteproof only as a majority replacing a non-majority
    (or a suffrage-confirm result replacing a non-suffrage-confirm one). -/
theorem same_point_only_majority_upgrade (l : LP) (maj sc : Bool)
    (h : isNewVoteproofByPoint (some l) l.pt maj sc = true) :
    (l.maj = false ∧ maj = true) ∨ (sc = true ∧ l.sc = false) := by
  obtain ⟨⟨lh, lr, la⟩, lm, ls⟩ := l
  simp only [isNewVoteproofByPoint, before, beforeSamePoint] at h
  cases sc <;> cases lm <;> cases ls <;> cases maj <;> simp_all

/-- position measure that strictly grows on every accepted non-backward update:
    `(height, round, stage, suffrage-confirm)` compared lexicographically -/
def posLt (a b : LP) : Prop :=
  a.pt.h < b.pt.h ∨ (a.pt.h = b.pt.h ∧ (a.pt.r < b.pt.r ∨ (a.pt.r = b.pt.r ∧
    (stageN a.pt.acc < stageN b.pt.acc ∨ (a.pt.acc = b.pt.acc ∧ a.sc = false ∧ b.sc = true)))))

theorem posLt_trans (a b c : LP) (h1 : posLt a b) (h2 : posLt b c) : posLt a c := by
  obtain ⟨⟨ah, ar, aa⟩, am, as⟩ := a
  obtain ⟨⟨bh, br, ba⟩, bm, bs⟩ := b
  obtain ⟨⟨ch, cr, ca⟩, cm, cs⟩ := c
  simp only [posLt, stageN] at *
  cases aa <;> cases ba <;> cases ca <;> cases as <;> cases bs <;> cases cs <;>
    (try simp_all) <;> (try omega)

theorem posLt_irrefl (a : LP) : ¬ posLt a a := by
  obtain ⟨⟨ah, ar, aa⟩, am, as⟩ := a
  simp only [posLt]
  cases as <;> simp

/-- every accepted update that is not a backward move strictly advances the position -/
theorem forward_advances (l n : LP) (hsc : n.sc = true → n.pt.acc = false)
    (h : before (some l) n.pt n.sc = true) (hnb : backward l n.pt = false) : posLt l n := by
  obtain ⟨⟨lh, lr, la⟩, lm, ls⟩ := l
  obtain ⟨⟨ph, pr, pa⟩, pm, ps⟩ := n
  simp only [before, backward, beforeSamePoint, beforeNotSamePoint, ptGt, stageN, posLt] at *
  by_cases h1 : pr = lr <;> by_cases h2 : ph = lh <;> (try subst h1) <;> (try subst h2) <;>
  cases ps <;> cases lm <;> cases pa <;> cases la <;> cases ls <;> (try simp_all) <;> (try omega)

/-- all accepted updates of a run are forward moves -/
def NoDetour : Option LP → List LP → Prop
  | _, [] => True
  | l, n :: ns =>
    if before l n.pt n.sc then
      (match l with | none => True | some l' => backward l' n.pt = false) ∧ NoDetour (some n) ns
    else NoDetour l ns

def WellFormed (ns : List LP) : Prop := ∀ n ∈ ns, n.sc = true → n.pt.acc = false

theorem run_sorted (ns : List LP) : ∀ (l : Option LP), WellFormed ns → NoDetour l ns →
    (runUpdates l ns).Pairwise posLt ∧ (∀ l', l = some l' → ∀ x ∈ runUpdates l ns, posLt l' x) := by
  induction ns with
  | nil => intro l _ _; simp [runUpdates]
  | cons n ns ih =>
    intro l hw hnd
    have hw' : WellFormed ns := fun x hx => hw x (List.mem_cons_of_mem _ hx)
    unfold runUpdates
    unfold NoDetour at hnd
    by_cases hb : before l n.pt n.sc = true
    · simp only [hb, if_true] at hnd ⊢
      obtain ⟨hfw, hrest⟩ := hnd
      obtain ⟨ih1, ih2⟩ := ih (some n) hw' hrest
      refine ⟨List.pairwise_cons.mpr ⟨fun x hx => ih2 n rfl x hx, ih1⟩, ?_⟩
      intro l' hl' x hx
      subst hl'
      have hadv : posLt l' n := forward_advances l' n (hw n (by simp)) hb (by simpa using hfw)
      rcases List.mem_cons.mp hx with rfl | hx'
      · exact hadv
      · exact posLt_trans _ _ _ hadv (ih2 n rfl x hx')
    · simp only [hb] at hnd ⊢
      exact ih l hw' hnd

/-- ◐ `no_position_twice_partial`: in every sequence of updates without a suffrage-confirm
    detour (no accepted backward move), the accepted positions are strictly increasing in
    `(height, round, stage, suffrage-confirm)` — hence no position is taken twice. -/
theorem no_position_twice_partial (l : Option LP) (ns : List LP)
    (hw : WellFormed ns) (hnd : NoDetour l ns) :
    (runUpdates l ns).Pairwise (fun a b => (a.pt, a.sc) ≠ (b.pt, b.sc)) := by
  refine List.Pairwise.imp ?_ (run_sorted ns l hw hnd).1
  intro a b hlt heq
  have h1 : a.pt = b.pt := congrArg Prod.fst heq
  have h2 : a.sc = b.sc := congrArg Prod.snd heq
  unfold posLt at hlt
  rw [h1, h2] at hlt
  cases hs : b.sc <;> simp_all

/-- the full statement "the same position is never taken twice" for arbitrary update sequences -/
def no_position_twice_full : Prop :=
  ∀ (l : Option LP) (ns : List LP), WellFormed ns →
    (runUpdates l ns).Pairwise (fun a b => (a.pt, a.sc) ≠ (b.pt, b.sc))

def witnessA : LP := { pt := { h := 5, r := 1, acc := true }, maj := false, sc := false }
def witnessB : LP := { pt := { h := 5, r := 0, acc := false }, maj := true, sc := true }

/-- ✗ refutation (known finding C06:sc-detour-revisits-position): after the draw ACCEPT position
    `A = (5,1,ACCEPT)` a suffrage-confirm majority `B = (5,0,INIT)` is taken, and then `A` is
    accepted again. -/
theorem revisit_witness : ¬ no_position_twice_full := by
  intro h
  have := h none [witnessA, witnessB, witnessA] (by intro n hn; simp [witnessA, witnessB] at hn; rcases hn with rfl | rfl | rfl <;> simp)
  revert this
  decide

/-! ### `LastVoteproofsHandler`: the reference is the last accepted voteproof -/
section handler
open Mitum.LastVPs

/-- **cap_is_last_accepted.**  When `Set` accepts a voteproof as new and the voteproof does not lie before the
reference inside its height, the handler's reference (`Cap`) afterwards is that voteproof: the INIT and the ACCEPT
slot never disagree about which one is the newest. -/
theorem cap_is_last_accepted (ci ca : Bool) (s : H) (vp : LP) (hw : WF s)
    (hn : isNew s vp = true) (hd : detour s vp = false) :
    (setVP ci ca s vp).2 = true ∧ cap (setVP ci ca s vp).1 = some vp := by
  obtain ⟨hwi, hwa⟩ := hw
  obtain ⟨⟨ph, pr, pa⟩, pm, ps⟩ := vp
  simp only [setVP, hn, if_true, true_and]
  unfold isNew at hn
  unfold detour at hd
  cases hi : s.ivp with
  | none =>
    cases ha : s.avp with
    | none => cases pa <;> simp [cap, hi, ha]
    | some a =>
      obtain ⟨⟨ah, ar, aa⟩, am, as⟩ := a
      have haa : aa = true := hwa _ ha
      subst haa
      simp only [cap, hi, ha] at hn hd
      cases pa
      · -- an INIT voteproof against an ACCEPT reference
        simp only [cap, hi, ha, Bool.false_eq_true, if_false]
        simp only [isNewVoteproofByPoint, before, beforeSamePoint, beforeNotSamePoint, ptGt, stageN, backward, pointLt] at *
        by_cases h1 : ph = ah <;> by_cases h2 : pr = ar <;> (try subst h1) <;> (try subst h2) <;>
          cases ps <;> cases am <;> cases pm <;> simp_all <;> omega
      · simp [cap, hi, ha]
  | some i =>
    obtain ⟨⟨ih, ir, ia⟩, im, is⟩ := i
    have hia : ia = false := hwi _ hi
    subst hia
    cases ha : s.avp with
    | none =>
      simp only [cap, hi, ha] at hn hd
      cases pa
      · simp [cap, hi, ha]
      · simp only [cap, hi, ha, if_true]
        simp only [isNewVoteproofByPoint, before, beforeSamePoint, beforeNotSamePoint, ptGt, stageN, backward, pointLt] at *
        by_cases h1 : ph = ih <;> by_cases h2 : pr = ir <;> (try subst h1) <;> (try subst h2) <;>
          cases ps <;> cases im <;> cases pm <;> simp_all <;> omega
    | some a =>
      obtain ⟨⟨ah, ar, aa⟩, am, as⟩ := a
      have haa : aa = true := hwa _ ha
      subst haa
      simp only [cap, hi, ha] at hn hd
      cases pa
      · -- INIT voteproof: the ivp slot is replaced
        simp only [cap, hi, ha, Bool.false_eq_true, if_false]
        by_cases hlt : pointLt ⟨ah, ar, true⟩ ⟨ih, ir, false⟩ = true
        · simp only [hlt, if_true] at hn hd
          simp only [isNewVoteproofByPoint, before, beforeSamePoint, beforeNotSamePoint, ptGt, stageN, backward, pointLt] at *
          by_cases h1 : ph = ih <;> by_cases h2 : pr = ir <;> (try subst h1) <;> (try subst h2) <;>
            cases ps <;> cases im <;> cases pm <;> simp_all <;> omega
        · simp only [hlt, if_false] at hn hd
          simp only [isNewVoteproofByPoint, before, beforeSamePoint, beforeNotSamePoint, ptGt, stageN, backward, pointLt] at *
          by_cases h1 : ph = ah <;> by_cases h2 : pr = ar <;> (try subst h1) <;> (try subst h2) <;>
            cases ps <;> cases am <;> cases pm <;> simp_all <;> omega
      · -- ACCEPT voteproof: the avp slot is replaced
        simp only [cap, hi, ha, if_true]
        by_cases hlt : pointLt ⟨ah, ar, true⟩ ⟨ih, ir, false⟩ = true
        · simp only [hlt, if_true] at hn hd
          simp only [isNewVoteproofByPoint, before, beforeSamePoint, beforeNotSamePoint, ptGt, stageN, backward, pointLt] at *
          by_cases h1 : ph = ih <;> by_cases h2 : pr = ir <;> (try subst h1) <;> (try subst h2) <;>
            cases ps <;> cases im <;> cases pm <;> simp_all <;> omega
        · simp only [hlt, if_false] at hn hd
          simp only [isNewVoteproofByPoint, before, beforeSamePoint, beforeNotSamePoint, ptGt, stageN, backward, pointLt] at *
          by_cases h1 : ph = ah <;> by_cases h2 : pr = ar <;> (try subst h1) <;> (try subst h2) <;>
            cases ps <;> cases am <;> cases pm <;> simp_all <;> omega


theorem cap_ivp_none (s : H) (h : s.ivp = none) : cap s = s.avp := by
  unfold cap; rw [h]

theorem cap_avp_none (s : H) (h : s.avp = none) : cap s = s.ivp := by
  unfold cap; rw [h]; cases s.ivp <;> rfl

/-- a voteproof that is not new never moves the reference: `fillMissing` only fills an empty slot beside it -/
theorem cap_fill (ci ca : Bool) (s : H) (vp : LP) : cap (fill ci ca s vp) = cap s := by
  unfold fill
  cases hc : cap s with
  | none => simp [hc]
  | some l =>
    simp only
    by_cases c1 : (!ci && l.pt.acc && !vp.pt.acc && decide (l.pt.h = vp.pt.h ∧ l.pt.r = vp.pt.r) && s.ivp.isNone) = true
    · -- the INIT slot is filled: the reference is the ACCEPT voteproof of the same point
      simp only [Bool.and_eq_true, Bool.not_eq_true', decide_eq_true_eq, Option.isNone_iff_eq_none] at c1
      obtain ⟨⟨⟨⟨_, hla⟩, _⟩, hpt⟩, hin⟩ := c1
      have hav : s.avp = some l := by rw [← cap_ivp_none s hin]; exact hc
      have c2 : ¬ ((!ca && !l.pt.acc && vp.pt.acc && decide (l.pt.h = vp.pt.h + 1) &&
          ({ s with ivp := some vp } : H).avp.isNone) = true) := by simp [hla]
      have c1' : (!ci && l.pt.acc && !vp.pt.acc && decide (l.pt.h = vp.pt.h ∧ l.pt.r = vp.pt.r) && s.ivp.isNone) = true := by
        simp_all
      rw [if_pos c1', if_neg c2]
      simp only [cap, hav]
      have : pointLt l.pt vp.pt = false := by
        simp only [pointLt, hpt.1, hpt.2]; simp
      simp [this]
    · rw [if_neg c1]
      by_cases c2 : (!ca && !l.pt.acc && vp.pt.acc && decide (l.pt.h = vp.pt.h + 1) && s.avp.isNone) = true
      · rw [if_pos c2]
        simp only [Bool.and_eq_true, Bool.not_eq_true', decide_eq_true_eq, Option.isNone_iff_eq_none] at c2
        obtain ⟨⟨⟨⟨_, _⟩, _⟩, hh⟩, han⟩ := c2
        have hiv : s.ivp = some l := by rw [← cap_avp_none s han]; exact hc
        simp only [cap, hiv]
        have : pointLt vp.pt l.pt = true := by
          simp only [pointLt, Bool.or_eq_true, decide_eq_true_eq]; left; omega
        simp [this]
      · rw [if_neg c2]; exact hc

theorem wf_fill (ci ca : Bool) (s : H) (vp : LP) (hw : WF s) : WF (fill ci ca s vp) := by
  obtain ⟨hwi, hwa⟩ := hw
  unfold fill
  cases hc : cap s with
  | none => exact ⟨hwi, hwa⟩
  | some l =>
    simp only
    by_cases c1 : (!ci && l.pt.acc && !vp.pt.acc && decide (l.pt.h = vp.pt.h ∧ l.pt.r = vp.pt.r) && s.ivp.isNone) = true
    · rw [if_pos c1]
      have hva : vp.pt.acc = false := by
        simp only [Bool.and_eq_true, Bool.not_eq_true'] at c1; exact c1.1.1.2
      have hw1 : WF { s with ivp := some vp } :=
        ⟨fun i h => by simp at h; subst h; exact hva, hwa⟩
      by_cases c2 : (!ca && !l.pt.acc && vp.pt.acc && decide (l.pt.h = vp.pt.h + 1) &&
          ({ s with ivp := some vp } : H).avp.isNone) = true
      · simp [hva] at c2
      · rw [if_neg c2]; exact hw1
    · rw [if_neg c1]
      by_cases c2 : (!ca && !l.pt.acc && vp.pt.acc && decide (l.pt.h = vp.pt.h + 1) && s.avp.isNone) = true
      · rw [if_pos c2]
        have hva : vp.pt.acc = true := by
          simp only [Bool.and_eq_true, Bool.not_eq_true'] at c2; exact c2.1.1.2
        exact ⟨hwi, fun a h => by simp at h; subst h; exact hva⟩
      · rw [if_neg c2]; exact ⟨hwi, hwa⟩

theorem wf_set (ci ca : Bool) (s : H) (vp : LP) (hw : WF s) : WF (setVP ci ca s vp).1 := by
  unfold setVP
  by_cases hn : isNew s vp = true
  · obtain ⟨hwi, hwa⟩ := hw
    simp only [hn, if_true]
    cases hpa : vp.pt.acc
    · simp only [Bool.false_eq_true, if_false]
      exact ⟨fun i h => by simp at h; subst h; exact hpa, hwa⟩
    · simp only [if_true]
      exact ⟨hwi, fun a h => by simp at h; subst h; exact hpa⟩
  · rw [if_neg hn]
    exact wf_fill ci ca s vp hw

/-- **handler_tracks_last_accepted.**  Over every sequence of voteproofs handed to `Set` — new ones, old ones,
ones that fill a slot — without a suffrage-confirm detour, the handler's reference is the last voteproof it accepted
as new: `IsNew` decides by exactly the position `LastPoint` would hold. -/
theorem handler_tracks_last_accepted (ci ca : Bool) (vps : List LP) (s : H) (ref : Option LP)
    (hw : WF s) (hc : cap s = ref) (hnd : noDetour ci ca s vps = true) :
    cap (track ci ca (s, ref) vps).1 = (track ci ca (s, ref) vps).2 := by
  induction vps generalizing s ref with
  | nil => exact hc
  | cons vp rest ih =>
    simp only [track]
    simp only [noDetour, Bool.and_eq_true, Bool.not_eq_true'] at hnd
    apply ih _ _ (wf_set ci ca s vp hw) _ hnd.2
    by_cases hn : isNew s vp = true
    · have hd : detour s vp = false := by
        cases h : detour s vp with
        | false => rfl
        | true => have := hnd.1; simp [hn, h] at this
      simp only [hn, if_true]
      exact (cap_is_last_accepted ci ca s vp hw hn hd).2
    · have hset : (setVP ci ca s vp).1 = fill ci ca s vp := by unfold setVP; rw [if_neg hn]
      rw [hset, cap_fill, if_neg hn]
      exact hc

/-- a detour is only ever accepted for a suffrage-confirm result over a reference without a majority -/
theorem detour_only_sc (s : H) (vp : LP) (hb : before (cap s) vp.pt vp.sc = true) (hd : detour s vp = true) :
    vp.sc = true ∧ ∃ l, cap s = some l ∧ l.maj = false := by
  unfold detour at hd
  cases hc : cap s with
  | none => simp [hc] at hd
  | some l =>
    rw [hc] at hb hd
    simp only at hd
    obtain ⟨⟨lh, lr, la⟩, lm, ls⟩ := l
    obtain ⟨⟨ph, pr, pa⟩, pm, ps⟩ := vp
    simp only [before, backward, beforeSamePoint, beforeNotSamePoint, ptGt, stageN] at *
    refine ⟨?_, _, rfl, ?_⟩ <;>
    (by_cases h1 : pr = lr <;> by_cases h2 : ph = lh <;> (try subst h1) <;> (try subst h2) <;>
      cases ps <;> cases lm <;> cases pa <;> cases la <;> (try simp_all) <;> (try omega))

/-- ✗ the known finding on the handler: after the detour A=(5,1,ACCEPT,draw) → B=(5,0,INIT,majority,sc) the
reference is still A although B was accepted last -/
theorem detour_witness :
    let a : LP := { pt := ⟨5, 1, true⟩, maj := false, sc := false }
    let b : LP := { pt := ⟨5, 0, false⟩, maj := true, sc := true }
    let r := track false false ({ ivp := none, avp := none }, none) [a, b]
    r.2 = some b ∧ cap r.1 = some a := by decide

example : (track false false ({ ivp := none, avp := none }, none)
    [{ pt := ⟨5, 0, false⟩, maj := true, sc := false }, { pt := ⟨5, 0, true⟩, maj := false, sc := false },
     { pt := ⟨5, 1, false⟩, maj := true, sc := false }, { pt := ⟨5, 0, true⟩, maj := true, sc := false }]).2 =
    some { pt := ⟨5, 1, false⟩, maj := true, sc := false } := by decide


end handler

/-- ✦ tie to the source -/
theorem source_pinned :
    Gen.C06.extractErrors = [] ∧ Gen.C06.pins = Pins.C06 ∧
    Gen.C06.statesmap = "map[Stage]int{ StageUnknown: 0, StageINIT: 1, StageACCEPT: 3, }" := by
  refine ⟨by decide, by decide, by decide⟩

-- non-vacuity: a forward run satisfying the hypotheses of the partial theorem
example : NoDetour none [witnessA, { pt := { h := 6, r := 0, acc := false }, maj := true, sc := false }] ∧
    WellFormed [witnessA, { pt := { h := 6, r := 0, acc := false }, maj := true, sc := false }] := by
  refine ⟨by simp [NoDetour, before, witnessA, backward], ?_⟩
  intro n hn; simp [witnessA] at hn; rcases hn with rfl | rfl <;> simp
example : before (some witnessA) witnessB.pt witnessB.sc = true ∧ backward witnessA witnessB.pt = true := by decide

end Mitum.C06
