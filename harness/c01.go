package main

import (
	"fmt"
	"sort"
	"strings"

	"github.com/spikeekips/mitum/base"
)

func init() { register("C01", runC01) }

func c01res(r base.VoteResult, key string) string {
	switch r {
	case base.VoteResultMajority:
		return "M " + key
	case base.VoteResultDraw:
		return "D"
	default:
		return "N"
	}
}

// spec oracle, from the statement (th already clamped by the caller)
func c01Oracle(c *Ctx, q, th uint, votes []string, r base.VoteResult, key string, line string) {
	thc := th
	if thc > q {
		thc = q
	}
	count := map[string]uint{}
	for _, v := range votes {
		count[v]++
	}
	var reach []string
	var maxc uint
	for k, n := range count {
		if n >= thc {
			reach = append(reach, k)
		}
		if n > maxc {
			maxc = n
		}
	}
	sort.Strings(reach)
	var missing uint
	if q > uint(len(votes)) {
		missing = q - uint(len(votes))
	}
	in := map[string]interface{}{"quorum": q, "threshold": th, "votes": votes}
	switch {
	case len(votes) > 0 && len(reach) > 0:
		ok := r == base.VoteResultMajority
		if ok {
			ok = false
			for _, k := range reach {
				if k == key {
					ok = true
				}
			}
		}
		if !ok {
			c.Violation("C01:majority-missed", fmt.Sprintf("%s: facts %v reach %d but result is %s %q", line, reach, thc, r, key), in)
		}
	case len(votes) > 0 && maxc+missing < thc:
		if r != base.VoteResultDraw {
			kind := "C01:draw-missed"
			if uint(len(votes)) > q {
				kind = "C01:draw-missed-overfull"
			}
			c.Violation(kind, fmt.Sprintf("%s: no fact can reach %d (max %d + missing %d) but result is %s", line, thc, maxc, missing, r), in)
		}
	default:
		if r != base.VoteResultNotYet {
			c.Violation("C01:notyet-wrong", fmt.Sprintf("%s: expected NOT YET, got %s %q", line, r, key), in)
		}
	}
}

func runC01(c *Ctx) error {
	facts := []string{"a", "b", "c"}
	maxq := uint(6)
	if c.Thorough() {
		maxq = 9
	}
	one := func(q, th uint, votes []string, reps int) {
		line := fmt.Sprintf("fv %d %d %s", q, th, strings.Join(votes, " "))
		var first string
		for i := 0; i < reps; i++ {
			r, key := base.FindVoteResult(q, th, votes)
			c01Oracle(c, q, th, votes, r, key, line)
			s := c01res(r, key)
			if i == 0 {
				first = s
				c.Case(line, s)
			} else if s != first {
				// map-order dependent: every observed value must be admissible too
				c.Case(line, s)
				c.Count("map-order", "differing results observed")
			} else {
				c.Eval(1)
			}
		}
		c.Count("result", strings.SplitN(first, " ", 2)[0])
		if uint(len(votes)) > q {
			c.Count("shape", "overfull")
		}
	}
	// exhaustive: q <= maxq, th in 1..q+1, multisets over <= 3 facts with <= q+2 votes (as count vectors, in 2 arrangements)
	for q := uint(1); q <= maxq; q++ {
		maxv := q + 2
		if q <= 4 {
			maxv = 2*q + 3 // far overfull lists: every fact below the count although votes > quorum
		}
		for th := uint(1); th <= q+1; th++ {
			for na := uint(0); na <= maxv; na++ {
				for nb := uint(0); na+nb <= maxv; nb++ {
					for nc := uint(0); na+nb+nc <= maxv; nc++ {
						var votes []string
						cnt := []uint{na, nb, nc}
						for i, n := range cnt {
							for j := uint(0); j < n; j++ {
								votes = append(votes, facts[i])
							}
						}
						reps := 1
						if (na == nb && na > 0) || (nb == nc && nb > 0) || (na == nc && na > 0) {
							reps = 8
						}
						one(q, th, votes, reps)
						if len(votes) >= 2 && (nb > 0 || nc > 0) {
							c.Nontrivial(fmt.Sprintf("%d %d %v", q, th, cnt))
						}
						// FindMajority directly on the count vector (unsorted, as a caller may pass it)
						set := []uint{}
						for _, n := range cnt {
							if n > 0 {
								set = append(set, n)
							}
						}
						cp := append([]uint{}, set...)
						idx := base.FindMajority(q, th, cp...)
						c.Case(fmt.Sprintf("fm %d %d %s", q, th, strings.Trim(fmt.Sprint(set), "[]")), fmt.Sprint(idx))
					}
				}
			}
		}
	}
	// random: larger quorums through Threshold.VoteResult (composition with C02)
	n := 20000
	if c.Thorough() {
		n = 400000
	}
	for i := 0; i < n; i++ {
		q := uint(1 + c.Intn(200))
		t10 := 510 + c.Intn(491)
		nf := 1 + c.Intn(4)
		nv := c.Intn(int(q) + 3)
		if c.Chance(1, 8) {
			nv = int(q) + c.Intn(2*int(q)+2) // overfull
		}
		if c.Chance(1, 4) { // concentrate near the decision boundary
			nv = int(q) - c.Intn(3)
			if nv < 0 {
				nv = 0
			}
		}
		votes := make([]string, nv)
		bias := c.Intn(100)
		for j := range votes {
			if c.Intn(100) < bias {
				votes[j] = "f0"
			} else {
				votes[j] = fmt.Sprintf("f%d", c.Intn(nf))
			}
		}
		th := base.Threshold(float64(t10) / 10)
		r, key := th.VoteResult(q, votes)
		line := fmt.Sprintf("vr %d %d %s", q, t10, strings.Join(votes, " "))
		c01Oracle(c, q, uint(requiredExact(uint64(q), uint64(t10))), votes, r, key, line)
		c.Case(line, c01res(r, key))
		c.Count("result-random", strings.SplitN(c01res(r, key), " ", 2)[0])
		if i%5000 == 0 {
			c.Sample(map[string]interface{}{"quorum": q, "t10": t10, "votes": len(votes), "result": c01res(r, key)})
		}
		if nv > 1 {
			c.Nontrivial(line)
		}
	}
	return nil
}
