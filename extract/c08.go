package main

import "strings"

func init() { register("C08", genC08) }

func genC08(o *Out) {
	f := o.pinFile("isaac/states/ballot.go", "DefaultBallotBroadcaster.Broadcast", "DefaultBallotBroadcaster.set", "DefaultBallotBroadcaster.Ballot")
	g := o.pinFile("isaac/states/states.go", "States.mimicBallotFunc", "States.mimicBallot", "States.signMimicBallot", "mimicBallot")
	p := o.pinFile("isaac/database/pool.go", "TempPool.SetBallot", "TempPool.Ballot")
	if f == nil || g == nil || p == nil {
		return
	}
	body := func(fl *File, recv, name string) string {
		d := fl.Func(recv, name)
		if d == nil {
			o.errf("%s.%s not found", recv, name)
			return ""
		}
		return normSpace(fl.Src(d.Body))
	}
	br := body(f, "DefaultBallotBroadcaster", "Broadcast")
	st := body(f, "DefaultBallotBroadcaster", "set")
	// what goes to the network is the stored ballot whenever local already had one
	i1 := strings.Index(br, "switch stored, err := bb.set(bl); {")
	i2 := strings.Index(br, "case stored != nil:")
	i3 := strings.Index(br, "bl = stored")
	i4 := strings.Index(br, "bb.broadcastFunc(bl)")
	o.boolean("broadcastSendsStored", i1 >= 0 && i1 < i2 && i2 < i3 && i3 < i4 && strings.Count(br, "bb.broadcastFunc(") == 1 &&
		strings.Contains(st, "switch isnew, err := bb.pool.SetBallot(bl); {") && strings.Contains(st, "case isnew: return nil, nil") &&
		strings.Contains(st, "bb.pool.Ballot( bl.Point().Point, bl.Point().Stage(), isaac.IsSuffrageConfirmBallotFact(bl.SignFact().Fact()), )") &&
		strings.Contains(st, "default: return stored, nil"))
	o.boolean("setUnderLock", strings.HasPrefix(st, "{ bb.l.Lock() defer bb.l.Unlock()"))
	sb := body(p, "TempPool", "SetBallot")
	o.boolean("poolFirstWriterWins", strings.Contains(sb, "db.setBallotLock.Lock() defer db.setBallotLock.Unlock()") &&
		strings.Contains(sb, "switch found, err := pst.Exists(key); {") && strings.Contains(sb, "case found: return false, nil"))
	// a failed pool write ends the broadcast
	o.boolean("broadcastStopsOnSetError", strings.Contains(br, `case err != nil: l.Error().Err(err).Msg("failed to set ballot") return err case stored != nil:`) &&
		strings.Contains(st, `case err != nil: return nil, errors.WithMessage(err, "set ballot to pool")`))
	// the pool writes a ballot under the key it is read from
	pb := body(p, "TempPool", "Ballot")
	o.boolean("poolKeysAgree", strings.Contains(sb, "key := leveldbBallotKey(bl.Point(), isaac.IsSuffrageConfirmBallotFact(bl.SignFact().Fact()))") &&
		strings.Count(sb, "leveldbBallotKey(") == 1 &&
		strings.Contains(pb, "spoint := base.NewStagePoint(point, stage)") && strings.Contains(pb, "pst.Get(leveldbBallotKey(spoint, isSuffrageConfirm))"))
	mm := body(g, "States", "mimicBallotFunc")
	o.boolean("mimicChecksPool", strings.Contains(mm, "switch newbl, found, err := st.args.BallotBroadcaster.Ballot( bl.Point().Point, bl.Point().Stage(), isaac.IsSuffrageConfirmBallotFact(bl.SignFact().Fact()), ); {") &&
		strings.Contains(mm, "_ = st.args.BallotBroadcaster.Broadcast(newbl)"))
}
