import MitumModel.Common
/-
Model of which temp databases a Center finds when it is opened on a storage
(isaac/database/center.go: loadTemps, loadTemp, removeHigherHeights) and of the
operations that leave block-write prefixes on that storage: a block writer that
is written and merged into the Center, a block writer that is written and never
merged (the proposal of another round), Center.RemoveBlocks, the merge of the
oldest temp into the permanent database, cleanRemoved.

A prefix on disk is (height, identity of its writer, merged marker present).
-/
namespace Mitum.ReopenTemps

/-- a block-write prefix on disk -/
structure Pfx where
  height : Nat
  id : Nat
  merged : Bool
deriving Repr, DecidableEq

/-- which clauses the code has (extracted from the source on every run) -/
structure Code where
  scansAll : Bool          -- `loadTemp` looks at every prefix of the height until it finds the merged one
  removesOnDisk : Bool     -- `RemoveBlocks` removes the rolled-back temps from the disk

structure St where
  perm : Nat               -- heights below `perm` are in the permanent database
  mem : List Nat           -- the Center's temps (ids), heights perm, perm+1, …
  disk : List Pfx          -- newest first
  next : Nat               -- fresh ids
deriving Repr, DecidableEq

def init : St := { perm := 0, mem := [], disk := [], next := 0 }

inductive Op where
  | commit                 -- a block writer of the next height is written and merged into the Center
  | abandon (h : Nat)      -- a block writer of height `h` is written and never merged
  | remove (h : Nat)       -- `Center.RemoveBlocks(h)`
  | mergePerm              -- the oldest temp is merged into the permanent database (its prefix stays for a while)
  | clean                  -- `cleanRemoved`: prefixes below the permanent height are deleted
deriving Repr, DecidableEq

def step (c : Code) (s : St) : Op → St
  | .commit => { s with mem := s.mem ++ [s.next], disk := ⟨s.perm + s.mem.length, s.next, true⟩ :: s.disk, next := s.next + 1 }
  | .abandon h => { s with disk := ⟨h, s.next, false⟩ :: s.disk, next := s.next + 1 }
  | .remove h =>
    if s.perm ≤ h ∧ h < s.perm + s.mem.length then
      let gone := s.mem.drop (h - s.perm)
      { s with mem := s.mem.take (h - s.perm),
               disk := if c.removesOnDisk then s.disk.filter (fun p => !gone.contains p.id) else s.disk }
    else s
  | .mergePerm =>
    match s.mem with
    | [] => s
    | _ :: rest => { s with perm := s.perm + 1, mem := rest }
  | .clean => { s with disk := s.disk.filter (fun p => !(decide (p.height < s.perm))) }

def run (c : Code) (ops : List Op) : St := ops.foldl (step c) init

/-- `loadTemp(height)` -/
def loadTemp (c : Code) (disk : List Pfx) (h : Nat) : Option Nat :=
  let ps := disk.filter (fun p => p.height = h)
  if c.scansAll then (ps.find? (·.merged)).map (·.id)
  else match ps with
    | p :: _ => if p.merged then some p.id else none
    | [] => none

/-- `loadTemps(minHeight)` -/
def loadTemps (c : Code) (disk : List Pfx) : Nat → Nat → List Nat
  | 0, _ => []
  | fuel + 1, h =>
    match loadTemp c disk h with
    | none => []
    | some id => id :: loadTemps c disk fuel (h + 1)

def maxH (disk : List Pfx) : Nat := disk.foldr (fun p m => max p.height m) 0

/-- the temps of a Center opened anew on the same storage (the loop ends at the first height without a
    merged prefix; no prefix lies above `maxH`) -/
def reopen (c : Code) (s : St) : List Nat := loadTemps c s.disk (maxH s.disk + 2 - s.perm) s.perm

end Mitum.ReopenTemps
