package main

import (
	"context"
	"errors"
	"fmt"
	"strings"
	"sync"
	"time"

	"github.com/spikeekips/mitum/base"
	"github.com/spikeekips/mitum/isaac"
	"github.com/spikeekips/mitum/util"
	"github.com/spikeekips/mitum/util/valuehash"
)

func init() { register("C11", runC11) }

// a block writer that only records what the proposal processor saves
type c11writer struct {
	env      *c11env
	proposal base.ProposalSignFact
	manifest base.Manifest
}

type c11saved struct {
	Height   int64
	PID      int    // the proposal the block was made of
	NewBlock string // the new block of the ACCEPT majority it was saved under
	Manifest string // the manifest the processor computed
}

type c11env struct {
	mu             sync.Mutex
	cancelNextSave bool // the writer's next Save stores the block and then reports context.Canceled
	local          base.LocalNode
	proposals      map[string]base.ProposalSignFact // fact hash -> proposal
	pid            map[string]int
	log            []c11saved
	lastAVP        map[string]string // proposal fact hash -> new block of the avp given to Save (set by the script)
}

func (w *c11writer) SetOperationsSize(uint64) {}
func (w *c11writer) SetProcessResult(context.Context, uint64, util.Hash, util.Hash, bool, base.OperationProcessReasonError) error {
	return nil
}
func (w *c11writer) SetStates(context.Context, uint64, []base.StateMergeValue, base.Operation) error {
	return nil
}
func (w *c11writer) Manifest(_ context.Context, previous base.Manifest) (base.Manifest, error) {
	fact := w.proposal.ProposalFact()
	var prev, suf util.Hash
	if previous != nil {
		prev, suf = previous.Hash(), previous.Suffrage()
	}
	w.manifest = isaac.NewManifest(fact.Point().Height(), prev, fact.Hash(), nil, nil, suf, fact.ProposedAt())
	return w.manifest, nil
}
func (w *c11writer) SetINITVoteproof(context.Context, base.INITVoteproof) error { return nil }

func (w *c11writer) SetACCEPTVoteproof(_ context.Context, avp base.ACCEPTVoteproof) error {
	w.env.mu.Lock()
	defer w.env.mu.Unlock()
	nb := "nil"
	if h := avp.BallotMajority().NewBlock(); h != nil {
		nb = h.String()
	}
	w.env.lastAVP[w.proposal.Fact().Hash().String()] = nb
	return nil
}
func (w *c11writer) Save(context.Context) (base.BlockMap, error) {
	w.env.mu.Lock()
	defer w.env.mu.Unlock()
	fh := w.proposal.Fact().Hash().String()
	w.env.log = append(w.env.log, c11saved{Height: int64(w.proposal.Point().Height()), PID: w.env.pid[fh], NewBlock: w.env.lastAVP[fh], Manifest: w.manifest.Hash().String()})
	if w.env.cancelNextSave { // the block reached the storage, the caller's context was cancelled before Save returned
		w.env.cancelNextSave = false
		return nil, context.Canceled
	}
	return nil, nil
}
func (w *c11writer) Cancel() error { return nil }

func c11new(c *Ctx, nprops int) (*c11env, *isaac.ProposalProcessors, []base.ProposalSignFact, base.Manifest) {
	env := &c11env{local: base.RandomLocalNode(), proposals: map[string]base.ProposalSignFact{}, pid: map[string]int{}, lastAVP: map[string]string{}}
	previous := isaac.NewManifest(32, valuehash.RandomSHA256(), valuehash.RandomSHA256(), nil, nil, valuehash.RandomSHA256(), time.Now().UTC())
	var props []base.ProposalSignFact
	for i := 0; i < nprops; i++ {
		// heights 33.. : two proposals per height (rounds 0 and 1)
		point := base.NewPoint(base.Height(int64(33+i/2)), base.Round(uint64(i%2)))
		pr := isaac.NewProposalSignFact(isaac.NewProposalFact(point, env.local.Address(), previous.Hash(), nil))
		_ = pr.Sign(env.local.Privatekey(), hNetworkID)
		props = append(props, pr)
		env.proposals[pr.Fact().Hash().String()] = pr
		env.pid[pr.Fact().Hash().String()] = i
	}
	args := isaac.NewDefaultProposalProcessorArgs()
	args.NewWriterFunc = func(pr base.ProposalSignFact, _ base.GetStateFunc) (isaac.BlockWriter, error) {
		return &c11writer{env: env, proposal: pr}, nil
	}
	args.GetStateFunc = func(string) (base.State, bool, error) { return nil, false, nil }
	pps := isaac.NewProposalProcessors(
		func(pr base.ProposalSignFact, prev base.Manifest) (isaac.ProposalProcessor, error) {
			return isaac.NewDefaultProposalProcessor(pr, prev, args)
		},
		func(_ context.Context, _ base.Point, h util.Hash) (base.ProposalSignFact, error) {
			if pr, ok := env.proposals[h.String()]; ok {
				return pr, nil
			}
			return nil, util.ErrNotFound.Errorf("proposal")
		},
	)
	pps.SetRetryLimit(1).SetRetryInterval(time.Millisecond)
	return env, pps, props, previous
}

func c11ivp(env *c11env, pr base.ProposalSignFact) base.INITVoteproof {
	point := pr.Point()
	fact := isaac.NewINITBallotFact(point, valuehash.RandomSHA256(), pr.Fact().Hash(), nil)
	sf := isaac.NewINITBallotSignFact(fact)
	_ = sf.NodeSign(env.local.Privatekey(), hNetworkID, env.local.Address())
	vp := isaac.NewINITVoteproof(point)
	vp.SetMajority(fact).SetSignFacts([]base.BallotSignFact{sf}).SetThreshold(base.Threshold(100)).Finish()
	return vp
}

func c11avp(env *c11env, point base.Point, proposal, newBlock util.Hash) base.ACCEPTVoteproof {
	fact := isaac.NewACCEPTBallotFact(point, proposal, newBlock, nil)
	sf := isaac.NewACCEPTBallotSignFact(fact)
	_ = sf.NodeSign(env.local.Privatekey(), hNetworkID, env.local.Address())
	vp := isaac.NewACCEPTVoteproof(point)
	vp.SetMajority(fact).SetSignFacts([]base.BallotSignFact{sf}).SetThreshold(base.Threshold(100)).Finish()
	return vp
}

// the manifest hash the processor computes for a proposal (same construction as the writer)
func c11manifestHash(pr base.ProposalSignFact, previous base.Manifest) util.Hash {
	fact := pr.ProposalFact()
	return isaac.NewManifest(fact.Point().Height(), previous.Hash(), fact.Hash(), nil, nil, previous.Suffrage(), fact.ProposedAt()).Hash()
}

func c11errTok(err error) string {
	switch {
	case err == nil:
		return "ok"
	case errors.Is(err, isaac.ErrProcessorAlreadySaved):
		return "already-saved"
	case errors.Is(err, isaac.ErrNotProposalProcessorProcessed):
		return "not-processed"
	case strings.Contains(err.Error(), "already canceled"):
		return "canceled"
	}
	return "error"
}

func (env *c11env) logTok() string {
	env.mu.Lock()
	defer env.mu.Unlock()
	if len(env.log) == 0 {
		return "-"
	}
	var t []string
	for _, e := range env.log {
		t = append(t, fmt.Sprintf("%d:p%d", e.Height, e.PID))
	}
	return strings.Join(t, ",")
}

// the two statements of the property on the writer's log
func c11oracle(c *Ctx, env *c11env, what string, input map[string]interface{}) {
	env.mu.Lock()
	defer env.mu.Unlock()
	for i, e := range env.log {
		if e.NewBlock != e.Manifest {
			c.Violation("C11:saved-under-other-manifest", fmt.Sprintf("%s: block %d of proposal p%d was saved under an ACCEPT majority for %s, the computed manifest is %s", what, e.Height, e.PID, c11short(e.NewBlock), c11short(e.Manifest)), input)
		}
		if i > 0 && e.Height <= env.log[i-1].Height {
			c.Violation("C11:height-saved-again", fmt.Sprintf("%s: block %d saved after block %d", what, e.Height, env.log[i-1].Height), input)
		}
	}
}

func runC11(c *Ctx) error {
	n := 300
	if c.Thorough() {
		n = 8000
	}
	const nprops = 8
	for i := 0; i < n; i++ {
		env, pps, props, previous := c11new(c, nprops)
		var toks, outs []string
		lastPr := -1
		for st := 0; st < 3+c.Intn(12); st++ {
			var tok, out string
			pid := c.Intn(nprops)
			if c.Chance(2, 3) { // mostly move forward
				pid = (st/2)%nprops + c.Intn(2)
				if pid >= nprops {
					pid = nprops - 1
				}
			}
			switch k := c.Intn(10); {
			case k < 4:
				tok = fmt.Sprintf("pr:%d", pid)
				fh := props[pid].Fact().Hash()
				if c.Chance(1, 8) { // a proposal nobody can deliver
					tok = "pr:x"
					fh = valuehash.RandomSHA256()
				}
				var ivp base.INITVoteproof
				if tok != "pr:x" {
					lastPr = pid
					ivp = c11ivp(env, props[pid])
				} else {
					ivp = c11ivp(env, props[0])
				}
				f, err := pps.Process(context.Background(), props[pid].Point(), fh, previous, ivp)
				switch {
				case err != nil:
					out = c11errTok(err)
				case f == nil:
					out = "nil"
				default:
					m, err := f(context.Background())
					switch {
					case err != nil:
						out = c11errTok(err)
					case m == nil:
						out = "nil-manifest"
					default:
						out = "manifest"
					}
				}
			case k < 8:
				if lastPr >= 0 && c.Chance(2, 3) { // mostly the proposal that was processed last
					pid = lastPr
				}
				var nb util.Hash = c11manifestHash(props[pid], previous)
				mt := "m"
				switch k2 := c.Intn(16); {
				case k2 < 3:
					nb = valuehash.RandomSHA256()
					mt = "x"
				case k2 < 4: // an ACCEPT majority without a new block hash
					nb = nil
					mt = "n"
				case k2 < 6: // the writer stores the block, then the save is reported as cancelled
					mt = "c"
					env.mu.Lock()
					env.cancelNextSave = true
					env.mu.Unlock()
				}
				tok = fmt.Sprintf("sv:%d:%s", pid, mt)
				_, err := pps.Save(context.Background(), props[pid].Fact().Hash(), c11avp(env, props[pid].Point(), props[pid].Fact().Hash(), nb))
				env.mu.Lock()
				env.cancelNextSave = false
				env.mu.Unlock()
				out = c11errTok(err)
			default:
				tok = "cn"
				out = c11errTok(pps.Cancel())
			}
			toks = append(toks, tok)
			outs = append(outs, out+"/"+env.logTok())
			c.Count("op", tok[:2])
		}
		c11oracle(c, env, "script "+strings.Join(toks, " "), map[string]interface{}{"script": toks})
		c.Case("seq "+strings.Join(toks, " "), strings.Join(outs, " "))
		c.Nontrivial(strings.Join(toks, " "))
		if len(env.log) > 0 {
			c.Count("scripts", "with-saved-block")
		}
		if i%50 == 0 {
			c.Sample(map[string]interface{}{"script": toks, "results": outs})
		}
	}
	// concurrent scripts: the statements of the property on the log
	rounds := 30
	if c.Thorough() {
		rounds = 600
	}
	for r := 0; r < rounds; r++ {
		env, pps, props, previous := c11new(c, nprops)
		var wg sync.WaitGroup
		seeds := make([]uint64, 4)
		for g := range seeds {
			seeds[g] = uint64(c.Intn(1 << 30))
		}
		for g := 0; g < 4; g++ {
			wg.Add(1)
			go func(seed uint64) {
				defer wg.Done()
				x := seed
				next := func(n int) int {
					x += 0x9e3779b97f4a7c15
					z := x
					z = (z ^ (z >> 30)) * 0xbf58476d1ce4e5b9
					z = (z ^ (z >> 27)) * 0x94d049bb133111eb
					z ^= z >> 31
					return int(z % uint64(n))
				}
				for st := 0; st < 12; st++ {
					pid := next(nprops)
					switch k := next(10); {
					case k < 4:
						if f, err := pps.Process(context.Background(), props[pid].Point(), props[pid].Fact().Hash(), previous, c11ivp(env, props[pid])); err == nil && f != nil {
							_, _ = f(context.Background())
						}
					case k < 9:
						nb := c11manifestHash(props[pid], previous)
						if next(4) == 0 {
							nb = valuehash.RandomSHA256()
						}
						_, _ = pps.Save(context.Background(), props[pid].Fact().Hash(), c11avp(env, props[pid].Point(), props[pid].Fact().Hash(), nb))
					default:
						_ = pps.Cancel()
					}
				}
			}(seeds[g])
		}
		wg.Wait()
		c.Eval(1)
		c.Count("concurrent", fmt.Sprintf("saved-%d", len(env.log)))
		c11oracle(c, env, fmt.Sprintf("4 goroutines, seeds %v", seeds), map[string]interface{}{"seeds": seeds, "goroutines": 4})
	}
	return nil
}

func c11short(s string) string {
	if len(s) > 8 {
		return s[:8]
	}
	return s
}
