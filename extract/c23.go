package main

import (
	"go/ast"
	"strings"
)

func init() { register("C23", genC23) }

// caseOutcome finds, inside fn, the case clause one of whose conditions is `cond` and reports
// whether its (first) return statement returns `true` as first result.
func caseOutcome(f *File, fd *ast.FuncDecl, cond string) (found, continues bool) {
	if fd == nil {
		return false, false
	}
	ast.Inspect(fd.Body, func(n ast.Node) bool {
		cc, ok := n.(*ast.CaseClause)
		if !ok {
			return true
		}
		for _, e := range cc.List {
			if normSpace(f.Src(e)) == cond {
				for _, st := range cc.Body {
					if rs, ok := st.(*ast.ReturnStmt); ok && len(rs.Results) >= 1 {
						found = true
						continues = strings.TrimSpace(f.Src(rs.Results[0])) == "true"
						return false
					}
				}
			}
		}
		return true
	})
	return
}

func genC23(o *Out) {
	f := o.pinFile("isaac/database/pool.go", "TempPool.SuffrageExpelOperation", "TempPool.SetSuffrageExpelOperation",
		"TempPool.TraverseSuffrageExpelOperations", "TempPool.RemoveSuffrageExpelOperationsByFact",
		"TempPool.RemoveSuffrageExpelOperationsByHeight", "newSuffrageExpelOperationKey")
	o.pinFile("isaac/database/leveldb.go", "leveldbSuffrageExpelOperation")
	o.pinFile("storage/leveldb/db.go", "Storage.Iter")
	if f == nil {
		return
	}
	for _, x := range []struct{ fn, lean string }{{"TraverseSuffrageExpelOperations", "traverse"}, {"SuffrageExpelOperation", "lookup"}} {
		fd := f.Func("TempPool", x.fn)
		found, cont := caseOutcome(f, fd, "r.Start() > heighti")
		if !found {
			o.errf("pool.go: %s: no case for r.Start() > heighti", x.fn)
		}
		o.boolean(x.lean+"StartAboveContinues", found && cont)
		found, cont = caseOutcome(f, fd, "r.End() < heighti")
		if !found {
			o.errf("pool.go: %s: no case for r.End() < heighti", x.fn)
		}
		o.boolean(x.lean+"EndBelowStops", found && !cont)
	}
	// removal: the case that keeps a record
	keep := ""
	if fd := f.Func("TempPool", "RemoveSuffrageExpelOperationsByHeight"); fd != nil {
		ast.Inspect(fd.Body, func(n ast.Node) bool {
			cc, ok := n.(*ast.CaseClause)
			if !ok || len(cc.List) != 1 {
				return true
			}
			c := normSpace(f.Src(cc.List[0]))
			if strings.HasPrefix(c, "r.End()") {
				keep = c
			}
			return true
		})
	}
	o.str("removeKeepsCond", keep)
}
