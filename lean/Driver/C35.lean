import MitumModel.Common
import MitumModel.Model.ACL
import MitumModel.Gen.C35
namespace Mitum.Driver
open Mitum Mitum.ACL

def c35Cfg : Cfg :=
  { prohibit := Gen.C35.prohibit, super := Gen.C35.super,
    defaultScope := Gen.C35.defaultScope, defaultUser := Gen.C35.defaultUser }

/-- user ids of the protocol: 0 = default user, 1 = "u", 2 = "v" (never in the table), 3 = superuser -/
def c35User (i : Nat) : String :=
  match i with
  | 0 => c35Cfg.defaultUser
  | 1 => "u"
  | 2 => "v"
  | _ => "su"

def c35Scope (i : Nat) : String :=
  match i with
  | 0 => c35Cfg.defaultScope
  | 1 => "s"
  | _ => "t"

/-- a row is two tokens: `- -` = user absent; else perm of scope "s" and of `_default` (0 = absent) -/
def c35Row (name : String) (a b : String) : Option Table :=
  if a = "-" then some []
  else match a.toNat?, b.toNat? with
    | some ps, some pd =>
      let perms : Perms := (if ps = 0 then [] else [("s", ps)]) ++ (if pd = 0 then [] else [(c35Cfg.defaultScope, pd)])
      some [(name, perms)]
    | _, _ => none

def stepC35 (ts : List String) : String :=
  match ts with
  | ["allow", d1, d2, u1, u2, ui, si, req] =>
    match c35Row c35Cfg.defaultUser d1 d2, c35Row "u" u1 u2, ui.toNat?, si.toNat?, req.toNat? with
    | some td, some tu, some ui, some si, some req =>
      let r := allow c35Cfg "su" (td ++ tu) (c35User ui) (c35Scope si) req
      s!"{r.1} {boolStr r.2}"
    | _, _, _, _, _ => "bad-op"
  | ["perm", p] =>
    match p.toNat? with
    | some p =>
      let s := permString c35Cfg p
      match permParse c35Cfg s with
      | some q => s!"{s.length} {q}"
      | none => s!"{s.length} err"
    | none => "bad-op"
  | _ => "bad-op"

end Mitum.Driver
