/-
Common helpers shared by the executable models (core-only, no Mathlib).
-/
namespace Mitum

/-- Split a protocol line into space-separated tokens (empty tokens dropped). -/
def tokens (s : String) : List String :=
  (s.splitOn " ").filter (fun t => !t.isEmpty)

def natTok? (s : String) : Option Nat := s.toNat?

def intTok? (s : String) : Option Int := s.toInt?

/-- all tokens as naturals, `none` if any fails -/
def natToks? (ts : List String) : Option (List Nat) := ts.mapM natTok?

def boolStr (b : Bool) : String := if b then "1" else "0"

def joinSp (xs : List String) : String := " ".intercalate xs

end Mitum
