import MitumModel.Model.Mimic
import MitumModel.Gen.C08
import MitumModel.Pins
/-!
C08  The local node never equivocates.
-/
namespace Mitum.C08
open Mitum.Mimic

/-- everything sent is what the pool holds; a delivery past its `set` finds the pool filled -/
def Inv (s : St) : Prop :=
  (∀ x, x ∈ s.sent → s.pool = some x) ∧ (∀ d, d ∈ s.ds → d.pc = 2 → s.pool ≠ none)

theorem mem_setAt (ds : List Delivery) (i : Nat) (d x : Delivery) (h : x ∈ setAt ds i d) : x = d ∨ x ∈ ds := by
  simp only [setAt] at h
  rcases List.mem_or_eq_of_mem_set h with h | h
  · exact Or.inr h
  · exact Or.inl h

theorem inv_step (s : St) (i : Nat) (h : Inv s) : Inv (step fixed s i) := by
  obtain ⟨h1, h2⟩ := h
  simp only [step, seen, fixed, if_true]
  cases hd : s.ds[i]? with
  | none => exact ⟨h1, h2⟩
  | some d =>
    have hmem : d ∈ s.ds := List.mem_of_getElem? hd
    simp only
    split
    · -- check
      cases hp : s.pool with
      | none =>
        refine ⟨by simpa [hp] using h1, ?_⟩
        intro x hx hx2
        rcases mem_setAt _ _ _ _ hx with e | e
        · subst e; simp at hx2
        · exact absurd hp (h2 x e hx2)
      | some f =>
        refine ⟨by simpa [hp] using h1, ?_⟩
        intro x hx hx2
        simp
    · -- set
      by_cases hf : d.setFails = true
      · -- the write fails: the delivery ends, nothing changes
        simp only [hf, if_true]
        refine ⟨h1, ?_⟩
        intro x hx hx2
        rcases mem_setAt _ _ _ _ hx with e | e
        · subst e; simp at hx2
        · exact h2 x e hx2
      · simp only [hf, if_false]
        cases hp : s.pool with
        | none =>
          refine ⟨?_, by intro x _ _; simp⟩
          intro x hx
          have := h1 x hx
          rw [hp] at this
          exact absurd this (by simp)
        | some f =>
          refine ⟨?_, by intro x _ _; simp⟩
          intro x hx
          simpa [hp] using h1 x hx
    · -- send
      rename_i hpc
      have hne := h2 d hmem hpc
      cases hp : s.pool with
      | none => exact absurd hp hne
      | some f =>
        refine ⟨?_, ?_⟩
        · intro x hx
          simp only [List.mem_append, List.mem_singleton] at hx
          rcases hx with hx | hx
          · simpa [hp] using h1 x hx
          · simp [hx]
        · intro x hx hx2
          simp
    · exact ⟨h1, h2⟩

theorem inv_run (sched : List Nat) (s : St) (h : Inv s) : Inv (run fixed s sched) := by
  induction sched generalizing s with
  | nil => exact h
  | cons i r ih => exact ih _ (inv_step s i h)

theorem inv_start (facts : List (Nat × Bool)) : Inv (startF facts) := by
  refine ⟨by simp [startF], ?_⟩
  intro d hd hpc
  simp only [startF, List.mem_map] at hd
  obtain ⟨f, _, rfl⟩ := hd
  simp at hpc

/-- **no_equivocation.**  With a broadcaster that hands the stored ballot to the network, stops when the pool
write fails, over a pool that reads what it wrote: whatever ballots are delivered for a stage point, whichever of
their pool writes fail and however the steps of the deliveries interleave, every ballot the local node sends for
that stage point carries one and the same fact. -/
theorem no_equivocation (facts : List (Nat × Bool)) (sched : List Nat) :
    ∀ x y, x ∈ (run fixed (startF facts) sched).sent → y ∈ (run fixed (startF facts) sched).sent → x = y := by
  intro x y hx hy
  have h := (inv_run sched (startF facts) (inv_start facts)).1
  have := (h x hx).symm.trans (h y hy)
  exact Option.some.inj this

/-- the fact sent is the one of the delivery that set the pool first -/
theorem sent_is_stored (facts : List (Nat × Bool)) (sched : List Nat) :
    ∀ x, x ∈ (run fixed (startF facts) sched).sent → (run fixed (startF facts) sched).pool = some x :=
  (inv_run sched (startF facts) (inv_start facts)).1

/-- the code before the repair (send what was just signed): two deliveries that both check before either
sets make the local node send two different facts -/
theorem mimic_race_witness : (run { fixed with sendStored := false } (start [1, 2]) [0, 1, 0, 1, 0, 1]).sent = [1, 2] := by decide

/-- a broadcaster that goes on when the pool write fails sends whatever it signed (seeded change C08-C) -/
theorem failing_pool_witness :
    (run { fixed with stopsOnSetError := false } (startF [(1, true), (2, true)]) [0, 0, 0, 1, 1, 1]).sent = [1, 2] ∧
    (run fixed (startF [(1, true), (2, true)]) [0, 0, 0, 1, 1, 1]).sent = [] := by decide

/-- a pool that writes under another key than it reads never finds the stored ballot (seeded change C08-D) -/
theorem key_mismatch_witness :
    (run { fixed with keysAgree := false } (start [1, 2]) [0, 0, 0, 1, 1, 1]).sent = [1, 2] ∧
    (run fixed (start [1, 2]) [0, 0, 0, 1, 1, 1]).sent = [1] := by decide

example : (run fixed (start [1, 2]) [0, 1, 0, 1, 0, 1]).sent = [1, 1] := by decide
example : (run fixed (startF [(1, true), (2, false), (3, false)]) [0, 1, 2, 0, 1, 2, 0, 1, 2]).sent = [2, 2] := by decide

/-- the code as extracted from the source on this run -/
def current : Code :=
  { sendStored := Gen.C08.broadcastSendsStored, stopsOnSetError := Gen.C08.broadcastStopsOnSetError, keysAgree := Gen.C08.poolKeysAgree }

theorem current_is_fixed : current = fixed := by decide

theorem facts_ok :
    Gen.C08.broadcastSendsStored = true ∧ Gen.C08.setUnderLock = true ∧ Gen.C08.poolFirstWriterWins = true ∧
    Gen.C08.mimicChecksPool = true ∧ Gen.C08.broadcastStopsOnSetError = true ∧ Gen.C08.poolKeysAgree = true ∧
    Gen.C08.extractErrors = [] := by decide

theorem source_pinned : Gen.C08.pins = Pins.C08 := by decide

end Mitum.C08
