module verif/harness

go 1.22.0

toolchain go1.23.5

require (
	github.com/alicebob/miniredis/v2 v2.33.0
	github.com/pkg/errors v0.9.1
	github.com/redis/go-redis/v9 v9.6.2
	github.com/spikeekips/mitum v0.0.0
	github.com/syndtr/goleveldb v1.0.1-0.20210819022825-2ae1ddf74ef7
)

require (
	github.com/Masterminds/semver/v3 v3.3.0 // indirect
	github.com/alecthomas/kong v1.2.1 // indirect
	github.com/alicebob/gopher-json v0.0.0-20230218143504-906a9b012302 // indirect
	github.com/armon/go-metrics v0.4.1 // indirect
	github.com/beevik/ntp v1.4.3 // indirect
	github.com/bluele/gcache v0.0.2 // indirect
	github.com/btcsuite/btcd/btcec/v2 v2.3.4 // indirect
	github.com/btcsuite/btcd/chaincfg/chainhash v1.1.0 // indirect
	github.com/bytedance/sonic v1.12.3 // indirect
	github.com/bytedance/sonic/loader v0.2.0 // indirect
	github.com/cenkalti/backoff/v4 v4.3.0 // indirect
	github.com/cespare/xxhash/v2 v2.3.0 // indirect
	github.com/cloudwego/base64x v0.1.4 // indirect
	github.com/cloudwego/iasm v0.2.0 // indirect
	github.com/davecgh/go-spew v1.1.2-0.20180830191138-d8f796af33cc // indirect
	github.com/decred/dcrd/dcrec/secp256k1/v4 v4.3.0 // indirect
	github.com/dgryski/go-rendezvous v0.0.0-20200823014737-9f7001d12a5f // indirect
	github.com/fatih/color v1.17.0 // indirect
	github.com/go-jose/go-jose/v4 v4.0.4 // indirect
	github.com/gofrs/uuid v4.4.0+incompatible // indirect
	github.com/golang/snappy v0.0.4 // indirect
	github.com/google/btree v1.1.3 // indirect
	github.com/hashicorp/consul/api v1.29.5 // indirect
	github.com/hashicorp/errwrap v1.1.0 // indirect
	github.com/hashicorp/go-cleanhttp v0.5.2 // indirect
	github.com/hashicorp/go-hclog v1.6.3 // indirect
	github.com/hashicorp/go-immutable-radix v1.3.1 // indirect
	github.com/hashicorp/go-msgpack v0.5.5 // indirect
	github.com/hashicorp/go-multierror v1.1.1 // indirect
	github.com/hashicorp/go-retryablehttp v0.7.7 // indirect
	github.com/hashicorp/go-rootcerts v1.0.2 // indirect
	github.com/hashicorp/go-secure-stdlib/parseutil v0.1.8 // indirect
	github.com/hashicorp/go-secure-stdlib/strutil v0.1.2 // indirect
	github.com/hashicorp/go-sockaddr v1.0.7 // indirect
	github.com/hashicorp/golang-lru v1.0.2 // indirect
	github.com/hashicorp/hcl v1.0.0 // indirect
	github.com/hashicorp/memberlist v0.5.1 // indirect
	github.com/hashicorp/serf v0.10.1 // indirect
	github.com/hashicorp/vault/api v1.15.0 // indirect
	github.com/klauspost/cpuid/v2 v2.2.8 // indirect
	github.com/mattn/go-colorable v0.1.13 // indirect
	github.com/mattn/go-isatty v0.0.20 // indirect
	github.com/miekg/dns v1.1.62 // indirect
	github.com/mitchellh/mapstructure v1.5.0 // indirect
	github.com/oklog/ulid/v2 v2.1.0 // indirect
	github.com/pmezard/go-difflib v1.0.1-0.20181226105442-5d4384ee4fb2 // indirect
	github.com/quic-go/quic-go v0.48.0 // indirect
	github.com/rs/zerolog v1.33.0 // indirect
	github.com/ryanuber/go-glob v1.0.0 // indirect
	github.com/sean-/seed v0.0.0-20170313163322-e2103e2c3529 // indirect
	github.com/stretchr/testify v1.9.0 // indirect
	github.com/twitchyliquid64/golang-asm v0.15.1 // indirect
	github.com/yuin/gopher-lua v1.1.1 // indirect
	github.com/zeebo/blake3 v0.2.4 // indirect
	golang.org/x/arch v0.11.0 // indirect
	golang.org/x/crypto v0.28.0 // indirect
	golang.org/x/exp v0.0.0-20241009180824-f66d83c29e7c // indirect
	golang.org/x/mod v0.21.0 // indirect
	golang.org/x/net v0.30.0 // indirect
	golang.org/x/sync v0.8.0 // indirect
	golang.org/x/sys v0.26.0 // indirect
	golang.org/x/text v0.19.0 // indirect
	golang.org/x/time v0.7.0 // indirect
	gopkg.in/yaml.v3 v3.0.1 // indirect
)

replace github.com/spikeekips/mitum => /repo

replace github.com/hashicorp/memberlist => github.com/spikeekips/memberlist v0.0.0-20230626195851-39f17fa10d23
