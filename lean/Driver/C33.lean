import MitumModel.Common
import MitumModel.Model.Worker
namespace Mitum.Driver
open Mitum Mitum.Worker

def resStr33 : Res → String
  | .accepted => "accepted" | .rejected => "rejected" | .blocked => "blocked" | .ok => "ok"
  | .waitNil => "nil" | .waitErr e => s!"err{e}"

/-- `seq <semSize> nj:<j> fin:<j>:<err|-> done wait` -/
def stepC33 (ts : List String) : String :=
  match ts with
  | "seq" :: n :: evs =>
    match n.toNat? with
    | none => "bad-op"
    | some n =>
      let step1 := fun (acc : W × List String) (t : String) =>
        let ev : Option Ev := match t.splitOn ":" with
          | ["nj", j] => j.toNat?.map Ev.newJob
          | ["fin", j, e] => j.toNat?.map (fun j => Ev.finish j (if e = "-" then none else e.toNat?))
          | ["done"] => some Ev.done
          | ["wait"] => some Ev.wait
          | _ => none
        match ev with
        | some ev =>
          let r := step acc.1 ev
          -- a rejected NewJob returns the cause of its context: the first of Done / a job error
          let out := match r.2, acc.1.njCause with
            | .rejected, some (some e) => s!"rejected:err{e}"
            | .rejected, some none => "rejected:done"
            | x, _ => resStr33 x
          (r.1, acc.2 ++ [out])
        | none => (acc.1, acc.2 ++ ["bad-op"])
      joinSp (evs.foldl step1 (init n, [])).2
  | _ => "bad-op"

end Mitum.Driver
