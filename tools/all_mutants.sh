#!/bin/bash
cd /verif
for d in seeded/${ONLY:-C*}-*; do
  id=$(basename $d | cut -d- -f1)
  p=/verif/$d/patch.diff
  [ -f $p ] || continue
  cd /repo
  if ! git apply --check $p 2>/dev/null; then echo "$(basename $d) PATCH-DOES-NOT-APPLY"; cd /verif; continue; fi
  git apply $p
  out=$(cd /verif && VERIF_EVIDENCE_DIR=/verif/work/mutant-evidence ./check $id --tier quick 2>&1 | grep -v "^KNOWN")
  git -C /repo checkout -- .
  cd /verif
  v=$(echo "$out" | grep "^VIOLATION" | head -1)
  if [ -z "$v" ]; then echo "$(basename $d) MISSED"; else
    r=$(echo "$v" | sed 's/.*replay=\([^ ]*\).*/\1/'); k=$(python3 -c "import json;r=json.load(open('$r'));print(r.get('kind'),r.get('class'))" 2>/dev/null)
    nf=""; echo "$v" | grep -q no-failing-input-found && nf="NO-FAILING-INPUT"
    echo "$(basename $d) caught $k $nf"
  fi
done
