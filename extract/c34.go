package main

import "strings"

func init() { register("C34", genC34) }

func genC34(o *Out) {
	f := o.pinFile("util/timers.go", "NewSimpleTimer", "SimpleTimer.isExpired", "SimpleTimer.prepare", "SimpleTimer.run",
		"NewSimpleTimers", "SimpleTimers.Stop", "SimpleTimers.New", "SimpleTimers.NewTimer", "SimpleTimers.StopAllTimers",
		"SimpleTimers.StopOthers", "SimpleTimers.StopTimers", "SimpleTimers.start", "SimpleTimers.iterate",
		"SimpleTimers.removeAllTimers", "SimpleTimers.removeTimer")
	if f == nil {
		return
	}
	// the worker job of iterate removes a finished timer only if it is still the registered one
	same := false
	if it := f.Func("SimpleTimers", "iterate"); it != nil {
		src := normSpace(f.Src(it.Body))
		if strings.Contains(src, "ts.removeTimerOf(tr)") && !strings.Contains(src, "ts.removeTimer(tr.id)") {
			if rf := f.Func("SimpleTimers", "removeTimerOf"); rf != nil {
				o.pin(f, "SimpleTimers", "removeTimerOf")
				rs := normSpace(f.Src(rf.Body))
				same = strings.Contains(rs, "timer != tr") && strings.Contains(rs, "ErrLockedSetIgnore") &&
					strings.Contains(rs, "ts.timers.Remove(tr.id")
			}
		}
	}
	o.boolean("finishRemovesSameOnly", same)
	// run tests the context before it asks for the next interval and before the callback
	ctxFirst := false
	if rf := f.Func("SimpleTimer", "run"); rf != nil {
		src := normSpace(f.Src(rf.Body))
		a := strings.Index(src, "if ctx.Err() != nil { return false, ctx.Err() }")
		b := strings.Index(src, "t.intervalFunc(")
		c := strings.Index(src, "t.callback(")
		ctxFirst = a >= 0 && b > a && c > a && strings.HasPrefix(src, "{ t.l.Lock() defer t.l.Unlock()")
	}
	o.boolean("runChecksCtxFirst", ctxFirst)
	exp := false
	if nf := f.Func("SimpleTimers", "NewTimer"); nf != nil {
		src := normSpace(f.Src(nf.Body))
		exp = strings.Contains(src, "interval := timer.intervalFunc(0)") &&
			strings.Contains(src, "timer.expiredLocked.SetValue(time.Now().Add(interval))") &&
			strings.Contains(src, "if interval < 1 { return nil, ErrLockedSetIgnore }")
	}
	o.boolean("newTimerSetsExpiry", exp)
}
