import MitumModel.Common
/-
Model of the new-operation part of `isaacdatabase.TempPool`
(isaac/database/pool.go): `SetOperation`, `OperationHashes`
(+ `setRemoveNewOperations`).

A record is (operation id, fact id).  `stored` is the set of operation bodies
ever stored (the body key is what `SetOperation` tests with `Exists`; it
survives removal from the ordered index), `ordered` is the time-ordered index
that `OperationHashes` iterates (oldest first).
Records whose header does not parse (`removeordereds`) cannot be produced
through the API and are not modelled.
-/
namespace Mitum.OpPool

structure Rec where
  op : Nat
  fact : Nat
deriving Repr, DecidableEq

structure State where
  stored : List Nat
  ordered : List Rec
deriving Repr

def init : State := { stored := [], ordered := [] }

/-- `SetOperation`: refused when the operation body is already stored -/
def setOperation (s : State) (r : Rec) : State × Bool :=
  if r.op ∈ s.stored then (s, false)
  else ({ stored := s.stored ++ [r.op], ordered := s.ordered ++ [r] }, true)

structure Acc where
  ops : List Rec        -- selected so far, in order
  removed : List Nat    -- operations to be removed from the ordered index
deriving Repr

/-- the iteration callback of `OperationHashes` over the remaining ordered records -/
def scan (limit : Nat) (pass : Rec → Bool) : List Rec → Acc → Acc
  | [], a => a
  | r :: rs, a =>
    if a.ops.length = limit then a
    else if !pass r then scan limit pass rs { a with removed := a.removed ++ [r.op] }
    else
      match a.ops.find? (fun x => x.fact = r.fact) with
      | some prev =>
        scan limit pass rs
          { ops := a.ops.filter (fun x => !(x.fact = r.fact)) ++ [r], removed := a.removed ++ [prev.op] }
      | none => scan limit pass rs { a with ops := a.ops ++ [r] }

/-- `OperationHashes`: the returned entries and the state after the removals -/
def operationHashes (limit : Nat) (pass : Rec → Bool) (s : State) : List Rec × State :=
  let a := scan limit pass s.ordered { ops := [], removed := [] }
  (a.ops, { s with ordered := s.ordered.filter (fun r => !(r.op ∈ a.removed)) })

end Mitum.OpPool
