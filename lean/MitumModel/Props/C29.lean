import MitumModel.Model.Frame
import MitumModel.Gen.C29
import MitumModel.Pins
/-!
C29  Length-prefixed framing round-trips and rejects bad input.
-/
namespace Mitum.C29
open Mitum.Frame

/-! ### big-endian length words -/

theorem be64_length (n : Nat) : (be64 n).length = 8 := rfl

theorem readBe64_be64 (n : Nat) (h : n < 2 ^ 64) : readBe64 (be64 n) = some n := by
  simp only [be64, readBe64, UInt8.toNat_ofNat']
  congr 1
  omega

theorem ofNat_eq (x : UInt8) (k : Nat) (hk : k % 256 = x.toNat) : UInt8.ofNat k = x := by
  apply UInt8.toNat_inj.mp
  rw [UInt8.toNat_ofNat']; omega

theorem be64_readBe64 (bs : Bytes) (n : Nat) (h : readBe64 bs = some n) :
    bs = be64 n ∧ n < 2 ^ 64 := by
  match bs, h with
  | [a, b, c, d, e, f, g, hh], h =>
    simp only [readBe64, Option.some.injEq] at h
    have ha := a.toNat_lt; have hb := b.toNat_lt; have hc := c.toNat_lt; have hd := d.toNat_lt
    have he := e.toNat_lt; have hf := f.toNat_lt; have hg := g.toNat_lt; have hhh := hh.toNat_lt
    refine ⟨?_, by omega⟩
    simp only [be64]
    rw [ofNat_eq a _ (by omega), ofNat_eq b _ (by omega), ofNat_eq c _ (by omega), ofNat_eq d _ (by omega),
        ofNat_eq e _ (by omega), ofNat_eq f _ (by omega), ofNat_eq g _ (by omega), ofNat_eq hh _ (by omega)]

theorem readBe64_isSome_of_length (b : Bytes) (h : b.length = 8) : ∃ n, readBe64 b = some n := by
  match b, h with
  | [a, b, c, d, e, f, g, hh], _ => exact ⟨_, rfl⟩

/-! ### one item -/

theorem readLengthBytes_append (n : Nat) (hn : n < 2 ^ 64) (rest : Bytes) :
    readLengthBytes (be64 n ++ rest) = .ok n := by
  unfold readLengthBytes
  have hlen : ¬ (be64 n ++ rest).length < 8 := by simp [be64_length]
  simp only [hlen, if_false]
  have : (be64 n ++ rest).take 8 = be64 n := by
    rw [List.take_append_of_le_length (by simp [be64_length])]
    exact List.take_of_length_le (by simp [be64_length])
  rw [this, readBe64_be64 n hn]

theorem readLengthBytes_ok (b : Bytes) (n : Nat) (h : readLengthBytes b = .ok n) :
    b = be64 n ++ b.drop 8 ∧ n < 2 ^ 64 := by
  unfold readLengthBytes at h
  split at h
  · cases h
  · split at h
    · rename_i m hm
      injection h with h; subst h
      have := be64_readBe64 _ _ hm
      refine ⟨?_, this.2⟩
      conv => lhs; rw [← List.take_append_drop 8 b]
      rw [this.1]
    · cases h

theorem readLengthBytes_no_panic (b : Bytes) : readLengthBytes b ≠ .panic := by
  unfold readLengthBytes
  split
  · simp
  · rename_i h
    have hl : (b.take 8).length = 8 := by simp [List.length_take]; omega
    obtain ⟨n, hn⟩ := readBe64_isSome_of_length _ hl
    rw [hn]; simp

theorem readLengthedBytes_encodeItem (x rest : Bytes) (hx : x.length < 2 ^ 64) :
    readLengthedBytes (encodeItem x ++ rest) = .ok (x, rest) := by
  unfold readLengthedBytes encodeItem
  rw [List.append_assoc, readLengthBytes_append _ hx]
  have hl : (be64 x.length ++ (x ++ rest)).length = 8 + x.length + rest.length := by
    simp [be64_length]; omega
  simp only [hl]
  have h1 : ¬ (8 + x.length + rest.length - 8 < x.length) := by omega
  have h2 : ¬ (8 + x.length + rest.length < x.length + 8) := by omega
  simp only [h1, h2, if_false]
  have hd8 : (be64 x.length ++ (x ++ rest)).drop 8 = x ++ rest := by
    rw [List.drop_append_of_le_length (by simp [be64_length])]
    simp [be64_length]
  have hdi : (be64 x.length ++ (x ++ rest)).drop (x.length + 8) = rest := by
    rw [Nat.add_comm, ← List.drop_drop, hd8]
    simp
  rw [hd8, hdi]
  simp

theorem readLengthedBytes_ok (b x rest : Bytes) (h : readLengthedBytes b = .ok (x, rest)) :
    b = encodeItem x ++ rest ∧ x.length < 2 ^ 64 := by
  unfold readLengthedBytes at h
  cases hr : readLengthBytes b with
  | error => simp [hr] at h
  | panic => simp [hr] at h
  | ok i =>
    simp only [hr] at h
    obtain ⟨hb, hi⟩ := readLengthBytes_ok b i hr
    split at h
    · cases h
    · split at h
      · cases h
      · rename_i h1 h2
        injection h with h
        injection h with hx hrest
        have hlen8 : 8 ≤ b.length := by
          have := congrArg List.length hb
          simp [be64_length] at this; omega
        have hxl : x.length = i := by
          rw [← hx, List.length_take, List.length_drop]; omega
        refine ⟨?_, by omega⟩
        unfold encodeItem
        rw [hxl, ← hx, ← hrest]
        conv => lhs; rw [hb]
        rw [List.append_assoc]
        congr 1
        rw [Nat.add_comm i 8, ← List.drop_drop]
        exact (List.take_append_drop i (b.drop 8)).symm

theorem readLengthedBytes_no_panic (b : Bytes) : readLengthedBytes b ≠ .panic := by
  unfold readLengthedBytes
  cases hr : readLengthBytes b with
  | error => simp
  | panic => exact absurd hr (readLengthBytes_no_panic b)
  | ok i =>
    simp only
    split
    · simp
    · split
      · rename_i h1 h2
        have := readLengthBytes_ok b i hr
        have hl := congrArg List.length this.1
        simp [be64_length] at hl
        omega
      · simp

/-! ### item lists -/

theorem readItems_encodeItems (m : List Bytes) (rest : Bytes) (hm : ∀ x ∈ m, x.length < 2 ^ 64) :
    readItems m.length (encodeItems m ++ rest) = .ok (m, rest) := by
  induction m with
  | nil => simp [readItems, encodeItems]
  | cons x xs ih =>
    simp only [List.length_cons, readItems, encodeItems, List.append_assoc]
    rw [readLengthedBytes_encodeItem x _ (hm x (by simp))]
    simp only
    rw [ih (fun y hy => hm y (List.mem_cons_of_mem _ hy))]

theorem readItems_ok (n : Nat) : ∀ (b : Bytes) (m : List Bytes) (l : Bytes),
    readItems n b = .ok (m, l) → b = encodeItems m ++ l ∧ m.length = n ∧ ∀ x ∈ m, x.length < 2 ^ 64 := by
  induction n with
  | zero =>
    intro b m l h
    simp only [readItems] at h
    injection h with h; injection h with h1 h2
    subst h1; subst h2
    simp [encodeItems]
  | succ n ih =>
    intro b m l h
    simp only [readItems] at h
    cases hr : readLengthedBytes b with
    | error => simp [hr] at h
    | panic => simp [hr] at h
    | ok v =>
      obtain ⟨x, rest⟩ := v
      simp only [hr] at h
      cases hi : readItems n rest with
      | error => simp [hi] at h
      | panic => simp [hi] at h
      | ok w =>
        obtain ⟨xs, l'⟩ := w
        simp only [hi] at h
        injection h with h; injection h with h1 h2
        subst h1; subst h2
        obtain ⟨hb, hxl⟩ := readLengthedBytes_ok b x rest hr
        obtain ⟨hrest, hlen, hall⟩ := ih rest xs l' hi
        refine ⟨?_, by simp [hlen], ?_⟩
        · rw [hb, hrest]; simp [encodeItems, List.append_assoc]
        · intro y hy
          rcases List.mem_cons.mp hy with rfl | hy'
          · exact hxl
          · exact hall y hy'

theorem readItems_no_panic (n : Nat) : ∀ (b : Bytes), readItems n b ≠ .panic := by
  induction n with
  | zero => intro b; simp [readItems]
  | succ n ih =>
    intro b
    simp only [readItems]
    cases hr : readLengthedBytes b with
    | error => simp
    | panic => exact absurd hr (readLengthedBytes_no_panic b)
    | ok v =>
      obtain ⟨x, rest⟩ := v
      simp only
      cases hi : readItems n rest with
      | error => simp
      | panic => exact absurd hi (ih rest)
      | ok w => simp

/-! ### the property theorems (buffer form) -/

/-- what the writer accepts: at most `maxLen` items (each shorter than 2^64 bytes, which every
    Go slice is) -/
def Writable (maxLen : Nat) (m : List Bytes) : Prop :=
  m.length ≤ maxLen ∧ ∀ x ∈ m, x.length < 2 ^ 64

/-- ✦ round trip: every list the writer accepts reads back identically, with the exact leftover. -/
theorem decode_encode (maxLen : Nat) (hz : Bool) (m : List Bytes) (rest : Bytes)
    (hmax : maxLen < 2 ^ 64) (hw : Writable maxLen m) :
    ∃ e, encode maxLen m = some e ∧ decodeBuf maxLen hz (e ++ rest) = .ok (m, rest) := by
  obtain ⟨hlen, hall⟩ := hw
  refine ⟨be64 m.length ++ encodeItems m, ?_, ?_⟩
  · unfold encode; simp [Nat.not_lt.mpr hlen]
  · unfold decodeBuf
    have hl8 : ¬ (be64 m.length ++ encodeItems m ++ rest).length < 8 := by simp [be64_length]
    simp only [hl8, if_false]
    rw [List.append_assoc, readLengthBytes_append _ (by omega)]
    simp only [Nat.not_lt.mpr hlen, if_false]
    have hd : (be64 m.length ++ (encodeItems m ++ rest)).drop 8 = encodeItems m ++ rest := by
      rw [List.drop_append_of_le_length (by simp [be64_length])]; simp [be64_length]
    rw [hd]
    exact readItems_encodeItems m rest hall

/-- ✦ the writer refuses exactly the lists the reader could not read back. -/
theorem encode_refuses (maxLen : Nat) (m : List Bytes) :
    encode maxLen m = none ↔ maxLen < m.length := by
  unfold encode; split <;> simp_all

/-- ✦ soundness: a successful read never drops or invents data — the input is exactly an
    encoding of the returned items followed by the returned leftover. Needs the regenerated
    fact that the over-limit branch returns an error. -/
theorem decode_sound (maxLen : Nat) (b : Bytes) (m : List Bytes) (l : Bytes)
    (h : decodeBuf maxLen true b = .ok (m, l)) :
    encode maxLen m = some (be64 m.length ++ encodeItems m) ∧
    b = be64 m.length ++ encodeItems m ++ l := by
  unfold decodeBuf at h
  split at h
  · cases h
  · cases hr : readLengthBytes b with
    | error => simp [hr] at h
    | panic => simp [hr] at h
    | ok i =>
      simp only [hr] at h
      split at h
      · simp at h
      · rename_i hle
        obtain ⟨hb, hn, _⟩ := readItems_ok i _ m l h
        obtain ⟨hb8, _⟩ := readLengthBytes_ok b i hr
        subst hn
        refine ⟨?_, ?_⟩
        · unfold encode; simp [hle]
        · conv => lhs; rw [hb8, hb]
          simp [List.append_assoc]

/-- ✦ never a panic: every slice expression of the buffer reader is in range. -/
theorem decode_total (maxLen : Nat) (hz : Bool) (b : Bytes) : decodeBuf maxLen hz b ≠ .panic := by
  unfold decodeBuf
  split
  · simp
  · cases hr : readLengthBytes b with
    | error => simp
    | panic => exact absurd hr (readLengthBytes_no_panic b)
    | ok i =>
      simp only
      split
      · split <;> simp
      · exact readItems_no_panic i _

/-- ✦ truncation: every proper prefix of an encoding is rejected. -/
theorem truncation_errors (maxLen : Nat) (m : List Bytes) (e p s : Bytes)
    (hmax : maxLen < 2 ^ 64) (hw : Writable maxLen m)
    (he : encode maxLen m = some e) (hps : e = p ++ s) (hs : s ≠ []) :
    decodeBuf maxLen true p = .error := by
  cases hd : decodeBuf maxLen true p with
  | error => rfl
  | panic => exact absurd hd (decode_total _ _ _)
  | ok v =>
    obtain ⟨m', l'⟩ := v
    obtain ⟨henc, hp⟩ := decode_sound maxLen p m' l' hd
    have hw' : Writable maxLen m' := by
      unfold decodeBuf at hd
      split at hd
      · cases hd
      · cases hr : readLengthBytes p with
        | error => simp [hr] at hd
        | panic => simp [hr] at hd
        | ok i =>
          simp only [hr] at hd
          split at hd
          · simp at hd
          · obtain ⟨_, hn, hall⟩ := readItems_ok i _ m' l' hd
            exact ⟨by omega, hall⟩
    -- reading the full encoding gives both (m, []) and (m', l' ++ s)
    obtain ⟨e1, he1, hd1⟩ := decode_encode maxLen true m [] hmax hw
    obtain ⟨e2, he2, hd2⟩ := decode_encode maxLen true m' (l' ++ s) hmax hw'
    rw [he] at he1; injection he1 with he1; subst he1
    rw [henc] at he2; injection he2 with he2; subst he2
    have : e ++ [] = be64 m'.length ++ encodeItems m' ++ (l' ++ s) := by
      rw [List.append_nil, hps, hp]; simp [List.append_assoc]
    rw [this] at hd1
    rw [hd1] at hd2
    injection hd2 with hd2
    injection hd2 with _ h2
    have : s = [] := by
      have := congrArg List.length h2
      simp at this
      exact List.length_eq_zero_iff.mp (by omega)
    exact absurd this hs

/-! ### stream form: arbitrary chunking -/

theorem ensureRead_some : ∀ (cs : List Bytes) (k : Nat) (b : Bytes) (rest : List Bytes),
    ensureRead cs k = some (b, rest) → b ++ rest.flatten = cs.flatten ∧ b.length = k := by
  intro cs
  induction cs with
  | nil =>
    intro k b rest h
    cases k with
    | zero => simp [ensureRead] at h; obtain ⟨rfl, rfl⟩ := h; simp
    | succ k => simp [ensureRead] at h
  | cons c cs ih =>
    intro k b rest h
    cases k with
    | zero => simp [ensureRead] at h; obtain ⟨rfl, rfl⟩ := h; simp
    | succ k =>
      simp only [ensureRead] at h
      split at h
      · rename_i hle
        cases hr : ensureRead cs (k + 1 - c.length) with
        | none => simp [hr] at h
        | some v =>
          obtain ⟨b', rest'⟩ := v
          simp only [hr] at h
          injection h with h; injection h with h1 h2
          subst h1; subst h2
          obtain ⟨i1, i2⟩ := ih _ _ _ hr
          refine ⟨?_, ?_⟩
          · simp [List.append_assoc, i1]
          · simp [i2]; omega
      · rename_i hgt
        injection h with h; injection h with h1 h2
        subst h1; subst h2
        refine ⟨?_, ?_⟩
        · simp [← List.append_assoc]
        · simp [List.length_take]; omega

theorem ensureRead_none : ∀ (cs : List Bytes) (k : Nat),
    ensureRead cs k = none → cs.flatten.length < k := by
  intro cs
  induction cs with
  | nil =>
    intro k h
    cases k with
    | zero => simp [ensureRead] at h
    | succ k => simp
  | cons c cs ih =>
    intro k h
    cases k with
    | zero => simp [ensureRead] at h
    | succ k =>
      simp only [ensureRead] at h
      split at h
      · rename_i hle
        cases hr : ensureRead cs (k + 1 - c.length) with
        | none => have := ih _ hr; simp only [List.flatten_cons, List.length_append]; omega
        | some v => simp [hr] at h
      · cases h

theorem ensureRead_isSome (cs : List Bytes) (k : Nat) (h : k ≤ cs.flatten.length) :
    ∃ b rest, ensureRead cs k = some (b, rest) := by
  cases hr : ensureRead cs k with
  | none => have := ensureRead_none cs k hr; omega
  | some v => exact ⟨v.1, v.2, rfl⟩

theorem readLengthedStream_sound (maxItem : Nat) (cs : List Bytes) (x : Bytes) (rest : List Bytes)
    (h : readLengthedStream maxItem cs = .ok (x, rest)) :
    readLengthedBytes cs.flatten = .ok (x, rest.flatten) := by
  unfold readLengthedStream at h
  cases h8 : ensureRead cs 8 with
  | none => simp [h8] at h
  | some v =>
    obtain ⟨p, cs1⟩ := v
    simp only [h8] at h
    obtain ⟨hp, _⟩ := ensureRead_some _ _ _ _ h8
    cases hb : readBe64 p with
    | none => simp [hb] at h
    | some i =>
      simp only [hb] at h
      obtain ⟨hpe, hi⟩ := be64_readBe64 p i hb
      have key : ∀ (x : Bytes) (rest : List Bytes), x.length = i → x ++ rest.flatten = cs1.flatten →
          readLengthedBytes cs.flatten = .ok (x, rest.flatten) := by
        intro x rest hxl hx
        have : cs.flatten = encodeItem x ++ rest.flatten := by
          rw [← hp, hpe, ← hx]; unfold encodeItem; rw [hxl, List.append_assoc]
        rw [this]
        exact readLengthedBytes_encodeItem x _ (by omega)
      split at h
      · rename_i hlt
        injection h with h; injection h with h1 h2
        subst h1; subst h2
        exact key [] cs1 (by simp; omega) (by simp)
      · split at h
        · cases h
        · cases hi2 : ensureRead cs1 i with
          | none => simp [hi2] at h
          | some w =>
            obtain ⟨b, cs2⟩ := w
            simp only [hi2] at h
            injection h with h; injection h with h1 h2
            subst h1; subst h2
            obtain ⟨hb1, hb2⟩ := ensureRead_some _ _ _ _ hi2
            exact key b cs2 hb2 hb1

theorem readLengthedStream_complete (maxItem : Nat) (cs : List Bytes) (x l : Bytes)
    (h : readLengthedBytes cs.flatten = .ok (x, l)) (hx : x.length ≤ maxItem) :
    ∃ rest, readLengthedStream maxItem cs = .ok (x, rest) ∧ rest.flatten = l := by
  obtain ⟨hb, hxl⟩ := readLengthedBytes_ok _ _ _ h
  unfold encodeItem at hb
  have hlen : 8 ≤ cs.flatten.length := by rw [hb]; simp [be64_length]
  obtain ⟨p, cs1, h8⟩ := ensureRead_isSome cs 8 hlen
  obtain ⟨hp, hpl⟩ := ensureRead_some _ _ _ _ h8
  have hsplit : p = be64 x.length ∧ cs1.flatten = x ++ l := by
    have : p ++ cs1.flatten = be64 x.length ++ (x ++ l) := by rw [hp, hb, List.append_assoc]
    exact List.append_inj this (by simp [hpl, be64_length])
  unfold readLengthedStream
  simp only [h8, hsplit.1, readBe64_be64 _ hxl]
  split
  · rename_i hlt
    have hx0 : x = [] := List.length_eq_zero_iff.mp (by omega)
    subst hx0
    exact ⟨cs1, rfl, by simpa using hsplit.2⟩
  · have hnot : ¬ maxItem < x.length := by omega
    simp only [hnot, if_false]
    have hl2 : x.length ≤ cs1.flatten.length := by rw [hsplit.2]; simp
    obtain ⟨b, cs2, hi2⟩ := ensureRead_isSome cs1 x.length hl2
    obtain ⟨hb1, hb2⟩ := ensureRead_some _ _ _ _ hi2
    have : b = x ∧ cs2.flatten = l := by
      have : b ++ cs2.flatten = x ++ l := by rw [hb1, hsplit.2]
      exact List.append_inj this hb2
    simp only [hi2]
    exact ⟨cs2, by rw [this.1], this.2⟩

theorem readItemsStream_sound (maxItem : Nat) (n : Nat) : ∀ (cs : List Bytes) (m : List Bytes) (rest : List Bytes),
    readItemsStream maxItem n cs = .ok (m, rest) → readItems n cs.flatten = .ok (m, rest.flatten) := by
  induction n with
  | zero =>
    intro cs m rest h
    simp only [readItemsStream] at h
    injection h with h; injection h with h1 h2
    subst h1; subst h2
    rfl
  | succ n ih =>
    intro cs m rest h
    simp only [readItemsStream] at h
    cases hr : readLengthedStream maxItem cs with
    | error => simp [hr] at h
    | panic => simp [hr] at h
    | ok v =>
      obtain ⟨x, cs1⟩ := v
      simp only [hr] at h
      cases hi : readItemsStream maxItem n cs1 with
      | error => simp [hi] at h
      | panic => simp [hi] at h
      | ok w =>
        obtain ⟨xs, rest'⟩ := w
        simp only [hi] at h
        injection h with h; injection h with h1 h2
        subst h1; subst h2
        simp only [readItems, readLengthedStream_sound _ _ _ _ hr, ih _ _ _ hi]

theorem readItemsStream_complete (maxItem : Nat) (n : Nat) : ∀ (cs : List Bytes) (m : List Bytes) (l : Bytes),
    readItems n cs.flatten = .ok (m, l) → (∀ x ∈ m, x.length ≤ maxItem) →
    ∃ rest, readItemsStream maxItem n cs = .ok (m, rest) ∧ rest.flatten = l := by
  induction n with
  | zero =>
    intro cs m l h _
    simp only [readItems] at h
    injection h with h; injection h with h1 h2
    subst h1; subst h2
    exact ⟨cs, rfl, rfl⟩
  | succ n ih =>
    intro cs m l h hall
    simp only [readItems] at h
    cases hr : readLengthedBytes cs.flatten with
    | error => simp [hr] at h
    | panic => simp [hr] at h
    | ok v =>
      obtain ⟨x, l1⟩ := v
      simp only [hr] at h
      cases hi : readItems n l1 with
      | error => simp [hi] at h
      | panic => simp [hi] at h
      | ok w =>
        obtain ⟨xs, l2⟩ := w
        simp only [hi] at h
        injection h with h; injection h with h1 h2
        subst h1; subst h2
        obtain ⟨cs1, hs1, hf1⟩ := readLengthedStream_complete maxItem cs x l1 hr (hall x (by simp))
        rw [← hf1] at hi
        obtain ⟨rest, hs2, hf2⟩ := ih cs1 xs l2 hi (fun y hy => hall y (List.mem_cons_of_mem _ hy))
        exact ⟨rest, by simp only [readItemsStream, hs1, hs2], hf2⟩

/-- ✦ whatever the chunking, a successful stream read returns exactly what the buffer reader
    returns on the concatenated data. -/
theorem stream_sound (maxLen maxItem : Nat) (cs : List Bytes) (m : List Bytes) (rest : List Bytes)
    (h : decodeStream maxLen maxItem cs = .ok (m, rest)) :
    decodeBuf maxLen true cs.flatten = .ok (m, rest.flatten) := by
  unfold decodeStream at h
  cases h8 : ensureRead cs 8 with
  | none => simp [h8] at h
  | some v =>
    obtain ⟨p, cs1⟩ := v
    simp only [h8] at h
    obtain ⟨hp, hpl⟩ := ensureRead_some _ _ _ _ h8
    cases hb : readBe64 p with
    | none => simp [hb] at h
    | some i =>
      simp only [hb] at h
      obtain ⟨hpe, hi⟩ := be64_readBe64 p i hb
      have hflat : cs.flatten = be64 i ++ cs1.flatten := by rw [← hp, hpe]
      unfold decodeBuf
      have hl8 : ¬ cs.flatten.length < 8 := by rw [hflat]; simp [be64_length]
      simp only [hl8, if_false]
      rw [hflat, readLengthBytes_append _ hi]
      have hd : (be64 i ++ cs1.flatten).drop 8 = cs1.flatten := by
        rw [List.drop_append_of_le_length (by simp [be64_length])]; simp [be64_length]
      simp only [hd]
      split at h
      · rename_i hlt
        injection h with h; injection h with h1 h2
        subst h1; subst h2
        have hi0 : i = 0 := by omega
        subst hi0
        simp [readItems]
      · split at h
        · cases h
        · rename_i h1 h2
          simp only [h2, if_false]
          exact readItemsStream_sound _ _ _ _ _ h

/-- ✦ and conversely every buffer-readable encoding (items within the per-item limit, count ≥ 0)
    is read by the stream reader under every chunking, with the same items. -/
theorem stream_complete (maxLen maxItem : Nat) (cs : List Bytes) (m : List Bytes) (l : Bytes)
    (h : decodeBuf maxLen true cs.flatten = .ok (m, l)) (hall : ∀ x ∈ m, x.length ≤ maxItem) :
    ∃ rest, decodeStream maxLen maxItem cs = .ok (m, rest) ∧ rest.flatten = l := by
  unfold decodeBuf at h
  split at h
  · cases h
  · rename_i hl8
    cases hr : readLengthBytes cs.flatten with
    | error => simp [hr] at h
    | panic => simp [hr] at h
    | ok i =>
      simp only [hr] at h
      obtain ⟨hb8, hi⟩ := readLengthBytes_ok _ _ hr
      obtain ⟨p, cs1, h8⟩ := ensureRead_isSome cs 8 (by omega)
      obtain ⟨hp, hpl⟩ := ensureRead_some _ _ _ _ h8
      have hsplit : p = be64 i ∧ cs1.flatten = cs.flatten.drop 8 := by
        have : p ++ cs1.flatten = be64 i ++ cs.flatten.drop 8 := by rw [hp]; exact hb8
        exact List.append_inj this (by simp [hpl, be64_length])
      split at h
      · simp at h
      · rename_i hle
        unfold decodeStream
        simp only [h8, hsplit.1, readBe64_be64 _ hi]
        split
        · rename_i hlt
          have hi0 : i = 0 := by omega
          subst hi0
          simp only [readItems] at h
          injection h with h; injection h with h1 h2
          subst h1; subst h2
          exact ⟨cs1, rfl, hsplit.2⟩
        · rw [← hsplit.2] at h
          have := readItemsStream_complete maxItem i cs1 m l h hall
          simpa only [hle, if_false] using this

/-- ✗ (kept as the reason the fact matters): with the unrepaired over-limit branch
    (`return nil, nil, err` with `err == nil`) a count above the limit is a *successful* read of
    no items that drops the whole input. -/
theorem huge_count_witness :
    decodeBuf 32767 false (be64 40000 ++ [1, 2, 3]) = .ok ([], []) := by decide

/-- ✦ facts of the current source: limits, and the over-limit branch returns a real error. -/
theorem facts_ok :
    Gen.C29.extractErrors = [] ∧ Gen.C29.maxLengthBytes = 32767 ∧ Gen.C29.maxLengthedBytes = 2147483647 ∧
    Gen.C29.hugeBranchReturnsError = true ∧ Gen.C29.writerGuardsCount = true ∧
    Gen.C29.pins = Pins.C29 := by
  refine ⟨by decide, by decide, by decide, by decide, by decide, by decide⟩

-- non-vacuity
example : Writable 32767 [[1, 2], [], [3]] := by
  refine ⟨by decide, ?_⟩
  intro x hx; simp at hx; rcases hx with rfl | rfl | rfl <;> decide
example : decodeBuf 32767 true ((be64 2 ++ encodeItems [[1, 2], []]) ++ [9]) = .ok ([[1, 2], []], [9]) := by decide

end Mitum.C29
