import MitumModel.Model.Crash
import MitumModel.Props.C19
import MitumModel.Props.C20
import MitumModel.Gen.C21
import MitumModel.Pins
/-!
C21  Block commit is atomic across crashes.
-/
namespace Mitum.C21
open Mitum.Crash

theorem subset_mem (a b : List Nat) (h : subset a b = true) : ∀ x, x ∈ a → x ∈ b := by
  simpa [subset, List.all_eq_true, List.contains_iff_mem] using h

/-- **commit_atomic.**  With the block map copied last, whatever subset of the atomic writes of block write,
commit and permanent merge has reached the disk when the process stops, after reopening the block is either
not visible at all or visible with every one of its records. -/
theorem commit_atomic (d : Disk) (h : reachable true d = true) :
    recover d = .invisible ∨ ∃ shown, recover d = .visible shown ∧ ∀ x, x ∈ d.recs → x ∈ shown := by
  simp only [reachable, Bool.and_eq_true, Bool.or_eq_true, Bool.not_eq_true', Bool.not_true,
    Bool.false_or] at h
  obtain ⟨⟨⟨⟨⟨_, _⟩, hm⟩, _⟩, hl⟩, _⟩ := h
  simp only [recover]
  by_cases hp : d.permMap = true
  · right
    refine ⟨d.permRecs, by simp [hp], ?_⟩
    rcases hl with hl | hl
    · simp [hp] at hl
    · exact subset_mem _ _ hl
  · simp only [hp, Bool.false_eq_true, if_false]
    by_cases hk : (d.marker && d.tempMap) = true
    · right
      refine ⟨d.tempRecs, by simp [hk], ?_⟩
      simp only [Bool.and_eq_true] at hk
      rcases hm with hm | hm
      · simp [hk.1] at hm
      · exact subset_mem _ _ hm.1
    · left
      simp [hk]

/-- the block map inside one of the parallel batches (the code before the repair): the batch with the block
map has reached the disk, the batch with record 2 has not — the block is the permanent database's last
block and record 2 is gone -/
theorem perm_merge_torn_witness :
    let d : Disk := { recs := [1, 2], tempRecs := [1, 2], tempMap := true, marker := true, permRecs := [1], permMap := true }
    reachable false d = true ∧ reachable true d = false ∧ recover d = .visible [1] := by decide

/-- non-vacuity: a crash in the middle of the repaired merge shows the whole block through its temp -/
example :
    let d : Disk := { recs := [1, 2], tempRecs := [1, 2], tempMap := true, marker := true, permRecs := [1], permMap := false }
    reachable true d = true ∧ recover d = .visible [1, 2] := by decide

/-- and a crash before the marker shows nothing of the block -/
example :
    let d : Disk := { recs := [1, 2], tempRecs := [1], tempMap := false, marker := false, permRecs := [], permMap := false }
    reachable true d = true ∧ recover d = .invisible := by decide

/-! ### a removal of several blocks that is interrupted (model of `Model/ReopenTemps.lean`) -/
section removal
open Mitum.ReopenTemps Mitum.C20

/-- the order in which `RemoveBlocks(h)` removes the temps from `h` up: `topDown` is the newest first -/
def removeSeq (topDown : Bool) (s : St) (h : Nat) : List Nat :=
  if topDown then (s.mem.drop (h - s.perm)).reverse else s.mem.drop (h - s.perm)

/-- the storage after a process that stopped when `k` of these removals had reached it -/
def crashedDisk (topDown : Bool) (s : St) (h k : Nat) : List Pfx :=
  s.disk.filter (fun p => !((removeSeq topDown s h).take k).contains p.id)

/-- what the next process finds: the storage, and the temps its Center loads -/
def recovered (topDown : Bool) (s : St) (h k : Nat) : St :=
  let d := crashedDisk topDown s h k
  { s with disk := d, mem := reopen fixed { s with disk := d } }

theorem inv_foldl (ops : List Op) : ∀ s, C20.Inv s → C20.Inv (ops.foldl (step fixed) s) := by
  induction ops with
  | nil => intro s h; exact h
  | cons op rest ih => intro s h; exact ih _ (inv_step s op h)

theorem take_reverse_drop (l : List Nat) (j k : Nat) (hj : j ≤ l.length) (hk : k ≤ l.length - j) :
    ((l.drop j).reverse.take k) = (l.drop (l.length - k)).reverse := by
  rw [List.take_reverse, List.drop_drop]
  congr 2
  simp only [List.length_drop]
  omega

/-- a top-down removal that stopped after `k` removals left the storage a completed removal leaves -/
theorem crashedDisk_topDown (s : St) (h k : Nat) (h2 : h - s.perm ≤ s.mem.length) (hk : k ≤ s.mem.length - (h - s.perm)) (hk0 : 0 < k) :
    crashedDisk true s h k = (step fixed s (.remove (s.perm + (s.mem.length - k)))).disk := by
  have hlt : s.perm ≤ s.perm + (s.mem.length - k) ∧ s.perm + (s.mem.length - k) < s.perm + s.mem.length := by omega
  simp only [crashedDisk, removeSeq, step, hlt, and_self, if_true, fixed]
  rw [take_reverse_drop s.mem (h - s.perm) k h2 hk]
  have e : s.perm + (s.mem.length - k) - s.perm = s.mem.length - k := by omega
  rw [e]
  congr 1
  funext p
  congr 1
  rw [Bool.eq_iff_iff]
  simp

theorem reopen_disk_perm (s t : St) (hd : s.disk = t.disk) (hp : s.perm = t.perm) : reopen fixed s = reopen fixed t := by
  unfold reopen; rw [hd, hp]

/-- **interrupted_removal_recovers_prefix.**  `RemoveBlocks(h)` removes the temps newest first.  If the process stops
after `k` of the removals, the next process finds exactly the blocks that were not removed yet — a prefix of the
chain, each block with its whole temp or not at all — and the storage it finds is one a completed removal leaves, so
the invariant of `reopen_temps_equal` holds for it again. -/
theorem interrupted_removal_recovers_prefix (s : St) (hi : C20.Inv s) (h k : Nat) (h1 : s.perm ≤ h)
    (h2 : h < s.perm + s.mem.length) (hk : k ≤ s.mem.length - (h - s.perm)) :
    (recovered true s h k).mem = s.mem.take (s.mem.length - k) ∧ C20.Inv (recovered true s h k) := by
  by_cases hk0 : k = 0
  · subst hk0
    have hd : crashedDisk true s h 0 = s.disk := by
      simp [crashedDisk]
    have hr : recovered true s h 0 = s := by
      unfold recovered
      simp only [hd]
      have : ({ s with disk := s.disk } : St) = s := by cases s; rfl
      rw [this, reopen_of_inv s hi]
    rw [hr]
    exact ⟨by simp, hi⟩
  · have hpos : 0 < k := Nat.pos_of_ne_zero hk0
    have hd := crashedDisk_topDown s h k (by omega) hk hpos
    have hlt : s.perm ≤ s.perm + (s.mem.length - k) ∧ s.perm + (s.mem.length - k) < s.perm + s.mem.length := by omega
    have hi' := inv_step s (.remove (s.perm + (s.mem.length - k))) hi
    have hmem : (step fixed s (.remove (s.perm + (s.mem.length - k)))).mem = s.mem.take (s.mem.length - k) := by
      simp only [step, hlt, and_self, if_true]
      congr 1; omega
    have hperm : (step fixed s (.remove (s.perm + (s.mem.length - k)))).perm = s.perm := by
      simp only [step, hlt, and_self, if_true]
    have hnext : (step fixed s (.remove (s.perm + (s.mem.length - k)))).next = s.next := by
      simp only [step, hlt, and_self, if_true]
    have hr : recovered true s h k = step fixed s (.remove (s.perm + (s.mem.length - k))) := by
      unfold recovered
      simp only [hd]
      rw [reopen_disk_perm ({ s with disk := (step fixed s (.remove (s.perm + (s.mem.length - k)))).disk } : St)
        (step fixed s (.remove (s.perm + (s.mem.length - k)))) rfl hperm.symm, reopen_of_inv _ hi']
      generalize hs' : step fixed s (.remove (s.perm + (s.mem.length - k))) = s' at hperm hnext
      cases s; cases s'
      simp only at hperm hnext
      subst hperm; subst hnext; rfl
    rw [hr]
    exact ⟨hmem, hi'⟩

/-- and whatever is done with the recovered database afterwards, a Center opened on it has the temps the running one has -/
theorem continue_after_interrupted_removal (s : St) (hi : C20.Inv s) (h k : Nat) (h1 : s.perm ≤ h)
    (h2 : h < s.perm + s.mem.length) (hk : k ≤ s.mem.length - (h - s.perm)) (ops : List Op) :
    reopen fixed (ops.foldl (step fixed) (recovered true s h k)) = (ops.foldl (step fixed) (recovered true s h k)).mem :=
  reopen_of_inv _ (inv_foldl ops _ (interrupted_removal_recovers_prefix s hi h k h1 h2 hk).2)

/-- the order is needed: removing the oldest first and stopping after one removal leaves the newer block's temp behind,
out of reach of `loadTemps` (nothing below it) until the next commit fills the gap -- then it is back -/
theorem bottom_up_witness :
    let s := run fixed [.commit, .commit]
    let r := recovered false s 0 1
    r.mem = [] ∧ reopen fixed (step fixed r .commit) = [2, 1] ∧ (step fixed r .commit).mem = [2] := by decide

/-- non-vacuity of the theorem's premises: two unmerged blocks, the removal of both stops after the first -/
example :
    let s := run fixed [.commit, .commit, .commit, .mergePerm]
    C20.Inv s ∧ s.perm ≤ 1 ∧ 1 < s.perm + s.mem.length ∧ (recovered true s 1 1).mem = [1] := by
  refine ⟨inv_run _, by decide, by decide, by decide⟩
end removal

theorem facts_ok :
    Gen.C21.permMapAfterBatches = true ∧ Gen.C21.markerIsLastWriteOfCommit = true ∧ Gen.C21.tempsLoadedAbovePermanentLast = true ∧
    Gen.C21.onlyMergedTempsLoaded = true ∧ Gen.C21.tempRemovedAfterMerge = true ∧ Gen.C21.removeBlocksNewestFirst = true ∧ Gen.C21.extractErrors = [] := by decide

theorem source_pinned : Gen.C21.pins = Pins.C21 := by decide

end Mitum.C21
