import MitumModel.Common
import MitumModel.Model.Reopen
import MitumModel.Model.ReopenTemps
import MitumModel.Gen.C20
namespace Mitum.Driver
open Mitum Mitum.Reopen

/-- `reopen <read> <bodyLen>`: does the read answer the same after closing and opening? -/
def stepC20 (ts : List String) : String :=
  match ts with
  | ["reopen", rd, n] =>
    match n.toNat? with
    | some n =>
      let f : Frame := { enchint := "json", hdr := [1], body := List.replicate n 7 }
      let keeps := if rd = "LastSuffrageProofBytes" then Gen.C20.proofLoaderKeepsBody
                   else if rd = "LastBlockMapBytes" then Gen.C20.blockMapLoaderKeepsBody else true
      if readBytes (load keeps (persist f).2) = readBytes (persist f).1 ∧ readObject (load keeps (persist f).2) = readObject (persist f).1
      then "same" else "differs"
    | none => "bad-op"
  | "temps" :: ops =>
    -- `temps <op>…` with c = commit, a<h> = abandoned writer of height h, r<h> = RemoveBlocks(h), m = merge of the
    -- oldest temp into the permanent database, x = cleanRemoved: the last height a Center opened anew reports
    let code : ReopenTemps.Code := { scansAll := Gen.C20.loadTempScansAll, removesOnDisk := Gen.C20.removeBlocksRemovesOnDisk }
    let parse (t : String) : Option ReopenTemps.Op :=
      if t = "c" then some .commit
      else if t = "m" then some .mergePerm
      else if t = "x" then some .clean
      else if t.startsWith "a" then (t.drop 1).toNat?.map .abandon
      else if t.startsWith "r" then (t.drop 1).toNat?.map .remove
      else none
    match ops.mapM parse with
    | none => "bad-op"
    | some os =>
      let s := os.foldl (ReopenTemps.step code) ReopenTemps.init
      let n := s.perm + (ReopenTemps.reopen code s).length
      let before := s.perm + s.mem.length
      s!"before={before} after={n}"
  | _ => "bad-op"
end Mitum.Driver
