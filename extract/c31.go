package main

import (
	"go/ast"
	"strconv"
	"strings"
)

func init() { register("C31", genC31) }

func regexSource(f *File, name string) (string, bool) {
	src, ok := f.ConstValue(name)
	if !ok {
		return "", false
	}
	i := strings.IndexAny(src, "`\"")
	j := strings.LastIndexAny(src, "`\"")
	if i < 0 || j <= i {
		return "", false
	}
	v, err := strconv.Unquote(src[i : j+1])
	if err != nil {
		return "", false
	}
	return v, true
}

func genC31(o *Out) {
	fh := o.pinFile("util/hint/hint.go", "NewHint", "EnsureParseHint", "ParseHint", "parseHint", "Hint.IsValid", "hintString", "Hint.Equal", "Hint.IsCompatible")
	ft := o.pinFile("util/hint/type.go", "Type.IsValid")
	fs := o.pinFile("util/hint/set.go", "NewCompatibleSet", "CompatibleSet.add", "CompatibleSet.addWithHint", "CompatibleSet.Find", "CompatibleSet.FindByString",
		"CompatibleSet.FindBytType", "CompatibleSet.FindBytTypeString", "CompatibleSet.find", "CompatibleSet.findBytType", "CompatibleSet.cacheGet", "CompatibleSet.cacheSet", "hintCacheKey", "typeCacheKey")
	o.pinFile("util/version.go", "EnsureParseVersion", "ParseVersion", "newVersion", "Version.IsValid", "Version.Compare", "Version.IsCompatible", "compareVersionMainPart", "compareVersionPrerelease", "versionNextIdent", "versionIsNum")
	if fh != nil {
		if v, ok := regexSource(fh, "regVersion"); ok {
			o.str("regVersion", v)
		} else {
			o.errf("hint.go: regVersion not found")
			o.str("regVersion", "")
		}
	}
	if ft != nil {
		if v, ok := regexSource(ft, "reTypeAllowedChars"); ok {
			o.str("reTypeAllowedChars", v)
		} else {
			o.errf("type.go: reTypeAllowedChars not found")
			o.str("reTypeAllowedChars", "")
		}
		// MinTypeLength, MaxTypeLength = 2, 100
		minL, maxL := int64(-1), int64(-1)
		for _, d := range ft.AST.Decls {
			gd, ok := d.(*ast.GenDecl)
			if !ok {
				continue
			}
			for _, s := range gd.Specs {
				vs, ok := s.(*ast.ValueSpec)
				if !ok {
					continue
				}
				for i, n := range vs.Names {
					if i < len(vs.Values) {
						if v, ok := intLit(ft.Src(vs.Values[i])); ok {
							switch n.Name {
							case "MinTypeLength":
								minL = v
							case "MaxTypeLength":
								maxL = v
							}
						}
					}
				}
			}
		}
		if minL < 0 || maxL < 0 {
			o.errf("type.go: Min/MaxTypeLength not found")
			minL, maxL = 0, 0
		}
		o.nat("minTypeLength", minL)
		o.nat("maxTypeLength", maxL)
		// Type.IsValid rejects a type matching regVersion
		rej := false
		if fd := ft.Func("Type", "IsValid"); fd != nil {
			for _, st := range fd.Body.List {
				if is, ok := st.(*ast.IfStmt); ok {
					c := normSpace(ft.Src(is.Cond))
					if (c == "regVersion.Match([]byte(t))" || c == "regVersion.MatchString(string(t))" || c == "regVersion.MatchString(t.String())") &&
						strings.Contains(ft.Src(is.Body), "ErrInvalid") {
						rej = true
					}
				}
			}
		}
		o.boolean("typeRejectsMarker", rej)
	}
	if fs != nil {
		eff := false
		if fd := fs.Func("CompatibleSet", "add"); fd != nil {
			for _, st := range fd.Body.List {
				src := normSpace(fs.Src(st))
				if strings.HasPrefix(src, "st.cacheSet(ht.String(),") || strings.HasPrefix(src, "st.cacheSet(hintCacheKey(ht.String()),") {
					eff = strings.Contains(src, "st.set[ht.Type()][ht.Version().Major()]")
				}
			}
		}
		o.boolean("addCachesEffective", eff)
		// cache keys of hint lookups and of type lookups come from different key functions
		sep := true
		want := map[string]string{"Find": "hintCacheKey(", "FindByString": "hintCacheKey(", "find": "hintCacheKey(", "add": "hintCacheKey(",
			"FindBytType": "typeCacheKey(", "FindBytTypeString": "typeCacheKey(", "findBytType": "typeCacheKey("}
		for fn, key := range want {
			fd := fs.Func("CompatibleSet", fn)
			if fd == nil {
				sep = false
				continue
			}
			ast.Inspect(fd.Body, func(n ast.Node) bool {
				ce, ok := n.(*ast.CallExpr)
				if !ok || len(ce.Args) < 1 {
					return true
				}
				name := fs.Src(ce.Fun)
				if name == "st.cacheGet" || name == "st.cacheSet" {
					if !strings.HasPrefix(normSpace(fs.Src(ce.Args[0])), key) {
						sep = false
					}
				}
				return true
			})
		}
		for _, kf := range [][2]string{{"hintCacheKey", `"h:" + s`}, {"typeCacheKey", `"t:" + s`}} {
			fd := fs.Func("", kf[0])
			if fd == nil || len(returnsOf(fd)) != 1 || normSpace(fs.Src(returnsOf(fd)[0].Results[0])) != kf[1] {
				sep = false
			}
		}
		o.boolean("cacheKeySpacesSeparate", sep)
		size := int64(-1)
		if fd := fs.Func("", "NewCompatibleSet"); fd != nil {
			ast.Inspect(fd.Body, func(n ast.Node) bool {
				ce, ok := n.(*ast.CallExpr)
				if !ok || len(ce.Args) != 1 {
					return true
				}
				if strings.Contains(fs.Src(ce.Fun), "NewLRUGCache") {
					if v, ok := intLit(fs.Src(ce.Args[0])); ok {
						size = v
					}
				}
				return true
			})
		}
		if size < 0 {
			o.errf("set.go: LRU cache size literal not found")
			size = 0
		}
		o.nat("cacheSize", size)
	}
}
