import MitumModel.Model.BallotPool
import MitumModel.Gen.C24
import MitumModel.Pins
/-!
C24  Ballot and proposal pools are first-writer-wins and consistent.
-/
namespace Mitum.C24
open Mitum.BallotPool

theorem lookupB_append (k : BKey) (l₁ l₂ : List (BKey × Nat)) :
    lookupB k (l₁ ++ l₂) = match lookupB k l₁ with | some v => some v | none => lookupB k l₂ := by
  induction l₁ with
  | nil => simp [lookupB]
  | cons e rest ih =>
    obtain ⟨k', v⟩ := e
    simp only [List.cons_append, lookupB]
    by_cases h : k' = k
    · simp [h]
    · simp [h, ih]

theorem lookupB_filter (k : BKey) (p : BKey × Nat → Bool) (l : List (BKey × Nat)) (v : Nat)
    (h : lookupB k (l.filter p) = some v) : lookupB k l = some v ∨ ∃ w, lookupB k l = some w ∧ p (k, w) = false := by
  induction l with
  | nil => simp [lookupB] at h
  | cons e rest ih =>
    obtain ⟨k', w⟩ := e
    by_cases hk : k' = k
    · subst hk
      by_cases hp : p (k', w) = true
      · simp [List.filter_cons, hp, lookupB] at h ⊢; first | exact Or.inl h | exact h
      · right; exact ⟨w, by simp [lookupB], by simpa using hp⟩
    · by_cases hp : p (k', w) = true
      · simp [List.filter_cons, hp, lookupB, hk] at h ⊢; exact ih h
      · simp [List.filter_cons, hp, lookupB, hk] at h ⊢; exact ih h

/-- ✦ `SetBallot` succeeds exactly when nothing is stored for the key, and then the ballot
    is what a lookup returns. -/
theorem set_true_iff_absent (s : State) (k : BKey) (v : Nat) :
    ((setBallot s k v).2 = true ↔ getBallot s k = none) ∧
    ((setBallot s k v).2 = true → getBallot (setBallot s k v).1 k = some v) := by
  unfold setBallot
  cases h : getBallot s k with
  | some w => simp
  | none =>
    refine ⟨⟨fun _ => rfl, fun _ => rfl⟩, fun _ => ?_⟩
    unfold getBallot at *
    simp [lookupB_append, h, lookupB]

/-- ✦ first writer wins, for every history: once a ballot is stored for a key, no later
    operation changes what a lookup of that key returns — it can only disappear through
    cleanup. -/
theorem ballot_value_stable (dP dB : Nat) (s : State) (k : BKey) (v : Nat) (op : Op)
    (h : getBallot s k = some v) :
    getBallot (step dP dB s op) k = some v ∨
    (getBallot (step dP dB s op) k = none ∧ op = Op.cleanBallots) := by
  cases op with
  | setBallot k' v' =>
    left
    simp only [step, setBallot]
    cases h' : getBallot s k' with
    | some w => simpa using h
    | none =>
      simp only
      unfold getBallot at *
      simp [lookupB_append, h]
  | setProposal f t p =>
    left
    simp only [step, setProposal]
    cases lookupN f s.props <;> simpa [getBallot] using h
  | cleanBallots =>
    simp only [step, BallotPool.cleanBallots]
    cases cleanBound (List.map (fun x => x.1.h) s.ballots) dB with
    | none => left; exact h
    | some b =>
      simp only
      cases hq : getBallot { s with ballots := s.ballots.filter (fun e => decide (b < e.1.h)) } k with
      | none => right; refine ⟨rfl, ?_⟩; first | rfl | trivial
      | some w =>
        left
        unfold getBallot at hq h
        rcases lookupB_filter k _ _ w hq with h1 | ⟨w', h1, _⟩
        · rw [h] at h1; exact h1.symm ▸ rfl
        · have := lookupB_filter k (fun e => decide (b < e.1.h)) s.ballots w hq
          rcases this with h2 | ⟨w'', h2, h3⟩
          · rw [h] at h2; exact h2.symm ▸ rfl
          · -- the stored value for k is filtered out, so the filtered lookup cannot find it first
            rw [h] at h2; injection h2 with h2; subst h2
            exfalso
            clear h1
            revert hq
            generalize s.ballots = l at h
            induction l with
            | nil => simp [lookupB] at h
            | cons e rest ih =>
              obtain ⟨k', x⟩ := e
              by_cases hk : k' = k
              · subst hk
                simp only [lookupB, if_true] at h
                injection h with h; subst h
                intro hq
                simp only [List.filter_cons] at hq
                have hf : decide (b < k'.h) = false := by simpa using h3
                rw [hf] at hq
                simp only [Bool.false_eq_true, if_false] at hq
                -- the rest, filtered, only contains keys with the same height test
                have : ∀ (l : List (BKey × Nat)) w, lookupB k' (l.filter (fun e => decide (b < e.1.h))) = some w → False := by
                  intro l
                  induction l with
                  | nil => intro w hw; simp [lookupB] at hw
                  | cons e2 r2 ih2 =>
                    intro w hw
                    obtain ⟨k2, x2⟩ := e2
                    simp only [List.filter_cons] at hw
                    by_cases hp : decide (b < k2.h) = true
                    · simp only [hp, if_true, lookupB] at hw
                      by_cases hk2 : k2 = k'
                      · subst hk2; rw [hf] at hp; cases hp
                      · simp only [hk2, if_false] at hw; exact ih2 w hw
                    · simp only [hp, if_false] at hw; exact ih2 w hw
                exact this rest w hq
              · simp only [lookupB, hk, if_false] at h
                intro hq
                simp only [List.filter_cons] at hq
                by_cases hp : decide (b < k'.h) = true
                · simp only [hp, if_true, lookupB, hk, if_false] at hq; exact ih h hq
                · simp only [hp, if_false] at hq; exact ih h hq
  | cleanProposals =>
    left
    simp only [step, BallotPool.cleanProposals]
    cases cleanBound (List.map (fun x => x.1.h) s.pidx) dP <;> simpa [getBallot] using h

theorem lookupN_append {β : Type} (k : Nat) (l₁ l₂ : List (Nat × β)) :
    lookupN k (l₁ ++ l₂) = match lookupN k l₁ with | some v => some v | none => lookupN k l₂ := by
  induction l₁ with
  | nil => simp [lookupN]
  | cons e rest ih =>
    obtain ⟨k', v⟩ := e
    simp only [List.cons_append, lookupN]
    by_cases h : k' = k
    · simp [h]
    · simp [h, ih]

/-- ✦ proposals: the first proposal stored for a fact is kept; a second one for the same fact
    is refused and changes nothing. -/
theorem proposal_first_writer_wins (s : State) (f : Nat) (t t' : Triple) (p p' : Nat)
    (h : (setProposal s f t p).2 = true) :
    getProposal (setProposal s f t p).1 f = some p ∧
    (setProposal (setProposal s f t p).1 f t' p').2 = false ∧
    getProposal (setProposal (setProposal s f t p).1 f t' p').1 f = some p := by
  unfold setProposal at h ⊢
  cases hl : lookupN f s.props with
  | some w => simp [hl] at h
  | none =>
    simp only [hl]
    have hget : lookupN f (s.props ++ [(f, (t, p))]) = some (t, p) := by
      simp [lookupN_append, hl, lookupN]
    simp [getProposal, hget]

theorem lookupT_mem (t : Triple) (l : List (Triple × Nat)) (f : Nat) (h : lookupT t l = some f) :
    (t, f) ∈ l := by
  induction l with
  | nil => simp [lookupT] at h
  | cons e rest ih =>
    obtain ⟨t', f'⟩ := e
    unfold lookupT at h
    by_cases ht : t' = t
    · simp [ht] at h; subst ht; subst h; simp
    · simp [ht] at h; exact List.mem_cons_of_mem _ (ih h)

theorem lookupN_mem {β : Type} (k : Nat) (l : List (Nat × β)) (v : β) (h : lookupN k l = some v) :
    (k, v) ∈ l := by
  induction l with
  | nil => simp [lookupN] at h
  | cons e rest ih =>
    obtain ⟨k', v'⟩ := e
    unfold lookupN at h
    by_cases hk : k' = k
    · simp [hk] at h; subst hk; subst h; simp
    · simp [hk] at h; exact List.mem_cons_of_mem _ (ih h)

/-- index consistency: every index entry points to a stored proposal with that very triple
    (no dangling entries), and a fact is stored at most once -/
def IdxLive (s : State) : Prop :=
  (∀ t f, (t, f) ∈ s.pidx → ∃ p, (f, (t, p)) ∈ s.props) ∧ (s.props.map (·.1)).Nodup

theorem idx_live_init : IdxLive init := by simp [IdxLive, init]

theorem not_mem_of_lookupN_none {β : Type} (f : Nat) (l : List (Nat × β)) (h : lookupN f l = none) :
    ∀ x, (f, x) ∉ l := by
  induction l with
  | nil => intro x hx; simp at hx
  | cons e rest ih =>
    intro x hx
    obtain ⟨k', v'⟩ := e
    unfold lookupN at h
    by_cases hk : k' = f
    · simp [hk] at h
    · simp only [hk, if_false] at h
      rcases List.mem_cons.mp hx with heq | hm'
      · injection heq with h1 _; exact hk h1.symm
      · exact ih h x hm'

theorem nodup_fst_unique {β : Type} (l : List (Nat × β)) (hn : (l.map (·.1)).Nodup) (k : Nat) (a b : β)
    (ha : (k, a) ∈ l) (hb : (k, b) ∈ l) : a = b := by
  induction l with
  | nil => simp at ha
  | cons e rest ih =>
    simp only [List.map_cons, List.nodup_cons] at hn
    rcases List.mem_cons.mp ha with ha | ha <;> rcases List.mem_cons.mp hb with hb | hb
    · rw [← ha] at hb; injection hb with _ h2; exact h2.symm
    · exfalso; apply hn.1; rw [← ha]; exact List.mem_map.mpr ⟨(k, b), hb, rfl⟩
    · exfalso; apply hn.1; rw [← hb]; exact List.mem_map.mpr ⟨(k, a), ha, rfl⟩
    · exact ih hn.2 ha hb

/-- ✦ the index invariant holds in every reachable pool state. -/
theorem idx_live_step (dP dB : Nat) (s : State) (op : Op) (h : IdxLive s) :
    IdxLive (step dP dB s op) := by
  obtain ⟨hi, hn⟩ := h
  cases op with
  | setBallot k v =>
    simp only [step, setBallot]
    cases getBallot s k <;> exact ⟨hi, hn⟩
  | setProposal f t p =>
    simp only [step, setProposal]
    cases hl : lookupN f s.props with
    | some w => exact ⟨hi, hn⟩
    | none =>
      have hnot := not_mem_of_lookupN_none f s.props hl
      refine ⟨?_, ?_⟩
      · intro t0 f0 hm
        simp only at hm ⊢
        rcases List.mem_append.mp hm with hm | hm
        · obtain ⟨p0, hp0⟩ := hi t0 f0 (List.mem_filter.mp hm).1
          exact ⟨p0, List.mem_append_left _ hp0⟩
        · simp at hm; obtain ⟨rfl, rfl⟩ := hm
          exact ⟨p, by simp⟩
      · simp only [List.map_append, List.map_cons, List.map_nil]
        rw [List.nodup_append]
        refine ⟨hn, by simp, ?_⟩
        intro a ha b hb
        simp at hb; subst hb
        obtain ⟨e, he, hea⟩ := List.mem_map.mp ha
        intro heq
        exact hnot e.2 (by rw [← heq, ← hea]; exact he)
  | cleanBallots =>
    simp only [step, BallotPool.cleanBallots]
    cases cleanBound (List.map (fun x => x.1.h) s.ballots) dB <;> exact ⟨hi, hn⟩
  | cleanProposals =>
    simp only [step, BallotPool.cleanProposals]
    cases cleanBound (List.map (fun x => x.1.h) s.pidx) dP with
    | none => exact ⟨hi, hn⟩
    | some b =>
      refine ⟨?_, (List.filter_sublist.map _).nodup hn⟩
      intro t0 f0 hm
      have hm' := List.mem_filter.mp hm
      obtain ⟨p0, hp0⟩ := hi t0 f0 hm'.1
      refine ⟨p0, List.mem_filter.mpr ⟨hp0, ?_⟩⟩
      simp only [Bool.not_eq_true', decide_eq_false_iff_not]
      intro hgone
      obtain ⟨e, he, hef⟩ := List.mem_map.mp hgone
      obtain ⟨t1, f1⟩ := e
      simp only at hef; subst hef
      have he' := List.mem_filter.mp he
      obtain ⟨p1, hp1⟩ := hi t1 f1 he'.1
      have := nodup_fst_unique s.props hn f1 (t0, p0) (t1, p1) hp0 hp1
      injection this with ht _
      subst ht
      have h1 : t0.h ≤ b := by simpa using he'.2
      have h2 : b < t0.h := by simpa using hm'.2
      omega

/-- ✦ lookup by (point, proposer, previous block) returns a stored proposal of a fact with
    exactly that triple — the proposal the pool keeps for that fact. -/
theorem lookup_by_point_consistent (s : State) (h : IdxLive s) (t : Triple) (p : Nat)
    (hl : proposalByPoint s t = some p) : ∃ f, (t, f) ∈ s.pidx ∧ (f, (t, p)) ∈ s.props := by
  unfold proposalByPoint at hl
  cases hf : lookupT t s.pidx with
  | none => simp [hf] at hl
  | some f =>
    simp only [hf, getProposal] at hl
    cases hp : lookupN f s.props with
    | none => simp [hp] at hl
    | some tp =>
      simp only [hp, Option.map_some, Option.some.injEq] at hl
      have hm := lookupT_mem t s.pidx f hf
      obtain ⟨p0, hp0⟩ := h.1 t f hm
      have := nodup_fst_unique s.props h.2 f tp (t, p0) (lookupN_mem f s.props tp hp) hp0
      subst this
      simp only at hl; subst hl
      exact ⟨f, hm, hp0⟩

theorem maxHeight_ge (l : List Nat) : ∀ x ∈ l, x ≤ maxHeight l := by
  induction l with
  | nil => intro x hx; simp at hx
  | cons y ys ih =>
    intro x hx
    unfold maxHeight
    rcases List.mem_cons.mp hx with rfl | hx'
    · exact Nat.le_max_left _ _
    · exact Nat.le_trans (ih x hx') (Nat.le_max_right _ _)

/-- ✦ cleanup removes only entries at least `deep` below the newest height: every ballot that
    disappears has `height + deep ≤ newest height`. -/
theorem clean_only_deep_enough (s : State) (deep : Nat) (hd : deep ≤ 3) (k : BKey) (v : Nat)
    (hin : (k, v) ∈ s.ballots) (hout : (k, v) ∉ (cleanBallots s deep).ballots) :
    k.h + deep ≤ maxHeight (s.ballots.map (·.1.h)) := by
  unfold cleanBallots at hout
  cases hb : cleanBound (s.ballots.map (·.1.h)) deep with
  | none => simp [hb] at hout; exact absurd hin hout
  | some b =>
    simp only [hb] at hout
    have hk : ¬ b < k.h := by
      intro hlt
      exact hout (List.mem_filter.mpr ⟨hin, by simpa using hlt⟩)
    unfold cleanBound at hb
    split at hb
    · cases hb
    · split at hb
      · cases hb
      · injection hb with hb
        have hge := maxHeight_ge (s.ballots.map (·.1.h)) k.h (List.mem_map.mpr ⟨(k, v), hin, rfl⟩)
        omega

/-- the same for proposals (index entries) -/
theorem clean_proposals_only_deep_enough (s : State) (deep : Nat) (hd : deep ≤ 3) (t : Triple) (f : Nat)
    (hin : (t, f) ∈ s.pidx) (hout : (t, f) ∉ (cleanProposals s deep).pidx) :
    t.h + deep ≤ maxHeight (s.pidx.map (·.1.h)) := by
  unfold cleanProposals at hout
  cases hb : cleanBound (s.pidx.map (·.1.h)) deep with
  | none => simp [hb] at hout; exact absurd hin hout
  | some b =>
    simp only [hb] at hout
    have hk : ¬ b < t.h := by
      intro hlt
      exact hout (List.mem_filter.mpr ⟨hin, by simpa using hlt⟩)
    unfold cleanBound at hb
    split at hb
    · cases hb
    · split at hb
      · cases hb
      · injection hb with hb
        have hge := maxHeight_ge (s.pidx.map (·.1.h)) t.h (List.mem_map.mpr ⟨(t, f), hin, rfl⟩)
        omega

/-! ### atomicity: why the lock fact is needed -/
open Race in
/-- ✗ with `Exists` and `Put` as separate steps (no lock) two writers of one key can both pass
    the check: both return `true` and the second ballot replaces the first. -/
theorem set_race_witness :
    let s0 : RState := { store := [], writers := [⟨7, 1, none, none⟩, ⟨7, 2, none, none⟩] }
    let s := Race.run s0 [0, 1, 0, 1]
    s.writers.map (·.returned) = [some true, some true] ∧ s.store = [(7, 2)] := by decide

open Race in
/-- with the check-and-put of each writer executed without interleaving (what the lock
    enforces) exactly the first writer wins — every schedule of whole operations. -/
theorem locked_schedules_first_wins (v1 v2 : Nat) :
    let s0 : RState := { store := [], writers := [⟨7, v1, none, none⟩, ⟨7, v2, none, none⟩] }
    (Race.run s0 [0, 0, 1, 1]).store = [(7, v1)] ∧ (Race.run s0 [1, 1, 0, 0]).store = [(7, v2)] ∧
    (Race.run s0 [0, 0, 1, 1]).writers.map (·.returned) = [some true, some false] ∧
    (Race.run s0 [1, 1, 0, 0]).writers.map (·.returned) = [some false, some true] := by
  simp [Race.run, Race.stepW, Race.exists_]

/-- ✦ facts of the current source: `SetBallot` and `SetProposal` hold a pool mutex from before
    the `Exists` check until after the write; pins. -/
theorem facts_ok :
    Gen.C24.extractErrors = [] ∧ Gen.C24.setBallotLocked = true ∧ Gen.C24.setProposalLocked = true ∧
    Gen.C24.cleanDeepProposal ≤ Gen.C24.cleanGuard ∧ Gen.C24.cleanDeepBallot ≤ Gen.C24.cleanGuard ∧
    Gen.C24.cleanGuard = 3 ∧ Gen.C24.pins = Pins.C24 := by
  refine ⟨by decide, by decide, by decide, by decide, by decide, by decide, by decide⟩

example : IdxLive (step 3 3 (step 3 3 init (Op.setProposal 1 ⟨5, 0, 1, 9⟩ 100)) (Op.setProposal 2 ⟨5, 0, 1, 9⟩ 200)) :=
  idx_live_step _ _ _ _ (idx_live_step _ _ _ _ idx_live_init)
example : proposalByPoint (step 3 3 (step 3 3 init (Op.setProposal 1 ⟨5, 0, 1, 9⟩ 100)) (Op.setProposal 2 ⟨5, 0, 1, 9⟩ 200)) ⟨5, 0, 1, 9⟩
    = some 200 := by decide

end Mitum.C24
