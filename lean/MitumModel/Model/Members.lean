import MitumModel.Common
/-
Model of `quicmemberlist.membersPool` (network/quicmemberlist/memberlist.go):
`addrs` by address id, `members` by node.  Addresses and nodes are numbers;
the two maps are total functions (`none` / `[]` = absent), plus the key list of
`addrs` for `Len`/`Traverse`.
-/
namespace Mitum.Members

structure State where
  addrs : Nat → Option Nat        -- address ↦ node of the present member
  nodes : Nat → List Nat          -- node ↦ addresses in its per-node list
  keys : List Nat                 -- present addresses

def init : State := { addrs := fun _ => none, nodes := fun _ => [], keys := [] }

def upd {β : Type} (f : Nat → β) (k : Nat) (v : β) : Nat → β := fun x => if x = k then v else f x

/-- `removeFromNode`: drop only this address from its node's list -/
def removeFromNode (nodes : Nat → List Nat) (n a : Nat) : Nat → List Nat :=
  upd nodes n ((nodes n).filter (fun x => !(x = a)))

/-- `Set(member)`: returns whether the address was new -/
def join (s : State) (a n : Nat) : State × Bool :=
  let nodes1 := match s.addrs a with
    | some n0 => removeFromNode s.nodes n0 a
    | none => s.nodes
  ({ addrs := upd s.addrs a (some n),
     nodes := upd nodes1 n (nodes1 n ++ [a]),
     keys := if a ∈ s.keys then s.keys else s.keys ++ [a] },
   (s.addrs a).isNone)

/-- `Remove(addr)` -/
def leave (s : State) (a : Nat) : State × Bool :=
  match s.addrs a with
  | none => (s, false)
  | some n0 =>
    ({ addrs := upd s.addrs a none, nodes := removeFromNode s.nodes n0 a, keys := s.keys.filter (fun x => !(x = a)) }, true)

/-- `Get(addr)`: the member's node and the found flag; `getFound` is the regenerated fact that
    the found branch returns `true` -/
def lookupMember (getFound : Bool) (s : State) (a : Nat) : Option Nat × Bool :=
  match s.addrs a with
  | none => (none, false)
  | some n => (some n, getFound)

def exists_ (s : State) (a : Nat) : Bool := (s.addrs a).isSome
def len (s : State) : Nat := s.keys.length
def membersLen (s : State) (n : Nat) : Nat := (s.nodes n).length

inductive Op where
  | set (a n : Nat)
  | remove (a : Nat)
deriving Repr

def step (s : State) : Op → State
  | .set a n => (join s a n).1
  | .remove a => (leave s a).1

end Mitum.Members
