import MitumModel.Common
import MitumModel.Model.BlockImport
import MitumModel.Gen.C16
namespace Mitum.Driver.BlockImportDrv
open Mitum Mitum.BlockImport

def current : Checks :=
  { emptyRootChecked := Gen.C16.emptyRootChecked, majorityChecked := Gen.C16.majorityChecked,
    importerChecksItems := Gen.C16.importerChecksItems,
    validatorOpSelf := Gen.C16.validatorOpSelf, validatorStateSelf := Gen.C16.validatorStateSelf,
    importerOpSelf := Gen.C16.importerOpSelf, importerGenesisOpSelf := Gen.C16.importerGenesisOpSelf,
    importerStateSelf := Gen.C16.importerStateSelf }

def range1 (base n : Nat) : List Nat := (List.range n).map (fun i => base + i + 1)

/-- the block the harness writes for a variant (same construction as harness/c16.go c16write) -/
def build (variant : String) (nops nsts : Nat) (h : Nat := 33) : Blk :=
  let ops := range1 0 nops
  let sts := (range1 100 nsts).map (fun k => (k, h))
  let b : Blk :=
    { height := h, mHash := 7, mProposal := 5, mOpsRoot := some ops, mStsRoot := some (sts.map (·.1)),
      prHeight := h, prHash := 5, ops := ops, opsTree := ops, sts := sts, stsTree := sts.map (·.1),
      ivpHeight := h, ivpRound := 0, avpHeight := h, avpRound := 0, avpMajority := some 7 }
  match variant with
  | "states-foreign-tree" => { b with stsTree := range1 200 nsts, mStsRoot := some (range1 200 nsts) }
  | "states-root-mismatch" => { b with mStsRoot := some [999] }
  | "state-extra" => { b with sts := sts ++ [(150, h)] }
  | "state-missing" =>
    if nsts ≤ 1 then { b with sts := [(150, h)], stsTree := sts.map (·.1) ++ [151], mStsRoot := some (sts.map (·.1) ++ [151]) }
    else { b with sts := sts.dropLast }
  | "state-other-height" =>
    match sts with
    | [] => b
    | (k, _) :: r => { b with sts := (k, h - 1) :: r }
  | "state-other-height-later" =>
    -- the harness adds a second state when there is only one
    let sts2 := if nsts < 2 then sts ++ [(199, h)] else sts
    match sts2.reverse with
    | [] => b
    | (k, _) :: r => { b with sts := ((k, h - 1) :: r).reverse, stsTree := sts2.map (·.1), mStsRoot := some (sts2.map (·.1)) }
  | "ops-foreign-tree" => { b with opsTree := range1 300 nops, mOpsRoot := some (range1 300 nops) }
  | "ops-root-mismatch" => { b with mOpsRoot := some [999] }
  | "op-extra" => { b with ops := ops ++ [50] }
  | "op-missing" =>
    if nops ≤ 1 then { b with ops := [50], opsTree := ops ++ [51], mOpsRoot := some (ops ++ [51]) }
    else { b with ops := ops.dropLast }
  | "proposal-mismatch" => { b with mProposal := 6 }
  | "proposal-other-height" => { b with prHeight := h + 1 }
  | "vp-other-block" => { b with avpMajority := some 99 }
  | "vp-accept-draw" => { b with avpMajority := none }
  | "vp-other-height" => { b with ivpHeight := h + 1, avpHeight := h + 1 }
  | "vp-points-differ" => { b with avpRound := 1 }
  | "no-ops-root-set" => { b with ops := [], opsTree := [], mOpsRoot := some [999] }
  | "empty-ops-tree-root-set" => { b with ops := [], opsTree := [], mOpsRoot := some [999] }
  | "ok-empty" => { b with ops := [], opsTree := [], mOpsRoot := none, sts := [], stsTree := [], mStsRoot := none }
  | "ops-without-root" => { b with mOpsRoot := none }
  | "states-without-root" => { b with mStsRoot := none }
  -- a tree whose leaf carries another key under the old node hash is not a tree of the manifest root (ideal hash:
  -- the root is identified with the key list)
  | "op-replaced-at-leaf" => { b with ops := ops.dropLast ++ [60], opsTree := ops.dropLast ++ [60] }
  -- the body of the last operation / state rewritten, every hash it carries kept
  | "op-body-rewritten" => { b with badOps := 1 }
  | "state-body-rewritten" => { b with badSts := 1 }
  | "state-replaced-at-leaf" => { b with sts := sts.dropLast ++ [(160, h)], stsTree := (sts.map (·.1)).dropLast ++ [160] }
  | _ => b

def verdict (x : Bool) : String := if x then "accept" else "reject"

end Mitum.Driver.BlockImportDrv

namespace Mitum.Driver
open Mitum Mitum.BlockImport

def stepC16h (variant a b : String) (h : Nat) : String :=
    match a.toNat?, b.toNat? with
    | some nops, some nsts =>
      -- a manifest root without the tree item fails BlockMap.IsValid (checkItems), before either gate looks at the items
      if variant = "no-ops-root-set" then "importer=reject validator=reject"
      else
        let blk := BlockImportDrv.build variant nops nsts h
        s!"importer={BlockImportDrv.verdict (importerAccepts BlockImportDrv.current blk)} validator={BlockImportDrv.verdict (validatorAccepts BlockImportDrv.current blk)}"
    | _, _ => "bad-op"

/-- `blk <variant> <operations> <states> [genesis]` -/
def stepC16 (ts : List String) : String :=
  match ts with
  | ["blk", variant, a, b] => stepC16h variant a b 33
  | ["blk", variant, a, b, "genesis"] => stepC16h variant a b 0
  | _ => "bad-op"
end Mitum.Driver
