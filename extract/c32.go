package main

import (
	"go/ast"
	"strings"
)

func init() { register("C32", genC32) }

// lockKind reports which lock a method takes for its whole body: the first two
// statements must be `l.l.Lock(); defer l.l.Unlock()` ("W") or the RLock pair ("R").
func lockKind(f *File, fd *ast.FuncDecl) string {
	if fd == nil || fd.Body == nil || len(fd.Body.List) < 2 {
		return ""
	}
	a := normSpace(f.Src(fd.Body.List[0]))
	b := normSpace(f.Src(fd.Body.List[1]))
	switch {
	case a == "l.l.Lock()" && b == "defer l.l.Unlock()":
		return "W"
	case a == "l.l.RLock()" && b == "defer l.l.RUnlock()":
		return "R"
	}
	return ""
}

func genC32(o *Out) {
	singleW := []string{"SetValue", "RemoveValue", "GetOrCreate", "Set", "Remove", "SetOrRemove", "Empty", "Close"}
	singleR := []string{"Exists", "Value", "Get", "Traverse", "Len", "Map"}
	lockedW := []string{"SetValue", "EmptyValue", "GetOrCreate", "Set", "Empty"}
	lockedR := []string{"Value", "MustValue", "Get"}
	sharded := []string{"Exists", "Value", "SetValue", "RemoveValue", "Get", "GetOrCreate", "Set", "Remove", "SetOrRemove",
		"Traverse", "Map", "Len", "Close", "Empty", "loadItem", "newItem", "next"}
	var pins []string
	for _, m := range append(append([]string{}, singleW...), singleR...) {
		pins = append(pins, "SingleLockedMap."+m)
	}
	for _, m := range append(append([]string{}, lockedW...), lockedR...) {
		pins = append(pins, "Locked."+m)
	}
	for _, m := range sharded {
		pins = append(pins, "ShardedMap."+m)
	}
	pins = append(pins, "NewLockedMap", "NewShardedMapWithSeed", "NewDeepShardedMap", "defaultHashFunc", "deepHashFunc")
	f := o.pinFile("util/lock.go", pins...)
	if f == nil {
		return
	}
	all := func(recv string, ms []string, ok func(string) bool) bool {
		for _, m := range ms {
			if !ok(lockKind(f, f.Func(recv, m))) {
				o.errf("util/lock.go: %s.%s does not hold its lock for the whole body", recv, m)
				return false
			}
		}
		return true
	}
	isW := func(k string) bool { return k == "W" }
	isRW := func(k string) bool { return k == "W" || k == "R" }
	o.boolean("singleWriteMethodsLock", all("SingleLockedMap", singleW, isW))
	o.boolean("singleReadMethodsRLock", all("SingleLockedMap", singleR, isRW))
	o.boolean("lockedWriteMethodsLock", all("Locked", lockedW, isW))
	o.boolean("lockedReadMethodsRLock", all("Locked", lockedR, isRW))
	o.boolean("newItemWriteLock", isW(lockKind(f, f.Func("ShardedMap", "newItem"))))
	o.boolean("loadItemReadLock", isRW(lockKind(f, f.Func("ShardedMap", "loadItem"))))
	// ShardedMap.GetOrCreate: the condition guarding the length update
	cond := ""
	if fd := f.Func("ShardedMap", "GetOrCreate"); fd != nil {
		ast.Inspect(fd.Body, func(n ast.Node) bool {
			is, ok := n.(*ast.IfStmt)
			if !ok {
				return true
			}
			if strings.Contains(f.Src(is.Body), "atomic.AddInt64") {
				cond = normSpace(f.Src(is.Cond))
			}
			return true
		})
	}
	o.str("getOrCreateLenCond", cond)
	o.boolean("getOrCreateCountsCreated", cond == "created")
}
