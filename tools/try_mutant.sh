#!/bin/bash
# usage: try_mutant.sh <patch.diff> <Cxx> [Cxx...]   -- applies patch to /repo, runs quick checks, reverts
set -u
P="$1"; shift
cd /repo || exit 2
if ! git diff --quiet; then echo "/repo dirty, refusing"; exit 2; fi
git apply "$P" || { echo "patch does not apply"; exit 2; }
for id in "$@"; do
  echo "== $id"
  (cd /verif && VERIF_EVIDENCE_DIR=/verif/work/mutant-evidence ./check "$id" --tier quick 2>&1 | head -8)
  echo "exit=$?"
done
git -C /repo checkout -- .
git -C /repo status --short
