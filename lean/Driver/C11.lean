import MitumModel.Common
import MitumModel.Model.Processors
namespace Mitum.Driver.ProcessorsDrv
open Mitum Mitum.Processors

def parseOp (t : String) : Option Op :=
  match t.splitOn ":" with
  | ["pr", "x"] => some .processUnknown
  | ["pr", n] => n.toNat?.map .process
  | ["sv", n, m] =>
    match n.toNat? with
    | some pid =>
      if m = "m" then some (.save pid (hOf pid) pid)
      else if m = "x" then some (.save pid (hOf pid) 999999)
      else if m = "n" then some (.save pid (hOf pid) 888888)        -- a majority without a new block hash matches nothing
      else if m = "c" then some (.saveCanceled pid (hOf pid) pid)
      else none
    | none => none
  | ["cn"] => some .cancel
  | _ => none

def resStr : Res → String
  | .manifest => "manifest" | .nil => "nil" | .ok => "ok" | .alreadySaved => "already-saved"
  | .notProcessed => "not-processed" | .canceled => "canceled"

def logStr (l : List Saved) : String :=
  if l.isEmpty then "-" else ",".intercalate (l.map (fun e => s!"{e.height}:p{e.pid}"))

def go : St → List String → List String → Option (List String)
  | _, [], acc => some acc.reverse
  | s, t :: ts, acc =>
    match parseOp t with
    | none => none
    | some o =>
      let (s', r) := step s o
      go s' ts (s!"{resStr r}/{logStr s'.log}" :: acc)

end Mitum.Driver.ProcessorsDrv

namespace Mitum.Driver
open Mitum Mitum.Processors

def stepC11 (ts : List String) : String :=
  match ts with
  | "seq" :: ops =>
    match ProcessorsDrv.go init ops [] with
    | some outs => " ".intercalate outs
    | none => "bad-op"
  | _ => "bad-op"
end Mitum.Driver
