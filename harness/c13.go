package main

import (
	"bytes"
	"encoding/json"
	"fmt"
	"strings"
	"time"

	"github.com/spikeekips/mitum/base"
	"github.com/spikeekips/mitum/isaac"
	isaacblock "github.com/spikeekips/mitum/isaac/block"
	"github.com/spikeekips/mitum/util"
	"github.com/spikeekips/mitum/util/encoder"
	"github.com/spikeekips/mitum/util/fixedtree"
	"github.com/spikeekips/mitum/util/valuehash"
)

func init() { register("C13", runC13) }

// a block map reduced to its manifest (signing of block maps is C28/C16)
type c13map struct {
	base.BaseNodeSign
	m base.Manifest
}

func (c13map) IsValid([]byte) error                              { return nil }
func (m c13map) Manifest() base.Manifest                         { return m.m }
func (c13map) Item(base.BlockItemType) (base.BlockMapItem, bool) { return nil, false }
func (c13map) Items(func(base.BlockMapItem) bool)                {}
func (c13map) Writer() interface{}                               { return nil }

type c13state struct {
	st    base.State
	id    int
	isSuf bool
	sufH  int
}

type c13world struct {
	node   base.Node
	nextID int
	ids    map[string]int
}

func (w *c13world) id(h util.Hash) int {
	k := h.String()
	if i, ok := w.ids[k]; ok {
		return i
	}
	w.nextID++
	w.ids[k] = w.nextID
	return w.nextID
}

func (w *c13world) sufState(height, sufHeight int, previous util.Hash) c13state {
	sv := isaac.NewSuffrageNodesStateValue(base.Height(int64(sufHeight)), []base.SuffrageNodeStateValue{isaac.NewSuffrageNodeStateValue(w.node, base.Height(int64(sufHeight)))})
	st := base.NewBaseState(base.Height(int64(height)), isaac.SuffrageStateKey, sv, previous, []util.Hash{valuehash.RandomSHA256()})
	return c13state{st: st, id: w.id(st.Hash()), isSuf: true, sufH: sufHeight}
}

func (w *c13world) plainState(height int, previous util.Hash) c13state {
	st := base.NewBaseState(base.Height(int64(height)), "k-"+util.UUID().String(), base.NewDummyStateValue(util.UUID().String()), previous, []util.Hash{valuehash.RandomSHA256()})
	return c13state{st: st, id: w.id(st.Hash())}
}

func c13tree(keys []string) (fixedtree.Tree, error) { return c12tree(keys) }

func runC13(c *Ctx) error {
	n := 300
	if c.Thorough() {
		n = 8000
	}
	w := &c13world{node: base.RandomNode(), ids: map[string]int{}}
	env13, _ := c19newEnv()
	for i := 0; i < n; i++ {
		// a short chain of suffrage states: genesis (height 0), then growing heights
		var chain []c13state
		height := 0
		var prevHash util.Hash
		for j := 0; j < 1+c.Intn(4); j++ {
			s := w.sufState(height, j, prevHash)
			chain = append(chain, s)
			prevHash = s.st.Hash()
			height += 1 + c.Intn(3)
		}
		ti := c.Intn(len(chain))
		target := chain[ti]
		kind := "valid"
		// the state the proof carries
		st := target
		switch k := c.Intn(14); {
		case k == 0:
			st = w.plainState(int(target.st.Height()), target.st.Previous()) // not a suffrage state
			kind = "not-suffrage-state"
		case k == 2 && ti > 0: // a later block whose state claims suffrage height 0 and an unrelated predecessor
			st = w.sufState(int(target.st.Height()), 0, valuehash.RandomSHA256())
			if c.Bool() {
				st = w.sufState(int(target.st.Height()), 0, target.st.Previous())
			}
			kind = "suffrage-height-zero-claim"
		case k == 1 && ti > 0: // suffrage height not +1 although previous hash and heights fit
			st = w.sufState(int(target.st.Height()), target.sufH+1+c.Intn(2), target.st.Previous())
			kind = "suffrage-height-gap"
		}
		// the block's states tree
		var others []c13state
		for j := 0; j < c.Intn(7); j++ {
			others = append(others, w.plainState(int(st.st.Height()), valuehash.RandomSHA256()))
		}
		blockStates := append([]c13state{}, others...)
		pos := c.Intn(len(blockStates) + 1)
		blockStates = append(blockStates[:pos], append([]c13state{st}, blockStates[pos:]...)...)
		keys := func(ss []c13state) ([]string, []string) {
			var ks, ids []string
			for _, s := range ss {
				ks = append(ks, s.st.Hash().String())
				ids = append(ids, fmt.Sprint(s.id))
			}
			return ks, ids
		}
		bk, bids := keys(blockStates)
		tM, err := c13tree(bk)
		if err != nil {
			return err
		}
		manifestHeight := int(st.st.Height())
		if c.Chance(1, 15) {
			manifestHeight++
			kind = "manifest-height-differs"
		}
		manifest := isaac.NewManifest(base.Height(int64(manifestHeight)), valuehash.RandomSHA256(), valuehash.RandomSHA256(), valuehash.RandomSHA256(), tM.Root(), valuehash.RandomSHA256(), time.Now())
		// where the proof comes from
		proofStates := blockStates
		proofKey := st
		switch k := c.Intn(10); {
		case k < 5:
		case k < 7: // another tree that also contains the state
			var fs []c13state
			for j := 0; j < c.Intn(6); j++ {
				fs = append(fs, w.plainState(int(st.st.Height()), valuehash.RandomSHA256()))
			}
			p2 := c.Intn(len(fs) + 1)
			proofStates = append(append(append([]c13state{}, fs[:p2]...), st), fs[p2:]...)
			if kind == "valid" {
				kind = "foreign-tree"
			}
		case k < 8: // the block's tree with one other state replaced
			if len(others) > 0 {
				proofStates = append([]c13state{}, blockStates...)
				for j := range proofStates {
					if proofStates[j].id != st.id {
						proofStates[j] = w.plainState(int(st.st.Height()), valuehash.RandomSHA256())
						break
					}
				}
				if kind == "valid" {
					kind = "foreign-tree"
				}
			}
		default: // a proof of another state of the block
			if len(others) > 0 {
				proofKey = others[c.Intn(len(others))]
				if kind == "valid" {
					kind = "proof-of-other-state"
				}
			}
		}
		pk, pids := keys(proofStates)
		tP, err := c13tree(pk)
		if err != nil {
			return err
		}
		proof, err := fixedtree.NewProofFromNodes(tP.Nodes(), proofKey.st.Hash().String())
		if err != nil {
			continue
		}
		// the previous state handed to Prove
		var prev *c13state
		if ti > 0 {
			prev = &chain[ti-1]
		}
		switch k := c.Intn(12); {
		case k == 0:
			prev = nil
			if ti > 0 && kind == "valid" {
				kind = "nil-previous"
			}
		case k == 1:
			x := chain[c.Intn(len(chain))]
			prev = &x
			if kind == "valid" && (ti == 0 || x.id != chain[ti-1].id) {
				kind = "wrong-previous"
			}
		case k == 2:
			ph := int(st.st.Height()) - 1
			if ph < 0 {
				ph = 0
			}
			x := w.plainState(ph, valuehash.RandomSHA256())
			prev = &x
			if kind == "valid" {
				kind = "wrong-previous"
			}
		case k == 3 && ti > 0: // right hash but the previous "state" is not a suffrage state: same hash impossible; use a higher previous
			x := w.sufState(int(st.st.Height())+1, chain[ti-1].sufH, valuehash.RandomSHA256())
			prev = &x
			if kind == "valid" {
				kind = "previous-higher"
			}
		}
		sp := isaacblock.NewSuffrageProof(c13map{m: manifest}, st.st, proof)
		res := func() (out string) {
			defer func() {
				if r := recover(); r != nil {
					out = "panic"
				}
			}()
			if err := sp.IsValid(nil); err != nil {
				return "invalid"
			}
			var ps base.State
			if prev != nil {
				ps = prev.st
			}
			if err := sp.Prove(ps); err != nil {
				return "error"
			}
			return "ok"
		}()
		prevTok := "-"
		if prev != nil {
			prevTok = fmt.Sprintf("%d:%d:%s:%d", prev.id, prev.st.Height(), b01(prev.isSuf), prev.sufH)
		}
		stPrev := "-"
		if st.st.Previous() != nil {
			stPrev = fmt.Sprint(w.id(st.st.Previous()))
		}
		line := fmt.Sprintf("sp %d T:%s P:%s/%d st:%d:%d:%s:%s:%d prev:%s", manifestHeight, strings.Join(bids, ","), strings.Join(pids, ","), proofKey.id,
			st.st.Height(), st.id, stPrev, b01(st.isSuf), st.sufH, prevTok)
		c.Case(line, res)
		c.Count("kind", kind)
		c.Count("result", res)
		c.Nontrivial(line)
		if i%60 == 0 {
			c.Sample(map[string]interface{}{"kind": kind, "line": line, "result": res})
		}
		// a proof as it arrives from a remote node (JSON): an empty slot of an honest path is given the key of a state that
		// is not in the states tree, and that state is put into the proof; it must not be proved
		if res == "ok" && kind == "valid" {
			if b, err := json.Marshal(proof); err == nil {
				var raw []json.RawMessage
				if json.Unmarshal(b, &raw) == nil {
					forgedState := w.sufState(int(st.st.Height()), st.sufH, st.st.Previous())
					slots := 0
					for slot, nd := range proof.Nodes() {
						if nd != nil && !nd.IsEmpty() {
							continue
						}
						slots++
						for _, how := range []string{"empty-slot-with-key", "leaf-in-empty-slot"} {
							fraw := append([]json.RawMessage{}, raw...)
							fraw[slot] = json.RawMessage(fmt.Sprintf(`{"isempty":true,"key":%q}`, forgedState.st.Hash().String()))
							if how == "leaf-in-empty-slot" { // a complete, self-consistent leaf where the honest path has nothing
								fk := forgedState.st.Hash().String()
								lb, err := json.Marshal(fixedtree.NewBaseNode(fk).SetHash(valuehash.NewSHA256([]byte(fk))))
								if err != nil {
									continue
								}
								fraw[slot] = lb
							}
							fb, _ := json.Marshal(fraw)
							var forged fixedtree.Proof
							if json.Unmarshal(fb, &forged) != nil {
								continue
							}
							fsp := isaacblock.NewSuffrageProof(c13map{m: manifest}, forgedState.st, forged)
							fres := func() (out string) {
								defer func() {
									if r := recover(); r != nil {
										out = "panic"
									}
								}()
								if err := fsp.IsValid(nil); err != nil {
									return "invalid"
								}
								var ps base.State
								if prev != nil {
									ps = prev.st
								}
								if err := fsp.Prove(ps); err != nil {
									return "error"
								}
								return "ok"
							}()
							c.Eval(1)
							c.Count("forged-empty-slot", fres)
							if fres == "ok" {
								c.Violation("C13:state-outside-the-tree-proved", fmt.Sprintf("%s: the proof JSON with its empty slot %d rewritten (%s) to carry the key of a state that is not in the states tree is accepted by IsValid and Prove for that state", line, slot, how),
									map[string]interface{}{"line": line, "slot": slot, "how": how, "proof_json": string(fb)})
							}
						}
					}
					if slots == 0 {
						c.Count("forged-empty-slot", "path-without-empty-slot")
					}
				}
			}
		}
		// the state of an honest proof as it arrives (JSON) with its suffrage node rewritten and its hash kept: the proof
		// must be refused, for the genesis state (no previous state hash) as for any other
		if res == "ok" && kind == "valid" && env13 != nil {
			if sb, err := env13.enc.Marshal(st.st); err == nil {
				old, other := []byte(w.node.Address().String()), []byte(base.RandomAddress("").String())
				if bytes.Contains(sb, old) {
					var rst base.State
					if encoder.Decode(env13.enc, bytes.Replace(sb, old, other, -1), &rst) == nil && rst.Hash().Equal(st.st.Hash()) {
						fsp := isaacblock.NewSuffrageProof(c13map{m: manifest}, rst, proof)
						accepted := func() (ok bool) {
							defer func() {
								if r := recover(); r != nil {
									ok = false
								}
							}()
							if fsp.IsValid(nil) != nil {
								return false
							}
							var ps base.State
							if prev != nil {
								ps = prev.st
							}
							return fsp.Prove(ps) == nil
						}()
						c.Eval(1)
						c.Count("rewritten-state", map[bool]string{true: "genesis", false: "later"}[st.st.Previous() == nil]+map[bool]string{true: "/accepted", false: "/refused"}[accepted])
						if accepted {
							c.Violation("C13:rewritten-state-accepted", fmt.Sprintf("%s: the proof with its state's suffrage node rewritten under the state's old hash is accepted by IsValid and Prove", line),
								map[string]interface{}{"line": line, "genesis": st.st.Previous() == nil})
						}
					}
				}
			}
		}
		// oracle: an accepted proof leads to the block's states tree and its state follows the previous one
		if res == "ok" {
			nodes := proof.Nodes()
			root := nodes[len(nodes)-1]
			if root == nil || !root.Hash().Equal(manifest.StatesTree()) {
				c.Violation("C13:root-not-compared", fmt.Sprintf("%s: IsValid and Prove accept a proof whose root is not the manifest's states tree (%s)", kind, line),
					map[string]interface{}{"kind": kind, "line": line})
			}
			if ti > 0 && (prev == nil || !st.st.Previous().Equal(prev.st.Hash())) {
				c.Violation("C13:previous-not-followed", line, map[string]interface{}{"kind": kind, "line": line})
			}
		}
	}
	return nil
}
