import MitumModel.Common
/-
Model of the local node's ballot for ONE stage point (and suffrage-confirm flag) while it
mimics incoming ballots (isaac/states/states.go mimicBallotFunc) through the ballot
broadcaster (isaac/states/ballot.go DefaultBallotBroadcaster over the pool's first-writer-wins
SetBallot).  Every voted incoming ballot starts its own goroutine ("delivery"):

  check   read the pool; when local already has a ballot of the stage point the delivery ends
  (sign)  sign a mimic ballot of the delivered fact            -- no shared effect
  set     SetBallot: the first ballot of the stage point stays  -- under the broadcaster's lock
  send    hand a ballot to the network

Other stage points use other pool keys and do not interact; handlers and re-broadcast timers
go through the same `Broadcast` (set; send).  `sendStored` says which ballot `send` hands
over: the one just signed (the code before the repair) or the one the pool holds.
-/
namespace Mitum.Mimic

structure Delivery where
  fact : Nat
  pc : Nat          -- 0 = before check, 1 = before set, 2 = before send, 3 = done
deriving Repr, DecidableEq

structure St where
  pool : Option Nat
  sent : List Nat           -- facts handed to the network by the local node, oldest first
  ds : List Delivery
deriving Repr, DecidableEq

def setAt (ds : List Delivery) (i : Nat) (d : Delivery) : List Delivery := ds.set i d

/-- one step of delivery `i` (nothing happens when `i` is out of range or the delivery is done) -/
def step (sendStored : Bool) (s : St) (i : Nat) : St :=
  match s.ds[i]? with
  | none => s
  | some d =>
    match d.pc with
    | 0 => match s.pool with
      | some _ => { s with ds := setAt s.ds i { d with pc := 3 } }      -- local has one already
      | none => { s with ds := setAt s.ds i { d with pc := 1 } }
    | 1 => { s with pool := (match s.pool with | some f => some f | none => some d.fact),
                    ds := setAt s.ds i { d with pc := 2 } }
    | 2 =>
      let f := if sendStored then (match s.pool with | some f => f | none => d.fact) else d.fact
      { s with sent := s.sent ++ [f], ds := setAt s.ds i { d with pc := 3 } }
    | _ => s

def run (sendStored : Bool) (s : St) : List Nat → St
  | [] => s
  | i :: r => run sendStored (step sendStored s i) r

def start (facts : List Nat) : St := { pool := none, sent := [], ds := facts.map (fun f => { fact := f, pc := 0 }) }

end Mitum.Mimic
