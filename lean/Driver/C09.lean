import MitumModel.Common
import MitumModel.Model.States
namespace Mitum.Driver.StatesDrv
open Mitum Mitum.States

def st? : String → Option S
  | "ST" => some .stopped | "BO" => some .booting | "JO" => some .joining | "CO" => some .consensus
  | "SY" => some .syncing | "HA" => some .handover | "BR" => some .broken | "XX" => some .unknown | _ => none

def stStr : S → String
  | .stopped => "ST" | .booting => "BO" | .joining => "JO" | .consensus => "CO"
  | .syncing => "SY" | .handover => "HA" | .broken => "BR" | .unknown => "XX"

def out? (s : String) : Option Out :=
  if s = "ok" then some .ok else if s = "err" then some .err else if s = "ign" then some .ignore
  else if s.startsWith "r" then (st? (s.drop 1).toString).map .redirect else none

/-- the script table: entries `<e|x>:<state>:<next|*>=<outcome>`; first match wins, default ok -/
structure Entry where
  enter : Bool
  state : S
  next : Option S
  out : Out

def entry? (t : String) : Option Entry :=
  match t.splitOn "=" with
  | [k, o] =>
    match k.splitOn ":", out? o with
    | [ph, st, nx], some o =>
      match st? st with
      | some st => some { enter := ph = "e", state := st, next := if nx = "*" then none else st? nx, out := o }
      | none => none
    | _, _ => none
  | _ => none

def script (tab : List Entry) : Script := fun phase state _ next =>
  match tab.find? (fun e => e.enter == phase && e.state == state && (e.next.isNone || e.next == some next)) with
  | some e => e.out
  | none => .ok

def reports (before after : M) : String :=
  let n := (after.log.drop before.log.length).map (fun e => stStr e.1)
  if n.isEmpty then "-" else ",".intercalate n

end Mitum.Driver.StatesDrv
namespace Mitum.Driver
open Mitum Mitum.States Mitum.Driver.StatesDrv

/-- `seq <allowed> T:<entries,…|-> ; en:<from>:<next> sw:<from>:<next> ck:<from>:<next> al:<0|1>` -/
def stepC09 (ts : List String) : String :=
  match ts with
  | "seq" :: a :: t :: ";" :: ops =>
    let tabS := (t.drop 2).toString
    let tab := if tabS = "-" then some [] else (tabS.splitOn ",").mapM entry?
    match tab with
    | none => "bad-op"
    | some tab =>
      let sc := script tab
      let m0 : M := { cur := .stopped, allowed := a = "1", log := [] }
      let r := ops.foldl (fun (acc : M × List String) op =>
        let m := acc.1
        match op.splitOn ":" with
        | ["en", f, n] =>
          match st? f, st? n with
          | some f, some n =>
            let x := ensure sc 64 m 0 f n
            let res := match x.2 with | .ok => "ok" | .stopped => "stopped" | .error => "error" | .outOfFuel => "fuel"
            (x.1, acc.2 ++ [s!"{res}/{stStr x.1.cur}/{reports m x.1}"])
          | _, _ => (m, acc.2 ++ ["bad-op"])
        | ["sw", f, n] =>
          match st? f, st? n with
          | some f, some n =>
            let x := switchState sc m f n
            let res := match x.2 with | .done => "nil" | .error => "error" | .redirect _ r => s!"r{stStr r}"
            (x.1, acc.2 ++ [s!"{res}/{stStr x.1.cur}/{reports m x.1}"])
          | _, _ => (m, acc.2 ++ ["bad-op"])
        | ["ck", f, n] =>
          match st? f, st? n with
          | some f, some n =>
            let res := match check m.allowed m.cur f n with | .ok => "ok" | .ignore => "ignore" | .redirect r => s!"redirect:{stStr r}" | .error => "error"
            (m, acc.2 ++ [res])
          | _, _ => (m, acc.2 ++ ["bad-op"])
        | ["al", v] => ({ m with allowed := v = "1" }, acc.2 ++ [boolStr (m.allowed != (v = "1"))])
        | _ => (m, acc.2 ++ ["bad-op"])) (m0, [])
      joinSp r.2
  | _ => "bad-op"
end Mitum.Driver
