import MitumModel.Model.Center
import MitumModel.Gen.C19
import MitumModel.Pins
/-!
C19  Database reads agree with the committed chain.
-/
namespace Mitum.C19
open Mitum.Center

def fixed : Fixes := { proofExact := true, byBlockBelowTemps := true, lastProofHeight := true }

/-- `findSome?` does not depend on the order or grouping of the list when all hits agree -/
theorem findSome_congr {α β : Type} (f : α → Option β) (l₁ l₂ : List α)
    (hmem : ∀ a, a ∈ l₁ ↔ a ∈ l₂)
    (huniq : ∀ a b x y, a ∈ l₁ → b ∈ l₁ → f a = some x → f b = some y → x = y) :
    l₁.findSome? f = l₂.findSome? f := by
  cases h1 : l₁.findSome? f with
  | none =>
    have hn := List.findSome?_eq_none_iff.mp h1
    symm
    apply List.findSome?_eq_none_iff.mpr
    intro a ha
    exact hn a ((hmem a).mpr ha)
  | some x =>
    obtain ⟨a, ha, hfa⟩ := List.exists_of_findSome?_eq_some h1
    cases h2 : l₂.findSome? f with
    | none =>
      have hn := List.findSome?_eq_none_iff.mp h2
      have := hn a ((hmem a).mp ha)
      rw [hfa] at this; cases this
    | some y =>
      obtain ⟨b, hb, hfb⟩ := List.exists_of_findSome?_eq_some h2
      rw [huniq a b x y ha ((hmem b).mpr hb) hfa hfb]

/-- a chain in which a suffrage height is proved by at most one proof -/
def ProofsUnique (c : Chain) : Prop :=
  ∀ b₁ b₂ s id₁ id₂, b₁ ∈ c → b₂ ∈ c → b₁.suf = some (s, id₁) → b₂.suf = some (s, id₂) → id₁ = id₂

theorem pick_some (sh : Nat) (b : Block) (x : String) (h : pickProof true sh b = some x) : b.suf = some (sh, x) := by
  unfold pickProof at h
  cases hs : b.suf with
  | none => simp [hs] at h
  | some p =>
    obtain ⟨s, id⟩ := p
    simp only [hs, if_true] at h
    by_cases he : s = sh
    · simp [he] at h; rw [he, h]
    · simp [he] at h

/-- **proof_refines** (repaired code).  Wherever the chain is cut between the permanent store and
the temps, `Center.SuffrageProof(h)` is the proof of exactly suffrage height `h` of the committed
chain, or nothing. -/
theorem proof_refines (c : Chain) (p : Nat) (sh : Nat) (hu : ProofsUnique c) :
    ctrProof fixed (ofChain c p) sh = specProof c sh := by
  have hsplit : c = c.take p ++ c.drop p := (List.take_append_drop p c).symm
  have huniq : ∀ a b x y, a ∈ c → b ∈ c → pickProof true sh a = some x → pickProof true sh b = some y → x = y := by
    intro a b x y ha hb hx hy
    exact hu a b sh x y ha hb (pick_some sh a x hx) (pick_some sh b y hy)
  -- the whole chain, read temps-first
  have hre : c.findSome? (pickProof true sh) = ((c.drop p).reverse ++ c.take p).findSome? (pickProof true sh) := by
    apply findSome_congr
    · intro a
      constructor
      · intro ha
        rw [hsplit] at ha
        simp only [List.mem_append, List.mem_reverse] at ha ⊢
        exact ha.symm
      · intro ha
        simp only [List.mem_append, List.mem_reverse] at ha
        rw [hsplit]; simp only [List.mem_append]; exact ha.symm
    · exact huniq
  simp only [ctrProof, specProof, ofChain, fixed]
  rw [hre, List.findSome?_append]
  cases ((c.drop p).reverse).findSome? (pickProof true sh) with
  | none => simp
  | some x => simp

theorem newest_is_last (c : Chain) (p : Nat) : newestHeight (ofChain c p) = lastHeight c := by
  have hsplit : c = c.take p ++ c.drop p := (List.take_append_drop p c).symm
  simp only [newestHeight, ofChain]
  cases hd : (c.drop p).reverse with
  | nil =>
    have : c.drop p = [] := by simpa using hd
    simp only
    rw [show c.take p = c from by conv => rhs; rw [hsplit, this, List.append_nil]]
  | cons b r =>
    simp only [lastHeight]
    have hl : (c.drop p).getLast? = some b := by
      have := congrArg List.head? hd
      simpa [List.head?_reverse] using this
    conv => rhs; rw [hsplit]
    rw [List.getLast?_append]
    simp [hl]

/-- the height reported with the last proof (repaired code) is the newest block's -/
theorem last_proof_height_refines (c : Chain) (p : Nat) :
    ctrLastProofHeight fixed (ofChain c p) = specLastProofHeight c := by
  have hsplit : c = c.take p ++ c.drop p := (List.take_append_drop p c).symm
  have hany : (specLastProof c).isSome =
      (((ofChain c p).temps.find? (fun b => b.suf.isSome)).isSome || (specLastProof (ofChain c p).perm).isSome) := by
    simp only [specLastProof, ofChain]
    conv => lhs; rw [hsplit]
    rw [List.reverse_append, List.findSome?_append]
    cases h1 : (c.drop p).reverse.findSome? (fun b => b.suf.map (·.2)) with
    | some x =>
      have : ((c.drop p).reverse.find? (fun b => b.suf.isSome)).isSome = true := by
        obtain ⟨a, ha, hfa⟩ := List.exists_of_findSome?_eq_some h1
        rw [List.find?_isSome]
        exact ⟨a, ha, by cases hs : a.suf <;> simp_all⟩
      simp [this]
    | none =>
      have hn := List.findSome?_eq_none_iff.mp h1
      have : ((c.drop p).reverse.find? (fun b => b.suf.isSome)) = none := by
        apply List.find?_eq_none.mpr
        intro a ha
        have := hn a ha
        cases hs : a.suf <;> simp_all
      simp [this]
  simp only [ctrLastProofHeight, specLastProofHeight, fixed, if_true, newest_is_last]
  rw [hany]
  cases hf : (ofChain c p).temps.find? (fun b => b.suf.isSome) with
  | some b => simp
  | none => simp

/-! ### the code before the repairs (each witness replayed on the real Center by the harness) -/

def wChain : Chain :=
  [{ height := 0, mapID := "m0", states := [], suf := some (0, "p0"), policy := none, known := [], inState := [] },
   { height := 1, mapID := "m1", states := [], suf := none, policy := none, known := [], inState := [] },
   { height := 2, mapID := "m2", states := [], suf := some (1, "p1"), policy := none, known := [], inState := [] },
   { height := 3, mapID := "m3", states := [], suf := none, policy := none, known := [], inState := [] }]

def old : Fixes := { proofExact := false, byBlockBelowTemps := false, lastProofHeight := false }

/-- asked for a suffrage height that does not exist (2, or 7), the old code answers with the proof of height 1 -/
theorem proof_of_other_height_witness :
    ctrProof old (ofChain wChain 0) 2 = some "p1" ∧ ctrProof old (ofChain wChain 0) 7 = some "p1" ∧ specProof wChain 2 = none := by
  decide

/-- blocks 0..2 merged, 3 in the temps: asked for block height 1 the old code answers with the proof of block 2 -/
theorem by_block_below_temps_witness :
    ctrProofByBlock old (ofChain wChain 3) 1 = some "p1" ∧ specProofByBlock wChain 1 = some "p0" ∧
    ctrProofByBlock fixed (ofChain wChain 3) 1 = some "p0" := by
  decide

/-- the last proof sits in block 2, the newest block is 3: the old code reports 2 -/
theorem last_proof_height_witness :
    ctrLastProofHeight old (ofChain wChain 0) = some 2 ∧ specLastProofHeight wChain = some 3 := by
  decide

theorem facts_ok :
    Gen.C19.proofExact = true ∧ Gen.C19.byBlockBelowTemps = true ∧ Gen.C19.lastProofHeight = true ∧
    Gen.C19.extractErrors = [] := by decide

theorem source_pinned : Gen.C19.pins = Pins.C19 := by decide

end Mitum.C19
