#!/bin/sh
# Build the framework offline from files on disk: fact extractor, generated
# Lean facts, the whole Lean project (models, theorems, driver), the Go harness.
set -e
cd "$(dirname "$0")"
export GOFLAGS=-mod=mod GOPROXY=off GOSUMDB=off GOTOOLCHAIN=local
mkdir -p bin work replays evidence
(cd extract && go build -o ../bin/extract .)
./bin/extract /repo lean/MitumModel/Gen
(cd lean && lake build 2>&1 | grep -v '^✔' | tail -40)
cp /repo/go.sum harness/go.sum
(cd harness && go build -tags "test verif" -o ../bin/harness .)
echo setup done
