package main

import (
	"go/ast"
	"strings"
)

func init() { register("C36", genC36) }

func genC36(o *Out) {
	f := o.pinFile("launch/ratelimit.go", "NewRateLimiter", "RateLimiter.Update", "RateLimiter.Allow", "RateLimitHandler.Func", "RateLimitHandler.allow",
		"RateLimitHandler.rateLimiterFunc", "RateLimiterRules.Rule", "RateLimiterRules.rule", "RateLimiterRules.ruleByNode",
		"RateLimiterRuleMap.Rule", "NetRateLimiterRuleSet.rule", "NodeRateLimiterRuleSet.Rule", "SuffrageRateLimiterRuleSet.Rule",
		"ClientIDRateLimiterRuleSet.Rule", "addrPool.rateLimiter", "addrPool.addNode")
	if f == nil {
		return
	}
	// order of the ruleset-type strings returned by rule()
	var order []string
	if fd := f.Func("RateLimiterRules", "rule"); fd != nil {
		ast.Inspect(fd.Body, func(n ast.Node) bool {
			rs, ok := n.(*ast.ReturnStmt)
			if !ok || len(rs.Results) != 5 {
				return true
			}
			t := strings.Trim(f.Src(rs.Results[2]), `"`)
			upd := strings.TrimSpace(f.Src(rs.Results[4]))
			if upd == "true" && (len(order) == 0 || order[len(order)-1] != t) {
				order = append(order, t)
			}
			return true
		})
	}
	o.strList("ruleOrder", order)
}
