package main

import (
	"encoding/json"
	"fmt"
	"github.com/spikeekips/mitum/util/encoder"
	"sort"
	"strings"

	"github.com/spikeekips/mitum/base"
	"github.com/spikeekips/mitum/isaac"
	"github.com/spikeekips/mitum/util"
	"github.com/spikeekips/mitum/util/valuehash"
)

func init() { register("C03", runC03) }

// node numbers of the line protocol: members 1..n; 8, 9 = nodes outside the
// suffrage; 10+i = member i's address signed with a key that is not its suffrage key
type c03env struct {
	members  []base.LocalNode // index 0 = node 1
	outsider []base.LocalNode // nodes 8, 9
	wrongkey []base.LocalNode // node 10+i
	alias    []base.LocalNode // node 20+i: member i's key under another spelling (upper case) of its address: another address, not in the suffrage
	point    base.Point
	prev     util.Hash
	facts    map[string]isaac.INITBallotFact // per expel set: built on demand
	enc      encoder.Encoder
	sufs     map[int]base.Suffrage // ONE suffrage object per size for all validations, as a node keeps one per height
	c        *Ctx
}

func (e *c03env) nodeNo(a base.Address) int {
	for i := range e.members {
		if e.members[i].Address().Equal(a) {
			return i + 1
		}
	}
	return 0
}

func c03newEnv(n int) *c03env {
	e := &c03env{point: base.NewPoint(base.Height(33), base.Round(0)), prev: valuehash.RandomSHA256()}
	for i := 0; i < n; i++ {
		ln := base.RandomLocalNode()
		e.members = append(e.members, ln)
		e.wrongkey = append(e.wrongkey, isaac.NewLocalNode(base.NewMPrivatekey(), ln.Address()))
		as := ln.Address().String()
		e.alias = append(e.alias, isaac.NewLocalNode(ln.Privatekey(), base.NewStringAddress(strings.ToUpper(as[:len(as)-base.AddressTypeSize]))))
	}
	e.outsider = []base.LocalNode{base.RandomLocalNode(), base.RandomLocalNode()}
	return e
}

func (e *c03env) node(id int) base.LocalNode {
	switch {
	case id >= 1 && id <= len(e.members):
		return e.members[id-1]
	case id == 8 || id == 9:
		return e.outsider[id-8]
	case id > 10 && id-10 <= len(e.members):
		return e.wrongkey[id-11]
	case id > 20 && id-20 <= len(e.members):
		return e.alias[id-21]
	}
	return nil
}

type c03expel struct {
	Node    int   `json:"node"`
	Signers []int `json:"signers"`
}

type c03vp struct {
	T10      int            `json:"t10"`
	N        int            `json:"n"`
	Votes    [][2]string    `json:"votes"` // node, fact name
	Expels   []c03expel     `json:"expels"`
	Majority string         `json:"majority"` // "X", "Y" or "-"
	Stuck    bool           `json:"stuck"`
	OffPoint int            `json:"off_point"` // 0 none; 1 one sign fact of another round; 2 INIT facts inside an ACCEPT voteproof
	extra    map[string]int // not serialised
}

func (v c03vp) line() string {
	var s, vs, es []string
	for i := 1; i <= v.N; i++ {
		s = append(s, fmt.Sprint(i))
	}
	for _, x := range v.Votes {
		vs = append(vs, x[0]+"="+x[1])
	}
	for _, x := range v.Expels {
		var sg []string
		for _, g := range x.Signers {
			sg = append(sg, fmt.Sprint(g))
		}
		es = append(es, fmt.Sprintf("%d/%s", x.Node, strings.Join(sg, ".")))
	}
	line := fmt.Sprintf("vp %d S:%s V:%s E:%s M:%s", v.T10, strings.Join(s, ","), strings.Join(vs, ","), strings.Join(es, ";"), v.Majority)
	if v.Stuck {
		line += " stuck"
	}
	if v.OffPoint != 0 {
		line += " offpoint"
	}
	return line
}

// build the real objects and ask the real validators
func (e *c03env) accepted(v c03vp, proposals map[string]util.Hash) (bool, string) {
	nodes := make([]base.Node, v.N)
	for i := 0; i < v.N; i++ {
		nodes[i] = e.members[i]
	}
	if e.sufs == nil {
		e.sufs = map[int]base.Suffrage{}
	}
	suf, ok := e.sufs[v.N]
	if !ok {
		i, err := isaac.NewSuffrage(nodes)
		if err != nil {
			return false, "suffrage: " + err.Error()
		}
		suf = i
		e.sufs[v.N] = suf
	}
	// validating a voteproof must leave the suffrage it is validated with as it is
	defer func() {
		var now []string
		same := suf.Len() == v.N
		for i, nd := range suf.Nodes() {
			now = append(now, fmt.Sprint(e.nodeNo(nd.Address())))
			same = same && i < v.N && nd.Address().Equal(e.members[i].Address())
		}
		if !same && e.c != nil {
			e.c.Violation("C03:suffrage-changed-by-validation", fmt.Sprintf("after validating %s the suffrage object of %d nodes lists the nodes %v", v.line(), v.N, now), map[string]interface{}{"voteproof": v})
			delete(e.sufs, v.N)
		}
	}()
	var expels []base.SuffrageExpelOperation
	var expelfacts []util.Hash
	for _, x := range v.Expels {
		f := isaac.NewSuffrageExpelFact(e.node(x.Node).Address(), e.point.Height()-1, e.point.Height()+5, "dead")
		op := isaac.NewSuffrageExpelOperation(f)
		for _, g := range x.Signers {
			ln := e.node(g)
			if err := op.NodeSign(ln.Privatekey(), hNetworkID, ln.Address()); err != nil {
				return false, "sign: " + err.Error()
			}
		}
		expels = append(expels, op)
		expelfacts = append(expelfacts, f.Hash())
	}
	fact := func(name string) isaac.INITBallotFact {
		return isaac.NewINITBallotFact(e.point, e.prev, proposals[name], expelfacts)
	}
	sfs := make([]base.BallotSignFact, len(v.Votes))
	for i, x := range v.Votes {
		var id int
		fmt.Sscan(x[0], &id)
		ln := e.node(id)
		f := fact(x[1])
		if v.OffPoint == 1 && i == 0 { // the same fact one round later
			f = isaac.NewINITBallotFact(base.NewPoint(e.point.Height(), e.point.Round()+1), e.prev, proposals[x[1]], expelfacts)
		}
		sf := isaac.NewINITBallotSignFact(f)
		if err := sf.NodeSign(ln.Privatekey(), hNetworkID, ln.Address()); err != nil {
			return false, "sign: " + err.Error()
		}
		sfs[i] = sf
	}
	th := base.Threshold(float64(v.T10) / 10)
	var vp base.Voteproof
	if v.OffPoint == 2 { // the INIT sign facts (and majority) presented as an ACCEPT voteproof of the same height and round
		if len(expels) > 0 {
			w := isaac.NewACCEPTExpelVoteproof(e.point)
			if v.Majority != "-" {
				w.SetMajority(fact(v.Majority))
			}
			w.SetSignFacts(sfs).SetThreshold(th)
			w.SetExpels(expels)
			w.Finish()
			vp = w
		} else {
			w := isaac.NewACCEPTVoteproof(e.point)
			if v.Majority != "-" {
				w.SetMajority(fact(v.Majority))
			}
			w.SetSignFacts(sfs).SetThreshold(th)
			w.Finish()
			vp = w
		}
	} else if v.Stuck {
		w := isaac.NewINITStuckVoteproof(e.point)
		w.SetSignFacts(sfs)
		w.SetExpels(expels)
		w.Finish()             // no majority, threshold 100
		if v.Majority != "-" { // a crafted one: majority put back after Finish
			w.SetMajority(fact(v.Majority))
		}
		w.SetThreshold(th)
		vp = w
	} else if len(expels) > 0 {
		w := isaac.NewINITExpelVoteproof(e.point)
		if v.Majority != "-" {
			w.SetMajority(fact(v.Majority))
		}
		w.SetSignFacts(sfs).SetThreshold(th)
		w.SetExpels(expels)
		w.Finish()
		vp = w
	} else {
		w := isaac.NewINITVoteproof(e.point)
		if v.Majority != "-" {
			w.SetMajority(fact(v.Majority))
		}
		w.SetSignFacts(sfs).SetThreshold(th)
		w.Finish()
		vp = w
	}
	if err := vp.IsValid(hNetworkID); err != nil {
		return false, "IsValid: " + err.Error()
	}
	if err := isaac.IsValidVoteproofWithSuffrage(vp, suf); err != nil {
		return false, "with suffrage: " + err.Error()
	}
	e.forgedMajority(v, vp, suf)
	return true, ""
}

// the accepted voteproof with another majority object: a fact with other content (another proposal) that still carries
// the hash of the fact the nodes signed (a decoded fact keeps the hash it came with); it must not be accepted
func (e *c03env) forgedMajority(v c03vp, vp base.Voteproof, suf base.Suffrage) {
	if e.c == nil || vp.Majority() == nil || e.enc == nil {
		return
	}
	b, err := e.enc.Marshal(vp.Majority())
	if err != nil {
		return
	}
	var mj map[string]json.RawMessage
	if json.Unmarshal(b, &mj) != nil || mj["proposal"] == nil {
		return
	}
	mj["proposal"], _ = json.Marshal(valuehash.RandomSHA256().String())
	fb, _ := json.Marshal(mj)
	hinter, err := e.enc.Decode(fb)
	if err != nil {
		e.c.Count("forged-majority", "fact-refused-by-decoder")
		return
	}
	forged, ok := hinter.(base.BallotFact)
	if !ok || !forged.Hash().Equal(vp.Majority().Hash()) {
		return
	}
	var fvp base.Voteproof
	switch t := vp.(type) {
	case isaac.INITVoteproof:
		t.SetMajority(forged)
		fvp = t
	case isaac.INITExpelVoteproof:
		t.SetMajority(forged)
		fvp = t
	case isaac.INITStuckVoteproof:
		t.SetMajority(forged)
		fvp = t
	default:
		return
	}
	e.c.Eval(1)
	if err := fvp.IsValid(hNetworkID); err != nil {
		e.c.Count("forged-majority", "refused-by-IsValid")
		return
	}
	if err := isaac.IsValidVoteproofWithSuffrage(fvp, suf); err != nil {
		e.c.Count("forged-majority", "refused-with-suffrage")
		return
	}
	e.c.Count("forged-majority", "accepted")
	e.c.Violation("C03:majority-content-not-signed", fmt.Sprintf("%s: the same voteproof with a majority object of other content (another proposal, the hash of the signed fact kept) is accepted: two accepted voteproofs of one stage point name different majority facts and no node signed both",
		v.line()), map[string]interface{}{"voteproof": v, "forged_majority_json": string(fb)})
}

func (c *Ctx) c03gen(n int, t10s []int, t10 int) c03vp {
	v := c03vp{T10: t10, N: n}
	// expels
	k := 0
	switch r := c.Intn(10); {
	case r < 4:
		k = 0
	case r < 8:
		k = 1 + c.Intn(2)
	default:
		k = c.Intn(n + 1)
	}
	if k > n {
		k = n
	}
	perm := c.Perm(n)
	expelled := map[int]bool{}
	for i := 0; i < k; i++ {
		x := c03expel{Node: perm[i] + 1}
		if c.Chance(1, 25) {
			x.Node = 8 // not in the suffrage
		}
		expelled[x.Node] = true
		for j := 1; j <= n; j++ {
			if j == x.Node {
				if c.Chance(1, 4) { // its own sign: not counted
					x.Signers = append(x.Signers, j)
				}
				continue
			}
			if c.Chance(3, 4) {
				g := j
				if c.Chance(1, 30) {
					g = 10 + j // wrong key
				}
				x.Signers = append(x.Signers, g)
			}
		}
		if c.Chance(1, 30) {
			x.Signers = append(x.Signers, 9)
		}
		v.Expels = append(v.Expels, x)
	}
	// votes: mostly the non-expelled members, mostly one fact
	lean := "X"
	if c.Bool() {
		lean = "Y"
	}
	other := map[string]string{"X": "Y", "Y": "X"}[lean]
	var cnt = map[string]int{}
	for j := 1; j <= n; j++ {
		if expelled[j] && !c.Chance(1, 15) {
			continue
		}
		if c.Chance(1, 6) {
			continue
		}
		f := lean
		if c.Chance(1, 5) {
			f = other
		}
		id := j
		if c.Chance(1, 40) {
			id = 10 + j
		}
		v.Votes = append(v.Votes, [2]string{fmt.Sprint(id), f})
		cnt[f]++
	}
	if c.Chance(1, 40) {
		v.Votes = append(v.Votes, [2]string{"8", lean})
	}
	if c.Chance(1, 20) { // a member votes once more under another spelling of its address
		v.Votes = append(v.Votes, [2]string{fmt.Sprint(21 + c.Intn(n)), lean})
	}
	if len(v.Expels) > 0 && c.Chance(1, 4) {
		v.Stuck = true
		if c.Chance(2, 3) { // a stuck voteproof holds a sign fact of every node that is not expelled
			v.Votes = nil
			cnt = map[string]int{}
			for j := 1; j <= n; j++ {
				if expelled[j] {
					continue
				}
				f := lean
				if c.Chance(1, 3) {
					f = other
				}
				v.Votes = append(v.Votes, [2]string{fmt.Sprint(j), f})
				cnt[f]++
			}
		}
		if c.Chance(3, 4) {
			v.T10 = 1000
		}
		if c.Chance(1, 2) {
			v.Majority = "-"
			return v
		}
	}
	if !v.Stuck && len(v.Votes) > 0 && c.Chance(1, 12) {
		v.OffPoint = 1 + c.Intn(2)
	}
	// declared majority: usually the leading fact, sometimes the other one or a draw
	switch r := c.Intn(12); {
	case r < 9:
		v.Majority = lean
		if cnt[other] > cnt[lean] {
			v.Majority = other
		}
	case r < 10:
		v.Majority = other
	default:
		v.Majority = "-"
	}
	return v
}

func runC03(c *Ctx) error {
	nconf := 120
	maxn := 5
	if c.Thorough() {
		nconf, maxn = 2500, 7
	}
	t10s := []int{670, 675, 700, 750, 800, 900, 1000, 600, 510}
	proposals := map[string]util.Hash{"X": valuehash.RandomSHA256(), "Y": valuehash.RandomSHA256()}
	env := c03newEnv(7)
	env.c = c
	if x, err := c19newEnv(); err == nil {
		env.enc = x.enc
	}
	type acc struct {
		v c03vp
	}
	for ci := 0; ci < nconf; ci++ {
		n := 1 + c.Intn(maxn)
		t10 := t10s[c.Intn(len(t10s))]
		var accepted []c03vp
		for j := 0; j < 8; j++ {
			v := c.c03gen(n, t10s, t10)
			ok, why := env.accepted(v, proposals)
			c.Case(v.line(), b01(ok))
			c.Count("accepted", b01(ok))
			c.Count("expels", fmt.Sprint(len(v.Expels)))
			if !ok {
				c.Count("reject-reason", strings.SplitN(why, ":", 2)[0])
			}
			c.Nontrivial(v.line())
			if ok {
				accepted = append(accepted, v)
			}
			if ci%40 == 0 && j == 0 {
				c.Sample(map[string]interface{}{"voteproof": v, "accepted": ok, "why": why})
			}
		}
		c03pairs(c, n, t10, accepted)
	}
	// the witness of the known finding, on the real validators
	wa := c03vp{T10: 670, N: 4, Votes: [][2]string{{"1", "X"}, {"2", "X"}, {"3", "X"}}, Majority: "X"}
	wb := c03vp{T10: 670, N: 4, Votes: [][2]string{{"3", "Y"}, {"4", "Y"}},
		Expels: []c03expel{{Node: 1, Signers: []int{3, 4}}, {Node: 2, Signers: []int{3, 4}}}, Majority: "Y"}
	oka, _ := env.accepted(wa, proposals)
	okb, _ := env.accepted(wb, proposals)
	c.Case(wa.line(), b01(oka))
	c.Case(wb.line(), b01(okb))
	if oka && okb {
		c03pairs(c, 4, 670, []c03vp{wa, wb})
	}
	// two crafted stuck voteproofs over the same sign facts with different majorities
	sa := c03vp{T10: 1000, N: 4, Votes: [][2]string{{"1", "X"}, {"2", "Y"}, {"3", "Y"}}, Expels: []c03expel{{Node: 4, Signers: []int{1, 2, 3}}}, Majority: "X", Stuck: true}
	sb := sa
	sb.Majority = "Y"
	oksa, _ := env.accepted(sa, proposals)
	oksb, _ := env.accepted(sb, proposals)
	c.Case(sa.line(), b01(oksa))
	c.Case(sb.line(), b01(oksb))
	if oksa && oksb {
		c03pairs(c, 4, 1000, []c03vp{sa, sb})
	}
	return nil
}

// every pair of accepted voteproofs of one suffrage and stage point with different
// majority facts must have more than f = n - required(n, t) equivocators (t >= 67 %)
func c03pairs(c *Ctx, n, t10 int, accepted []c03vp) {
	if t10 < 670 {
		return
	}
	q := (n*t10 + 999) / 1000
	f := n - q
	for i := range accepted {
		for j := i + 1; j < len(accepted); j++ {
			a, b := accepted[i], accepted[j]
			if a.Majority == "-" || b.Majority == "-" || a.Majority == b.Majority {
				continue
			}
			c.Eval(1)
			va := map[string]bool{}
			for _, x := range a.Votes {
				if x[1] == a.Majority {
					va[x[0]] = true
				}
			}
			var eq []string
			for _, x := range b.Votes {
				if x[1] == b.Majority && va[x[0]] {
					eq = append(eq, x[0])
				}
			}
			sort.Strings(eq)
			if len(eq) <= f {
				cls := "C03:agreement-broken"
				if len(a.Expels) > f || len(b.Expels) > f {
					cls = "C03:expel-count-exceeds-f"
				}
				if a.Stuck || b.Stuck {
					cls = "C03:stuck-voteproof-with-majority"
				}
				c.Violation(cls, fmt.Sprintf("n=%d t=%.1f%% (required %d, f=%d): both accepted, majorities %s / %s, nodes signing both: %v — %s || %s", n, float64(t10)/10, q, f, a.Majority, b.Majority, eq, a.line(), b.line()),
					map[string]interface{}{"a": a, "b": b})
			}
		}
	}
}
