package main

import (
	"go/ast"
	"strings"
)

func init() { register("C24", genC24) }

// heldAcrossExists reports whether the function takes a mutex (`X.Lock()` followed by
// `defer X.Unlock()`) as top-level statements before the first call to `Exists`.
func heldAcrossExists(f *File, fd *ast.FuncDecl) bool {
	if fd == nil {
		return false
	}
	locked := ""
	deferred := false
	for _, st := range fd.Body.List {
		src := normSpace(f.Src(st))
		if strings.Contains(src, ".Exists(") {
			return locked != "" && deferred
		}
		switch x := st.(type) {
		case *ast.ExprStmt:
			if strings.HasSuffix(src, ".Lock()") {
				locked = strings.TrimSuffix(src, ".Lock()")
			}
		case *ast.DeferStmt:
			if locked != "" && normSpace(f.Src(x.Call)) == locked+".Unlock()" {
				deferred = true
			}
		}
	}
	return false
}

func genC24(o *Out) {
	f := o.pinFile("isaac/database/pool.go", "TempPool.SetBallot", "TempPool.Ballot", "TempPool.SetProposal", "TempPool.Proposal",
		"TempPool.ProposalByPoint", "TempPool.cleanByHeight", "TempPool.cleanProposals", "TempPool.cleanBallots")
	o.pinFile("isaac/database/leveldb.go", "leveldbBallotKey", "leveldbProposalPointKey", "leveldbProposalKey", "heightFromKey")
	if f == nil {
		return
	}
	o.boolean("setBallotLocked", heldAcrossExists(f, f.Func("TempPool", "SetBallot")))
	o.boolean("setProposalLocked", heldAcrossExists(f, f.Func("TempPool", "SetProposal")))
	// configured depths (composite literal of newTempPool) and the literal of the guard `top-3 < GenesisHeight`
	deeps := map[string]int64{}
	if fd := f.Func("", "newTempPool"); fd != nil {
		ast.Inspect(fd.Body, func(n ast.Node) bool {
			kv, ok := n.(*ast.KeyValueExpr)
			if !ok {
				return true
			}
			if id, ok := kv.Key.(*ast.Ident); ok {
				if v, ok := intLit(f.Src(kv.Value)); ok {
					deeps[id.Name] = v
				}
			}
			return true
		})
	}
	for goName, leanName := range map[string]string{"cleanRemovedProposalDeep": "cleanDeepProposal", "cleanRemovedBallotDeep": "cleanDeepBallot"} {
		v, ok := deeps[goName]
		if !ok {
			o.errf("pool.go: newTempPool does not set %s to an integer literal", goName)
		}
		o.nat(leanName, v)
	}
	guard := int64(-1)
	if fd := f.Func("TempPool", "cleanByHeight"); fd != nil {
		ast.Inspect(fd.Body, func(n ast.Node) bool {
			cc, ok := n.(*ast.CaseClause)
			if !ok || len(cc.List) != 1 {
				return true
			}
			c := normSpace(f.Src(cc.List[0]))
			if strings.HasPrefix(c, "top-") && strings.HasSuffix(c, "< base.GenesisHeight") {
				if v, ok := intLit(strings.TrimSuffix(strings.TrimPrefix(c, "top-"), "< base.GenesisHeight")); ok {
					guard = v
				}
			}
			return true
		})
	}
	if guard < 0 {
		o.errf("pool.go: cleanByHeight guard `top-N < base.GenesisHeight` not found")
		guard = 0
	}
	o.nat("cleanGuard", guard)
}
