package main

import "strings"

func init() { register("C19", genC19) }

func genC19(o *Out) {
	f := o.pinFile("isaac/database/center.go", "Center.LastSuffrageProof", "Center.LastSuffrageProofBytes", "Center.SuffrageProof", "Center.SuffrageProofBytes",
		"Center.SuffrageProofByBlockHeight", "Center.LastNetworkPolicy", "Center.State", "Center.ExistsInStateOperation", "Center.ExistsKnownOperation",
		"Center.BlockMap", "Center.LastBlockMap", "Center.MergeBlockWriteDatabase", "Center.MergeAllPermanent", "Center.RemoveBlocks", "Center.findTemp",
		"Center.suffrageProofInTemps", "mergeToPermanent", "Center.removeTemp")
	_ = o.pinFile("isaac/database/perm_leveldb.go", "LeveldbPermanent.SuffrageProof", "LeveldbPermanent.SuffrageProofByBlockHeight", "LeveldbPermanent.State",
		"LeveldbPermanent.BlockMap", "LeveldbPermanent.MergeTempDatabase")
	if f == nil {
		return
	}
	src := func(recv, name string) string {
		fd := f.Func(recv, name)
		if fd == nil {
			return ""
		}
		return normSpace(f.Src(fd.Body))
	}
	s := src("Center", "suffrageProofInTemps")
	o.boolean("proofExact", strings.Contains(s, "case sh != suffrageHeight: continue end") && !strings.Contains(s, "case sh > suffrageHeight:"))
	s = src("Center", "SuffrageProofByBlockHeight")
	o.boolean("byBlockBelowTemps", strings.Contains(s, "if i := temps[len(temps)-1].Height() - 1; lastheight > i { lastheight = i }") &&
		!strings.Contains(s, "lastheight = temps[len(temps)-1].Height() - 1 }"))
	s = src("Center", "LastSuffrageProofBytes")
	o.boolean("lastProofHeight", strings.Contains(s, "case i == 0: lastheight = m.Manifest().Height()"))
}
