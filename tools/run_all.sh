#!/bin/bash
# run every claimed check (quick tier by default) on the current tree, sequentially; summary at the end
tier=${1:-quick}
cd /verif
ids=$(python3 -c "import json;print(' '.join(c['property_id'] for c in json.load(open('MANIFEST.json'))['checks']))")
fail=0
for id in $ids; do
  out=$(./check $id --tier $tier 2>&1 | grep -v conda)
  rc=$?
  echo "$out" | tail -3 | cut -c1-220
  if echo "$out" | grep -q "^VIOLATION"; then fail=$((fail+1)); fi
done
echo "violations: $fail"
python3-vt tools/validate.py
