import MitumModel.Model.Merge
import MitumModel.Gen.C10
import MitumModel.Pins
/-!
C10  Block production is deterministic.
-/
namespace Mitum.C10
open Mitum.Merge

theorem ins_perm (a : Nat) (l : List Nat) : (ins a l).Perm (a :: l) := by
  induction l with
  | nil => exact List.Perm.refl _
  | cons b r ih =>
    simp only [ins]
    split
    · exact List.Perm.refl _
    · exact (List.Perm.cons b ih).trans (List.Perm.swap a b r)

theorem sortN_perm (l : List Nat) : (sortN l).Perm l := by
  induction l with
  | nil => exact List.Perm.refl _
  | cons a r ih => exact (ins_perm a (sortN r)).trans (List.Perm.cons a ih)

theorem ins_sorted (a : Nat) (l : List Nat) (h : l.Pairwise (· ≤ ·)) : (ins a l).Pairwise (· ≤ ·) := by
  induction l with
  | nil => simp [ins]
  | cons b r ih =>
    simp only [ins]
    have hb := List.pairwise_cons.mp h
    split
    · rename_i hab
      refine List.pairwise_cons.mpr ⟨?_, h⟩
      intro x hx
      rcases List.mem_cons.mp hx with e | e
      · omega
      · have := hb.1 x e; omega
    · rename_i hab
      refine List.pairwise_cons.mpr ⟨?_, ih hb.2⟩
      intro x hx
      rcases List.mem_cons.mp ((ins_perm a r).mem_iff.mp hx) with e | e
      · omega
      · exact hb.1 x e

theorem sortN_sorted (l : List Nat) : (sortN l).Pairwise (· ≤ ·) := by
  induction l with
  | nil => simp [sortN]
  | cons a r ih => exact ins_sorted a _ ih

/-- sorting forgets the arrival order -/
theorem sort_perm (l l' : List Nat) (h : l.Perm l') : sortN l = sortN l' := by
  apply List.Perm.eq_of_pairwise (le := fun a b => a ≤ b)
  · intro a b _ _ h1 h2; omega
  · exact sortN_sorted l
  · exact sortN_sorted l'
  · exact ((sortN_perm l).trans h).trans (sortN_perm l').symm

theorem contains_perm (l l' : List Nat) (h : l.Perm l') (x : Nat) : l.contains x = l'.contains x := by
  rw [Bool.eq_iff_iff]
  simp only [List.contains_iff_mem]
  exact h.mem_iff

theorem any_perm (l l' : List MV) (h : l.Perm l') (p : MV → Bool) : l.any p = l'.any p := by
  rw [Bool.eq_iff_iff]
  simp only [List.any_eq_true]
  constructor
  · rintro ⟨x, hx, hp⟩; exact ⟨x, h.mem_iff.mp hx, hp⟩
  · rintro ⟨x, hx, hp⟩; exact ⟨x, h.mem_iff.mpr hx, hp⟩

/-- the set-like mergers close to the same value whatever the order their values arrived in -/
theorem closeValue_perm (k : Kind) (hk : k ≠ .lastWins) (existing : List Nat) (vs vs' : List MV) (h : vs.Perm vs') :
    closeValue k existing vs = closeValue k existing vs' := by
  have hr : ((vs.filter (·.rem)).map (·.pay)).Perm ((vs'.filter (·.rem)).map (·.pay)) := (h.filter _).map _
  have ha : ((vs.filter (fun v => !v.rem)).map (·.pay)).Perm ((vs'.filter (fun v => !v.rem)).map (·.pay)) := (h.filter _).map _
  cases k with
  | lastWins => exact absurd rfl hk
  | join =>
    simp only [closeValue]
    rw [sort_perm _ _ ha]
    congr 1
    apply List.filter_congr
    intro x _
    rw [contains_perm _ _ hr]
  | candidates =>
    simp only [closeValue]
    rw [sort_perm _ _ ha]
    congr 1
    apply List.filter_congr
    intro x _
    rw [contains_perm _ _ hr, contains_perm _ _ ha]

/-- a last-value-wins merger is order independent when at most one value reaches it -/
theorem closeValue_lastWins (existing : List Nat) (vs vs' : List MV) (h : vs.Perm vs') (h1 : vs.length ≤ 1) :
    closeValue .lastWins existing vs = closeValue .lastWins existing vs' := by
  match vs, h1 with
  | [], _ => rw [List.nil_perm.mp h]
  | [a], _ => rw [List.singleton_perm.mp h]

theorem lookup_perm (ws ws' : List (Nat × Nat)) (h : ws.Perm ws') (hd : (ws.map (·.1)).Nodup) (i : Nat) :
    lookup ws i = lookup ws' i := by
  induction h with
  | nil => rfl
  | cons x _ ih =>
    obtain ⟨j, n⟩ := x
    simp only [List.map_cons, List.nodup_cons] at hd
    simp only [lookup]
    split
    · rfl
    · exact ih hd.2
  | swap x y l =>
    obtain ⟨j, n⟩ := x
    obtain ⟨j', n'⟩ := y
    simp only [List.map_cons, List.nodup_cons, List.mem_cons, not_or] at hd
    simp only [lookup]
    by_cases e1 : j' = i <;> by_cases e2 : j = i <;> simp [e1, e2]
    exact absurd (e2.trans e1.symm) (fun e => hd.1.1 e.symm)
  | trans h1 _ ih1 ih2 =>
    exact (ih1 hd).trans (ih2 ((h1.map _).nodup_iff.mp hd))

/-- **manifest_schedule_independent.**  Whatever order the workers write the operation results and hand
their merge values over in (any permutation of either, hence any worker count and any scheduling), the
operations tree and the states tree — everything the manifest commits to — are the same, provided each
index is written once and at most one value reaches each last-value-wins key. -/
theorem manifest_schedule_independent (n : Nat) (allKeys : List Nat) (kinds : Nat → Kind) (existing : Nat → List Nat)
    (writes writes' : List (Nat × Nat)) (arrivals arrivals' : List MV)
    (hw : writes.Perm writes') (hidx : (writes.map (·.1)).Nodup)
    (ha : arrivals.Perm arrivals')
    (hone : ∀ k, kinds k = .lastWins → (arrivals.filter (fun v => v.key == k)).length ≤ 1) :
    manifestOf n allKeys kinds existing writes arrivals = manifestOf n allKeys kinds existing writes' arrivals' := by
  simp only [manifestOf, Prod.mk.injEq]
  constructor
  · simp only [opsTreeOf]
    congr 1
    funext i
    exact lookup_perm writes writes' hw hidx i
  · simp only [statesOf]
    have hkeys : allKeys.filter (fun k => arrivals.any (fun v => v.key == k)) =
        allKeys.filter (fun k => arrivals'.any (fun v => v.key == k)) := by
      apply List.filter_congr
      intro k _
      exact any_perm _ _ ha _
    rw [hkeys]
    apply List.map_congr_left
    intro k _
    simp only [closeKey, Prod.mk.injEq, true_and]
    have hf : (arrivals.filter (fun v => v.key == k)).Perm (arrivals'.filter (fun v => v.key == k)) := ha.filter _
    constructor
    · by_cases hk : kinds k = .lastWins
      · rw [hk]; exact closeValue_lastWins _ _ _ hf (hone k hk)
      · exact closeValue_perm _ hk _ _ _ hf
    · exact sort_perm _ _ (hf.map _)

/-- the hypothesis on last-value-wins keys is needed: two values for one such key close differently -/
theorem lastWins_two_values_witness :
    closeValue .lastWins [] [{ key := 3, pay := 1, rem := false, op := 10 }, { key := 3, pay := 2, rem := false, op := 11 }] ≠
    closeValue .lastWins [] [{ key := 3, pay := 2, rem := false, op := 11 }, { key := 3, pay := 1, rem := false, op := 10 }] := by
  decide

/-- non-vacuity: two schedules of a block with a join, a disjoin, a candidate and a policy operation -/
example :
    let kinds : Nat → Kind := fun k => if k = 1 then .join else if k = 2 then .candidates else .lastWins
    let existing : Nat → List Nat := fun k => if k = 1 then [5, 6, 7] else if k = 2 then [9] else []
    let a : List MV := [⟨1, 9, false, 100⟩, ⟨2, 9, true, 100⟩, ⟨1, 6, true, 101⟩, ⟨2, 12, false, 102⟩, ⟨3, 77, false, 103⟩]
    manifestOf 4 [1, 2, 3] kinds existing [(0, 100), (1, 101), (2, 102), (3, 103)] a =
    manifestOf 4 [1, 2, 3] kinds existing [(3, 103), (1, 101), (0, 100), (2, 102)] a.reverse ∧
    (manifestOf 4 [1, 2, 3] kinds existing [(0, 100), (1, 101), (2, 102), (3, 103)] a).2 =
      [(1, [5, 7, 9], [100, 101]), (2, [12], [100, 102]), (3, [77], [103])] := by decide

theorem facts_ok :
    Gen.C10.preProcessSequential = true ∧ Gen.C10.processInWorker = true ∧ Gen.C10.keysSorted = true ∧
    Gen.C10.joinedSortedByAddress = true ∧ Gen.C10.candidatesSortedByAddress = true ∧ Gen.C10.stateOpsSorted = true ∧
    Gen.C10.onePolicyPerBlock = true ∧ Gen.C10.treeByIndex = true ∧ Gen.C10.mergersPerKeyConsistent = true ∧
    Gen.C10.extractErrors = [] := by decide

theorem source_pinned : Gen.C10.pins = Pins.C10 := by decide

end Mitum.C10
