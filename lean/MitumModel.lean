import MitumModel.Common
import MitumModel.Model.Threshold
import MitumModel.Props.C02
