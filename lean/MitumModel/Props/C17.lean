import MitumModel.Model.SuffrageOps
import MitumModel.Lemmas.Sort
import MitumModel.Gen.C17
import MitumModel.Pins
/-!
C17  Suffrage changes preserve suffrage well-formedness.
-/
namespace Mitum.C17
open Mitum Mitum.SuffrageOps Mitum.Threshold

variable (signOK : Nat → Nat → Nat → Bool) (b : Blk)

def removedOf (a : Acc) (n : Nat) : Prop := n ∈ a.disjoined ∨ n ∈ a.expelled

/-! ### one operation -/

theorem joined_step (a : Acc) (o : Op) (c : Nat) :
    c ∈ (stepOp signOK b a o).joined ↔
      c ∈ a.joined ∨ ∃ start signs, o = Op.join c start signs ∧ joinValid signOK b c start signs = true := by
  cases o with
  | join c' st sg =>
    simp only [stepOp]
    by_cases hc : (!a.joined.contains c' && joinValid signOK b c' st sg) = true
    · simp only [hc, if_true, List.mem_append, List.mem_cons, List.not_mem_nil, or_false]
      simp only [Bool.and_eq_true, Bool.not_eq_true', List.contains_eq_mem, decide_eq_false_iff_not] at hc
      grind
    · simp only [hc]
      simp only [Bool.and_eq_true, Bool.not_eq_true', List.contains_eq_mem, decide_eq_false_iff_not, not_and, Bool.not_eq_true] at hc
      grind
  | disjoin n st k => simp only [stepOp]; split <;> simp
  | expel n s e => simp only [stepOp]; split <;> simp

theorem removed_step (a : Acc) (o : Op) (n : Nat) :
    removedOf (stepOp signOK b a o) n ↔
      removedOf a n ∨ (∃ st k, o = Op.disjoin n st k ∧ disjoinValid b n st k = true) ∨
        (∃ s e, o = Op.expel n s e ∧ expelValid b n s e = true) := by
  cases o with
  | join c st sg => simp only [stepOp, removedOf]; split <;> simp
  | disjoin m st k =>
    simp only [stepOp, removedOf]
    by_cases hc : (!a.disjoined.contains m && !a.expelled.contains m && disjoinValid b m st k) = true
    · simp only [hc, if_true, List.mem_append, List.mem_cons, List.not_mem_nil, or_false]
      simp only [Bool.and_eq_true, Bool.not_eq_true', List.contains_eq_mem, decide_eq_false_iff_not] at hc
      grind
    · simp only [hc]
      simp only [Bool.and_eq_true, Bool.not_eq_true', List.contains_eq_mem, decide_eq_false_iff_not, not_and, Bool.not_eq_true] at hc
      grind
  | expel m s e =>
    simp only [stepOp, removedOf]
    by_cases hc : (!a.expelled.contains m && expelValid b m s e) = true
    · simp only [hc, if_true, List.mem_append, List.mem_cons, List.not_mem_nil, or_false]
      simp only [Bool.and_eq_true, Bool.not_eq_true', List.contains_eq_mem, decide_eq_false_iff_not] at hc
      grind
    · simp only [hc]
      simp only [Bool.and_eq_true, Bool.not_eq_true', List.contains_eq_mem, decide_eq_false_iff_not, not_and, Bool.not_eq_true] at hc
      grind

theorem joined_nodup_step (a : Acc) (o : Op) (h : a.joined.Nodup) : (stepOp signOK b a o).joined.Nodup := by
  cases o with
  | join c st sg =>
    simp only [stepOp]
    split
    · rename_i hc
      simp only [Bool.and_eq_true, Bool.not_eq_true', List.contains_eq_mem, decide_eq_false_iff_not] at hc
      rw [List.nodup_append]
      refine ⟨h, by simp, ?_⟩
      intro x hx y hy hxy
      simp at hy; subst hy; subst hxy
      exact hc.1 hx
    · exact h
  | disjoin n st k => simp only [stepOp]; split <;> exact h
  | expel n s e => simp only [stepOp]; split <;> exact h

/-! ### a whole block, whatever the order of its operations -/

theorem joined_iff (ops : List Op) : ∀ (a : Acc) (c : Nat),
    c ∈ (ops.foldl (stepOp signOK b) a).joined ↔
      c ∈ a.joined ∨ ∃ start signs, Op.join c start signs ∈ ops ∧ joinValid signOK b c start signs = true := by
  induction ops with
  | nil => intro a c; simp
  | cons o r ih =>
    intro a c
    rw [List.foldl_cons, ih, joined_step]
    simp only [List.mem_cons]
    grind

theorem removed_iff (ops : List Op) : ∀ (a : Acc) (n : Nat),
    removedOf (ops.foldl (stepOp signOK b) a) n ↔
      removedOf a n ∨ (∃ st k, Op.disjoin n st k ∈ ops ∧ disjoinValid b n st k = true) ∨
        (∃ s e, Op.expel n s e ∈ ops ∧ expelValid b n s e = true) := by
  induction ops with
  | nil => intro a n; simp
  | cons o r ih =>
    intro a n
    rw [List.foldl_cons, ih, removed_step]
    simp only [List.mem_cons]
    grind

theorem joined_nodup (ops : List Op) : ∀ (a : Acc), a.joined.Nodup → (ops.foldl (stepOp signOK b) a).joined.Nodup := by
  induction ops with
  | nil => intro a h; exact h
  | cons o r ih => intro a h; rw [List.foldl_cons]; exact ih _ (joined_nodup_step signOK b a o h)

/-- **join_requires.**  A candidate joins only through an operation in the block that names an
unexpired candidate of the candidates state (matching start), is signed with that candidate's key
and carries enough signs of current members with their suffrage keys. -/
theorem join_requires (ops : List Op) (c : Nat) (h : c ∈ (preprocess signOK b ops).joined) :
    ∃ start signs cd, Op.join c start signs ∈ ops ∧ findCand b.cands c = some cd ∧ start = cd.start ∧
      b.height ≤ cd.deadline ∧ findMember b.members c = none ∧ (c, cd.key) ∈ signs ∧
      signOK (memberSigns b.members signs) b.members.length b.t10 = true := by
  obtain ⟨start, signs, hm, hv⟩ := ((joined_iff signOK b ops {} c).mp h).resolve_left (by simp)
  unfold joinValid at hv
  cases hc : findCand b.cands c with
  | none => simp [hc] at hv
  | some cd =>
    simp only [hc, Bool.and_eq_true, decide_eq_true_eq, Bool.not_eq_true', Option.isNone_iff_eq_none] at hv
    obtain ⟨⟨_, hnm⟩, ⟨⟨⟨hst, hdl⟩, hsig⟩, hok⟩⟩ := hv
    cases hf : signs.find? (fun s => s.1 = c) with
    | none => simp [hf] at hsig
    | some s =>
      simp only [hf, decide_eq_true_eq] at hsig
      have hs1 := List.find?_some hf
      have hsm := List.mem_of_find?_eq_some hf
      simp at hs1
      refine ⟨start, signs, cd, hm, rfl, hst, hdl, hnm, ?_, hok⟩
      have : s = (c, cd.key) := Prod.ext hs1 hsig
      rw [← this]; exact hsm

/-- with a sound sign test, joining takes at least the threshold of current members -/
theorem join_needs_threshold (hsound : ∀ s n t, signOK s n t = true → n * t ≤ s * 1000)
    (ops : List Op) (c : Nat) (h : c ∈ (preprocess signOK b ops).joined) :
    ∃ start signs, Op.join c start signs ∈ ops ∧ b.members.length * b.t10 ≤ memberSigns b.members signs * 1000 := by
  obtain ⟨start, signs, _, hm, _, _, _, _, _, hok⟩ := join_requires signOK b ops c h
  exact ⟨start, signs, hm, hsound _ _ _ hok⟩

/-- **leave_requires_member.**  Only current members leave or are expelled. -/
theorem leave_requires_member (ops : List Op) (n : Nat) (h : removedOf (preprocess signOK b ops) n) :
    (findMember b.members n).isSome = true := by
  rcases (removed_iff signOK b ops {} n).mp h with h | ⟨st, k, _, hv⟩ | ⟨s, e, _, hv⟩
  · simp [removedOf] at h
  · unfold disjoinValid at hv
    cases hf : findMember b.members n with
    | none => simp [hf] at hv
    | some m => rfl
  · unfold expelValid at hv
    simp only [Bool.and_eq_true] at hv
    exact hv.2

/-- **height_succ.**  A block that changes the suffrage raises the suffrage height by exactly one. -/
theorem height_succ (ops : List Op) (h : Nat) (ms : List Member) (hr : applyBlock signOK b ops = some (h, ms)) :
    h = b.sufHeight + 1 := by
  simp only [applyBlock, merge] at hr
  split at hr
  · cases hr
  · simp at hr; exact hr.1.symm

theorem findCand_addr (cs : List Cand) (c : Nat) (cd : Cand) (h : findCand cs c = some cd) : cd.addr = c := by
  have := List.find?_some h; simpa using this

theorem findMember_none (ms : List Member) (a : Nat) (h : findMember ms a = none) : a ∉ ms.map (·.addr) := by
  intro hm
  obtain ⟨m, hmm, hma⟩ := List.mem_map.mp hm
  have := List.find?_eq_none.mp h m hmm
  simp at this; exact this hma

/-- **members_unique.**  From a suffrage without duplicate addresses every block yields one. -/
theorem members_unique (hm : (b.members.map (·.addr)).Nodup) (ops : List Op) (h : Nat) (ms : List Member)
    (hr : applyBlock signOK b ops = some (h, ms)) : (ms.map (·.addr)).Nodup := by
  have hjn : (preprocess signOK b ops).joined.Nodup := joined_nodup signOK b ops {} (by simp)
  have hjr := fun c => join_requires signOK b ops c
  simp only [applyBlock, merge] at hr
  generalize preprocess signOK b ops = a at hr hjn hjr
  split at hr
  · cases hr
  · simp only [Option.some.injEq, Prod.mk.injEq] at hr
    obtain ⟨_, hms⟩ := hr
    subst hms
    rw [List.map_append, List.nodup_append]
    have hsorted : (sortBy (fun x y => decide (x ≤ y)) a.joined).Nodup := (sortBy_perm _ _).nodup_iff.mpr hjn
    refine ⟨?_, ?_, ?_⟩
    · exact List.Nodup.sublist (List.Sublist.map _ List.filter_sublist) hm
    · -- the newcomers' addresses are the sorted joined candidates that have a record
      have hsub : ((sortBy (fun x y => decide (x ≤ y)) a.joined).filterMap (fun c =>
          (findCand b.cands c).map (fun cd => ({ addr := cd.addr, key := cd.key, start := b.height + 1 } : Member)))).map (·.addr)
          = (sortBy (fun x y => decide (x ≤ y)) a.joined).filter (fun c => (findCand b.cands c).isSome) := by
        generalize sortBy (fun x y => decide (x ≤ y)) a.joined = l
        induction l with
        | nil => rfl
        | cons c r ih =>
          cases hc : findCand b.cands c with
          | none => simp [List.filterMap, List.filter, hc, ih]
          | some cd => simp [List.filterMap, List.filter, hc, ih, findCand_addr _ _ _ hc]
      rw [hsub]
      exact List.Nodup.sublist List.filter_sublist hsorted
    · intro x hx y hy hxy
      subst hxy
      obtain ⟨m, hmm, hmx⟩ := List.mem_map.mp hx
      obtain ⟨nm, hnm, hnx⟩ := List.mem_map.mp hy
      obtain ⟨c, hc, hcm⟩ := List.mem_filterMap.mp hnm
      have hcj : c ∈ a.joined := (sortBy_perm _ _).mem_iff.mp hc
      obtain ⟨_, _, cd, _, hfc, _, _, hnomem, _, _⟩ := hjr c hcj
      rw [hfc] at hcm
      simp at hcm
      have hxc : x = c := by rw [← hnx, ← hcm]; exact findCand_addr _ _ _ hfc
      have := findMember_none _ _ hnomem
      apply this
      rw [← hxc, ← hmx]
      exact List.mem_map_of_mem (List.mem_filter.mp hmm).1

/-- **order_independent.**  The suffrage a block produces does not depend on the order of its operations. -/
theorem order_independent (ops₁ ops₂ : List Op) (hp : ops₁.Perm ops₂) :
    applyBlock signOK b ops₁ = applyBlock signOK b ops₂ := by
  -- same joined candidates up to order
  have hj : ∀ c, c ∈ (preprocess signOK b ops₁).joined ↔ c ∈ (preprocess signOK b ops₂).joined := by
    intro c
    unfold preprocess
    rw [joined_iff, joined_iff]
    simp only [hp.mem_iff]
  have hjp : (preprocess signOK b ops₁).joined.Perm (preprocess signOK b ops₂).joined :=
    (List.perm_ext_iff_of_nodup (joined_nodup signOK b ops₁ {} (by simp)) (joined_nodup signOK b ops₂ {} (by simp))).mpr hj
  have hsort := sortBy_eq_of_perm (fun x y : Nat => decide (x ≤ y)) (by intro x y; simp; omega) (by intro x y z; simp; omega)
    (by intro x y; simp; omega) _ _ hjp
  -- same removed set
  have hr : ∀ n, removedOf (preprocess signOK b ops₁) n ↔ removedOf (preprocess signOK b ops₂) n := by
    intro n
    unfold preprocess
    rw [removed_iff, removed_iff]
    simp only [hp.mem_iff]
  simp only [applyBlock, merge]
  generalize preprocess signOK b ops₁ = a₁ at hj hsort hr
  generalize preprocess signOK b ops₂ = a₂ at hj hsort hr
  have hmem : ∀ n, (n ∈ a₁.disjoined ++ a₁.expelled) ↔ (n ∈ a₂.disjoined ++ a₂.expelled) := by
    intro n; simp only [List.mem_append]; exact hr n
  have hcontains : ∀ n, (a₁.disjoined ++ a₁.expelled).contains n = (a₂.disjoined ++ a₂.expelled).contains n := by
    intro n
    apply Bool.eq_iff_iff.mpr
    simp only [List.contains_eq_mem, decide_eq_true_eq]
    exact hmem n
  have hnil : ∀ (l₁ l₂ : List Nat), (∀ n, n ∈ l₁ ↔ n ∈ l₂) → l₁.isEmpty = l₂.isEmpty := by
    intro l₁ l₂ h
    apply Bool.eq_iff_iff.mpr
    simp only [List.isEmpty_iff]
    constructor
    · intro e; apply List.eq_nil_iff_forall_not_mem.mpr; intro n hn; have := (h n).mpr hn; rw [e] at this; cases this
    · intro e; apply List.eq_nil_iff_forall_not_mem.mpr; intro n hn; have := (h n).mp hn; rw [e] at this; cases this
  have hempty := hnil _ _ hmem
  have hjempty := hnil _ _ hj
  have hfilter : b.members.filter (fun m => !(a₁.disjoined ++ a₁.expelled).contains m.addr) =
      b.members.filter (fun m => !(a₂.disjoined ++ a₂.expelled).contains m.addr) := by
    apply List.filter_congr; intro m _; rw [hcontains]
  rw [hempty, hjempty, hsort, hfilter]

/-! ### the tie to the source -/

theorem facts_ok :
    Gen.C17.joinChecks = true ∧ Gen.C17.disjoinChecks = true ∧ Gen.C17.expelChecks = true ∧
    Gen.C17.mergerSortsJoined = true ∧ Gen.C17.mergerHeightPlusOne = true ∧ Gen.C17.extractErrors = [] := by decide

theorem source_pinned : Gen.C17.pins = Pins.C17 := by decide

end Mitum.C17
