import MitumModel.Model.Crash
import MitumModel.Props.C19
import MitumModel.Gen.C21
import MitumModel.Pins
/-!
C21  Block commit is atomic across crashes.
-/
namespace Mitum.C21
open Mitum.Crash

theorem subset_mem (a b : List Nat) (h : subset a b = true) : ∀ x, x ∈ a → x ∈ b := by
  simpa [subset, List.all_eq_true, List.contains_iff_mem] using h

/-- **commit_atomic.**  With the block map copied last, whatever subset of the atomic writes of block write,
commit and permanent merge has reached the disk when the process stops, after reopening the block is either
not visible at all or visible with every one of its records. -/
theorem commit_atomic (d : Disk) (h : reachable true d = true) :
    recover d = .invisible ∨ ∃ shown, recover d = .visible shown ∧ ∀ x, x ∈ d.recs → x ∈ shown := by
  simp only [reachable, Bool.and_eq_true, Bool.or_eq_true, Bool.not_eq_true', Bool.not_true,
    Bool.false_or] at h
  obtain ⟨⟨⟨⟨⟨_, _⟩, hm⟩, _⟩, hl⟩, _⟩ := h
  simp only [recover]
  by_cases hp : d.permMap = true
  · right
    refine ⟨d.permRecs, by simp [hp], ?_⟩
    rcases hl with hl | hl
    · simp [hp] at hl
    · exact subset_mem _ _ hl
  · simp only [hp, Bool.false_eq_true, if_false]
    by_cases hk : (d.marker && d.tempMap) = true
    · right
      refine ⟨d.tempRecs, by simp [hk], ?_⟩
      simp only [Bool.and_eq_true] at hk
      rcases hm with hm | hm
      · simp [hk.1] at hm
      · exact subset_mem _ _ hm.1
    · left
      simp [hk]

/-- the block map inside one of the parallel batches (the code before the repair): the batch with the block
map has reached the disk, the batch with record 2 has not — the block is the permanent database's last
block and record 2 is gone -/
theorem perm_merge_torn_witness :
    let d : Disk := { recs := [1, 2], tempRecs := [1, 2], tempMap := true, marker := true, permRecs := [1], permMap := true }
    reachable false d = true ∧ reachable true d = false ∧ recover d = .visible [1] := by decide

/-- non-vacuity: a crash in the middle of the repaired merge shows the whole block through its temp -/
example :
    let d : Disk := { recs := [1, 2], tempRecs := [1, 2], tempMap := true, marker := true, permRecs := [1], permMap := false }
    reachable true d = true ∧ recover d = .visible [1, 2] := by decide

/-- and a crash before the marker shows nothing of the block -/
example :
    let d : Disk := { recs := [1, 2], tempRecs := [1], tempMap := false, marker := false, permRecs := [], permMap := false }
    reachable true d = true ∧ recover d = .invisible := by decide

theorem facts_ok :
    Gen.C21.permMapAfterBatches = true ∧ Gen.C21.markerIsLastWriteOfCommit = true ∧ Gen.C21.tempsLoadedAbovePermanentLast = true ∧
    Gen.C21.onlyMergedTempsLoaded = true ∧ Gen.C21.tempRemovedAfterMerge = true ∧ Gen.C21.extractErrors = [] := by decide

theorem source_pinned : Gen.C21.pins = Pins.C21 := by decide

end Mitum.C21
