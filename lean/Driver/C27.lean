import MitumModel.Common
import MitumModel.Model.CodecRepo
namespace Mitum.Driver.CodecDrv
open Mitum Mitum.Codec

/-- the member names a struct writes itself (not those of the embedded base structs) -/
def ownTags (e : Entry) : List String := e.mtags.filter (fun t => !readElsewhere.contains t)

/-- the extracted marshaler structs that take part in an encoding with these member names: the real
marshalers compose several structs (base header + own members), so several rows may apply -/
def rowsFor (members : List String) : List Entry :=
  repoTable.filter (fun e => !(ownTags e).isEmpty && (ownTags e).all (fun t => members.contains t))

def numbered : List String → Nat → List (String × Nat)
  | [], _ => []
  | t :: ts, k => (t, k) :: numbered ts (k + 1)

def sameObj1 (a b : Nat ⊕ (String × List (String × Nat))) : Bool :=
  match a, b with
  | .inl x, .inl y => x == y
  | .inr (h, fs), .inr (h', fs') => h == h' && fs == fs'
  | _, _ => false

/-- run the model codec of one row on an object that holds every member the marshaler writes -/
def runRow (e : Entry) : String :=
  let x : Obj 1 := .inr (e.hint, numbered e.mtags 1)
  match dec [e] 1 (enc [e] 1 x) with
  | none => "undecodable"
  | some x' => if sameObj1 (enc [e] 1 x') (enc [e] 1 x) then "roundtrip" else "lossy"

end Mitum.Driver.CodecDrv

namespace Mitum.Driver
open Mitum Mitum.Codec

/-- `shape <hint> <m1,m2,…|->`: the member names of a real top-level encoding; the answer is what the
model codec does with the extracted row that writes those members -/
def stepC27 (ts : List String) : String :=
  match ts with
  | ["shape", _, ms] =>
    if ms = "-" then "roundtrip"
    else if (CodecDrv.rowsFor (ms.splitOn ",")).all (fun e => CodecDrv.runRow e == "roundtrip") then "roundtrip"
    else "lossy"
  | _ => "bad-op"
end Mitum.Driver
