import MitumModel.Common
import MitumModel.Model.Threshold
/-
Model of one block of suffrage operations (isaac/operation): the `PreProcess`
decisions of the join / disjoin / expel processors (with their per-block
`preprocessed` sets and the expel context) and `SuffrageJoinStateValueMerger`
(remove the disjoined/expelled members, append the joined candidates sorted by
address, suffrage height + 1).

Addresses and keys are numbers; a sign is (node address, signer key).  The
float test of `CheckFactSignsBySuffrage` is the parameter `signOK` (number of
member signs, suffrage size, threshold in tenths of a percent).
-/
namespace Mitum.SuffrageOps
open Mitum.Threshold

structure Member where
  addr : Nat
  key : Nat
  start : Nat
deriving Repr, DecidableEq

structure Cand where
  addr : Nat
  key : Nat
  start : Nat
  deadline : Nat
deriving Repr, DecidableEq

inductive Op
  | join (cand start : Nat) (signs : List (Nat × Nat))
  | disjoin (node start signerKey : Nat)
  | expel (node estart eend : Nat)
deriving Repr, DecidableEq

structure Blk where
  height : Nat
  members : List Member
  sufHeight : Nat
  cands : List Cand
  t10 : Nat
deriving Repr, DecidableEq

def findMember (ms : List Member) (a : Nat) : Option Member := ms.find? (fun m => m.addr = a)
def findCand (cs : List Cand) (a : Nat) : Option Cand := cs.find? (fun c => c.addr = a)

/-- number of signs made by a current member with its suffrage key -/
def memberSigns (ms : List Member) (signs : List (Nat × Nat)) : Nat :=
  (signs.filter (fun s => ms.any (fun m => m.addr = s.1 ∧ m.key = s.2))).length

/-- `SuffrageJoinProcessor.PreProcess` without the `preprocessed` test -/
def joinValid (signOK : Nat → Nat → Nat → Bool) (b : Blk) (cand start : Nat) (signs : List (Nat × Nat)) : Bool :=
  !b.cands.isEmpty && (findMember b.members cand).isNone &&
  (match findCand b.cands cand with
   | none => false
   | some c =>
     decide (start = c.start) && decide (b.height ≤ c.deadline) &&
     -- `findCandidateFromSigns`: the first sign whose node is the candidate carries the candidate's key
     (match signs.find? (fun s => s.1 = cand) with
      | some s => decide (s.2 = c.key)
      | none => false) &&
     signOK (memberSigns b.members signs) b.members.length b.t10)

def disjoinValid (b : Blk) (node start signerKey : Nat) : Bool :=
  match findMember b.members node with
  | none => false
  | some m => decide (start = m.start) && decide (signerKey = m.key)

def expelValid (b : Blk) (node estart eend : Nat) : Bool :=
  decide (estart ≤ b.height) && decide (b.height ≤ eend) && (findMember b.members node).isSome

/-- the processors' state while a block is preprocessed -/
structure Acc where
  joined : List Nat := []        -- candidates accepted for joining, in arrival order
  disjoined : List Nat := []     -- accepted disjoin operations' nodes
  expelled : List Nat := []      -- accepted expel operations' nodes (also the expel context)
deriving Repr, DecidableEq

def stepOp (signOK : Nat → Nat → Nat → Bool) (b : Blk) (a : Acc) : Op → Acc
  | .join cand start signs =>
    if !a.joined.contains cand && joinValid signOK b cand start signs then { a with joined := a.joined ++ [cand] } else a
  | .disjoin node start key =>
    if !a.disjoined.contains node && !a.expelled.contains node && disjoinValid b node start key
    then { a with disjoined := a.disjoined ++ [node] } else a
  | .expel node s e =>
    if !a.expelled.contains node && expelValid b node s e then { a with expelled := a.expelled ++ [node] } else a

def preprocess (signOK : Nat → Nat → Nat → Bool) (b : Blk) (ops : List Op) : Acc := ops.foldl (stepOp signOK b) {}

/-- `SuffrageJoinStateValueMerger.closeValue`: `none` = no change (the state value is ignored) -/
def merge (b : Blk) (a : Acc) : Option (Nat × List Member) :=
  let removed := a.disjoined ++ a.expelled
  if removed.isEmpty && a.joined.isEmpty then none
  else
    let kept := b.members.filter (fun m => !removed.contains m.addr)
    let newcomers := (sortBy (fun x y => decide (x ≤ y)) a.joined).filterMap (fun c =>
      (findCand b.cands c).map (fun cd => ({ addr := cd.addr, key := cd.key, start := b.height + 1 } : Member)))
    some (b.sufHeight + 1, kept ++ newcomers)

def applyBlock (signOK : Nat → Nat → Nat → Bool) (b : Blk) (ops : List Op) : Option (Nat × List Member) :=
  merge b (preprocess signOK b ops)

end Mitum.SuffrageOps
