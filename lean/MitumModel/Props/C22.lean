import MitumModel.Model.OpPool
import MitumModel.Gen.C22
import MitumModel.Pins
/-!
C22  Operation pool hands out a valid, de-duplicated operation set.
-/
namespace Mitum.C22
open Mitum.OpPool

/-! ### invariants of the scan -/

theorem scan_length (limit : Nat) (pass : Rec → Bool) (rs : List Rec) : ∀ (a : Acc),
    a.ops.length ≤ limit → (scan limit pass rs a).ops.length ≤ limit := by
  induction rs with
  | nil => intro a h; simpa [scan] using h
  | cons r rs ih =>
    intro a h
    unfold scan
    by_cases h1 : a.ops.length = limit
    · rw [if_pos h1]; exact h
    · rw [if_neg h1]
      by_cases h2 : pass r = true
      · simp only [h2, Bool.not_true, Bool.false_eq_true, if_false]
        cases hf : a.ops.find? (fun x => decide (x.fact = r.fact)) with
        | some prev =>
          simp only
          apply ih
          have := List.length_filter_le (fun x => !decide (x.fact = r.fact)) a.ops
          simp only [List.length_append, List.length_cons, List.length_nil]; omega
        | none =>
          simp only
          apply ih
          simp only [List.length_append, List.length_cons, List.length_nil]; omega
      · simp only [h2, Bool.not_false, if_true]
        exact ih _ h

theorem scan_facts_nodup (limit : Nat) (pass : Rec → Bool) (rs : List Rec) : ∀ (a : Acc),
    (a.ops.map (·.fact)).Nodup → ((scan limit pass rs a).ops.map (·.fact)).Nodup := by
  induction rs with
  | nil => intro a h; simpa [scan] using h
  | cons r rs ih =>
    intro a h
    unfold scan
    by_cases h1 : a.ops.length = limit
    · rw [if_pos h1]; exact h
    · rw [if_neg h1]
      by_cases h2 : pass r = true
      · simp only [h2, Bool.not_true, Bool.false_eq_true, if_false]
        have key : ((a.ops.filter (fun x => !decide (x.fact = r.fact)) ++ [r]).map (·.fact)).Nodup := by
          rw [List.map_append, List.nodup_append]
          refine ⟨?_, by simp, ?_⟩
          · exact (List.filter_sublist.map _).nodup h
          · intro x hx y hy
            simp at hy; subst hy
            obtain ⟨z, hz, hzx⟩ := List.mem_map.mp hx
            have := (List.mem_filter.mp hz).2
            simp at this
            intro heq; exact this (hzx.trans heq)
        cases hf : a.ops.find? (fun x => decide (x.fact = r.fact)) with
        | some prev => simp only; exact ih _ key
        | none =>
          simp only
          apply ih
          have hall : a.ops.filter (fun x => !decide (x.fact = r.fact)) = a.ops := by
            apply List.filter_eq_self.mpr
            intro x hx
            have := List.find?_eq_none.mp hf x hx
            simpa using this
          rw [hall] at key; exact key
      · simp only [h2, Bool.not_false, if_true]
        exact ih _ h

/-- the selected entries are always a sub-sequence of what was scanned so far -/
theorem scan_sublist (limit : Nat) (pass : Rec → Bool) (rs : List Rec) : ∀ (a : Acc) (pre : List Rec),
    a.ops.Sublist pre → (scan limit pass rs a).ops.Sublist (pre ++ rs) := by
  induction rs with
  | nil => intro a pre h; simpa [scan] using h
  | cons r rs ih =>
    intro a pre h
    unfold scan
    by_cases h1 : a.ops.length = limit
    · rw [if_pos h1]; exact h.trans (List.sublist_append_left _ _)
    · rw [if_neg h1]
      have hpre : pre ++ r :: rs = (pre ++ [r]) ++ rs := by simp
      by_cases h2 : pass r = true
      · simp only [h2, Bool.not_true, Bool.false_eq_true, if_false]
        cases hf : a.ops.find? (fun x => decide (x.fact = r.fact)) with
        | some prev =>
          simp only; rw [hpre]
          exact ih _ _ ((List.filter_sublist.trans h).append (List.Sublist.refl _))
        | none =>
          simp only; rw [hpre]
          exact ih _ _ (h.append (List.Sublist.refl _))
      · simp only [h2, Bool.not_false, if_true]
        rw [hpre]
        exact ih _ _ (h.trans (List.sublist_append_left _ _))

theorem scan_pass (limit : Nat) (pass : Rec → Bool) (rs : List Rec) : ∀ (a : Acc),
    (∀ e ∈ a.ops, pass e = true) → ∀ e ∈ (scan limit pass rs a).ops, pass e = true := by
  induction rs with
  | nil => intro a h; simpa [scan] using h
  | cons r rs ih =>
    intro a h
    unfold scan
    by_cases h1 : a.ops.length = limit
    · rw [if_pos h1]; exact h
    · rw [if_neg h1]
      by_cases h2 : pass r = true
      · simp only [h2, Bool.not_true, Bool.false_eq_true, if_false]
        cases hf : a.ops.find? (fun x => decide (x.fact = r.fact)) with
        | some prev =>
          simp only; apply ih
          intro e he
          rcases List.mem_append.mp he with he | he
          · exact h e (List.mem_filter.mp he).1
          · simp at he; subst he; exact h2
        | none =>
          simp only; apply ih
          intro e he
          rcases List.mem_append.mp he with he | he
          · exact h e he
          · simp at he; subst he; exact h2
      · simp only [h2, Bool.not_false, if_true]
        exact ih _ h

/-! ### the property theorems -/

/-- reachable pool states: operation ids in the ordered index are pairwise distinct and all
    of them are stored -/
def Inv (s : State) : Prop :=
  (s.ordered.map (·.op)).Nodup ∧ ∀ r ∈ s.ordered, r.op ∈ s.stored

theorem inv_init : Inv init := by simp [Inv, init]

theorem inv_setOperation (s : State) (r : Rec) (h : Inv s) : Inv (setOperation s r).1 := by
  unfold setOperation
  by_cases hm : r.op ∈ s.stored
  · simp only [hm, if_true]; exact h
  · simp only [hm, if_false]
    refine ⟨?_, ?_⟩
    · rw [List.map_append, List.nodup_append]
      refine ⟨h.1, by simp, ?_⟩
      intro x hx y hy
      simp at hy; subst hy
      obtain ⟨z, hz, hzx⟩ := List.mem_map.mp hx
      intro heq
      exact hm (heq ▸ hzx ▸ h.2 z hz)
    · intro x hx
      rcases List.mem_append.mp hx with hx | hx
      · exact List.mem_append_left _ (h.2 x hx)
      · simp at hx; subst hx; simp

theorem inv_operationHashes (limit : Nat) (pass : Rec → Bool) (s : State) (h : Inv s) :
    Inv (operationHashes limit pass s).2 := by
  unfold operationHashes
  refine ⟨(List.filter_sublist.map _).nodup h.1, ?_⟩
  intro r hr
  exact h.2 r (List.mem_filter.mp hr).1

/-- ✦ at most `limit` entries; pairwise distinct facts and pairwise distinct operations; every
    entry is in the pool's index and passes the filter — for every pool history (`Inv`), every
    limit and every filter. -/
theorem hashes_spec (limit : Nat) (pass : Rec → Bool) (s : State) (h : Inv s) :
    let res := (operationHashes limit pass s).1
    res.length ≤ limit ∧ (res.map (·.fact)).Nodup ∧ (res.map (·.op)).Nodup ∧
    (∀ e ∈ res, e ∈ s.ordered ∧ pass e = true) := by
  unfold operationHashes
  simp only
  have hsub := scan_sublist limit pass s.ordered { ops := [], removed := [] } [] (List.Sublist.refl _)
  simp only [List.nil_append] at hsub
  refine ⟨scan_length _ _ _ _ (by simp), scan_facts_nodup _ _ _ _ (by simp), (hsub.map _).nodup h.1, ?_⟩
  intro e he
  exact ⟨hsub.subset he, scan_pass _ _ _ _ (by simp) e he⟩

/-- ✦ an operation removed by a call (filtered out, or the older duplicate of a fact) is no
    longer in the index afterwards, so no later call can return it … -/
theorem removed_not_returned_again (limit limit' : Nat) (pass pass' : Rec → Bool) (s : State) (op : Nat)
    (hop : op ∈ (scan limit pass s.ordered { ops := [], removed := [] }).removed) :
    ∀ e ∈ (operationHashes limit' pass' (operationHashes limit pass s).2).1, e.op ≠ op := by
  intro e he
  have hsub := scan_sublist limit' pass' (operationHashes limit pass s).2.ordered { ops := [], removed := [] } []
    (List.Sublist.refl _)
  simp only [List.nil_append] at hsub
  have hmem : e ∈ (operationHashes limit pass s).2.ordered := hsub.subset (by simpa [operationHashes] using he)
  unfold operationHashes at hmem
  have := (List.mem_filter.mp hmem).2
  simp at this
  intro heq; exact this (heq ▸ hop)

/-- ✦ … and submitting it again is refused (its body is still stored). -/
theorem resubmit_refused (limit : Nat) (pass : Rec → Bool) (s : State) (h : Inv s) (r : Rec)
    (hr : r ∈ s.ordered) (f : Nat) :
    setOperation (operationHashes limit pass s).2 { op := r.op, fact := f } =
      ((operationHashes limit pass s).2, false) := by
  unfold setOperation
  have : r.op ∈ (operationHashes limit pass s).2.stored := by
    unfold operationHashes; exact h.2 r hr
  simp [this]

/-- ✦ adding an operation is idempotent. -/
theorem set_operation_idempotent (s : State) (r : Rec) :
    setOperation (setOperation s r).1 r = ((setOperation s r).1, false) := by
  unfold setOperation
  by_cases hm : r.op ∈ s.stored
  · simp [hm]
  · simp [hm]

/-- ✦ for a fact submitted several times the most recently added passing operation is the one
    chosen, when the whole index was scanned (fewer than `limit` results). Stated for the fold:
    the chosen entry for a fact is the last passing record of that fact. -/
theorem latest_chosen (limit : Nat) (pass : Rec → Bool) (rs : List Rec) : ∀ (a : Acc) (e : Rec),
    e ∈ (scan limit pass rs a).ops → (scan limit pass rs a).ops.length < limit →
    (e ∈ a.ops ∧ ∀ r ∈ rs, pass r = true → r.fact ≠ e.fact) ∨
    (∃ pre post, rs = pre ++ e :: post ∧ pass e = true ∧ ∀ r ∈ post, pass r = true → r.fact ≠ e.fact) := by
  induction rs with
  | nil => intro a e he _; left; exact ⟨by simpa [scan] using he, by simp⟩
  | cons r rs ih =>
    intro a e he hlt
    unfold scan at he hlt
    by_cases h1 : a.ops.length = limit
    · rw [if_pos h1] at hlt; omega
    · rw [if_neg h1] at he hlt
      by_cases h2 : pass r = true
      · simp only [h2, Bool.not_true, Bool.false_eq_true, if_false] at he hlt
        -- both branches continue with `filter … ++ [r]` (when nothing matches the filter is the identity)
        have step : ∀ a' : Acc, a'.ops = a.ops.filter (fun x => !decide (x.fact = r.fact)) ++ [r] →
            e ∈ (scan limit pass rs a').ops → (scan limit pass rs a').ops.length < limit →
            (e ∈ a.ops ∧ ∀ r' ∈ r :: rs, pass r' = true → r'.fact ≠ e.fact) ∨
            (∃ pre post, r :: rs = pre ++ e :: post ∧ pass e = true ∧ ∀ r' ∈ post, pass r' = true → r'.fact ≠ e.fact) := by
          intro a' ha' he' hlt'
          rcases ih a' e he' hlt' with ⟨hin, hno⟩ | ⟨pre, post, hrs, hp, hno⟩
          · rw [ha'] at hin
            rcases List.mem_append.mp hin with hin | hin
            · left
              have hf := List.mem_filter.mp hin
              refine ⟨hf.1, ?_⟩
              intro r' hr' hpr'
              rcases List.mem_cons.mp hr' with rfl | hr''
              · have := hf.2; simp at this; exact fun h => this h.symm
              · exact hno r' hr'' hpr'
            · right
              simp at hin; subst hin
              exact ⟨[], rs, rfl, h2, hno⟩
          · right
            exact ⟨r :: pre, post, by rw [hrs]; rfl, hp, hno⟩
        cases hf : a.ops.find? (fun x => decide (x.fact = r.fact)) with
        | some prev =>
          simp only [hf] at he hlt
          exact step _ rfl he hlt
        | none =>
          simp only [hf] at he hlt
          have hall : a.ops.filter (fun x => !decide (x.fact = r.fact)) = a.ops := by
            apply List.filter_eq_self.mpr
            intro x hx
            have := List.find?_eq_none.mp hf x hx
            simpa using this
          exact step { a with ops := a.ops ++ [r] } (by rw [hall]) he hlt
      · simp only [h2, Bool.not_false, if_true] at he hlt
        rcases ih _ e he hlt with ⟨hin, hno⟩ | ⟨pre, post, hrs, hp, hno⟩
        · left
          refine ⟨hin, ?_⟩
          intro r' hr' hpr'
          rcases List.mem_cons.mp hr' with rfl | hr''
          · exact absurd hpr' h2
          · exact hno r' hr'' hpr'
        · right; exact ⟨r :: pre, post, by rw [hrs]; rfl, hp, hno⟩

/-- ✦ tie to the source -/
theorem source_pinned : Gen.C22.extractErrors = [] ∧ Gen.C22.pins = Pins.C22 := by
  refine ⟨by decide, by decide⟩

/-- the insertion order on which the unrepaired index map went stale: o1(fA) o2(fB) o3(fA) o4(fB)
    must give [o3(fA), o4(fB)] (the unrepaired code returned [o2(fB), o4(fB)]). -/
example : (operationHashes 10 (fun _ => true)
    { stored := [1, 2, 3, 4], ordered := [⟨1, 100⟩, ⟨2, 200⟩, ⟨3, 100⟩, ⟨4, 200⟩] }).1 = [⟨3, 100⟩, ⟨4, 200⟩] := by decide
example : Inv { stored := [1, 2, 3, 4], ordered := [⟨1, 100⟩, ⟨2, 200⟩, ⟨3, 100⟩, ⟨4, 200⟩] } := by
  refine ⟨by decide, by decide⟩

end Mitum.C22
