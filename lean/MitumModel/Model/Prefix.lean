import MitumModel.Common
/-
Model of `leveldbstorage.PrefixStorage` (storage/leveldb/pfx.go),
`RemoveByPrefix`, `BatchRemove` (storage/leveldb/db.go) over goleveldb's
documented contract: an ordered byte-key map, `util.BytesPrefix`, range
iteration `[Start, Limit)`.

Keys are byte lists (`List Nat`, every element < 256).  The store is an
association list with pairwise distinct keys; iteration sorts the keys.
-/
namespace Mitum.Prefix

abbrev Bytes := List Nat
abbrev Store := List (Bytes × Bytes)

/-- bytewise lexicographic `<` (goleveldb's default comparer) -/
def ltB : Bytes → Bytes → Bool
  | [], [] => false
  | [], _ :: _ => true
  | _ :: _, [] => false
  | a :: as, b :: bs => decide (a < b) || (decide (a = b) && ltB as bs)

def leB (a b : Bytes) : Bool := !ltB b a

/-- `util.BytesPrefix(p).Limit`: the shortest key above every key with pfx `p`
    (`none` when there is none: empty pfx or all bytes 0xff) -/
def prefixLimit : Bytes → Option Bytes
  | [] => none
  | a :: as =>
    match prefixLimit as with
    | some l => some (a :: l)
    | none => if a < 255 then some [a + 1] else none

structure Range where
  start : Option Bytes
  limit : Option Bytes
deriving Repr, DecidableEq

def inRange (r : Range) (k : Bytes) : Bool :=
  (match r.start with | none => true | some s => leB s k) &&
  (match r.limit with | none => true | some l => ltB k l)

/-- `util.BytesPrefix(p)` -/
def bytesPrefix (p : Bytes) : Range := { start := some p, limit := prefixLimit p }

def lookup (k : Bytes) : Store → Option Bytes
  | [] => none
  | (k', v) :: rest => if k' = k then some v else lookup k rest

def put (s : Store) (k v : Bytes) : Store := (s.filter (fun e => !(e.1 = k))) ++ [(k, v)]
def delete (s : Store) (k : Bytes) : Store := s.filter (fun e => !(e.1 = k))

/-- `Storage.Iter` ascending over a range: the visited (key, value) pairs -/
def iter (s : Store) (r : Range) : List (Bytes × Bytes) :=
  sortBy (fun a b => leB a.1 b.1) (s.filter (fun e => inRange r e.1))

/-! ### PrefixStorage: prefix = none after `Close` -/

inductive Res (α : Type) where
  | ok (v : α)
  | closed
deriving Repr, DecidableEq

/-- `PrefixStorage.key` -/
def pkey (pfx : Option Bytes) (k : Bytes) : Option Bytes :=
  match pfx with
  | none => none
  | some p => if k = [] then none else some (p ++ k)

def pGet (s : Store) (pfx : Option Bytes) (k : Bytes) : Res (Option Bytes) :=
  match pkey pfx k with
  | none => .closed
  | some fk => .ok (lookup fk s)

def pPut (s : Store) (pfx : Option Bytes) (k v : Bytes) : Store × Res Unit :=
  match pkey pfx k with
  | none => (s, .closed)
  | some fk => (put s fk v, .ok ())

def pDelete (s : Store) (pfx : Option Bytes) (k : Bytes) : Store × Res Unit :=
  match pkey pfx k with
  | none => (s, .closed)
  | some fk => (delete s fk, .ok ())

/-- `PrefixStorage.Iter(r, …)`: `closedGuard` is the regenerated fact "a closed pfx storage
    refuses to iterate" (without it a nil pfx ranges over the whole key space) -/
def pIter (closedGuard : Bool) (s : Store) (pfx : Option Bytes) (r : Option Range) : Res (List (Bytes × Bytes)) :=
  match pfx with
  | none =>
    if closedGuard then .closed
    else
      match r with
      | none => .ok (iter s { start := some [], limit := none })
      | some r => if r.start.isSome || r.limit.isSome then .closed else .ok (iter s { start := some [], limit := none })
  | some p =>
    let base := bytesPrefix p
    match r with
    | none => .ok ((iter s base).map (fun e => (e.1.drop p.length, e.2)))
    | some r =>
      match (match r.start with | none => some base.start | some st => (pkey pfx st).map some),
            (match r.limit with | none => some base.limit | some l => (pkey pfx l).map some) with
      | some st, some l => .ok ((iter s { start := st, limit := l }).map (fun e => (e.1.drop p.length, e.2)))
      | _, _ => .closed

/-- `RemoveByPrefix(st, pfx)` -/
def removeByPrefix (s : Store) (p : Bytes) : Store := s.filter (fun e => !inRange (bytesPrefix p) e.1)

/-- `PrefixStorage.Remove()` -/
def pRemove (closedGuard : Bool) (s : Store) (pfx : Option Bytes) : Store × Res Unit :=
  match pfx with
  | none => if closedGuard then (s, .closed) else (removeByPrefix s [], .ok ())
  | some p => (removeByPrefix s p, .ok ())

/-- one round of `BatchRemove`: delete the first `limit` keys of the range from `start`;
    the next start is the first key that did not fit (if any) -/
def batchRound (s : Store) (start limit : Option Bytes) (n : Nat) : Store × Option Bytes × Nat :=
  let ks := (iter s { start := start, limit := limit }).map (·.1)
  let del := ks.take n
  (s.filter (fun e => !(del.contains e.1)), (match ks[n]? with | some k => some k | none => start), del.length)

/-- `BatchRemove(st, r, limit)` with fuel (enough fuel: number of keys + 1) -/
def batchRemove : Nat → Store → Option Bytes → Option Bytes → Nat → Store × Nat
  | 0, s, _, _, _ => (s, 0)
  | fuel + 1, s, start, limit, n =>
    let r := batchRound s start limit n
    if r.2.2 = 0 then (s, 0)
    else
      let rest := batchRemove fuel r.1 r.2.1 limit n
      (rest.1, r.2.2 + rest.2)

end Mitum.Prefix
