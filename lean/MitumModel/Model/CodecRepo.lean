import MitumModel.Model.Codec
import MitumModel.Gen.C27
/- The member tables extracted from /repo, as a table of the codec model. -/
namespace Mitum.Codec

/-- members written by a marshaler struct that its own unmarshaler struct does not list because another
decoder reads them from the same bytes: the dispatcher (`_hint`), `BaseSign`/`BaseNodeSign.DecodeJSON`
(`node`, `signer`, `signature`, `signed_at`), `BaseRequestHeader`/`BaseResponseHeader` (`client_id`),
the node codec of the operation tree node (`address`, `publickey`). -/
def readElsewhere : List String := ["_hint", "node", "signer", "signature", "signed_at", "client_id", "address", "publickey"]


/-- the model table of /repo: the members read are those of the unmarshaler struct plus those read elsewhere -/
def repoTable : List Entry :=
  Gen.C27.tagTable.map (fun row =>
    { hint := row.1, mtags := row.2.1, utags := row.2.2 ++ row.2.1.filter (fun t => readElsewhere.contains t) })


end Mitum.Codec
