import MitumModel.Common
/-
Model of `util.BatchWork` (util/worker.go): how a job range `[0, size)` is cut
into batches of at most `limit` jobs; `pref(last)` runs before the jobs of the
batch ending at `last`.  Shared by C14, C15, C18, C33.
-/
namespace Mitum.BatchWork

structure Batch where
  first : Nat
  last : Nat      -- inclusive; `pref(last)` and every job `f(i, last)` of the batch see it
deriving Repr, DecidableEq

/-- the batches after `i` jobs have been handed out (fuel bounds the loop) -/
def planFrom (size limit : Nat) : Nat → Nat → List Batch
  | 0, _ => []
  | fuel + 1, i =>
    let e := if i + limit > size then size else i + limit
    if e = size then [{ first := i, last := e - 1 }]
    else { first := i, last := e - 1 } :: planFrom size limit fuel (i + limit)

/-- `BatchWork(size, limit)`: `none` when `size < 1` (error "do nothing") -/
def plan (size limit : Nat) : Option (List Batch) :=
  if size < 1 then none
  else if size ≤ limit then some [{ first := 0, last := size - 1 }]
  else some (planFrom size limit (size + 1) 0)

end Mitum.BatchWork
