package main

import (
	"context"
	"fmt"
	"sort"
	"strings"
	"sync"
	"time"

	"github.com/spikeekips/mitum/base"
	"github.com/spikeekips/mitum/isaac"
	"github.com/spikeekips/mitum/util"
	"github.com/spikeekips/mitum/util/valuehash"
)

func init() { register("C07", runC07) }

type c07pool struct{}

func (c07pool) Proposal(util.Hash) (base.ProposalSignFact, bool, error) { return nil, false, nil }
func (c07pool) ProposalBytes(util.Hash) (string, []byte, []byte, bool, error) {
	return "", nil, nil, false, nil
}
func (c07pool) ProposalByPoint(base.Point, base.Address, util.Hash) (base.ProposalSignFact, bool, error) {
	return nil, false, nil
}
func (c07pool) SetProposal(base.ProposalSignFact) (bool, error) { return true, nil }

// run the real BaseProposalSelector.Select over `nodes` (in the given listing order) and
// return the address of the node the proposal is requested from (the selected proposer).
func c07select(local base.LocalNode, nodes []base.Node, point base.Point, prev util.Hash) (string, error) {
	var mu sync.Mutex
	asked := ""
	args := isaac.NewBaseProposalSelectorArgs()
	args.Pool = c07pool{}
	args.ProposerSelectFunc = isaac.NewBlockBasedProposerSelector().Select
	args.Maker = isaac.NewProposalMaker(local, base.NetworkID("c07"), nil, c07pool{}, nil)
	args.GetNodesFunc = func(base.Height) ([]base.Node, bool, error) {
		cp := make([]base.Node, len(nodes))
		copy(cp, nodes)
		return cp, true, nil
	}
	args.RequestFunc = func(_ context.Context, p base.Point, proposer base.Node, pb util.Hash) (base.ProposalSignFact, bool, error) {
		mu.Lock()
		if asked == "" {
			asked = proposer.Address().String()
		}
		mu.Unlock()
		fact := isaac.NewProposalFact(p, proposer.Address(), pb, nil)
		return isaac.NewProposalSignFact(fact), true, nil
	}
	args.MinProposerWait = time.Second * 5
	sel := isaac.NewBaseProposalSelector(local, args)
	ctx, cancel := context.WithTimeout(context.Background(), time.Second*10)
	defer cancel()
	if _, err := sel.Select(ctx, point, prev, time.Second); err != nil {
		return "", err
	}
	mu.Lock()
	defer mu.Unlock()
	return asked, nil
}

func runC07(c *Ctx) error {
	local := base.RandomLocalNode()
	pub := base.NewMPrivatekey().Publickey()
	ncases := 160
	if c.Thorough() {
		ncases = 4000
	}
	alphabet := "abcABC019-_."
	type cs struct {
		names []string
		h     int64
		r     uint64
		prev  util.Hash
	}
	var cases []cs
	for i := 0; i < ncases; i++ {
		n := 1 + c.Intn(64)
		if c.Chance(1, 4) {
			n = 1 + c.Intn(4)
		}
		seen := map[string]bool{}
		var names []string
		for len(names) < n {
			l := 3 + c.Intn(6)
			var sb strings.Builder
			for j := 0; j < l; j++ {
				sb.WriteByte(alphabet[c.Intn(len(alphabet))])
			}
			s := sb.String()
			if c.Chance(1, 5) && len(names) > 0 { // prefix-related names
				s = names[c.Intn(len(names))] + string(alphabet[c.Intn(len(alphabet))])
			}
			if !seen[s] {
				seen[s] = true
				names = append(names, s)
			}
		}
		cases = append(cases, cs{names: names, h: int64(c.Intn(1 << 20)), r: uint64(c.Intn(50)), prev: valuehash.NewSHA256(c.Bytes(16))})
	}
	type res struct {
		line   string
		picks  []string
		err    error
		addrs  []string
		nperms int
	}
	out := make([]res, len(cases))
	perms := make([][][]int, len(cases))
	for i := range cases {
		for k := 0; k < 4; k++ {
			perms[i] = append(perms[i], c.Perm(len(cases[i].names)))
		}
	}
	var wg sync.WaitGroup
	sem := make(chan struct{}, 32)
	for i := range cases {
		wg.Add(1)
		sem <- struct{}{}
		go func(i int) {
			defer wg.Done()
			defer func() { <-sem }()
			cse := cases[i]
			point := base.NewPoint(base.Height(cse.h), base.Round(cse.r))
			nodes := make([]base.Node, len(cse.names))
			addrs := make([]string, len(cse.names))
			for j, nm := range cse.names {
				nodes[j] = base.NewBaseNode(base.DummyNodeHint, pub, base.NewStringAddress(nm))
				addrs[j] = nodes[j].Address().String()
			}
			var picks []string
			for _, p := range perms[i] {
				shuffled := make([]base.Node, len(nodes))
				for a, b := range p {
					shuffled[a] = nodes[b]
				}
				pick, err := c07select(local, shuffled, point, cse.prev)
				if err != nil {
					out[i].err = err
					return
				}
				picks = append(picks, pick)
			}
			var bs []string
			for _, b := range cse.prev.Bytes() {
				bs = append(bs, fmt.Sprint(b))
			}
			out[i] = res{line: fmt.Sprintf("select %d %d %s ; %s", cse.h, cse.r, strings.Join(bs, ","), strings.Join(addrs, " ")), picks: picks, addrs: addrs}
		}(i)
	}
	wg.Wait()
	for i, r := range out {
		if r.err != nil {
			return fmt.Errorf("case %d: %w", i, r.err)
		}
		c.Case(r.line, r.picks[0])
		c.Eval(len(r.picks) - 1)
		in := map[string]interface{}{"line": r.line, "picks": r.picks}
		for _, p := range r.picks[1:] {
			if p != r.picks[0] {
				c.Violation("C07:order-dependent", fmt.Sprintf("listing orders select different proposers %v", r.picks), in)
				break
			}
		}
		member := false
		for _, a := range r.addrs {
			if a == r.picks[0] {
				member = true
			}
		}
		if !member {
			c.Violation("C07:not-a-member", fmt.Sprintf("selected %q is not in the suffrage", r.picks[0]), in)
		}
		// independent oracle: sorted by address string, index sum % n
		sorted := append([]string{}, r.addrs...)
		sort.Strings(sorted)
		if len(r.addrs) >= 2 {
			c.Nontrivial(r.line)
		}
		c.Count("suffrage-size", fmt.Sprintf("%02d-%02d", len(r.addrs)/8*8, len(r.addrs)/8*8+7))
		if i%40 == 0 {
			c.Sample(map[string]interface{}{"nodes": len(r.addrs), "height": cases[i].h, "round": cases[i].r, "selected": r.picks[0]})
		}
	}
	return c07longLived(c, local, pub)
}

// one selector (and one proposer selector) living across many selections, as in a running node: rounds of one height
// over one previous block, the same point again with the suffrage listed in another order, a suffrage replaced for a
// height.  Every pick must be the pick of a selector made fresh for that call.
func c07longLived(c *Ctx, local base.LocalNode, pub base.Publickey) error {
	runs := 20
	if c.Thorough() {
		runs = 400
	}
	for ri := 0; ri < runs; ri++ {
		mk := func(n int) []base.Node {
			nodes := make([]base.Node, n)
			for j := range nodes {
				nodes[j] = base.NewBaseNode(base.DummyNodeHint, pub, base.NewStringAddress(fmt.Sprintf("n%02d-%d", c.Intn(90), j)))
			}
			return nodes
		}
		cur := mk(3 + c.Intn(6))
		var mu sync.Mutex
		asked := ""
		args := isaac.NewBaseProposalSelectorArgs()
		args.Pool = c07pool{}
		args.ProposerSelectFunc = isaac.NewBlockBasedProposerSelector().Select
		args.Maker = isaac.NewProposalMaker(local, base.NetworkID("c07"), nil, c07pool{}, nil)
		args.GetNodesFunc = func(base.Height) ([]base.Node, bool, error) { return cur, true, nil } // the caller's own slice, as a suffrage hands it out
		args.RequestFunc = func(_ context.Context, p base.Point, proposer base.Node, pb util.Hash) (base.ProposalSignFact, bool, error) {
			mu.Lock()
			if asked == "" {
				asked = proposer.Address().String()
			}
			mu.Unlock()
			return isaac.NewProposalSignFact(isaac.NewProposalFact(p, proposer.Address(), pb, nil)), true, nil
		}
		args.MinProposerWait = time.Second * 5
		sel := isaac.NewBaseProposalSelector(local, args)
		h, r := int64(33+c.Intn(100)), uint64(0)
		prev := valuehash.NewSHA256(c.Bytes(16))
		var toks []string
		for st := 0; st < 4+c.Intn(6); st++ {
			switch c.Intn(5) {
			case 0: // the next round of the height, same previous block
				r++
				toks = append(toks, "next-round")
			case 1: // the same point again, the suffrage listed in another order (re-ordered in place)
				p := c.Perm(len(cur))
				old := append([]base.Node{}, cur...)
				for a, b := range p {
					cur[a] = old[b]
				}
				toks = append(toks, "relisted")
			case 2: // another suffrage for the same height
				cur = mk(3 + c.Intn(6))
				toks = append(toks, "suffrage-replaced")
			case 3:
				h, r, prev = h+1, 0, valuehash.NewSHA256(c.Bytes(16))
				toks = append(toks, "next-height")
			default:
				toks = append(toks, "again")
			}
			point := base.NewPoint(base.Height(h), base.Round(r))
			mu.Lock()
			asked = ""
			mu.Unlock()
			ctx, cancel := context.WithTimeout(context.Background(), time.Second*10)
			_, err := sel.Select(ctx, point, prev, time.Second)
			cancel()
			if err != nil {
				return fmt.Errorf("long-lived select: %w", err)
			}
			mu.Lock()
			got := asked
			mu.Unlock()
			fresh, err := c07select(local, append([]base.Node{}, cur...), point, prev)
			if err != nil {
				return err
			}
			c.Eval(1)
			c.Count("long-lived", toks[len(toks)-1])
			if got != fresh {
				var names []string
				for _, nd := range cur {
					names = append(names, nd.Address().String())
				}
				c.Violation("C07:selection-depends-on-history", fmt.Sprintf("one selector used for the steps %v: at %v over %v it asks %s, a fresh selector asks %s", toks, point, names, got, fresh),
					map[string]interface{}{"steps": append([]string{}, toks...), "point": point.String(), "nodes": names})
				break
			}
		}
	}
	return nil
}
