import MitumModel.Common
/-
Model of what is on disk when the process stops at an arbitrary storage write while a block is
written, committed and merged (isaac/database/block_write.go, temp_leveldb.go Merge,
perm_leveldb.go mergeTempDatabaseFromLeveldb, center.go loadTemps / mergeToPermanent / removeTemp),
and of what the loaders show after reopening.

goleveldb makes each `Put` and each `Batch` atomic (one journal record; a torn record is dropped on
recovery — exercised on the real storage by the harness).  So the disk at a crash is described by
*which atomic writes have happened*, constrained only by the order the code issues them in:

* block write: the record batches of the block (any subset may be on disk, they carry no order), then
  the block map / proof puts, then — `TempLeveldb.Merge` — the merged marker;
* permanent merge: the records are copied in parallel batches (any subset), and the block map is put
  `mapLast`: after all of them (the repaired order) or inside one of the batches (the code before);
* removal of the temp: only after the permanent merge has returned.

A record is a number; `recs` are the records of the block (states, operation records, proofs).
-/
namespace Mitum.Crash

structure Disk where
  recs : List Nat            -- the records of the block, as written by the block writer
  tempRecs : List Nat        -- records present under the temp's prefix
  tempMap : Bool             -- block map present in the temp
  marker : Bool              -- the temp's merged marker
  permRecs : List Nat        -- records copied into the permanent database
  permMap : Bool             -- block map of this height present in the permanent database
deriving Repr, DecidableEq

def subset (a b : List Nat) : Bool := a.all (fun x => b.contains x)

/-- the orders the code guarantees, as constraints on what can be on disk together -/
def reachable (mapLast : Bool) (d : Disk) : Bool :=
  subset d.tempRecs d.recs && subset d.permRecs d.recs &&
  -- the marker is put after every record batch and the block map of the temp
  (!d.marker || (subset d.recs d.tempRecs && d.tempMap)) &&
  -- nothing is copied into the permanent database before the temp was committed
  ((d.permRecs.isEmpty && !d.permMap) || d.marker || !subset d.recs d.tempRecs) &&
  -- the repaired order: the block map reaches the permanent database after all the records
  (!mapLast || !d.permMap || subset d.recs d.permRecs) &&
  -- the temp is removed only after the merge has returned (everything copied, block map included)
  ((subset d.recs d.tempRecs && d.tempMap && d.marker) || (d.permMap && subset d.recs d.permRecs) ||
    -- … or it never was committed at all
    (d.permRecs.isEmpty && !d.permMap && !d.marker))

inductive View where
  | invisible                       -- last height stays below this block
  | visible (shown : List Nat)      -- the block is the (or a) visible block; these of its records are served
deriving Repr, DecidableEq

/-- the loaders: the permanent database's last block map decides from where temps are loaded; a block at or
below it is served by the permanent database, a block above it by its temp if that is merged -/
def recover (d : Disk) : View :=
  if d.permMap then .visible d.permRecs
  else if d.marker && d.tempMap then .visible d.tempRecs
  else .invisible

end Mitum.Crash
