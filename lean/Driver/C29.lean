import MitumModel.Common
import MitumModel.Model.Frame
import MitumModel.Gen.C29
namespace Mitum.Driver
open Mitum Mitum.Frame

def hexVal (c : Char) : Option Nat :=
  if '0' ≤ c ∧ c ≤ '9' then some (c.toNat - '0'.toNat)
  else if 'a' ≤ c ∧ c ≤ 'f' then some (c.toNat - 'a'.toNat + 10)
  else none

def unhexGo : List Char → Option Bytes
  | [] => some []
  | [_] => none
  | a :: b :: rest =>
    match hexVal a, hexVal b, unhexGo rest with
    | some x, some y, some r => some (UInt8.ofNat (x * 16 + y) :: r)
    | _, _, _ => none

def unhex (s : String) : Option Bytes := if s = "-" then some [] else unhexGo s.toList

def hexDigit (n : Nat) : Char := if n < 10 then Char.ofNat (n + 48) else Char.ofNat (n - 10 + 97)

def hexOf (b : Bytes) : String :=
  if b.isEmpty then "-" else String.ofList (b.flatMap (fun x => [hexDigit (x.toNat / 16), hexDigit (x.toNat % 16)]))

def hexList (m : List Bytes) : String :=
  if m.isEmpty then "[]" else ",".intercalate (m.map hexOf)

def unhexList (s : String) : Option (List Bytes) :=
  if s = "[]" then some [] else (s.splitOn ",").mapM unhex

def stepC29 (ts : List String) : String :=
  let maxLen := Gen.C29.maxLengthBytes
  let maxItem := Gen.C29.maxLengthedBytes
  match ts with
  | ["dec", h] =>
    match unhex h with
    | some b =>
      match decodeBuf maxLen Gen.C29.hugeBranchReturnsError b with
      | .ok (m, l) => s!"ok {hexList m} left={hexOf l}"
      | .error => "err"
      | .panic => "panic"
    | none => "bad-op"
  | ["enc", hs] =>
    match unhexList hs with
    | some m =>
      match encode (if Gen.C29.writerGuardsCount then maxLen else 2 ^ 64) m with
      | some e => hexOf e
      | none => "refuse"
    | none => "bad-op"
  | "str" :: cs =>
    match cs.mapM unhex with
    | some chunks =>
      match decodeStream maxLen maxItem chunks with
      | .ok (m, rest) => s!"ok {chunks.flatten.length - rest.flatten.length} {hexList m}"
      | .error => "err"
      | .panic => "panic"
    | none => "bad-op"
  | _ => "bad-op"

end Mitum.Driver
