import Batteries.Data.List.Perm
import MitumModel.Model.Voteproof
import MitumModel.Props.C01
import MitumModel.Props.C02
import MitumModel.Gen.C03
import MitumModel.Pins
/-!
C03  Agreement: no two conflicting voteproofs for one stage point.
-/
namespace Mitum.C03
open Mitum.Voteproof Mitum.Vote Mitum.Threshold

theorem nodup_subset_length_le {l s : List Nat} (hl : l.Nodup) (hs : l ⊆ s) : l.length ≤ s.length :=
  (List.subperm_of_subset hl hs).length_le

theorem filter_partition (l : List Nat) (p : Nat → Bool) :
    (l.filter p).length + (l.filter (fun x => !p x)).length = l.length := by
  induction l with
  | nil => rfl
  | cons a r ih => by_cases h : p a <;> simp [List.filter, h] <;> omega

/-- inclusion–exclusion for two duplicate-free sublists of a list -/
theorem inter_length (a b s : List Nat) (ha : a.Nodup) (hb : b.Nodup) (has : a ⊆ s) (hbs : b ⊆ s) :
    a.length + b.length ≤ (a.filter (fun n => b.contains n)).length + s.length := by
  have hpart := filter_partition a (fun n => b.contains n)
  have hnd : ((a.filter (fun n => !b.contains n)) ++ b).Nodup := by
    rw [List.nodup_append]
    refine ⟨List.Nodup.sublist List.filter_sublist ha, hb, ?_⟩
    intro x hx y hy hxy
    subst hxy
    simp at hx
    exact hx.2 hy
  have hsub : ((a.filter (fun n => !b.contains n)) ++ b) ⊆ s := by
    intro x hx
    rcases List.mem_append.mp hx with h | h
    · exact has (List.mem_filter.mp h).1
    · exact hbs h
  have := nodup_subset_length_le hnd hsub
  simp only [List.length_append] at this
  omega

theorem votersFor_nodup (vp : VP) (f : String) (h : (vp.votes.map (·.1)).Nodup) : (votersFor vp f).Nodup :=
  List.Nodup.sublist (List.Sublist.map _ List.filter_sublist) h

theorem votersFor_length (vp : VP) (f : String) : (votersFor vp f).length = (vp.votes.map (·.2)).count f := by
  unfold votersFor
  rw [List.length_map]
  induction vp.votes with
  | nil => rfl
  | cons v r ih =>
    by_cases h : v.2 = f
    · simp [List.filter, h, ih]
    · simp [List.filter, h, ih]

/-- what validity gives about the voters of the majority fact: they are distinct members
of the suffrage and at least `required n t` many (when at most `n - required` nodes are expelled) -/
theorem majority_voters (S : List Nat) (hS : S.Nodup) (t10 : Nat) (ht' : t10 ≤ 1000) (order : List String) (vp : VP) (x : String)
    (hv : validWith S t10 order vp = true) (hm : vp.majority = some x)
    (hk : vp.expels.length ≤ S.length - required S.length t10) :
    (votersFor vp x).Nodup ∧ votersFor vp x ⊆ S ∧ required S.length t10 ≤ (votersFor vp x).length := by
  unfold validWith at hv
  simp only [Bool.and_eq_true, Bool.or_eq_true, decide_eq_true_eq, nodup] at hv
  obtain ⟨⟨⟨⟨⟨⟨_, hnd⟩, hex⟩, hin⟩, hres0⟩, hstuck⟩, _⟩ := hv
  have hres : findVoteResult (reduced S t10 vp).1.length (required (reduced S t10 vp).1.length (reduced S t10 vp).2)
      (vp.votes.map (·.2)) order = expectedRes vp := by
    rcases hres0 with hs | hr
    · -- a stuck voteproof carries no majority
      rcases hstuck with hns | hcond
      · simp [hs] at hns
      · have hnone := hcond.1.2
        simp [hm] at hnone
    · exact hr
  have hnodup := votersFor_nodup vp x hnd
  refine ⟨hnodup, ?_, ?_⟩
  · intro a ha
    unfold votersFor at ha
    obtain ⟨v, hvm, hva⟩ := List.mem_map.mp ha
    have hv1 := (List.mem_filter.mp hvm).1
    have := List.all_eq_true.mp hin v hv1
    simp only [List.contains_eq_mem, decide_eq_true_eq] at this
    subst hva
    unfold reduced at this
    split at this
    · exact this
    · exact (List.mem_filter.mp this).1
  · rw [votersFor_length]
    simp only [expectedRes, hm] at hres
    have hs := Mitum.C01.majority_sound _ _ _ _ x hres
    unfold isMajority at hs
    unfold reduced at hs
    by_cases he : vp.expels.isEmpty = true
    · simp only [he, if_true] at hs
      have hle := Mitum.C02.required_le_n S.length t10 ht'
      omega
    · simp only [he] at hs
      simp only [Bool.false_eq_true, if_false] at hs
      rw [Mitum.C02.required_full, Nat.min_self] at hs
      -- the reduced suffrage has at least n - k members
      have hpart := filter_partition S (fun y => vp.expelled.contains y)
      have hcap : (S.filter (fun y => vp.expelled.contains y)).length ≤ vp.expelled.length := by
        have hnde : vp.expelled.Nodup := by
          rcases hex with h | h
          · exact absurd h he
          · exact h.1.1
        apply nodup_subset_length_le
        · exact List.Nodup.sublist List.filter_sublist hS
        · intro a ha; have := (List.mem_filter.mp ha).2; simpa using this
      have hlen : vp.expelled.length = vp.expels.length := by simp [VP.expelled]
      have hq := Mitum.C02.required_le_n S.length t10 ht'
      omega

/-- **agreement_partial.**  With a threshold of at least 67 %, two voteproofs
accepted for the same suffrage — plain or expelling at most `n - required n t`
nodes each — whose majority facts are `x` and `y` have more than `n - required n t`
nodes that signed `x` in the one and `y` in the other.  So if at most that many
nodes sign two different facts, no two accepted voteproofs carry different majority
facts.  (Expel signatures play no role: they may come from any suffrage node.) -/
theorem agreement_partial (S : List Nat) (hS : S.Nodup) (t10 : Nat) (ht : 670 ≤ t10) (ht' : t10 ≤ 1000)
    (A B : VP) (oA oB : List String) (x y : String)
    (hA : validWith S t10 oA A = true) (hB : validWith S t10 oB B = true)
    (hAm : A.majority = some x) (hBm : B.majority = some y)
    (hkA : A.expels.length ≤ S.length - required S.length t10)
    (hkB : B.expels.length ≤ S.length - required S.length t10) :
    S.length - required S.length t10 < (equivocators A B x y).length := by
  obtain ⟨ha1, ha2, ha3⟩ := majority_voters S hS t10 ht' oA A x hA hAm hkA
  obtain ⟨hb1, hb2, hb3⟩ := majority_voters S hS t10 ht' oB B y hB hBm hkB
  have hie := inter_length (votersFor A x) (votersFor B y) S ha1 hb1 ha2 hb2
  have hn : 0 < S.length := by
    unfold validWith at hA
    simp only [Bool.and_eq_true] at hA
    have hne := hA.1.1.1.1.1.1
    have hin := hA.1.1.1.2
    cases hv : A.votes with
    | nil => simp [hv] at hne
    | cons v r =>
      have := List.all_eq_true.mp hin v (by simp [hv])
      simp only [List.contains_eq_mem, decide_eq_true_eq] at this
      have hmem : v.1 ∈ S := by
        unfold reduced at this
        split at this
        · exact this
        · exact (List.mem_filter.mp this).1
      exact List.length_pos_of_mem hmem
  have h3 := Mitum.C02.two_quorums_exceed S.length t10 ht hn
  unfold equivocators
  omega

/-- the plain case stated alone: two accepted voteproofs without expels -/
theorem agreement_plain (S : List Nat) (hS : S.Nodup) (t10 : Nat) (ht : 670 ≤ t10) (ht' : t10 ≤ 1000)
    (A B : VP) (oA oB : List String) (x y : String)
    (hA : validWith S t10 oA A = true) (hB : validWith S t10 oB B = true)
    (hAm : A.majority = some x) (hBm : B.majority = some y)
    (hAe : A.expels = []) (hBe : B.expels = []) :
    S.length - required S.length t10 < (equivocators A B x y).length :=
  agreement_partial S hS t10 ht ht' A B oA oB x y hA hB hAm hBm (by simp [hAe]) (by simp [hBe])

/-! ### the full statement is false: more expels than faulty nodes -/

def wS : List Nat := [1, 2, 3, 4]
def wA : VP := { votes := [(1, "X"), (2, "X"), (3, "X")], expels := [], majority := some "X" }
def wB : VP := { votes := [(3, "Y"), (4, "Y")],
                 expels := [{ node := 1, signers := [3, 4] }, { node := 2, signers := [3, 4] }],
                 majority := some "Y" }

/-- `n = 4`, `t = 67 %` (`required = 3`, one faulty node tolerated): a plain voteproof for
`X` and a voteproof for `Y` that expels two nodes are both accepted, and only node 3 signed
both facts.  (Known finding `C03:expel-count-exceeds-f`; replayed on the real validators.) -/
theorem agreement_expel_witness :
    valid wS 670 wA = true ∧ valid wS 670 wB = true ∧
    wS.length - required wS.length 670 = 1 ∧ equivocators wA wB "X" "Y" = [3] := by
  decide

/-- the code before the repair of `baseStuckVoteproof.isValid` accepted stuck voteproofs with any
majority found among their sign facts: two of them with different majorities and no equivocator -/
theorem stuck_old_code_witness :
    let A : VP := { votes := [(1, "A"), (2, "B"), (3, "B")], expels := [{ node := 4, signers := [1, 2, 3] }], majority := some "A", stuck := true }
    let B : VP := { A with majority := some "B" }
    valid [1, 2, 3, 4] 1000 A false = true ∧ valid [1, 2, 3, 4] 1000 B false = true ∧ equivocators A B "A" "B" = [] ∧
    valid [1, 2, 3, 4] 1000 A = false ∧ valid [1, 2, 3, 4] 1000 B = false := by
  decide

/-- non-vacuity of `agreement_partial`: accepted voteproofs exist in every shape it covers -/
example : valid [1, 2, 3, 4] 670 { votes := [(2, "X"), (3, "X"), (4, "X")], expels := [{ node := 1, signers := [2, 3, 4] }], majority := some "X" } = true := by
  decide

/-! ### the tie to the source -/

theorem facts_ok :
    Gen.C03.expelThresholdBranch = true ∧ Gen.C03.expelSignCountChecked = true ∧
    Gen.C03.expelsGiveMaxThreshold = true ∧ Gen.C03.everyExpelValidated = true ∧
    Gen.C03.nodeSignsDropOwnSign = true ∧ Gen.C03.recountChecksMembership = true ∧
    Gen.C03.stuckRejectsMajority = true ∧ Gen.C03.factPointCompared = true ∧
    Gen.C03.extractErrors = [] := by decide

theorem source_pinned : Gen.C03.pins = Pins.C03 := by decide

end Mitum.C03
