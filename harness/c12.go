package main

import (
	"encoding/json"
	"fmt"
	"strings"

	"github.com/spikeekips/mitum/util/fixedtree"
	"github.com/spikeekips/mitum/util/hint"
	"github.com/spikeekips/mitum/util/valuehash"
)

func init() { register("C12", runC12) }

var c12hint = hint.MustNewHint("c12-tree-v0.0.1")

func c12tree(keys []string) (fixedtree.Tree, error) {
	w, err := fixedtree.NewWriter(c12hint, uint64(len(keys)))
	if err != nil {
		return fixedtree.Tree{}, err
	}
	for i, k := range keys {
		if err := w.Add(uint64(i), fixedtree.NewBaseNode(k)); err != nil {
			return fixedtree.Tree{}, err
		}
	}
	return w.Tree()
}

// clone a tree's nodes (Tree.Set mutates the shared slice)
func c12clone(t fixedtree.Tree) fixedtree.Tree {
	ns := make([]fixedtree.Node, t.Len())
	copy(ns, t.Nodes())
	nt, _ := fixedtree.NewTree(c12hint, ns)
	return nt
}

func c12keys(n int, c *Ctx, long bool) []string {
	seen := map[string]bool{}
	var keys []string
	for len(keys) < n {
		l := 1 + c.Intn(3)
		if long { // keys longer than any key the repository itself uses (hash strings, UUIDs): 60..300 bytes
			l = 60 + c.Intn(241)
		}
		b := c.Bytes(l)
		for i := range b {
			b[i] = "abcdefgh"[int(b[i])%8]
		}
		if !seen[string(b)] {
			seen[string(b)] = true
			keys = append(keys, string(b))
		}
	}
	return keys
}

func runC12(c *Ctx) error {
	// 1. index arithmetic: float version against the model's Nat.log2 version
	maxIdx := uint64(1 << 14)
	if c.Thorough() {
		maxIdx = 1 << 20
	}
	idx := func(i uint64, size int) {
		h := fixedtree.VerifIndexHeight(i)
		ch, okc := fixedtree.VerifChildren(size, i)
		p, okp := fixedtree.VerifParent(i)
		cs, ps := "none", "none"
		if okc {
			cs = fmt.Sprintf("%d,%d", ch[0], ch[1])
			if ch[0] != 2*i+1 || ch[1] != 2*i+2 {
				c.Violation("C12:children-formula", fmt.Sprintf("children(%d,%d) = %v", size, i, ch), map[string]interface{}{"index": i, "size": size})
			}
		}
		if okp {
			ps = fmt.Sprint(p)
			if i == 0 || p != (i-1)/2 {
				c.Violation("C12:parent-formula", fmt.Sprintf("parent(%d) = %d", i, p), map[string]interface{}{"index": i})
			}
		}
		c.Case(fmt.Sprintf("idx %d %d", i, size), fmt.Sprintf("%d %s %s", h, cs, ps))
	}
	for i := uint64(0); i < maxIdx; i++ {
		if i < 3000 || i%97 == 0 || (i&(i+1)) == 0 || (i&(i+2)) == 0 || ((i+1)&(i+3)) == 0 {
			idx(i, int(2*i+2+i%3))
		} else {
			// oracle only
			ch, okc := fixedtree.VerifChildren(int(2*i+3), i)
			p, okp := fixedtree.VerifParent(i)
			c.Eval(1)
			if !okc || ch[0] != 2*i+1 || ch[1] != 2*i+2 || !okp || p != (i-1)/2 {
				c.Violation("C12:index-formula", fmt.Sprintf("index %d: children %v parent %d", i, ch, p), map[string]interface{}{"index": i})
			}
		}
	}
	for k := uint(15); k <= 46; k++ { // around powers of two up to 2^46 (float exactness bound)
		for d := -2; d <= 1; d++ {
			i := uint64(int64(1)<<k + int64(d))
			idx(i, 1<<62)
		}
	}
	// 2. trees, proofs, single-field mutations
	maxN := 24
	if c.Thorough() {
		maxN = 64
	}
	hxs := func(ks []string) string {
		o := make([]string, len(ks))
		for i, k := range ks {
			o[i] = hx([]byte(k))
		}
		return strings.Join(o, ",")
	}
	for n := 1; n <= maxN; n++ {
		long := n%8 == 5
		keys := c12keys(n, c, long)
		t, err := c12tree(keys)
		if err != nil {
			return err
		}
		base := "tree " + hxs(keys)
		// unmutated: valid, and every key's proof verifies
		valid := t.IsValid(nil) == nil
		if !valid {
			c.Violation("C12:generated-tree-invalid", base, map[string]interface{}{"keys": keys})
		}
		for ki, key := range keys {
			p, err := t.Proof(key)
			if err != nil {
				c.Violation("C12:proof-extract-failed", fmt.Sprintf("%s key %q: %v", base, key, err), map[string]interface{}{"keys": keys, "key": key})
				continue
			}
			perr := p.Prove(key)
			if perr != nil || p.IsValid(nil) != nil {
				c.Violation("C12:proof-of-valid-tree-fails", fmt.Sprintf("%s key %q: prove=%v isvalid=%v", base, key, perr, p.IsValid(nil)), map[string]interface{}{"keys": keys, "key": key})
			}
			c.Case(fmt.Sprintf("%s ; tm none ; pk %s ; pm none", base, hx([]byte(key))), fmt.Sprintf("%s %s %s", b01(valid), c12shape(p), b01(perr == nil)))
			if n >= 3 {
				c.Nontrivial(fmt.Sprintf("%s/%d", base, ki))
			}
			// the proof as it travels (JSON): an empty slot of the path must stay empty — written to carry a key that is
			// not in the tree, it must not prove that key
			if pb, err := json.Marshal(p); err == nil {
				var raw []json.RawMessage
				if json.Unmarshal(pb, &raw) == nil {
					for slot, nd := range p.Nodes() {
						if nd != nil && !nd.IsEmpty() {
							continue
						}
						for _, how := range []string{"empty-slot-with-key", "leaf-in-empty-slot"} {
							fraw := append([]json.RawMessage{}, raw...)
							fraw[slot] = json.RawMessage(`{"isempty":true,"key":"not-in-the-tree"}`)
							if how == "leaf-in-empty-slot" { // a complete, self-consistent leaf where the honest path has nothing
								lb, err := json.Marshal(fixedtree.NewBaseNode("not-in-the-tree").SetHash(valuehash.NewSHA256([]byte("not-in-the-tree"))))
								if err != nil {
									continue
								}
								fraw[slot] = lb
							}
							fb, _ := json.Marshal(fraw)
							var forged fixedtree.Proof
							if json.Unmarshal(fb, &forged) != nil {
								continue
							}
							c.Eval(1)
							c.Count("forged-empty-slot", how)
							if forged.IsValid(nil) == nil && forged.Prove("not-in-the-tree") == nil {
								c.Violation("C12:key-outside-the-tree-proved", fmt.Sprintf("%s: the proof of %q, sent as JSON with its empty slot %d rewritten (%s) to carry the key \"not-in-the-tree\", proves that key", base, key, slot, how),
									map[string]interface{}{"keys": keys, "key": key, "slot": slot, "how": how, "proof_json": string(fb)})
							}
						}
					}
				}
			}
			// proof mutations: every entry, key and hash
			pn := p.Nodes()
			for pos := range pn {
				if pn[pos] == nil || pn[pos].IsEmpty() {
					continue
				}
				if n > 12 && !c.Chance(1, 4) {
					continue
				}
				for _, kind := range []string{"key", "hashn", "hashg"} {
					mut := make([]fixedtree.Node, len(pn))
					copy(mut, pn)
					arg := ""
					switch kind {
					case "key":
						nk := "zz" + string(rune('a'+pos%20))
						mut[pos] = fixedtree.NewBaseNode(nk).SetHash(pn[pos].Hash())
						arg = hx([]byte(nk))
					case "hashn":
						j := c.Intn(n)
						if t.Node(uint64(j)).Hash().Equal(pn[pos].Hash()) {
							continue
						}
						mut[pos] = fixedtree.NewBaseNode(pn[pos].Key()).SetHash(t.Node(uint64(j)).Hash())
						arg = fmt.Sprint(j)
					case "hashg":
						mut[pos] = fixedtree.NewBaseNode(pn[pos].Key()).SetHash(valuehash.RandomSHA256())
						arg = "0"
					}
					mp := fixedtree.NewProof(mut)
					perr := mp.Prove(key)
					iv := mp.IsValid(nil)
					c.Case(fmt.Sprintf("%s ; tm none ; pk %s ; pm %s %d %s", base, hx([]byte(key)), kind, pos, arg), fmt.Sprintf("%s %s %s", b01(valid), c12shape(mp), b01(perr == nil)))
					if perr == nil && iv == nil {
						// undetected mutation: classify by whether the mutated entry is on the proven key's path
						onPath := pn[pos].Key() == key || pos == len(pn)-1 || c12onPath(keys, key, pn[pos].Key())
						cls := "C12:proof-mutation-undetected"
						if kind == "key" && !onPath {
							cls = "C12:proof-nonpath-key-not-bound"
						}
						c.Count("undetected", cls)
						c.Violation(cls, fmt.Sprintf("%s: proof of %q still verifies after %s mutation of entry %d (%q)", base, key, kind, pos, pn[pos].Key()),
							map[string]interface{}{"keys": keys, "key": key, "kind": kind, "pos": pos})
					}
				}
			}
		}
		// tree mutations: every node, key and hash
		for i := 0; i < n; i++ {
			for _, kind := range []string{"key", "hash", "hashg"} {
				mt := c12clone(t)
				if i%2 == 0 {
					_ = mt.IsValid(nil) // validated while intact: the verdict after the change must not be a remembered one
				}
				arg := ""
				old := t.Node(uint64(i))
				switch kind {
				case "key":
					nk := "yy" + string(rune('a'+i%20))
					if long { // only the last byte of the long key changes
						nk = old.Key()[:len(old.Key())-1] + map[bool]string{true: "q", false: "z"}[old.Key()[len(old.Key())-1] != 'q']
					}
					_ = mt.Set(uint64(i), fixedtree.NewBaseNode(nk).SetHash(old.Hash()))
					arg = hx([]byte(nk))
				case "hash":
					j := (i + 1 + c.Intn(n)) % n
					if j == i || t.Node(uint64(j)).Hash().Equal(old.Hash()) {
						continue
					}
					_ = mt.Set(uint64(i), fixedtree.NewBaseNode(old.Key()).SetHash(t.Node(uint64(j)).Hash()))
					arg = fmt.Sprint(j)
				case "hashg":
					_ = mt.Set(uint64(i), fixedtree.NewBaseNode(old.Key()).SetHash(valuehash.RandomSHA256()))
					arg = "0"
				}
				mv := mt.IsValid(nil) == nil
				c.Case(fmt.Sprintf("%s ; tm %s %d %s ; pk - ; pm none", base, kind, i, arg), fmt.Sprintf("%s - -", b01(mv)))
				if mv {
					c.Violation("C12:tree-mutation-undetected", fmt.Sprintf("%s: tree still valid after %s mutation of node %d", base, kind, i), map[string]interface{}{"keys": keys, "kind": kind, "node": i})
				}
				// root binds keys: regenerate the tree with the changed key
				if kind == "key" {
					k2 := append([]string{}, keys...)
					k2[i] = "yy" + string(rune('a'+i%20))
					t2, err := c12tree(k2)
					if err == nil && t2.Root().Equal(t.Root()) {
						c.Violation("C12:root-unchanged", fmt.Sprintf("%s: root unchanged after changing key of node %d", base, i), map[string]interface{}{"keys": keys, "node": i})
					}
				}
			}
		}
		if n%8 == 1 {
			c.Sample(map[string]interface{}{"keys": keys, "root": t.Root().String()})
		}
	}
	// larger sampled trees (oracle only)
	big := 5
	if c.Thorough() {
		big = 120
	}
	for bi := 0; bi < big; bi++ {
		n := 100 + c.Intn(1900)
		keys := make([]string, n)
		for i := range keys {
			keys[i] = fmt.Sprintf("k%d-%d", i, c.Intn(1000))
		}
		t, err := c12tree(keys)
		if err != nil {
			return err
		}
		if t.IsValid(nil) != nil {
			c.Violation("C12:generated-tree-invalid", fmt.Sprintf("size %d", n), map[string]interface{}{"size": n})
		}
		for s := 0; s < 40; s++ {
			key := keys[c.Intn(n)]
			p, err := t.Proof(key)
			c.Eval(1)
			if err != nil || p.Prove(key) != nil || p.IsValid(nil) != nil {
				c.Violation("C12:proof-of-valid-tree-fails", fmt.Sprintf("size %d key %s", n, key), map[string]interface{}{"size": n, "key": key})
			}
		}
	}
	return nil
}

// shape of a proof: keys of the entries ("-" for empty)
func c12shape(p fixedtree.Proof) string {
	var o []string
	for _, n := range p.Nodes() {
		if n == nil || n.IsEmpty() {
			o = append(o, "-")
		} else {
			o = append(o, hx([]byte(n.Key())))
		}
	}
	return strings.Join(o, ",")
}

// is `other` an ancestor of `key` in the tree with these keys (heap order)?
func c12onPath(keys []string, key, other string) bool {
	ki, oi := -1, -1
	for i, k := range keys {
		if k == key {
			ki = i
		}
		if k == other {
			oi = i
		}
	}
	for ki > 0 {
		ki = (ki - 1) / 2
		if ki == oi {
			return true
		}
	}
	return false
}
