package main

import (
	"context"
	"fmt"
	"sort"
	"strings"
	"sync"
	"sync/atomic"
	"time"

	"github.com/pkg/errors"
	"github.com/spikeekips/mitum/util"
)

func init() { register("C34", runC34) }

const c34ivl = 4 * time.Millisecond

type c34event struct {
	kind string // "C" callback started, "R" whenRemoved
	k    int
	n    uint64
	at   time.Time
}

type c34inst struct {
	k         int
	id        int
	oneshot   bool
	calls     int32 // intervalFunc calls so far
	completed int32 // callbacks completed
	fire      int32 // may be collected by iterate
	kArmed    int32
	kReached  chan struct{}
	kRelease  chan struct{}
	cGate     chan string
	regAt     time.Time
	lastEnd   time.Time
	stoppedAt time.Time // return of a StopTimers that removed this instance
	stopAtK   bool      // it was stopped while held between ctx check and callback
	mu        sync.Mutex
}

type c34world struct {
	ts      *util.SimpleTimers
	insts   []*c34inst
	ev      chan c34event
	held    map[int]bool
	inCb    map[int]bool
	latest  map[int]int  // id -> instance registered last (what the harness did)
	removed map[int]bool // instances whose whenRemoved was seen
	viol    []string
	closed  int32
}

func (w *c34world) newInst(id int, oneshot bool) *c34inst {
	in := &c34inst{k: len(w.insts), id: id, oneshot: oneshot, kReached: make(chan struct{}, 1), kRelease: make(chan struct{}), cGate: make(chan string, 1)}
	w.insts = append(w.insts, in)
	return in
}

func (w *c34world) register(in *c34inst) bool {
	ivf := func(n uint64) time.Duration {
		c := atomic.AddInt32(&in.calls, 1)
		done := uint64(atomic.LoadInt32(&in.completed))
		switch {
		case c == 1: // NewTimer
			return c34ivl
		case n == done: // prepare (inside iterate's traversal): hold the timer back until the script lets it fire
			if atomic.LoadInt32(&in.fire) == 0 {
				return 0
			}
			return c34ivl
		default: // run, after the ctx.Err() check, before the callback
			if atomic.CompareAndSwapInt32(&in.kArmed, 1, 0) {
				in.kReached <- struct{}{}
				<-in.kRelease
			}
			if in.oneshot {
				return 0
			}
			return c34ivl
		}
	}
	cb := func(_ context.Context, n uint64) (bool, error) {
		atomic.StoreInt32(&in.fire, 0)
		if atomic.LoadInt32(&w.closed) == 0 {
			w.ev <- c34event{kind: "C", k: in.k, n: n, at: time.Now()}
		}
		o := <-in.cGate
		in.mu.Lock()
		in.lastEnd = time.Now()
		in.mu.Unlock()
		atomic.AddInt32(&in.completed, 1)
		switch o {
		case "keep":
			return true, nil
		case "err":
			return false, errors.New("callback error")
		default:
			return false, nil
		}
	}
	tr := util.NewSimpleTimer(util.TimerID(fmt.Sprintf("t%d", in.id)), ivf, cb, func() {
		if atomic.LoadInt32(&w.closed) == 0 {
			w.ev <- c34event{kind: "R", k: in.k, at: time.Now()}
		}
	})
	in.regAt = time.Now()
	added, err := w.ts.NewTimer(tr)
	return added && err == nil
}

// waitEvent waits for an event satisfying want; other events are kept in order
func (w *c34world) drain(d time.Duration) []c34event {
	var evs []c34event
	if d > 0 {
		t := time.NewTimer(d)
		defer t.Stop()
		select {
		case e := <-w.ev:
			evs = append(evs, e)
		case <-t.C:
			return evs
		}
	}
	for { // whatever else is there already
		select {
		case e := <-w.ev:
			evs = append(evs, e)
		default:
			return evs
		}
	}
}

func (w *c34world) waitFor(kind string, k int, d time.Duration) (c34event, []c34event, bool) {
	var others []c34event
	deadline := time.After(d)
	for {
		select {
		case e := <-w.ev:
			if e.kind == kind && (k < 0 || e.k == k) {
				return e, others, true
			}
			others = append(others, e)
		case <-deadline:
			return c34event{}, others, false
		}
	}
}

func runC34(c *Ctx) error {
	n := 60
	if c.Thorough() {
		n = 1500
	}
	// fixed scenarios first: id reuse while the predecessor runs; stop between check and callback;
	// stop before the run; one-shot; error result
	fixed := [][]string{
		{"new:7:1", "waitC:0", "new:7:1", "rel:0:drop", "idle", "rel:1:keep", "idle"},
		{"new:7:1", "waitC:0", "new:7:1", "rel:0:err", "idle"},
		{"new:7:1", "waitC:0", "stop:7", "new:7:1", "rel:0:keep", "idle"},
		{"new:7:1", "waitK:0", "stop:7", "waitC:0", "rel:0:keep", "idle"},
		{"new:7:1", "stop:7", "idle", "waitC:0"},
		{"new:7:0", "waitC:0", "new:7:0", "rel:0:keep", "idle", "rel:1:keep", "idle"},
		{"new:7:1", "new:8:1", "waitC:0", "waitK:1", "stop:7", "rel:0:keep", "waitC:1", "rel:1:drop", "idle"},
	}
	for i := 0; i < len(fixed)+n; i++ {
		var script []string
		if i < len(fixed) {
			script = fixed[i]
		}
		c34run(c, script, i < len(fixed))
	}
	c34stress(c)
	return c34saturated(c)
}

// registrations racing with a timer loop that iterates as fast as it can: a timer
// registered with a one-hour interval must never start
func c34stress(c *Ctx) {
	regs := 30000
	if c.Thorough() {
		regs = 600000
	}
	ts, err := util.NewSimpleTimers(3, time.Nanosecond)
	if err != nil {
		return
	}
	ctx, cancel := context.WithCancel(context.Background())
	defer cancel()
	if err := ts.Start(ctx); err != nil {
		return
	}
	var started int32
	var first atomic.Value
	var wg sync.WaitGroup
	var done int64
	for g := 0; g < 4; g++ {
		wg.Add(1)
		go func(g int) {
			defer wg.Done()
			for atomic.AddInt64(&done, 1) <= int64(regs) && atomic.LoadInt32(&started) == 0 {
				id := util.TimerID(fmt.Sprintf("s%d", (int(atomic.LoadInt64(&done))+g)%5))
				at := time.Now()
				_, _ = ts.New(id, func(uint64) time.Duration { return time.Hour }, func(context.Context, uint64) (bool, error) {
					if atomic.CompareAndSwapInt32(&started, 0, 1) {
						first.Store(fmt.Sprintf("timer %q started %s after its registration, interval 1h", id, time.Since(at)))
					}
					return false, nil
				})
				if g == 0 && atomic.LoadInt64(&done)%7 == 0 {
					_ = ts.StopTimers([]util.TimerID{id})
				}
			}
		}(g)
	}
	wg.Wait()
	_ = ts.Stop()
	c.Eval(int(atomic.LoadInt64(&done)))
	c.Count("stress", "registrations-racing-iterate")
	if atomic.LoadInt32(&started) != 0 {
		c.Violation("C34:callback-before-interval", fmt.Sprint(first.Load()), map[string]interface{}{"stress": "4 goroutines registering 1-hour timers under 5 ids while the timer loop iterates continuously"})
	}
}

// c34run executes a script (or generates one on the fly when script == nil)
func c34run(c *Ctx, script []string, isFixed bool) {
	size := uint64(1)
	if c.Bool() {
		size = 3
	}
	ts, err := util.NewSimpleTimers(size, time.Millisecond)
	if err != nil {
		return
	}
	ctx, cancel := context.WithCancel(context.Background())
	defer cancel()
	if err := ts.Start(ctx); err != nil {
		return
	}
	w := &c34world{ts: ts, ev: make(chan c34event, 4096), held: map[int]bool{}, inCb: map[int]bool{}, latest: map[int]int{}, removed: map[int]bool{}}
	const long, short = 3 * time.Second, 30 * time.Millisecond
	bound := func(k int) bool { return w.latest[w.insts[k].id] == k && !w.removed[k] }
	var toks, outs []string
	nops := 4 + c.Intn(9)
	if script != nil {
		nops = len(script)
	}
	checkStart := func(e c34event) {
		in := w.insts[e.k]
		in.mu.Lock()
		base := in.regAt
		if e.n > 0 {
			base = in.lastEnd
		}
		stopped := in.stoppedAt
		atK := in.stopAtK
		in.mu.Unlock()
		c.Eval(1)
		if e.at.Sub(base) < c34ivl {
			c.Violation("C34:callback-before-interval", fmt.Sprintf("script %s: callback #%d of instance %d started %s after its reference time, interval %s", strings.Join(toks, " "), e.n, e.k, e.at.Sub(base), c34ivl),
				map[string]interface{}{"script": toks})
		}
		if !stopped.IsZero() && e.at.After(stopped) {
			cls := "C34:callback-started-after-stop"
			if atK {
				cls = "C34:stop-between-check-and-callback"
			}
			c.Violation(cls, fmt.Sprintf("script %s: callback of instance %d started %s after StopTimers had returned", strings.Join(toks, " "), e.k, e.at.Sub(stopped)),
				map[string]interface{}{"script": toks})
		}
		w.inCb[e.k] = true
	}
	noteOthers := func(evs []c34event, during string, expectR int) string {
		// returns the removals seen; flags removals nobody asked for
		var rs []string
		for _, e := range evs {
			switch e.kind {
			case "C":
				checkStart(e)
				c.Violation("C34:unscripted-callback", fmt.Sprintf("script %s: instance %d started a callback during %s", strings.Join(toks, " "), e.k, during), map[string]interface{}{"script": toks})
			case "R":
				rs = append(rs, fmt.Sprintf("R%d", e.k))
				w.removed[e.k] = true
				if expectR >= 0 && e.k != expectR {
					c.Violation("C34:remove-hit-successor", fmt.Sprintf("script %s: during %s the timer instance %d (a later registration under the same id) was removed", strings.Join(toks, " "), during, e.k),
						map[string]interface{}{"script": toks})
				}
			}
		}
		if len(rs) == 0 {
			return "-"
		}
		return strings.Join(rs, ",")
	}
	for st := 0; st < nops; st++ {
		var tok string
		if script != nil {
			tok = script[st]
		} else {
			tok = c34gen(c, w)
		}
		p := strings.Split(tok, ":")
		var out string
		switch p[0] {
		case "new":
			var id, next int
			fmt.Sscan(p[1], &id)
			fmt.Sscan(p[2], &next)
			in := w.newInst(id, next == 0)
			if w.register(in) {
				w.latest[id] = in.k
				out = fmt.Sprint(in.k)
			} else {
				out = "-"
			}
		case "waitK":
			var k int
			fmt.Sscan(p[1], &k)
			in := w.insts[k]
			wait := short
			if bound(k) && !w.inCb[k] && !w.held[k] { // it is registered and idle: it must come
				wait = long
			}
			atomic.StoreInt32(&in.kArmed, 1)
			atomic.StoreInt32(&in.fire, 1)
			select {
			case <-in.kReached:
				out = "K"
				w.held[k] = true
			case <-time.After(wait):
				if atomic.CompareAndSwapInt32(&in.kArmed, 1, 0) {
					out = "no"
				} else { // reached just now
					<-in.kReached
					out = "K"
					w.held[k] = true
				}
			}
			atomic.StoreInt32(&in.fire, 0)
		case "waitC":
			var k int
			fmt.Sscan(p[1], &k)
			in := w.insts[k]
			wait := short
			if w.held[k] || (bound(k) && !w.inCb[k]) {
				wait = long
			}
			atomic.StoreInt32(&in.fire, 1)
			if w.held[k] {
				delete(w.held, k)
				in.kRelease <- struct{}{}
			}
			if w.inCb[k] {
				out = "no"
			} else if e, others, ok := w.waitFor("C", k, wait); ok {
				checkStart(e)
				out = fmt.Sprintf("C%d", e.n)
				noteOthers(others, tok, -1)
			} else {
				out = "no"
				noteOthers(others, tok, -1)
			}
			atomic.StoreInt32(&in.fire, 0)
		case "rel":
			var k int
			fmt.Sscan(p[1], &k)
			in := w.insts[k]
			delete(w.inCb, k)
			in.cGate <- p[2]
			removal := p[2] != "keep" || in.oneshot
			wait := 2 * short // nothing should be removed (the instance is not registered any more): look for a wrong removal
			if removal && bound(k) {
				wait = long
			}
			if !removal {
				time.Sleep(2 * time.Millisecond)
			}
			out = noteOthers(w.drainSettled(removal, wait), tok, k)
		case "stop":
			var id int
			fmt.Sscan(p[1], &id)
			// which instance is (to the harness's knowledge) registered under id and held at K
			_ = w.ts.StopTimers([]util.TimerID{util.TimerID(fmt.Sprintf("t%d", id))})
			now := time.Now()
			evs := w.drain(0)
			for _, e := range evs {
				if e.kind == "R" {
					in := w.insts[e.k]
					in.mu.Lock()
					in.stoppedAt = now
					in.stopAtK = w.held[e.k]
					in.mu.Unlock()
				}
			}
			out = noteOthers(evs, tok, -1)
		case "idle":
			for _, in := range w.insts {
				if !w.held[in.k] {
					atomic.StoreInt32(&in.fire, 1)
				}
			}
			var started []int
			expect := map[int]bool{}
			for _, in := range w.insts {
				if bound(in.k) && !w.held[in.k] && !w.inCb[in.k] {
					expect[in.k] = true
				}
			}
			deadline := time.Now().Add(long)
			for len(expect) > 0 && time.Now().Before(deadline) {
				for _, e := range w.drain(5 * time.Millisecond) {
					if e.kind == "C" {
						checkStart(e)
						started = append(started, e.k)
						delete(expect, e.k)
					} else {
						w.removed[e.k] = true
						c.Violation("C34:remove-hit-successor", fmt.Sprintf("script %s: instance %d removed while idle", strings.Join(toks, " "), e.k), map[string]interface{}{"script": toks})
					}
				}
			}
			// nothing else may start
			for _, e := range w.drain(short) {
				if e.kind == "C" {
					checkStart(e)
					started = append(started, e.k)
				} else {
					w.removed[e.k] = true
				}
			}
			for _, in := range w.insts {
				atomic.StoreInt32(&in.fire, 0)
			}
			sort.Ints(started)
			var t []string
			for _, k := range started {
				t = append(t, fmt.Sprintf("C%d", k))
			}
			out = "-"
			if len(t) > 0 {
				out = strings.Join(t, ",")
			}
		}
		toks = append(toks, tok)
		outs = append(outs, out)
		c.Count("op", p[0])
	}
	// cleanup
	atomic.StoreInt32(&w.closed, 1)
	for _, in := range w.insts {
		atomic.StoreInt32(&in.kArmed, 0)
		select {
		case in.kRelease <- struct{}{}:
		default:
		}
		select {
		case in.cGate <- "drop":
		default:
		}
	}
	go func() { // keep releasing late arrivals until the timers are stopped
		for i := 0; i < 50; i++ {
			for _, in := range w.insts {
				select {
				case in.kRelease <- struct{}{}:
				default:
				}
				select {
				case in.cGate <- "drop":
				default:
				}
			}
			time.Sleep(time.Millisecond)
		}
	}()
	_ = ts.Stop()
	c.Case("seq "+strings.Join(toks, " "), strings.Join(outs, " "))
	c.Nontrivial(strings.Join(toks, " "))
	if isFixed {
		c.Sample(map[string]interface{}{"script": toks, "results": outs})
	}
}

// drainSettled collects events until a removal was seen (when one is expected) or a timeout
func (w *c34world) drainSettled(expectRemoval bool, wait time.Duration) []c34event {
	if !expectRemoval {
		return w.drain(0)
	}
	var evs []c34event
	deadline := time.After(wait)
	for {
		select {
		case e := <-w.ev:
			evs = append(evs, e)
			if e.kind == "R" {
				return append(evs, w.drain(0)...)
			}
		case <-deadline:
			return evs
		}
	}
}

func c34gen(c *Ctx, w *c34world) string {
	ids := []int{7, 8}
	for tries := 0; tries < 20; tries++ {
		switch c.Intn(10) {
		case 0, 1, 2:
			if len(w.insts) < 6 {
				next := 1
				if c.Chance(1, 3) {
					next = 0
				}
				return fmt.Sprintf("new:%d:%d", ids[c.Intn(2)], next)
			}
		case 3:
			if len(w.insts) > 0 {
				k := c.Intn(len(w.insts))
				if !w.held[k] && !w.inCb[k] {
					return fmt.Sprintf("waitK:%d", k)
				}
			}
		case 4, 5:
			if len(w.insts) > 0 {
				return fmt.Sprintf("waitC:%d", c.Intn(len(w.insts)))
			}
		case 6, 7:
			var ks []int
			for k := range w.inCb {
				ks = append(ks, k)
			}
			if len(ks) > 0 {
				sort.Ints(ks)
				return fmt.Sprintf("rel:%d:%s", ks[c.Intn(len(ks))], []string{"keep", "keep", "drop", "err"}[c.Intn(4)])
			}
		case 8:
			return fmt.Sprintf("stop:%d", ids[c.Intn(2)])
		default:
			return "idle"
		}
	}
	return "idle"
}

// more timers fall due in one tick than callbacks may run at once (the limit is 333), and the callbacks are slow: the
// ones that wait for a slot are stopped; when slots become free, none of the stopped timers' callbacks may start
func c34saturated(c *Ctx) error {
	ts, err := util.NewSimpleTimers(1, 50*time.Millisecond)
	if err != nil {
		return err
	}
	release := make(chan struct{})
	var mu sync.Mutex
	started := map[util.TimerID]bool{}
	stoppedNow := false
	var late []util.TimerID
	n := 333 + 47
	ids := make([]util.TimerID, n)
	for i := range ids {
		id := util.TimerID(fmt.Sprintf("t%03d", i))
		ids[i] = id
		if _, err := ts.New(id, func(uint64) time.Duration { return 10 * time.Millisecond }, func(context.Context, uint64) (bool, error) {
			mu.Lock()
			if stoppedNow {
				late = append(late, id)
				mu.Unlock()
				return false, nil
			}
			started[id] = true
			mu.Unlock()
			<-release
			return false, nil
		}); err != nil {
			return err
		}
	}
	if err := ts.Start(context.Background()); err != nil {
		return err
	}
	defer ts.Stop()
	time.Sleep(300 * time.Millisecond)
	var waiting []util.TimerID
	mu.Lock()
	for _, id := range ids {
		if !started[id] {
			waiting = append(waiting, id)
		}
	}
	mu.Unlock()
	c.Eval(1)
	c.Count("saturated", fmt.Sprintf("waiting-%d", len(waiting)))
	if len(waiting) == 0 { // every callback got a slot (another limit, a slow machine): nothing to learn
		close(release)
		return nil
	}
	if err := ts.StopTimers(waiting); err != nil {
		close(release)
		return err
	}
	mu.Lock()
	stoppedNow = true
	mu.Unlock()
	close(release)
	time.Sleep(300 * time.Millisecond)
	mu.Lock()
	defer mu.Unlock()
	isWaiting := map[util.TimerID]bool{}
	for _, id := range waiting {
		isWaiting[id] = true
	}
	bad := 0
	for _, id := range late {
		if isWaiting[id] {
			bad++
		}
	}
	if bad > 0 {
		c.Violation("C34:callback-started-after-stop", fmt.Sprintf("%d timers due in one tick with slow callbacks: %d wait for a slot and are stopped; after StopTimers returned and the slots were freed, %d of their callbacks started", n, len(waiting), bad),
			map[string]interface{}{"timers": n, "stopped_while_waiting": len(waiting), "started_after_stop": bad})
	}
	return nil
}
