package main

import "strings"

func init() { register("C16", genC16) }

func genC16(o *Out) {
	fb := o.pinFile("base/block.go", "IsValidProposalWithManifest", "IsValidOperationsTreeWithManifest", "IsValidStatesTreeWithManifest", "IsValidVoteproofsWithManifest", "IsValidGenesisOperation")
	fi := o.pinFile("isaac/block/importer.go", "BlockImporter.WriteItem", "BlockImporter.Save", "BlockImporter.importItem", "BlockImporter.importOperations",
		"BlockImporter.importStates", "BlockImporter.importStatesTree", "BlockImporter.importVoteproofs", "BlockImporter.importOther", "BlockImporter.isfinished")
	fv := o.pinFile("isaac/block/validator.go", "IsValidBlockFromLocalFS", "loadBlockItemsFromReader", "IsValidOperationsOfBlock", "IsValidStatesOfBlock", "isValidVoteproofsFromLocalFS")
	_ = o.pinFile("isaac/block/map.go", "BlockMap.IsValid", "BlockMap.checkItems")
	if fb == nil || fi == nil || fv == nil {
		return
	}
	body := func(f *File, recv, name string) string {
		fd := f.Func(recv, name)
		if fd == nil {
			o.errf("%s.%s not found", recv, name)
			return ""
		}
		return normSpace(f.Src(fd.Body))
	}
	ops := body(fb, "", "IsValidOperationsTreeWithManifest")
	sts := body(fb, "", "IsValidStatesTreeWithManifest")
	emptyCase := func(src, root string) bool {
		i := strings.Index(src, "case n < 1:")
		if i < 0 {
			return false
		}
		rest := src[i:]
		j := strings.Index(rest, "return nil")
		return j > 0 && strings.Contains(rest[:j], "manifest."+root+"() != nil") && strings.Contains(rest[:j], "return e.Errorf")
	}
	o.boolean("emptyRootChecked", emptyCase(ops, "OperationsTree") && emptyCase(sts, "StatesTree"))
	vps := body(fb, "", "IsValidVoteproofsWithManifest")
	o.boolean("majorityChecked", strings.Contains(vps, "avp.BallotMajority()") && strings.Contains(vps, "case m == nil: return e.Errorf") &&
		strings.Contains(vps, "case !m.NewBlock().Equal(manifest.Hash()): return e.Errorf"))
	// the importer: which of the manifest checks run before the block is saved
	all := ""
	for _, fd := range fi.AST.Decls {
		all += " " + normSpace(fi.Src(fd))
	}
	o.boolean("importerChecksVoteproofs", strings.Contains(body(fi, "BlockImporter", "importVoteproofs"), "base.IsValidVoteproofsWithManifest(vps, im.m.Manifest())"))
	o.boolean("importerChecksItems", strings.Contains(all, "IsValidProposalWithManifest(") && strings.Contains(all, "IsValidOperationsTreeWithManifest(") &&
		strings.Contains(all, "IsValidStatesTreeWithManifest("))
	val := body(fv, "", "IsValidBlockFromLocalFS")
	o.boolean("validatorChecksAll", strings.Contains(val, "base.IsValidProposalWithManifest(pr, bm.Manifest())") && strings.Contains(val, "IsValidOperationsOfBlock(") &&
		strings.Contains(val, "IsValidStatesOfBlock(") && strings.Contains(val, "isValidVoteproofsFromLocalFS(networkID, vps, bm.Manifest())") &&
		strings.Contains(body(fv, "", "IsValidOperationsOfBlock"), "base.IsValidOperationsTreeWithManifest(opstree, ops, manifest)") &&
		strings.Contains(body(fv, "", "IsValidStatesOfBlock"), "base.IsValidStatesTreeWithManifest(ststree, sts, manifest)") &&
		strings.Contains(body(fv, "", "isValidVoteproofsFromLocalFS"), "base.IsValidVoteproofsWithManifest(vps, m)"))
	// the own-validity pass of both gates: every operation and every state, not depending on the callbacks
	vo := body(fv, "", "IsValidOperationsOfBlock")
	o.boolean("validatorOpSelf", strings.Contains(vo, "if len(ops) > 0 { if err := util.BatchWork(context.Background(), int64(len(ops)), 333,") &&
		strings.Contains(vo, "op := ops[i] if err := op.IsValid(networkID); err != nil { return err }"))
	vs := body(fv, "", "IsValidStatesOfBlock")
	o.boolean("validatorStateSelf", strings.Contains(vs, "if len(sts) > 0 { if err := util.BatchWork(context.Background(), int64(len(sts)), 333,") &&
		strings.Contains(vs, "st := sts[i] if err := st.IsValid(networkID); err != nil { return err }"))
	io := body(fi, "BlockImporter", "importOperations")
	o.boolean("importerOpSelf", strings.HasPrefix(io, "{ validate := func(op base.Operation) error { return op.IsValid(im.networkID) } if im.m.Manifest().Height() == base.GenesisHeight { validate = func(op base.Operation) error { return base.IsValidGenesisOperation(op, im.networkID, im.m.Signer()) } }") &&
		strings.Contains(io, "default: if err := validate(op); err != nil { return err } ops[index] = op"))
	o.boolean("importerGenesisOpSelf", strings.HasPrefix(body(fb, "", "IsValidGenesisOperation"),
		"{ e := util.ErrInvalid.Errorf(\"genesis operation\") if err := op.IsValid(networkID); err != nil { return e.Wrap(err) }"))
	o.boolean("importerStateSelf", strings.Contains(body(fi, "BlockImporter", "importStates"), "default: if err := st.IsValid(nil); err != nil { return err }"))
}
