package main

import (
	"bytes"
	"encoding/hex"
	"fmt"
	"io"
	"strings"

	"github.com/spikeekips/mitum/util"
)

func init() { register("C29", runC29) }

func hx(b []byte) string {
	if len(b) == 0 {
		return "-"
	}
	return hex.EncodeToString(b)
}

func hxs(m [][]byte) string {
	if len(m) == 0 {
		return "[]"
	}
	s := make([]string, len(m))
	for i := range m {
		s[i] = hx(m[i])
	}
	return strings.Join(s, ",")
}

// chunkReader delivers the data in the given chunks; a Read never returns more than one
// chunk; empty chunks are (0, nil) reads; eofWithData returns io.EOF together with the last bytes.
type chunkReader struct {
	chunks      [][]byte
	eofWithData bool
}

func (r *chunkReader) Read(p []byte) (int, error) {
	if len(r.chunks) == 0 {
		return 0, io.EOF
	}
	c := r.chunks[0]
	n := copy(p, c)
	if n < len(c) {
		r.chunks[0] = c[n:]
	} else {
		r.chunks = r.chunks[1:]
	}
	if r.eofWithData && len(r.chunks) == 0 && n > 0 {
		return n, io.EOF
	}
	return n, nil
}

func c29safe(f func()) (panicked string) {
	defer func() {
		if r := recover(); r != nil {
			panicked = fmt.Sprint(r)
		}
	}()
	f()
	return ""
}

func c29eqLists(a, b [][]byte) bool {
	if len(a) != len(b) {
		return false
	}
	for i := range a {
		if !bytes.Equal(a[i], b[i]) {
			return false
		}
	}
	return true
}

// buffer decode on the real code + oracle "never drops or invents data"; returns the canonical line
func c29dec(c *Ctx, b []byte, toDriver bool, tag string) (items [][]byte, left []byte, ok bool) {
	var m [][]byte
	var l []byte
	var err error
	if p := c29safe(func() { m, l, err = util.ReadLengthedBytesSlice(b) }); p != "" {
		c.Violation("C29:panic", "ReadLengthedBytesSlice panicked: "+p, map[string]string{"buf": hx(b)})
		if toDriver {
			c.Case("dec "+hx(b), "panic")
		}
		return nil, nil, false
	}
	c.Count("buf-"+tag, map[bool]string{true: "ok", false: "error"}[err == nil])
	line := "err"
	if err == nil {
		line = fmt.Sprintf("ok %s left=%s", hxs(m), hx(l))
		// soundness: re-encoding what was returned must reproduce the input exactly
		var w bytes.Buffer
		werr := util.WriteLengthedSlice(&w, m)
		re := append(w.Bytes(), l...)
		if werr != nil || !bytes.Equal(re, b) {
			cls := "C29:decode-unsound"
			if len(b) >= 8 && len(m) == 0 && len(l) == 0 && len(b) > 8 {
				cls = "C29:huge-count-silent-success"
			}
			show := b
			if len(show) > 64 {
				show = show[:64]
			}
			c.Violation(cls, fmt.Sprintf("read of %d bytes succeeded with %d items and %d bytes left, which is not an encoding of the input", len(b), len(m), len(l)),
				map[string]interface{}{"buf_prefix": hx(show), "buf_len": len(b)})
		}
	}
	if toDriver {
		c.Case("dec "+hx(b), line)
	} else {
		c.Eval(1)
	}
	return m, l, err == nil
}

func c29stream(c *Ctx, chunks [][]byte, eofWithData bool, toDriver bool) (items [][]byte, ok bool) {
	cp := make([][]byte, len(chunks))
	copy(cp, chunks)
	r := &chunkReader{chunks: cp, eofWithData: eofWithData}
	var read uint64
	var hs [][]byte
	var err error
	if p := c29safe(func() { read, hs, err = util.ReadLengthedSlice(r) }); p != "" {
		c.Violation("C29:panic", "ReadLengthedSlice panicked: "+p, map[string]interface{}{"chunks": len(chunks)})
		return nil, false
	}
	line := "err"
	if err == nil {
		line = fmt.Sprintf("ok %d %s", read, hxs(hs))
	}
	if toDriver {
		var cs []string
		for _, ch := range chunks {
			cs = append(cs, hx(ch))
		}
		c.Case("str "+strings.Join(cs, " "), line)
	} else {
		c.Eval(1)
	}
	return hs, err == nil
}

func (c *Ctx) c29chunks(b []byte) [][]byte {
	var chunks [][]byte
	for len(b) > 0 {
		n := 1 + c.Intn(12)
		if c.Chance(1, 6) {
			n = 1 + c.Intn(len(b))
		}
		if n > len(b) {
			n = len(b)
		}
		if c.Chance(1, 10) {
			chunks = append(chunks, []byte{})
		}
		chunks = append(chunks, b[:n])
		b = b[n:]
	}
	return chunks
}

func runC29(c *Ctx) error {
	nlists := 400
	if c.Thorough() {
		nlists = 8000
	}
	var keptBytes, keptCopy []byte
	var keptItems string
	for i := 0; i < nlists; i++ {
		n := c.Intn(6)
		if c.Chance(1, 5) {
			n = c.Intn(40)
		}
		m := make([][]byte, n)
		for j := range m {
			l := c.Intn(5)
			if c.Chance(1, 8) {
				l = c.Intn(40)
			}
			m[j] = c.Bytes(l)
		}
		var w bytes.Buffer
		if err := util.WriteLengthedSlice(&w, m); err != nil {
			return err
		}
		enc := append([]byte{}, w.Bytes()...)
		// the one-call encoder: the same bytes, and they stay what they are while later lists are encoded
		if nb, err := util.NewLengthedBytesSlice(m); err != nil || !bytes.Equal(nb, enc) {
			c.Violation("C29:encoders-differ", fmt.Sprintf("NewLengthedBytesSlice and WriteLengthedSlice encode a list of %d items differently (err %v)", len(m), err), map[string]string{"items": hxs(m)})
		} else {
			if keptBytes != nil && !bytes.Equal(keptBytes, keptCopy) {
				c.Violation("C29:encoded-bytes-change-later", fmt.Sprintf("the bytes NewLengthedBytesSlice returned for %s read %s after one more list was encoded", keptItems, hx(keptBytes)),
					map[string]string{"items": keptItems, "then_encoded": hxs(m)})
			}
			keptBytes, keptCopy, keptItems = nb, append([]byte{}, nb...), hxs(m)
			c.Eval(1)
		}
		rest := c.Bytes(c.Intn(4))
		c.Case("enc "+hxs(m), hx(enc))
		// round trip with leftover
		got, left, ok := c29dec(c, append(append([]byte{}, enc...), rest...), true, "roundtrip")
		if !ok || !c29eqLists(got, m) || !bytes.Equal(left, rest) {
			c.Violation("C29:roundtrip", fmt.Sprintf("list of %d items does not read back", len(m)), map[string]string{"items": hxs(m), "rest": hx(rest)})
		}
		c.Nontrivial("rt " + hxs(m))
		if i%100 == 0 {
			c.Sample(map[string]string{"items": hxs(m), "encoded": hx(enc)})
		}
		c.Count("items", fmt.Sprintf("%02d", n/5*5))
		// every truncation
		if len(enc) <= 120 || c.Thorough() && len(enc) <= 400 {
			for k := 0; k < len(enc); k++ {
				if _, _, ok := c29dec(c, enc[:k], k%3 == 0, "truncation"); ok {
					c.Violation("C29:truncation-accepted", fmt.Sprintf("prefix of length %d of an encoding of length %d is accepted", k, len(enc)), map[string]string{"prefix": hx(enc[:k]), "items": hxs(m)})
				}
			}
		}
		// byte flips
		for k := 0; k < 6 && len(enc) > 0; k++ {
			mut := append([]byte{}, enc...)
			pos := c.Intn(len(mut))
			if c.Chance(1, 2) && len(mut) >= 8 {
				pos = c.Intn(8) // the count word
			}
			mut[pos] ^= byte(1 << uint(c.Intn(8)))
			c29dec(c, mut, true, "flip")
		}
		// chunked stream must agree with the buffer reader
		for k := 0; k < 3; k++ {
			chunks := c.c29chunks(enc)
			hs, ok := c29stream(c, chunks, c.Bool(), true)
			if !ok || !c29eqLists(hs, m) {
				c.Violation("C29:stream-differs", fmt.Sprintf("chunked read of an encoding of %d items fails or differs", len(m)), map[string]string{"items": hxs(m)})
			}
		}
		// truncated streams must be errors (count > 0)
		if len(enc) > 8 && len(m) > 0 {
			k := 8 + c.Intn(len(enc)-8)
			if _, ok := c29stream(c, c.c29chunks(enc[:k]), c.Bool(), true); ok {
				c.Violation("C29:stream-truncation-accepted", fmt.Sprintf("stream truncated at %d of %d accepted", k, len(enc)), map[string]string{"items": hxs(m)})
			}
		}
	}
	// noise
	nn := 2000
	if c.Thorough() {
		nn = 60000
	}
	for i := 0; i < nn; i++ {
		b := c.Bytes(c.Intn(40))
		if len(b) >= 8 && c.Chance(3, 4) { // plausible count word
			copy(b, []byte{0, 0, 0, 0, 0, 0, 0, byte(c.Intn(4))})
		}
		if len(b) >= 16 && c.Chance(3, 4) {
			copy(b[8:], []byte{0, 0, 0, 0, 0, 0, 0, byte(c.Intn(6))})
		}
		c29dec(c, b, true, "noise")
		c29stream(c, c.c29chunks(b), c.Bool(), true)
	}
	// extreme length words (uint64 wrap-around candidates) in the count and in item lengths
	extremes := []uint64{0xFFFFFFFFFFFFFFFF, 0xFFFFFFFFFFFFFFF8, 0xFFFFFFFFFFFFFFF9, 0xFFFFFFFFFFFFFFF0, 1 << 63, 1<<63 - 1, 1 << 32, 1<<32 - 8, 1<<31 - 1, 1 << 31, 32767, 32768, 65535}
	for _, x := range extremes {
		for _, y := range extremes {
			for tail := 0; tail <= 9; tail += 3 {
				b := append([]byte{}, util.Uint64ToBytes(x)...)
				c29dec(c, append(append([]byte{}, b...), c.Bytes(tail)...), true, "extreme-count")
				// count 1 or 2, first item length extreme
				for _, cnt := range []uint64{1, 2} {
					bb := append(util.Uint64ToBytes(cnt), util.Uint64ToBytes(y)...)
					bb = append(bb, c.Bytes(tail)...)
					c29dec(c, bb, true, "extreme-item")
					if y != 1<<31-1 { // an accepted 2 GiB announcement only allocates; not fed to the stream reader
						c29stream(c, c.c29chunks(bb), false, true)
					}
				}
			}
		}
		// a valid first item followed by an extreme second length
		bb := append(util.Uint64ToBytes(2), util.Uint64ToBytes(3)...)
		bb = append(bb, 1, 2, 3)
		bb = append(bb, util.Uint64ToBytes(x)...)
		bb = append(bb, c.Bytes(5)...)
		c29dec(c, bb, true, "extreme-item")
		if x != 1<<31-1 {
			c29stream(c, c.c29chunks(bb), true, true)
		}
	}
	// the count limit: 32767 is the largest list; above it the writer must refuse, and a
	// buffer announcing more must be an error
	for _, n := range []int{32766, 32767, 32768, 40000} {
		m := make([][]byte, n)
		for j := range m {
			if j%1000 == 0 {
				m[j] = []byte{byte(j / 1000)}
			}
		}
		var w bytes.Buffer
		werr := util.WriteLengthedSlice(&w, m)
		c.Count("limit", fmt.Sprintf("n=%d writer-error=%v", n, werr != nil))
		if werr == nil {
			got, _, ok := c29dec(c, w.Bytes(), false, "limit")
			if !ok || !c29eqLists(got, m) {
				c.Violation("C29:huge-count-silent-success", fmt.Sprintf("a list of %d items is written without error (%d bytes) but reads back as %d items (ok=%v)", n, w.Len(), len(got), ok),
					map[string]interface{}{"items": n})
			}
			hs, ok := c29stream(c, c.c29chunks(w.Bytes()), false, false)
			if !ok || !c29eqLists(hs, m) {
				c.Violation("C29:limit-stream-differs", fmt.Sprintf("a list of %d items is written without error but the stream reader fails", n), map[string]interface{}{"items": n})
			}
		}
		// hand-made buffer announcing n items
		b := append(util.Uint64ToBytes(uint64(n)), bytes.Repeat([]byte{0, 0, 0, 0, 0, 0, 0, 0}, 3)...)
		c29dec(c, b, true, "limit-announce")
	}
	return nil
}
