package main

import (
	"fmt"
	"runtime"
	"strings"
	"sync"
	"time"

	"github.com/spikeekips/mitum/base"
	"github.com/spikeekips/mitum/isaac"
	isaacdatabase "github.com/spikeekips/mitum/isaac/database"
	isaacstates "github.com/spikeekips/mitum/isaac/states"
	leveldbstorage "github.com/spikeekips/mitum/storage/leveldb"
	"github.com/spikeekips/mitum/util"
	"github.com/spikeekips/mitum/util/valuehash"
)

func init() { register("C08", runC08) }

// a BallotBroadcaster that lets the harness decide when each delivery passes its two points:
// the check (Ballot) and the broadcast (Broadcast); everything else is the real broadcaster
type c08gate struct {
	real  *isaacstates.DefaultBallotBroadcaster
	mu    sync.Mutex
	gated bool
	ready chan string // "c<fact>" when a delivery has read the pool, "b<fact>" when it asks to broadcast
	pass  map[string][]chan struct{}
}

func (g *c08gate) gate(tok string) {
	if !g.gated {
		return
	}
	ch := make(chan struct{})
	g.mu.Lock()
	g.pass[tok] = append(g.pass[tok], ch)
	g.mu.Unlock()
	g.ready <- tok
	<-ch
}

// lets the oldest waiting delivery with this token through
func (g *c08gate) releaseOne(tok string) {
	g.mu.Lock()
	var ch chan struct{}
	if q := g.pass[tok]; len(q) > 0 {
		ch, g.pass[tok] = q[0], q[1:]
	}
	g.mu.Unlock()
	if ch != nil {
		close(ch)
	}
}

type c08env struct {
	env    *c19env
	local  base.LocalNode
	others []base.LocalNode
	gate   *c08gate
	mimic  func(base.Ballot)
	mu     sync.Mutex
	sent   []string // what reached the network, in order: "<key>=<fact number>"
	factNo map[string]int
}

// a ballot pool whose reads work and whose writes fail from the `okWrites`-th write on (a full disk)
type c08failingPool struct {
	isaac.BallotPool
	mu       sync.Mutex
	okWrites int
}

func (p *c08failingPool) SetBallot(bl base.Ballot) (bool, error) {
	p.mu.Lock()
	left := p.okWrites
	if p.okWrites > 0 {
		p.okWrites--
	}
	p.mu.Unlock()
	if left <= 0 {
		return false, fmt.Errorf("no space left on device")
	}
	return p.BallotPool.SetBallot(bl)
}

func c08new(gated bool) (*c08env, error) { return c08newPool(gated, -1) }

// okWrites < 0: a healthy pool
func c08newPool(gated bool, okWrites int) (*c08env, error) {
	env, err := c19newEnv()
	if err != nil {
		return nil, err
	}
	tpool, err := isaacdatabase.NewTempPool(leveldbstorage.NewMemStorage(), env.encs, env.enc, 0)
	if err != nil {
		return nil, err
	}
	var pool isaac.BallotPool = tpool
	if okWrites >= 0 {
		pool = &c08failingPool{BallotPool: tpool, okWrites: okWrites}
	}
	e := &c08env{env: env, local: base.RandomLocalNode(), factNo: map[string]int{}}
	for i := 0; i < 4; i++ {
		e.others = append(e.others, base.RandomLocalNode())
	}
	real := isaacstates.NewDefaultBallotBroadcaster(e.local.Address(), pool, func(bl base.Ballot) error {
		e.mu.Lock()
		defer e.mu.Unlock()
		if !bl.SignFact().Node().Equal(e.local.Address()) {
			return nil
		}
		sc := 0
		if isaac.IsSuffrageConfirmBallotFact(bl.SignFact().Fact()) {
			sc = 1
		}
		e.sent = append(e.sent, fmt.Sprintf("%d.%d.%s.%d=%d", bl.Point().Height(), bl.Point().Round(), bl.Point().Stage(), sc, e.factNo[c08factKey(bl)]))
		return nil
	})
	e.gate = &c08gate{real: real, gated: gated, ready: make(chan string, 64), pass: map[string][]chan struct{}{}}
	mimic, err := isaacstates.VerifNewMimic(hNetworkID, e.local, isaacstates.StateSyncing, c08broadcaster{e})
	if err != nil {
		return nil, err
	}
	e.mimic = mimic
	return e, nil
}

// what makes two ballots of one stage point different ballots: the fact without its signer
func c08factKey(bl base.Ballot) string {
	return bl.SignFact().Fact().Hash().String()
}

type c08broadcaster struct{ e *c08env }

func (b c08broadcaster) Ballot(point base.Point, stage base.Stage, sc bool) (base.Ballot, bool, error) {
	bl, found, err := b.e.gate.real.Ballot(point, stage, sc)
	return bl, found, err
}

func (b c08broadcaster) Broadcast(bl base.Ballot) error {
	b.e.gate.gate(fmt.Sprintf("b%d", b.e.factNo[c08factKey(bl)]))
	return b.e.gate.real.Broadcast(bl)
}

// an INIT ballot of `node` for the stage point, with fact number `no` (different numbers = different proposals)
func (e *c08env) ballot(node base.LocalNode, point base.Point, no int, prev util.Hash, proposals map[int]util.Hash) base.Ballot {
	if _, ok := proposals[no]; !ok {
		proposals[no] = valuehash.RandomSHA256()
	}
	fact := isaac.NewINITBallotFact(point, prev, proposals[no], nil)
	e.factNo[fact.Hash().String()] = no
	sf := isaac.NewINITBallotSignFact(fact)
	_ = sf.NodeSign(node.Privatekey(), hNetworkID, node.Address())
	// the previous ACCEPT voteproof every INIT ballot carries
	afact := isaac.NewACCEPTBallotFact(base.NewPoint(point.Height()-1, 0), valuehash.RandomSHA256(), prev, nil)
	asf := isaac.NewACCEPTBallotSignFact(afact)
	_ = asf.NodeSign(node.Privatekey(), hNetworkID, node.Address())
	avp := isaac.NewACCEPTVoteproof(afact.Point().Point)
	avp.SetMajority(afact).SetSignFacts([]base.BallotSignFact{asf}).SetThreshold(base.Threshold(100)).Finish()
	return isaac.NewINITBallot(avp, sf, nil)
}

// an ACCEPT ballot of `node` for the stage point: fact number `no` picks the new block (sync sources that disagree on it)
func (e *c08env) acceptBallot(node base.LocalNode, point base.Point, no int, prev util.Hash, proposals map[int]util.Hash) base.Ballot {
	if _, ok := proposals[0]; !ok {
		proposals[0] = valuehash.RandomSHA256()
	}
	if _, ok := proposals[1000+no]; !ok {
		proposals[1000+no] = valuehash.RandomSHA256()
	}
	fact := isaac.NewACCEPTBallotFact(point, proposals[0], proposals[1000+no], nil)
	e.factNo[fact.Hash().String()] = no
	sf := isaac.NewACCEPTBallotSignFact(fact)
	_ = sf.NodeSign(node.Privatekey(), hNetworkID, node.Address())
	// the INIT voteproof of the same point every ACCEPT ballot carries
	ifact := isaac.NewINITBallotFact(point, prev, proposals[0], nil)
	isf := isaac.NewINITBallotSignFact(ifact)
	_ = isf.NodeSign(node.Privatekey(), hNetworkID, node.Address())
	ivp := isaac.NewINITVoteproof(point)
	ivp.SetMajority(ifact).SetSignFacts([]base.BallotSignFact{isf}).SetThreshold(base.Threshold(100)).Finish()
	return isaac.NewACCEPTBallot(ivp, sf, nil)
}

// a suffrage-confirm INIT ballot of `node`: fact number `no` picks the expel facts (sync sources that disagree on them)
func (e *c08env) scBallot(node base.LocalNode, point base.Point, no int, prev, proposal util.Hash, expels map[int]util.Hash) base.Ballot {
	if _, ok := expels[no]; !ok {
		expels[no] = valuehash.RandomSHA256()
	}
	fact := isaac.NewSuffrageConfirmBallotFact(point, prev, proposal, []util.Hash{expels[no]})
	e.factNo[fact.Hash().String()] = no
	sf := isaac.NewINITBallotSignFact(fact)
	_ = sf.NodeSign(node.Privatekey(), hNetworkID, node.Address())
	return isaac.NewINITBallot(nil, sf, nil)
}

// 3. one delivery after the other: plain and suffrage-confirm ballots of one point, over a healthy pool and over a
// pool whose writes fail
func c08sequences(c *Ctx) error {
	n := 150
	if c.Thorough() {
		n = 3000
	}
	for i := 0; i < n; i++ {
		okWrites := -1
		if c.Chance(1, 3) {
			okWrites = c.Intn(3)
		}
		e, err := c08newPool(false, okWrites)
		if err != nil {
			return err
		}
		point := base.NewPoint(base.Height(int64(33+c.Intn(10))), base.Round(uint64(c.Intn(2))))
		prev, proposal := valuehash.RandomSHA256(), valuehash.RandomSHA256()
		proposals, expels := map[int]util.Hash{1: proposal}, map[int]util.Hash{}
		k := 2 + c.Intn(4)
		var desc []string
		for j := 0; j < k; j++ {
			no := 1 + c.Intn(3)
			node := e.others[j%len(e.others)]
			if c.Chance(2, 5) {
				desc = append(desc, fmt.Sprintf("sc%d", no))
				e.mimic(e.scBallot(node, point, no, prev, proposal, expels))
			} else {
				desc = append(desc, fmt.Sprintf("i%d", no))
				e.mimic(e.ballot(node, point, no, prev, proposals))
			}
		}
		time.Sleep(500 * time.Microsecond)
		e.mu.Lock()
		sent := append([]string{}, e.sent...)
		e.mu.Unlock()
		// the same deliveries on the model: the facts sent for the plain and for the suffrage-confirm stage point
		{
			var ps, ss []string
			for _, x := range sent {
				i := strings.Index(x, "=")
				if strings.HasSuffix(x[:i], ".1") {
					ss = append(ss, x[i+1:])
				} else {
					ps = append(ps, x[i+1:])
				}
			}
			j := func(l []string) string {
				if len(l) == 0 {
					return "-"
				}
				return strings.Join(l, ",")
			}
			ok := "-"
			if okWrites >= 0 {
				ok = fmt.Sprint(okWrites)
			}
			var ds []string
			for _, x := range desc {
				ds = append(ds, strings.Replace(x, "sc", "s", 1))
			}
			c.Case(fmt.Sprintf("seq %s ; %s", ok, strings.Join(ds, " ")), fmt.Sprintf("plain=%s sc=%s", j(ps), j(ss)))
		}
		pooldesc := "healthy pool"
		if okWrites >= 0 {
			pooldesc = fmt.Sprintf("pool whose writes fail after %d", okWrites)
		}
		c.Count("sequences", map[bool]string{true: "healthy-pool", false: "failing-pool"}[okWrites < 0])
		c.Count("sequence-sent", fmt.Sprint(len(sent)))
		c08oracle(c, sent, fmt.Sprintf("deliveries %v one after the other (i = INIT, sc = suffrage confirm, number = fact), %s", desc, pooldesc),
			map[string]interface{}{"deliveries": desc, "ok_writes": okWrites})
		c.Nontrivial(fmt.Sprintf("seq %v %d", desc, okWrites))
	}
	return nil
}

func runC08(c *Ctx) error {
	// 1. scheduled deliveries: the harness fixes the order of the check and broadcast steps of 2..4 deliveries
	n := 120
	if c.Thorough() {
		n = 3000
	}
	for i := 0; i < n; i++ {
		e, err := c08new(true)
		if err != nil {
			return err
		}
		k := 2 + c.Intn(3)
		point := base.NewPoint(base.Height(int64(33+c.Intn(10))), base.Round(uint64(c.Intn(2))))
		prev := valuehash.RandomSHA256()
		proposals := map[int]util.Hash{}
		accept := i%3 == 2 // every third schedule delivers ACCEPT ballots (sync sources that disagree on the new block)
		c.Count("scheduled-stage", map[bool]string{true: "ACCEPT", false: "INIT"}[accept])
		// facts of the deliveries: mostly different proposals, sometimes the same
		facts := make([]int, k)
		for j := range facts {
			facts[j] = 1 + j
			if j > 0 && c.Chance(1, 4) {
				facts[j] = facts[c.Intn(j)]
			}
		}
		// the check of a delivery is its call of Ballot: it cannot be gated from outside the States without
		// also gating the pool, so the schedule is expressed by *when each delivery is started* (its check runs
		// at once) and when its broadcast is let through
		var sched []string
		started, done := map[int]bool{}, map[int]bool{}
		var pendingB []int
		var order []string
		for len(done) < k {
			var choices []string
			for j := 0; j < k; j++ {
				if !started[j] {
					choices = append(choices, fmt.Sprintf("c%d", j))
				}
			}
			for _, j := range pendingB {
				choices = append(choices, fmt.Sprintf("b%d", j))
			}
			pick := choices[c.Intn(len(choices))]
			var j int
			fmt.Sscanf(pick[1:], "%d", &j)
			if pick[0] == 'c' {
				started[j] = true
				bl := e.ballot(e.others[j%len(e.others)], point, facts[j], prev, proposals)
				if accept {
					bl = e.acceptBallot(e.others[j%len(e.others)], point, facts[j], prev, proposals)
				}
				finished := make(chan struct{})
				go func() {
					e.mimic(bl)
					close(finished)
				}()
				// wait until the delivery either asks to broadcast or returns without doing so
				tok := fmt.Sprintf("b%d", facts[j])
				select {
				case got := <-e.gate.ready:
					if got != tok {
						return fmt.Errorf("unexpected gate token %s, expected %s", got, tok)
					}
					pendingB = append(pendingB, j)
					order = append(order, fmt.Sprintf("c%d", j))
				case <-finished:
					done[j] = true
					order = append(order, fmt.Sprintf("c%d", j))
				case <-time.After(5 * time.Second):
					return fmt.Errorf("delivery %d did not reach its broadcast", j)
				}
			} else {
				// let the broadcast of delivery j through and wait for it to finish
				e.mu.Lock()
				before := len(e.sent)
				e.mu.Unlock()
				e.gate.releaseOne(fmt.Sprintf("b%d", facts[j]))
				for t := 0; t < 5000; t++ {
					e.mu.Lock()
					l := len(e.sent)
					e.mu.Unlock()
					if l > before {
						break
					}
					time.Sleep(200 * time.Microsecond)
				}
				for x, y := range pendingB {
					if y == j {
						pendingB = append(pendingB[:x], pendingB[x+1:]...)
						break
					}
				}
				done[j] = true
				order = append(order, fmt.Sprintf("b%d", j))
			}
			sched = order
		}
		time.Sleep(2 * time.Millisecond)
		e.mu.Lock()
		sent := append([]string{}, e.sent...)
		e.mu.Unlock()
		var fs []string
		for _, f := range facts {
			fs = append(fs, fmt.Sprint(f))
		}
		var nums []string
		for _, s := range sent {
			nums = append(nums, s[strings.Index(s, "=")+1:])
		}
		out := "-"
		if len(nums) > 0 {
			out = strings.Join(nums, ",")
		}
		c08oracle(c, sent, fmt.Sprintf("deliveries with facts %v, schedule %v", facts, sched), map[string]interface{}{"facts": facts, "schedule": sched})
		c.Case(fmt.Sprintf("sched %s ; %s", strings.Join(fs, ","), strings.Join(sched, " ")), out)
		c.Nontrivial(strings.Join(fs, ",") + "/" + strings.Join(sched, " "))
		c.Count("deliveries", fmt.Sprint(k))
		if i%40 == 0 {
			c.Sample(map[string]interface{}{"facts": facts, "schedule": sched, "sent": sent})
		}
	}
	// 2. free running: 2..6 deliveries at once, different stage points mixed in
	rounds := 150
	if c.Thorough() {
		rounds = 4000
	}
	for r := 0; r < rounds; r++ {
		e, err := c08new(false)
		if err != nil {
			return err
		}
		k := 2 + c.Intn(5)
		prev := valuehash.RandomSHA256()
		proposals := map[int]util.Hash{}
		var wg sync.WaitGroup
		start := make(chan struct{})
		var desc []string
		for j := 0; j < k; j++ {
			point := base.NewPoint(base.Height(int64(33+c.Intn(2))), 0)
			bl := e.ballot(e.others[j%len(e.others)], point, 1+c.Intn(3), prev, proposals)
			if r%3 == 2 {
				bl = e.acceptBallot(e.others[j%len(e.others)], point, 1+c.Intn(3), prev, proposals)
			}
			desc = append(desc, fmt.Sprintf("%d:%d", point.Height(), e.factNo[c08factKey(bl)]))
			wg.Add(1)
			go func() {
				defer wg.Done()
				<-start
				runtime.Gosched()
				e.mimic(bl)
			}()
		}
		close(start)
		wg.Wait()
		time.Sleep(time.Millisecond)
		e.mu.Lock()
		sent := append([]string{}, e.sent...)
		e.mu.Unlock()
		c.Eval(1)
		c.Count("free-running", fmt.Sprintf("deliveries-%d", k))
		c08oracle(c, sent, fmt.Sprintf("%d concurrent deliveries %v", k, desc), map[string]interface{}{"deliveries": desc})
	}
	return c08sequences(c)
}

// at most one fact per (stage point, suffrage-confirm flag) ever reaches the network
func c08oracle(c *Ctx, sent []string, what string, input map[string]interface{}) {
	first := map[string]string{}
	for _, s := range sent {
		i := strings.Index(s, "=")
		key, fact := s[:i], s[i+1:]
		if f, ok := first[key]; ok && f != fact {
			input["sent"] = sent
			c.Violation("C08:local-node-broadcasts-two-facts", fmt.Sprintf("%s: the local node broadcast fact %s and fact %s for %s", what, f, fact, key), input)
			return
		}
		first[key] = fact
	}
}
