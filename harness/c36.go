package main

import (
	"context"
	"fmt"
	"net"
	"strings"
	"time"

	"github.com/spikeekips/mitum/base"
	"github.com/spikeekips/mitum/launch"
	"github.com/spikeekips/mitum/util"
	"github.com/spikeekips/mitum/util/valuehash"
)

func init() { register("C36", runC36) }

func c36rule(burst int) launch.RateLimiterRule { return launch.NewRateLimiterRule(time.Hour, burst) }
func c36map(burst int) launch.RateLimiterRuleMap {
	r := c36rule(burst)
	return launch.NewRateLimiterRuleMap(&r, nil)
}

type c36rules struct {
	clientids map[string]int // id -> burst
	nets      [][2]int       // (net index, burst or 0 = no rule for the handler)
	nodes     map[int]int    // node index -> burst
	suffrage  int            // burst or 0
	members   []int
	defmap    int
}

func runC36(c *Ctx) error {
	nodes := []base.Address{base.RandomAddress("n0-"), base.RandomAddress("n1-"), base.RandomAddress("n2-")}
	_, netA, _ := net.ParseCIDR("10.1.0.0/16")
	_, netB, _ := net.ParseCIDR("10.1.2.0/24")
	_, netC, _ := net.ParseCIDR("10.9.0.0/16")
	allNets := []*net.IPNet{netA, netB, netC}
	addrs := []*net.UDPAddr{
		{IP: net.ParseIP("10.1.2.3"), Port: 1},    // in A and B
		{IP: net.ParseIP("10.1.9.9"), Port: 2},    // in A
		{IP: net.ParseIP("10.9.0.1"), Port: 3},    // in C
		{IP: net.ParseIP("192.168.0.1"), Port: 4}, // in none
	}
	addrNets := [][]int{{0, 1}, {0}, {2}, {}}
	clientIDs := []string{"", "c1", "c2", "c3"}
	nhist := 250
	if c.Thorough() {
		nhist = 6000
	}
	statehash := valuehash.RandomSHA256()
	for hi := 0; hi < nhist; hi++ {
		// random rule sets
		var rs c36rules
		rules := launch.NewRateLimiterRules()
		var rt []string
		if c.Chance(3, 4) {
			rs.clientids = map[string]int{}
			m := map[string]launch.RateLimiterRuleMap{}
			for i, id := range clientIDs[1:3] {
				if c.Chance(2, 3) {
					rs.clientids[id] = 1000 + i
					m[id] = c36map(1000 + i)
				}
			}
			_ = rules.SetClientIDRuleSet(launch.NewClientIDRateLimiterRuleSet(m))
			var t []string
			for _, id := range clientIDs[1:3] {
				if b, ok := rs.clientids[id]; ok {
					t = append(t, fmt.Sprintf("%s=%d", id, b))
				}
			}
			rt = append(rt, "C:"+strings.Join(t, ","))
		} else {
			rt = append(rt, "C:-")
		}
		if c.Chance(3, 4) {
			ns := launch.NewNetRateLimiterRuleSet()
			order := c.Perm(3)
			var t []string
			for _, ni := range order {
				if c.Chance(1, 4) {
					continue
				}
				b := 2000 + ni
				if c.Chance(1, 5) { // a net whose map has no rule for the handler
					ns.Add(allNets[ni], launch.NewRateLimiterRuleMap(nil, map[string]launch.RateLimiterRule{"other": c36rule(9)}))
					rs.nets = append(rs.nets, [2]int{ni, 0})
					t = append(t, fmt.Sprintf("%d=0", ni))
					continue
				}
				ns.Add(allNets[ni], c36map(b))
				rs.nets = append(rs.nets, [2]int{ni, b})
				t = append(t, fmt.Sprintf("%d=%d", ni, b))
			}
			_ = rules.SetNetRuleSet(ns)
			rt = append(rt, "N:"+strings.Join(t, ","))
		} else {
			rt = append(rt, "N:-")
		}
		if c.Chance(1, 2) {
			rs.nodes = map[int]int{}
			m := map[string]launch.RateLimiterRuleMap{}
			var t []string
			for i := range nodes[:2] {
				if c.Chance(2, 3) {
					rs.nodes[i] = 3000 + i
					m[nodes[i].String()] = c36map(3000 + i)
					t = append(t, fmt.Sprintf("%d=%d", i, 3000+i))
				}
			}
			_ = rules.SetNodeRuleSet(launch.NewNodeRateLimiterRuleSet(m))
			rt = append(rt, "D:"+strings.Join(t, ","))
		} else {
			rt = append(rt, "D:-")
		}
		{
			var mem []string
			for i := range nodes {
				if c.Chance(1, 2) {
					rs.members = append(rs.members, i)
					mem = append(mem, fmt.Sprint(i))
				}
			}
			members := append([]int{}, rs.members...)
			rules.SetIsInConsensusNodesFunc(func() (util.Hash, func(base.Address) bool, error) {
				return statehash, func(a base.Address) bool {
					for _, i := range members {
						if nodes[i].Equal(a) {
							return true
						}
					}
					return false
				}, nil
			})
			if c.Chance(2, 3) {
				rs.suffrage = 4000
				sr := launch.NewSuffrageRateLimiterRuleSet(c36map(4000))
				_ = rules.SetSuffrageRuleSet(sr)
				rt = append(rt, "S:4000/"+strings.Join(mem, ","))
			} else {
				_ = rules.SetSuffrageRuleSet(launch.NewSuffrageRateLimiterRuleSet(launch.NewRateLimiterRuleMap(nil, nil)))
				rt = append(rt, "S:0/"+strings.Join(mem, ","))
			}
		}
		rs.defmap = 5000
		_ = rules.SetDefaultRuleMap(c36map(5000))
		rt = append(rt, "M:5000")
		args := launch.NewRateLimitHandlerArgs()
		args.Rules = rules
		h, err := launch.NewRateLimitHandler(args)
		if err != nil {
			return err
		}
		var toks, outs []string
		nodeOf := map[int]int{} // addr -> node index
		lastHint := map[int]string{}
		hintsSeen := map[int]int{} // number of hint changes on the address so far
		nsteps := 3 + c.Intn(10)
		for st := 0; st < nsteps; st++ {
			ai := c.Intn(len(addrs))
			if c.Chance(1, 5) {
				ni := c.Intn(len(nodes))
				// AddNode takes effect only for an address that already has a limiter and no node yet
				if h.AddNode(addrs[ai], nodes[ni]) {
					nodeOf[ai] = ni
				}
				toks = append(toks, fmt.Sprintf("n:%d:%d", ai, ni))
				outs = append(outs, "-")
				continue
			}
			cid := clientIDs[c.Intn(len(clientIDs))]
			if c.Chance(1, 2) {
				cid = ""
			}
			ctx := context.WithValue(context.Background(), launch.RateLimiterLimiterNameContextKey, "h")
			if cid != "" {
				ctx = context.WithValue(ctx, launch.RateLimiterClientIDContextKey, cid)
			}
			var res launch.RateLimiterResult
			_, _ = h.Func(ctx, addrs[ai], func(ctx context.Context) (context.Context, error) {
				if f, ok := ctx.Value(launch.RateLimiterResultContextKey).(func() launch.RateLimiterResult); ok {
					res = f()
				}
				return ctx, nil
			})
			burst := strings.SplitN(res.Limiter, "/", 2)[0]
			toks = append(toks, fmt.Sprintf("r:%d:%s", ai, map[bool]string{true: "-", false: cid}[cid == ""]))
			outs = append(outs, res.RulesetType+"/"+burst)
			// oracle: the documented precedence, computed here
			wantT, wantB := c36select(rs, addrNets[ai], cid, nodeOf, ai)
			if res.RulesetType != wantT || burst != fmt.Sprint(wantB) {
				hintNow := fmt.Sprintf("%s/%d", cid, nodeIdx(nodeOf, ai))
				cls := "C36:wrong-rule"
				// the cached limiter may stem from any earlier request of this address made under another hint
				if prev, ok := lastHint[ai]; ok && (prev != hintNow || hintsSeen[ai] > 1) && c36shortCircuitType(res.RulesetType, c36isMember(rs.members, nodeOf, ai)) {
					cls = "C36:cached-limiter-hides-higher-precedence-rule"
				}
				c.Violation(cls, fmt.Sprintf("rules %s; history %s: served by %s/%s, precedence says %s/%d", strings.Join(rt, " "), strings.Join(toks, " "), res.RulesetType, burst, wantT, wantB),
					map[string]interface{}{"rules": rt, "history": toks})
			}
			if hn := fmt.Sprintf("%s/%d", cid, nodeIdx(nodeOf, ai)); lastHint[ai] != hn {
				hintsSeen[ai]++
				lastHint[ai] = hn
			}
		}
		c.Case("seq "+strings.Join(rt, " ")+" ; "+strings.Join(toks, " "), strings.Join(outs, " "))
		if len(toks) >= 4 {
			c.Nontrivial(strings.Join(rt, " ") + strings.Join(toks, " "))
		}
		if hi%60 == 0 {
			c.Sample(map[string]interface{}{"rules": rt, "history": toks, "served_by": outs})
		}
	}
	// token bucket: bursts against the real x/time/rate limiter through RateLimiter.Allow
	trials := 30
	if c.Thorough() {
		trials = 400
	}
	for i := 0; i < trials; i++ {
		burst := 1 + c.Intn(20)
		per := time.Duration(20+c.Intn(80)) * time.Millisecond // `burst` tokens per `per`
		rule := launch.NewRateLimiterRule(per, burst)
		l := launch.NewRateLimiter(rule.Limit, rule.Burst, "", "t", "")
		start := time.Now()
		allowed := 0
		n := burst*3 + c.Intn(40)
		for k := 0; k < n; k++ {
			if l.Allow() {
				allowed++
			}
			if c.Chance(1, 6) {
				time.Sleep(time.Duration(c.Intn(3)) * time.Millisecond)
			}
		}
		window := time.Since(start)
		bound := float64(burst) + float64(rule.Limit)*window.Seconds() + 1 // one token of tolerance for clock granularity
		c.Eval(n)
		if float64(allowed) > bound {
			c.Violation("C36:bucket-bound-exceeded", fmt.Sprintf("burst %d, %d tokens per %s: %d allowed in %s (bound %.2f)", burst, burst, per, allowed, window, bound), map[string]interface{}{"burst": burst, "per": per.String()})
		}
	}
	if err := c36busy(c); err != nil {
		return err
	}
	if err := c36evicted(c); err != nil {
		return err
	}
	return c36dynamic(c)
}

func nodeIdx(m map[int]int, ai int) int {
	if n, ok := m[ai]; ok {
		return n
	}
	return -1
}

func c36select(rs c36rules, nets []int, cid string, nodeOf map[int]int, ai int) (string, int) {
	if cid != "" && rs.clientids != nil {
		if b, ok := rs.clientids[cid]; ok {
			return "clientid", b
		}
	}
	for _, n := range rs.nets {
		in := false
		for _, x := range nets {
			if x == n[0] {
				in = true
			}
		}
		if in {
			if n[1] != 0 {
				return "net", n[1]
			}
			break
		}
	}
	if ni, ok := nodeOf[ai]; ok {
		if rs.nodes != nil {
			if b, ok := rs.nodes[ni]; ok {
				return "node", b
			}
		}
		if rs.suffrage != 0 {
			for _, m := range rs.members {
				if m == ni {
					return "suffrage", rs.suffrage
				}
			}
		}
	}
	return "defaultmap", rs.defmap
}

// an address that was bound to a node and then pushed out of the pool by newer addresses (MaxAddrs) is a stranger
// when it comes back: without a new challenge it is served by the default map, not by the node's rule
func c36evicted(c *Ctx) error {
	trials := 2
	if c.Thorough() {
		trials = 10
	}
	for i := 0; i < trials; i++ {
		node := base.RandomAddress("n-")
		args := launch.NewRateLimitHandlerArgs()
		args.ExpireAddr = 10 * time.Minute
		args.ShrinkInterval = 15 * time.Millisecond
		args.MaxAddrs = uint64(1 + c.Intn(3))
		args.Rules = launch.NewRateLimiterRules()
		if err := args.Rules.SetNodeRuleSet(launch.NewNodeRateLimiterRuleSet(map[string]launch.RateLimiterRuleMap{node.String(): c36map(3000)})); err != nil {
			return err
		}
		if err := args.Rules.SetDefaultRuleMap(c36map(5000)); err != nil {
			return err
		}
		h, err := launch.NewRateLimitHandler(args)
		if err != nil {
			return err
		}
		if err := h.Start(context.Background()); err != nil {
			return err
		}
		ask := func(addr net.Addr) string {
			ctx := context.WithValue(context.Background(), launch.RateLimiterLimiterNameContextKey, "h")
			var res launch.RateLimiterResult
			_, _ = h.Func(ctx, addr, func(ctx context.Context) (context.Context, error) {
				if f, ok := ctx.Value(launch.RateLimiterResultContextKey).(func() launch.RateLimiterResult); ok {
					res = f()
				}
				return ctx, nil
			})
			return res.RulesetType + "/" + strings.SplitN(res.Limiter, "/", 2)[0]
		}
		a := &net.UDPAddr{IP: net.IPv4(10, 7, byte(i), 1), Port: 1000}
		first := ask(a)
		bound := h.AddNode(a, node)
		asNode := ask(a)
		// newer addresses, more than the pool keeps
		var others []*net.UDPAddr
		for j := 0; j < int(args.MaxAddrs)+3; j++ {
			o := &net.UDPAddr{IP: net.IPv4(10, 8, byte(i), byte(j+1)), Port: 2000 + j}
			others = append(others, o)
			_ = ask(o)
			time.Sleep(2 * time.Millisecond)
		}
		time.Sleep(6 * args.ShrinkInterval)
		// the oldest of the newer addresses is gone too (AddNode only binds an address the pool knows): then so is `a`
		gone := !h.AddNode(others[0], base.RandomAddress("x-"))
		back := ask(a)
		_ = h.Stop()
		c.Eval(1)
		c.Count("evicted-address", fmt.Sprintf("first=%s bound=%v node=%s evicted=%v back=%s", first, bound, asNode, gone, back))
		if !bound || asNode != "node/3000" || !gone {
			continue // the scenario did not come about (no violation is claimed)
		}
		if back != "defaultmap/5000" {
			c.Violation("C36:evicted-address-keeps-its-node", fmt.Sprintf("MaxAddrs %d: an address bound to a node (served by %s), pushed out of the pool by %d newer addresses, is served by %s when it comes back without a challenge; the default map (defaultmap/5000) applies to an unknown address",
				args.MaxAddrs, asNode, len(others), back), map[string]interface{}{"max_addrs": args.MaxAddrs, "newer_addresses": len(others)})
		}
	}
	return nil
}

// a busy address under the running handler (its shrink ticker drops addresses that were idle for ExpireAddr): an
// address that keeps sending must keep its limiter, so the requests let through stay within burst + rate x window
func c36busy(c *Ctx) error {
	trials := 2
	if c.Thorough() {
		trials = 12
	}
	for i := 0; i < trials; i++ {
		burst := 1 + c.Intn(3)
		args := launch.NewRateLimitHandlerArgs()
		args.ExpireAddr = 300 * time.Millisecond
		args.ShrinkInterval = 40 * time.Millisecond
		args.Rules = launch.NewRateLimiterRules()
		rule := launch.NewRateLimiterRule(time.Hour, burst) // no refill within the run
		if err := args.Rules.SetDefaultRuleMap(launch.NewRateLimiterRuleMap(&rule, nil)); err != nil {
			return err
		}
		h, err := launch.NewRateLimitHandler(args)
		if err != nil {
			return err
		}
		if err := h.Start(context.Background()); err != nil {
			return err
		}
		addr := &net.UDPAddr{IP: net.IPv4(10, 1, 2, byte(3+i)), Port: 4321}
		ctx := context.WithValue(context.Background(), launch.RateLimiterLimiterNameContextKey, "h")
		allowed, n := 0, 0
		start := time.Now()
		last := start
		var maxGap time.Duration
		for time.Since(start) < 900*time.Millisecond {
			passed := false
			_, _ = h.Func(ctx, addr, func(ctx context.Context) (context.Context, error) {
				passed = true
				return ctx, nil
			})
			if passed {
				allowed++
			}
			n++
			now := time.Now()
			if g := now.Sub(last); g > maxGap {
				maxGap = g
			}
			last = now
			time.Sleep(time.Duration(5+c.Intn(10)) * time.Millisecond)
		}
		window := time.Since(start)
		_ = h.Stop()
		c.Eval(n)
		if maxGap >= args.ExpireAddr/2 { // the harness itself stalled: the address may rightly have been taken for idle
			c.Count("busy-address", "skipped-stalled")
			continue
		}
		c.Count("busy-address", "judged")
		bound := float64(burst) + float64(rule.Limit)*window.Seconds() + 1
		if float64(allowed) > bound {
			c.Violation("C36:busy-address-loses-its-limiter", fmt.Sprintf("an address sending every 5..15 ms for %s (longest gap %s, ExpireAddr %s, shrink every %s) under the rule %d per hour: %d of %d requests let through (bound %.2f)",
				window, maxGap, args.ExpireAddr, args.ShrinkInterval, burst, allowed, n, bound), map[string]interface{}{"burst": burst, "expire_addr": args.ExpireAddr.String(), "requests": n})
		}
	}
	return nil
}
