import MitumModel.Common
import MitumModel.Model.Vote
import MitumModel.Model.Threshold
import MitumModel.Model.Voteproof
/-
Model of what the ballotbox does with the sign facts of ONE stage point when no ballot
carries expels (isaac/states/ballotbox.go: Ballotbox.vote → voterecords.vote,
countVoterecords → voterecords.count → countFromVoted → Threshold.VoteResult, newVoteproof).
Every call runs under the record's lock (and counting under `countLock`), so each is one
atomic step.

A signer is a number: `a` (1 ≤ a ≤ 99) is the suffrage node with address `a` signing with its
own key, `100 + a` is somebody else's key under the address `a`, other numbers are addresses
outside the suffrage.  `checkBallot` looks at the address only; `keyChecked` says whether
`voterecords.vote` also compares the signer's key with the suffrage's (extracted fact).
The stage-point filters (`last.Before`, `isNewBallot`) are C05/C06's subject: here the stage
point is one the box is voting on.
-/
namespace Mitum.BallotCount
open Mitum.Vote Mitum.Threshold Mitum.Voteproof

structure Rec where
  voted : List (Nat × String)      -- (signer, fact), in arrival order
  emitted : List VP                -- voteproofs handed to the consumer, oldest first
  finished : Bool
deriving Repr, DecidableEq

def emptyRec : Rec := { voted := [], emitted := [], finished := false }

def addrOf (signer : Nat) : Nat := if 100 < signer ∧ signer < 200 then signer - 100 else signer

inductive Op where
  | vote (signer : Nat) (fact : String)
  /-- `Ballotbox.VoteSignFact` (the SendBallots handler): no `checkBallot` in front -/
  | voteSF (signer : Nat) (fact : String)
  | count
deriving Repr, DecidableEq

/-- `countFromVoted`: the result of the recount decides; NOT YET emits nothing.  `empty f` says that `f` is an
    empty-proposal (INIT) or empty-operations (ACCEPT) ballot fact: `baseVoteproof.SetMajority` does not set such
    a fact as the majority, so the voteproof that is finished reads DRAW -/
def countRec (empty : String → Bool) (S : List Nat) (t10 : Nat) (order : List String → List String) (r : Rec) : Rec :=
  if r.finished || r.voted.isEmpty then r
  else
    let facts := r.voted.map (·.2)
    match findVoteResult S.length (required S.length t10) facts (order facts) with
    | .majority f => { r with emitted := r.emitted ++ [{ votes := r.voted, expels := [], majority := if empty f then none else some f }], finished := true }
    | .draw => { r with emitted := r.emitted ++ [{ votes := r.voted, expels := [], majority := none }], finished := true }
    | .notYet => r

/-- one atomic step; a vote is counted at once (the deferred count of `Ballotbox.vote`) -/
def step (empty : String → Bool) (keyChecked : Bool) (S : List Nat) (t10 : Nat) (order : List String → List String) (r : Rec) : Op → Rec
  | .vote signer fact =>
    if r.finished then r
    else if !S.contains (addrOf signer) then r                              -- checkBallot: address not in the suffrage
    else if (r.voted.map (fun v => addrOf v.1)).contains (addrOf signer) then r   -- isVoted
    else if keyChecked && !S.contains signer then r                          -- the signer's key is not the node's
    else countRec empty S t10 order { r with voted := r.voted ++ [(signer, fact)] }
  | .voteSF signer fact =>
    if r.finished then r
    else if (r.voted.map (fun v => addrOf v.1)).contains (addrOf signer) then r
    else if keyChecked && !S.contains signer then r
    else countRec empty S t10 order { r with voted := r.voted ++ [(signer, fact)] }
  | .count => countRec empty S t10 order r

def run (empty : String → Bool) (keyChecked : Bool) (S : List Nat) (t10 : Nat) (order : List String → List String) (r : Rec) : List Op → Rec
  | [] => r
  | o :: os => run empty keyChecked S t10 order (step empty keyChecked S t10 order r o) os

/-- no empty-proposal facts in play -/
def noEmpty : String → Bool := fun _ => false

end Mitum.BallotCount
