import MitumModel.Model.LastPoint
/-
Model of `isaac.LastVoteproofs` / `LastVoteproofsHandler` (isaac/last_voteproofs.go): the last INIT and
the last ACCEPT voteproof a node has seen, `Cap` (the newer of the two by height and round), `IsNew`, `Set`
and `fillMissing`.  A voteproof is the position `LastPoint` keeps of it (stage point, majority, suffrage
confirm).  The LRU cache of earlier pairs enters `fillMissing` only through two bits.
-/
namespace Mitum.LastVPs
open Mitum.LastPoint

/-- `LastVoteproofs` (isaac/last_voteproofs.go): the last INIT and the last ACCEPT voteproof, each as the
    position `LastPoint` keeps of it -/
structure H where
  ivp : Option LP
  avp : Option LP
deriving Repr, DecidableEq

/-- `Point.Compare a i < 0`: height, then round -/
def pointLt (a i : Pt) : Bool := decide (a.h < i.h) || (decide (a.h = i.h) && decide (a.r < i.r))

/-- `LastVoteproofs.Cap` = `findLastVoteproofs(ivp, avp)` -/
def cap (s : H) : Option LP :=
  match s.ivp, s.avp with
  | none, a => a
  | some i, none => some i
  | some i, some a => if pointLt a.pt i.pt then some i else some a

/-- `LastVoteproofsHandler.IsNew` -/
def isNew (s : H) (vp : LP) : Bool := isNewVoteproofByPoint (cap s) vp.pt vp.maj vp.sc

/-- `fillMissing`: a voteproof that is not new may fill an empty slot next to the reference: the INIT voteproof of
    the ACCEPT reference's point, or the ACCEPT voteproof of the height below the INIT reference.  `ci`, `ca`: the
    LRU cache already holds an INIT / ACCEPT voteproof for the reference's point -/
def fill (ci ca : Bool) (s : H) (vp : LP) : H :=
  match cap s with
  | none => s
  | some l =>
    let s1 : H :=
      if !ci && l.pt.acc && !vp.pt.acc && decide (l.pt.h = vp.pt.h ∧ l.pt.r = vp.pt.r) && s.ivp.isNone
      then { s with ivp := some vp } else s
    if !ca && !l.pt.acc && vp.pt.acc && decide (l.pt.h = vp.pt.h + 1) && s1.avp.isNone
    then { s1 with avp := some vp } else s1

/-- `LastVoteproofsHandler.Set` -/
def setVP (ci ca : Bool) (s : H) (vp : LP) : H × Bool :=
  if isNew s vp then
    ((if vp.pt.acc then { s with avp := some vp } else { s with ivp := some vp }), true)
  else (fill ci ca s vp, false)

def WF (s : H) : Prop :=
  (∀ i, s.ivp = some i → i.pt.acc = false) ∧ (∀ a, s.avp = some a → a.pt.acc = true)

/-- the new voteproof lies strictly before the reference inside its height -/
def detour (s : H) (vp : LP) : Bool :=
  match cap s with
  | none => false
  | some l => backward l vp.pt

/-- the handler and the last accepted voteproof, side by side -/
def track (ci ca : Bool) : H × Option LP → List LP → H × Option LP
  | st, [] => st
  | (s, ref), vp :: rest =>
    track ci ca ((setVP ci ca s vp).1, if isNew s vp then some vp else ref) rest

/-- no accepted voteproof of the sequence lies before the reference of its moment inside its height -/
def noDetour (ci ca : Bool) : H → List LP → Bool
  | _, [] => true
  | s, vp :: rest => !(isNew s vp && detour s vp) && noDetour ci ca (setVP ci ca s vp).1 rest

end Mitum.LastVPs
