package main

import (
	"fmt"
	"strings"

	"github.com/spikeekips/mitum/util"
	"github.com/spikeekips/mitum/util/hint"
)

func init() { register("C31", runC31) }

func runC31(c *Ctx) error {
	alphabet := []byte("a1-v_+")
	versions := []string{"v0.0.1", "v1.2.3", "v10.20.30", "v1.0.0-alpha", "v1.0.0-v2", "v2.0.0+meta"}
	vers := make([]util.Version, len(versions))
	for i, s := range versions {
		v, err := util.ParseVersion(s)
		if err != nil {
			return err
		}
		vers[i] = v
	}
	maxLen := 5
	if c.Thorough() {
		maxLen = 6
	}
	one := func(t string) {
		valid := hint.Type(t).IsValid(nil) == nil
		c.Case("ty "+t, b01(valid))
		if !valid {
			c.Count("type", "invalid")
			return
		}
		c.Count("type", "valid")
		for vi, v := range vers {
			if len(t) > 4 && vi > 2 && (len(t)+vi)%3 != 0 {
				continue // thin out the long types
			}
			ht := hint.NewHint(hint.Type(t), v)
			s := ht.String()
			parsed, err := hint.ParseHint(s)
			res := "err"
			if err == nil {
				res = fmt.Sprintf("%s %s", parsed.Type(), parsed.Version())
				if perr := parsed.IsValid(nil); perr == nil {
					if string(parsed.Type()) != t || parsed.Version().String() != v.String() {
						cls := "C31:parse-differs"
						if strings.Contains(t, "-v") {
							cls = "C31:first-match-split"
						}
						c.Violation(cls, fmt.Sprintf("hint (%s, %s) prints %q which parses as the valid hint (%s, %s)", t, v, s, parsed.Type(), parsed.Version()),
							map[string]string{"type": t, "version": v.String(), "printed": s})
					}
				} else {
					c.Violation("C31:printed-hint-unparsable", fmt.Sprintf("hint (%s, %s) prints %q which parses to an invalid hint: %v", t, v, s, perr), map[string]string{"type": t, "version": v.String()})
				}
			} else {
				c.Violation("C31:printed-hint-unparsable", fmt.Sprintf("hint (%s, %s) prints %q: %v", t, v, s, err), map[string]string{"type": t, "version": v.String()})
			}
			c.Case(fmt.Sprintf("pp %s %s", t, v.String()), res)
			if strings.ContainsAny(t, "-_+") {
				c.Nontrivial(t + " " + v.String())
			}
		}
	}
	var rec func(prefix []byte)
	rec = func(prefix []byte) {
		if len(prefix) > 0 {
			one(string(prefix))
		}
		if len(prefix) == maxLen {
			return
		}
		for _, ch := range alphabet {
			rec(append(append([]byte{}, prefix...), ch))
		}
	}
	rec(nil)
	// random longer types
	long := "abcxyz0189-_+v"
	n := 3000
	if c.Thorough() {
		n = 60000
	}
	for i := 0; i < n; i++ {
		l := 2 + c.Intn(30)
		if c.Chance(1, 20) {
			l = 95 + c.Intn(10)
		}
		b := make([]byte, l)
		for j := range b {
			b[j] = long[c.Intn(len(long))]
		}
		if c.Chance(1, 3) && l > 6 { // plant a version-like marker
			p := 1 + c.Intn(l-5)
			copy(b[p:], []byte{'-', 'v', byte('0' + c.Intn(10))})
		}
		one(string(b))
	}
	c.Sample(map[string]string{"type": "a-v1a", "note": "exhaustive over alphabet a1-v_+ up to the tier's length, then random long types"})
	// CompatibleSet histories
	types := []string{"ta", "tb"}
	nh := 300
	if c.Thorough() {
		nh = 10000
	}
	for hi := 0; hi < nh; hi++ {
		st := hint.NewCompatibleSet[int](8)
		var toks, outs []string
		// spec: highest registered version per (type, major)
		type ent struct {
			vs  string
			val int
		}
		preOfLast := "?"
		reg := map[string]ent{}
		nsteps := 3 + c.Intn(12)
		lastAdd := [4]int{-1, 0, 0, 0}
		var ladder []string
		if hi%6 == 5 {
			core := fmt.Sprintf("%d.%d.%d", c.Intn(3), c.Intn(3), c.Intn(2))
			rungs := [][]string{{"-rc.8", "-rc.9", "-rc.10"}, {"-2", "-10"}, {"-beta.99", "-beta.100"}, {"-alpha.9", "-alpha.10", "-alpha.11"}}[c.Intn(4)]
			for _, j := range c.Perm(len(rungs)) {
				ladder = append(ladder, core+rungs[j])
			}
			ladder = append(ladder, core+rungs[0]) // the lookup
			nsteps += len(ladder)
		}
		for k := 0; k < nsteps; k++ {
			ti := c.Intn(2)
			M, m, p := c.Intn(3), c.Intn(3), c.Intn(2) // majors 0, 1, 2
			r := c.Intn(10)
			if lastAdd[0] >= 0 && c.Chance(1, 2) { // look up what was just added (the cache entry add() wrote)
				ti, M, m, p = lastAdd[0], lastAdd[1], lastAdd[2], lastAdd[3]
				r = 4 + c.Intn(4)
			}
			lastAdd[0] = -1
			if r < 4 {
				lastAdd = [4]int{ti, M, m, p}
			}
			t := types[ti]
			pres := []string{"", "", "", "-1", "-2", "-10", "-ab", "-ba", "-alpha", "-alpha.1", "-1.b", "-rc.9", "-rc.10", "-rc.8", "-beta.99", "-beta.100"}
			pre := pres[(M*7+m*3+p+int(c.U64()%3))%len(pres)]
			if lastAdd[0] >= 0 && ti == lastAdd[0] && preOfLast != "?" {
				pre = preOfLast
			}
			vs := fmt.Sprintf("%d.%d.%d%s", M, m, p, pre)
			if len(ladder) > 0 { // a prerelease ladder of one version, added in a random order, then looked up
				vs = ladder[0]
				ladder = ladder[1:]
				r = 0
				if len(ladder) == 0 {
					r = 5 // the last step of the ladder is the lookup
				}
				fmt.Sscanf(vs, "%d.%d.%d", &M, &m, &p)
				lastAdd[0] = -1
			}
			v := util.MustNewVersion("v" + vs)
			ht := hint.NewHint(hint.Type(t), v)
			preOfLast = "?"
			switch {
			case r < 4:
				preOfLast = pre
				val := 100*hi%1000 + k + 1
				err := st.Add(ht, val)
				toks = append(toks, fmt.Sprintf("a:%s:%s:%d", t, vs, val))
				if err != nil {
					outs = append(outs, "dup")
				} else {
					outs = append(outs, "ok")
					key := fmt.Sprintf("%s/%d", t, M)
					if e, ok := reg[key]; !ok || c31semverLess(e.vs, vs) {
						reg[key] = ent{vs, val}
					}
				}
			case r < 7:
				got, found := st.Find(ht)
				toks = append(toks, fmt.Sprintf("f:%s:%s", t, vs))
				res := "none"
				if found {
					res = fmt.Sprint(got)
				}
				outs = append(outs, res)
				want := "none"
				if e, ok := reg[fmt.Sprintf("%s/%d", t, M)]; ok {
					want = fmt.Sprint(e.val)
				}
				if res != want {
					c.Violation("C31:find-not-highest-registered", fmt.Sprintf("history %s: Find(%s) = %s, highest registered compatible entry = %s", strings.Join(toks, " "), ht, res, want),
						map[string]interface{}{"history": toks})
				}
			case r < 8: // lookups by raw strings: hint strings, type strings (cache keys must not collide)
				raw := []string{ht.String(), t, "tb", "zz"}[c.Intn(4)]
				if c.Bool() {
					_, got, found, err := st.FindByString(raw)
					toks = append(toks, "fs:"+raw)
					switch {
					case err != nil:
						outs = append(outs, "err")
					case !found:
						outs = append(outs, "none")
					default:
						outs = append(outs, fmt.Sprint(got))
					}
				} else {
					h2, got, found, err := st.FindBytTypeString(raw)
					toks = append(toks, "ts:"+raw)
					switch {
					case err != nil:
						outs = append(outs, "err")
					case !found:
						outs = append(outs, "none")
					default:
						outs = append(outs, fmt.Sprintf("%s=%d", h2.Version(), got))
					}
				}
				if c.Chance(1, 2) { // immediately look the same string up the other way
					lastAdd = [4]int{ti, M, m, p}
					preOfLast = pre
				}
			default:
				h2, got, found := st.FindBytType(hint.Type(t))
				toks = append(toks, "t:"+t)
				res := "none"
				if found {
					res = fmt.Sprintf("%s=%d", h2.Version(), got)
				}
				outs = append(outs, res)
			}
		}
		c.Case("seq "+strings.Join(toks, " "), strings.Join(outs, " "))
		if len(reg) >= 2 {
			c.Nontrivial(strings.Join(toks, " "))
		}
		if hi%100 == 0 {
			c.Sample(map[string]string{"history": strings.Join(toks, " "), "results": strings.Join(outs, " ")})
		}
	}
	return nil
}

// semver precedence, computed independently of util.Version.Compare (numbers, then prerelease rules)
func c31semverLess(a, b string) bool {
	split := func(s string) ([3]int, []string) {
		core, pre := s, ""
		if i := strings.Index(s, "-"); i >= 0 {
			core, pre = s[:i], s[i+1:]
		}
		var n [3]int
		fmt.Sscanf(core, "%d.%d.%d", &n[0], &n[1], &n[2])
		if pre == "" {
			return n, nil
		}
		return n, strings.Split(pre, ".")
	}
	na, pa := split(a)
	nb, pb := split(b)
	for i := 0; i < 3; i++ {
		if na[i] != nb[i] {
			return na[i] < nb[i]
		}
	}
	switch {
	case len(pa) == 0:
		return false
	case len(pb) == 0:
		return true
	}
	isNum := func(s string) bool {
		for _, ch := range s {
			if ch < '0' || ch > '9' {
				return false
			}
		}
		return len(s) > 0
	}
	for i := 0; i < len(pa) && i < len(pb); i++ {
		x, y := pa[i], pb[i]
		if x == y {
			continue
		}
		nx, ny := isNum(x), isNum(y)
		switch {
		case nx && !ny:
			return true
		case !nx && ny:
			return false
		case nx && ny:
			if len(x) != len(y) {
				return len(x) < len(y)
			}
			return x < y
		default:
			return x < y
		}
	}
	return len(pa) < len(pb)
}
