import MitumModel.Model.SuffrageBuilder
import MitumModel.Props.C14
import MitumModel.Gen.C18
import MitumModel.Pins
/-!
C18  Suffrage history sync never crashes and accepts only linked proofs.
-/
namespace Mitum.C18
open Mitum.BatchWork Mitum.BlockMaps Mitum.SuffrageBuilder

def toOutcome : Option BState → BRes
  | some s => .ok s
  | none => .err

def stepSB (f : Facts) (previous : Option BM) (slotBase lastheight : Nat) (acc : BRes) (a : Nat × Option BM) : BRes :=
  match acc with
  | .ok s =>
    match a.2 with
    | none => .err
    | some m =>
      if f.checkHeight && !(m.height = a.1) then .err
      else if m.height < slotBase then (if f.guardNegative then .err else .panic)
      else match job false previous slotBase lastheight s a.1 m with
        | some s' => .ok s'
        | none => .err
  | r => r

theorem runBatch_fold (f : Facts) (previous : Option BM) (slotBase lastheight len : Nat)
    (arrivals : List (Nat × Option BM)) (np : Option BM) :
    SuffrageBuilder.runBatch f previous slotBase lastheight len arrivals np =
      arrivals.foldl (stepSB f previous slotBase lastheight) (.ok { maps := List.replicate len none, newprev := np }) := rfl

def isPanic : BRes → Bool
  | .panic => true
  | _ => false

theorem stepSB_not_panic (f : Facts) (hg : f.guardNegative = true) (previous : Option BM) (slotBase lh : Nat)
    (acc : BRes) (a : Nat × Option BM) (h : isPanic acc = false) :
    isPanic (stepSB f previous slotBase lh acc a) = false := by
  unfold stepSB
  cases acc with
  | panic => simp [isPanic] at h
  | err => rfl
  | ok s =>
    simp only
    cases a.2 with
    | none => rfl
    | some m =>
      simp only [hg, if_true]
      split
      · rfl
      · split
        · rfl
        · split <;> rfl

theorem foldl_stepSB_not_panic (f : Facts) (hg : f.guardNegative = true) (previous : Option BM) (slotBase lh : Nat) :
    ∀ (arrivals : List (Nat × Option BM)) (acc : BRes), isPanic acc = false →
      isPanic (arrivals.foldl (stepSB f previous slotBase lh) acc) = false := by
  intro arrivals
  induction arrivals with
  | nil => intro acc h; exact h
  | cons a rest ih =>
    intro acc h
    simp only [List.foldl_cons]
    exact ih _ (stepSB_not_panic f hg previous slotBase lh acc a h)

/-- ✦ no remote response — missing, out of range, below the local height, duplicated, foreign —
    can make a batch panic, given the regenerated fact that the slot index is guarded below 0. -/
theorem batch_never_panics (f : Facts) (hg : f.guardNegative = true) (previous : Option BM)
    (slotBase lh len : Nat) (arrivals : List (Nat × Option BM)) (np : Option BM) :
    isPanic (SuffrageBuilder.runBatch f previous slotBase lh len arrivals np) = false := by
  rw [runBatch_fold]
  exact foldl_stepSB_not_panic f hg previous slotBase lh arrivals _ rfl

/-- with found responses and the height / negative-index guards in place, a batch of the builder
    is a batch of the block-map validator (same slot and neighbour checks), so C14's
    `batch_ok_iff` applies: accepted exactly when heights are the requested ones and each proof
    proves against its predecessor — for every arrival order. -/
theorem runBatch_eq_blockmaps (f : Facts) (hc : f.checkHeight = true) (hg : f.guardNegative = true)
    (previous : Option BM) (slotBase lh : Nat) :
    ∀ (arr : List (Nat × BM)) (acc : Option BState),
      (arr.map (fun a => (a.1, some a.2))).foldl (stepSB f previous slotBase lh) (toOutcome acc) =
        toOutcome (arr.foldl (fun acc a => acc.bind (fun s => job true previous slotBase lh s a.1 a.2)) acc) := by
  intro arr
  induction arr with
  | nil => intro acc; rfl
  | cons a rest ih =>
    intro acc
    simp only [List.map_cons, List.foldl_cons]
    cases acc with
    | none =>
      have : stepSB f previous slotBase lh (toOutcome none) (a.1, some a.2) = toOutcome none := rfl
      rw [this]
      simpa using ih none
    | some s =>
      have : stepSB f previous slotBase lh (toOutcome (some s)) (a.1, some a.2) =
          toOutcome (job true previous slotBase lh s a.1 a.2) := by
        unfold stepSB toOutcome
        simp only [hc, Bool.true_and]
        unfold job
        by_cases hh : a.2.height = a.1
        · simp only [hh, decide_true, Bool.not_true, Bool.false_eq_true, if_false, Bool.and_false, Bool.false_and]
          by_cases hlt : a.1 < slotBase
          · simp only [hlt, if_true, hg]
            unfold isValidMaps
            simp [hh, hlt]
          · simp only [hlt, if_false]
            try (cases isValidMaps a.2 s.maps previous slotBase <;> rfl)
        · simp [hh]
      rw [this]
      have := ih (job true previous slotBase lh s a.1 a.2)
      simpa using this

/-- ✗ the unguarded index: a proof at or below the local suffrage height panics (inside a worker
    goroutine of the real code, killing the process). -/
theorem below_local_witness :
    isPanic (SuffrageBuilder.runBatch { guardNegative := false, checkHeight := false, accumulates := true, limit := 333 }
      (some ⟨3, 16, 14⟩) 4 5 2 [(4, some ⟨1, 12, 10⟩)] (some ⟨3, 16, 14⟩)) = true := by decide

/-- ✗ only the last batch returned: with batch limit 2 and 4 heights the unrepaired builder
    returns heights 2,3 (+ last) and drops 0,1. -/
theorem multi_batch_drop_witness :
    let mk := fun (h : Nat) => (some ⟨h, 2 * h + 10, if h = 0 then 0 else 2 * (h - 1) + 10⟩ : Option BM)
    build { guardNegative := true, checkHeight := true, accumulates := false, limit := 2 } none ⟨3, 16, 14⟩ mk
      = .ok [some 2, some 3, some 3] ∧
    build { guardNegative := true, checkHeight := true, accumulates := true, limit := 2 } none ⟨3, 16, 14⟩ mk
      = .ok [some 0, some 1, some 2, some 3, some 3] := by decide

def genFacts : Facts :=
  { guardNegative := Gen.C18.guardsNegativeIndex, checkHeight := Gen.C18.checksReturnedHeight,
    accumulates := Gen.C18.accumulatesBatches, limit := Gen.C18.batchlimit }

/-- ✦ facts of the current source -/
theorem facts_ok :
    Gen.C18.extractErrors = [] ∧ genFacts.guardNegative = true ∧ genFacts.checkHeight = true ∧
    genFacts.accumulates = true ∧ 0 < genFacts.limit ∧ Gen.C18.pins = Pins.C18 := by
  refine ⟨by decide, by decide, by decide, by decide, by decide, by decide⟩

end Mitum.C18
