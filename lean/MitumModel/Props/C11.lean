import MitumModel.Model.Processors
import MitumModel.Gen.C11
import MitumModel.Pins
/-!
C11  A block is saved only for the agreed manifest, once per height.

Every method of ProposalProcessors runs under one mutex (extracted fact), so any interleaving of
processing, saving and cancellation is some sequence of the atomic steps of the model; the theorems
are by induction over every such sequence.
-/
namespace Mitum.C11
open Mitum.Processors

def Inv (s : St) : Prop :=
  (∀ e, e ∈ s.log → e.newBlock = e.pid ∧ e.height = hOf e.pid ∧ e.height ≤ s.prev) ∧
  List.Pairwise (fun a b => a.height < b.height) s.log ∧
  (∀ p, s.cur = some p → p.manifest = some p.pid ∨ p.manifest = none)

theorem inv_init : Inv init := by
  refine ⟨by simp [init], by simp [init], by simp [init]⟩

theorem inv_step (s : St) (o : Op) (hw : wfOp o) (h : Inv s) : Inv (step s o).1 := by
  obtain ⟨h1, h2, h3⟩ := h
  cases o with
  | process pid =>
    simp only [step]
    cases hc : s.cur with
    | none =>
      refine ⟨h1, h2, ?_⟩
      intro p hp
      simp only [Option.some.injEq] at hp
      subst hp
      exact Or.inl rfl
    | some p =>
      simp only
      split
      · exact ⟨h1, h2, h3⟩
      · refine ⟨h1, h2, ?_⟩
        intro q hq
        simp only [Option.some.injEq] at hq
        subst hq
        exact Or.inl rfl
  | processUnknown =>
    refine ⟨h1, h2, ?_⟩
    intro p hp
    simp only [step, cancelCur] at hp
    cases hc : s.cur with
    | none => simp [hc] at hp
    | some q =>
      simp only [hc, Option.map_some, Option.some.injEq] at hp
      subst hp
      exact h3 q hc
  | cancel => exact ⟨h1, h2, by simp [step]⟩
  | save pid avpHeight nb =>
    simp only [wfOp] at hw
    simp only [step]
    split
    · exact ⟨h1, h2, by simp⟩
    · rename_i hlt
      cases hc : s.cur with
      | none => exact ⟨h1, h2, by simp [hc]⟩
      | some p =>
        simp only
        split
        · exact ⟨h1, h2, by simp⟩
        · rename_i hp
          have hp' : p.pid = pid := Decidable.of_not_not hp
          have hweak : ∀ e, e ∈ s.log → e.newBlock = e.pid ∧ e.height = hOf e.pid ∧ e.height ≤ avpHeight := by
            intro e he
            obtain ⟨a, b, c⟩ := h1 e he
            exact ⟨a, b, by omega⟩
          split
          · exact ⟨hweak, h2, by simp⟩
          · split
            · exact ⟨hweak, h2, by simp⟩
            · split
              · exact ⟨hweak, h2, by simp⟩
              · rename_i hm
                have hm' : p.manifest = some nb := Decidable.of_not_not hm
                have hnb : nb = p.pid := by
                  rcases h3 p hc with h | h
                  · rw [h] at hm'; exact (Option.some.inj hm').symm
                  · rw [h] at hm'; exact absurd hm' (by simp)
                refine ⟨?_, ?_, by simp⟩
                · intro e he
                  simp only [List.mem_append, List.mem_singleton] at he
                  rcases he with he | he
                  · exact hweak e he
                  · subst he
                    exact ⟨hnb, rfl, by rw [hp', ← hw]; exact Nat.le_refl _⟩
                · rw [List.pairwise_append]
                  refine ⟨h2, by simp, ?_⟩
                  intro a ha b hb
                  simp only [List.mem_singleton] at hb
                  subst hb
                  simp only
                  have := (h1 a ha).2.2
                  rw [hp', ← hw]
                  omega
  | saveCanceled pid avpHeight nb =>
    simp only [wfOp] at hw
    simp only [step]
    split
    · exact ⟨h1, h2, by simp⟩
    · rename_i hlt
      cases hc : s.cur with
      | none => exact ⟨h1, h2, by simp [hc]⟩
      | some p =>
        simp only
        split
        · exact ⟨h1, h2, by simp⟩
        · rename_i hp
          have hp' : p.pid = pid := Decidable.of_not_not hp
          have hweak : ∀ e, e ∈ s.log → e.newBlock = e.pid ∧ e.height = hOf e.pid ∧ e.height ≤ avpHeight := by
            intro e he
            obtain ⟨a, b, c⟩ := h1 e he
            exact ⟨a, b, by omega⟩
          split
          · exact ⟨hweak, h2, by simp⟩
          · split
            · exact ⟨hweak, h2, by simp⟩
            · split
              · exact ⟨hweak, h2, by simp⟩
              · rename_i hm
                have hm' : p.manifest = some nb := Decidable.of_not_not hm
                have hnb : nb = p.pid := by
                  rcases h3 p hc with h | h
                  · rw [h] at hm'; exact (Option.some.inj hm').symm
                  · rw [h] at hm'; exact absurd hm' (by simp)
                refine ⟨?_, ?_, by simp⟩
                · intro e he
                  simp only [List.mem_append, List.mem_singleton] at he
                  rcases he with he | he
                  · exact hweak e he
                  · subst he
                    exact ⟨hnb, rfl, by rw [hp', ← hw]; exact Nat.le_refl _⟩
                · rw [List.pairwise_append]
                  refine ⟨h2, by simp, ?_⟩
                  intro a ha b hb
                  simp only [List.mem_singleton] at hb
                  subst hb
                  simp only
                  have := (h1 a ha).2.2
                  rw [hp', ← hw]
                  omega

theorem inv_run (ops : List Op) (s : St) (hw : ∀ o, o ∈ ops → wfOp o) (h : Inv s) : Inv (run s ops) := by
  induction ops generalizing s with
  | nil => exact h
  | cons o r ih =>
    exact ih _ (fun o' ho' => hw o' (by simp [ho'])) (inv_step s o (hw o (by simp)) h)

/-- **saved_only_agreed.**  Whatever the sequence of Process / Save / Cancel calls, every block the writer
saved was saved under an ACCEPT majority whose new block is the manifest the processor computed for
that very proposal, and the block is of that proposal's height. -/
theorem saved_only_agreed (ops : List Op) (hw : ∀ o, o ∈ ops → wfOp o) :
    ∀ e, e ∈ (run init ops).log → e.newBlock = e.pid ∧ e.height = hOf e.pid :=
  fun e he => ⟨((inv_run ops init hw inv_init).1 e he).1, ((inv_run ops init hw inv_init).1 e he).2.1⟩

/-- **saved_heights_strictly_increasing.**  The heights of the saved blocks strictly increase: at most one
block per height, and never a height at or below one already saved. -/
theorem saved_heights_strictly_increasing (ops : List Op) (hw : ∀ o, o ∈ ops → wfOp o) :
    List.Pairwise (fun a b => a.height < b.height) (run init ops).log :=
  (inv_run ops init hw inv_init).2.1

/-- every save that reaches the writer is recorded below `previousSaved`: a later save of the same or a
lower height is refused before it reaches any processor -/
theorem saved_below_previous (ops : List Op) (hw : ∀ o, o ∈ ops → wfOp o) :
    ∀ e, e ∈ (run init ops).log → e.height ≤ (run init ops).prev :=
  fun e he => ((inv_run ops init hw inv_init).1 e he).2.2

/-- the log only grows inside a save call -/
theorem log_grows_only_in_save (s : St) (o : Op) :
    (step s o).1.log ≠ s.log → (∃ p a n, o = .save p a n) ∨ (∃ p a n, o = .saveCanceled p a n) := by
  cases o with
  | process pid => simp only [step]; cases s.cur <;> simp <;> split <;> simp
  | processUnknown => simp [step]
  | cancel => simp [step]
  | save pid a nb => intro _; exact Or.inl ⟨pid, a, nb, rfl⟩
  | saveCanceled pid a nb => intro _; exact Or.inr ⟨pid, a, nb, rfl⟩

/-- a save that stored the block but was reported as cancelled still blocks its height -/
theorem canceled_save_keeps_height :
    (run init [.process 0, .saveCanceled 0 33 0, .process 1, .save 1 33 1]).log = [{ height := 33, pid := 0, newBlock := 0 }] := by
  decide

/-- non-vacuity: process, save under the agreed manifest, then the next height -/
example : (run init [.process 0, .save 0 33 0, .process 2, .save 2 34 2]).log =
    [{ height := 33, pid := 0, newBlock := 0 }, { height := 34, pid := 2, newBlock := 2 }] := by decide

/-- a save under another manifest writes nothing and still raises `previousSaved`: the agreed block of
that height can then no longer be saved by this node (it has to be synced) — liveness, not safety -/
theorem mismatch_blocks_height_witness :
    (run init [.process 0, .save 0 33 9, .process 0, .save 0 33 0]).log = [] ∧
    (step (run init [.process 0, .save 0 33 9, .process 0]) (.save 0 33 0)).2 = .alreadySaved := by decide

/-- a processor cancelled by a failed fetch stays current and refuses to save -/
theorem cancelled_stays_current_witness :
    (step (run init [.process 4, .processUnknown]) (.save 4 35 4)).2 = .canceled := by decide

/-- the well-formedness hypothesis is needed: an ACCEPT voteproof of a higher height whose majority names
the manifest of an older proposal would save a second block of an already saved height -/
theorem foreign_height_avp_witness :
    (run init [.process 0, .save 0 33 0, .process 1, .save 1 34 1]).log.map (·.height) = [33, 33] := by decide

theorem facts_ok :
    Gen.C11.saveLocked = true ∧ Gen.C11.cancelLocked = true ∧ Gen.C11.processLocked = true ∧
    Gen.C11.saveOrder = true ∧ Gen.C11.saveDropsProcessor = true ∧ Gen.C11.manifestGuard = true ∧
    Gen.C11.processorSaveGuards = true ∧ Gen.C11.sameProposalNotProcessedAgain = true ∧
    Gen.C11.extractErrors = [] := by decide

theorem source_pinned : Gen.C11.pins = Pins.C11 := by decide

end Mitum.C11
