package main

import (
	"context"
	"fmt"
	"strings"
	"time"

	"github.com/spikeekips/mitum/base"
	"github.com/spikeekips/mitum/isaac"
	isaacoperation "github.com/spikeekips/mitum/isaac/operation"
	"github.com/spikeekips/mitum/util"
	"github.com/spikeekips/mitum/util/valuehash"
)

func init() { register("C17", runC17) }

type c17party struct {
	addr base.Address
	id   int // protocol number (its address sorts like the number)
	priv base.Privatekey
	key  int
}

type c17world struct {
	keys   map[string]int // public key string -> number
	nextK  int
	nextID int
}

func (w *c17world) newKey() (base.Privatekey, int) {
	p := base.NewMPrivatekey()
	w.nextK++
	w.keys[p.Publickey().String()] = w.nextK
	return p, w.nextK
}

func (w *c17world) party() c17party {
	w.nextID++
	p, k := w.newKey()
	return c17party{addr: base.NewStringAddress(fmt.Sprintf("n%06d", w.nextID)), id: w.nextID, priv: p, key: k}
}

func runC17(c *Ctx) error {
	n := 200
	if c.Thorough() {
		n = 5000
	}
	// the sign test alone, on a grid: model (float emulation) = real; and it is never laxer than the exact rule
	for size := 1; size <= 40; size++ {
		for _, t10 := range []int{510, 580, 600, 667, 670, 675, 700, 750, 800, 900, 1000} {
			for s := 0; s <= size; s++ {
				ok := c17signs(size, s, t10)
				c.Case(fmt.Sprintf("sign %d %d %d", s, size, t10), b01(ok))
				if ok && s*1000 < size*t10 {
					c.Violation("C17:sign-test-laxer-than-threshold", fmt.Sprintf("%d of %d signs pass a threshold of %.1f%%", s, size, float64(t10)/10), map[string]interface{}{"signs": s, "n": size, "t10": t10})
				}
			}
		}
	}
	w := &c17world{keys: map[string]int{}}
	networkID := hNetworkID
	for i := 0; i < n; i++ {
		height := 30 + c.Intn(20)
		sufHeight := 5 + c.Intn(10)
		t10 := []int{670, 670, 750, 1000, 510}[c.Intn(5)]
		nm := 1 + c.Intn(6)
		var members []c17party
		var memberStart []int
		var svs []base.SuffrageNodeStateValue
		for j := 0; j < nm; j++ {
			p := w.party()
			members = append(members, p)
			st := 1 + c.Intn(height-1)
			memberStart = append(memberStart, st)
			svs = append(svs, isaac.NewSuffrageNodeStateValue(isaac.NewNode(p.priv.Publickey(), p.addr), base.Height(int64(st))))
		}
		suffragest := base.NewBaseState(base.Height(int64(height-1)), isaac.SuffrageStateKey,
			isaac.NewSuffrageNodesStateValue(base.Height(int64(sufHeight)), svs), valuehash.RandomSHA256(), []util.Hash{valuehash.RandomSHA256()})
		nc := c.Intn(4)
		var cands []c17party
		var candStart, candDeadline []int
		var cvs []base.SuffrageCandidateStateValue
		for j := 0; j < nc; j++ {
			p := w.party()
			cands = append(cands, p)
			st := height - 3 + c.Intn(3)
			dl := height - 1 + c.Intn(4) // some expired
			if dl < st {
				dl = st
			}
			candStart = append(candStart, st)
			candDeadline = append(candDeadline, dl)
			cvs = append(cvs, isaac.NewSuffrageCandidateStateValue(isaac.NewNode(p.priv.Publickey(), p.addr), base.Height(int64(st)), base.Height(int64(dl))))
		}
		var candidatest base.State
		if nc > 0 {
			candidatest = base.NewBaseState(base.Height(int64(height-2)), isaac.SuffrageCandidateStateKey,
				isaac.NewSuffrageCandidatesStateValue(cvs), valuehash.RandomSHA256(), []util.Hash{valuehash.RandomSHA256()})
		}
		getState := func(key string) (base.State, bool, error) {
			switch key {
			case isaac.SuffrageCandidateStateKey:
				if candidatest == nil {
					return nil, false, nil
				}
				return candidatest, true, nil
			case isaac.SuffrageStateKey:
				return suffragest, true, nil
			}
			return nil, false, nil
		}
		outsider := w.party()
		// operations
		type opx struct {
			tok string
			op  base.Operation
		}
		var ops []opx
		nops := 1 + c.Intn(7)
		for j := 0; j < nops; j++ {
			switch k := c.Intn(10); {
			case k < 4 && nc > 0: // join
				ci := c.Intn(nc)
				cand := cands[ci]
				start := candStart[ci]
				if c.Chance(1, 10) {
					start++
				}
				if c.Chance(1, 12) { // a join for a current member / an unknown node
					cand = []c17party{members[c.Intn(nm)], outsider}[c.Intn(2)]
				}
				op := isaacoperation.NewSuffrageJoin(isaacoperation.NewSuffrageJoinFact(util.UUID().Bytes(), cand.addr, base.Height(int64(start))))
				var signs []string
				if !c.Chance(1, 10) { // the candidate's own sign
					priv, key := cand.priv, cand.key
					if c.Chance(1, 10) {
						priv, key = w.newKey()
					}
					_ = op.NodeSign(priv, networkID, cand.addr)
					signs = append(signs, fmt.Sprintf("%d.%d", cand.id, key))
				}
				for mi, m := range members {
					if c.Chance(3, 4) {
						priv, key := m.priv, m.key
						if c.Chance(1, 12) {
							priv, key = w.newKey()
						}
						_ = op.NodeSign(priv, networkID, m.addr)
						signs = append(signs, fmt.Sprintf("%d.%d", m.id, key))
					}
					_ = mi
				}
				if c.Chance(1, 10) {
					_ = op.NodeSign(outsider.priv, networkID, outsider.addr)
					signs = append(signs, fmt.Sprintf("%d.%d", outsider.id, outsider.key))
				}
				if len(signs) == 0 {
					continue
				}
				if c.Chance(1, 8) {
					// a member that has not signed yet signs the fact twice (two signatures made at different times, handed
					// over together): such an operation never reaches the processor, IsValid refuses duplicated signers
					var free []c17party
					for _, m := range members {
						if !strings.Contains("/"+strings.Join(signs, "/")+"/", fmt.Sprintf("/%d.", m.id)) {
							free = append(free, m)
						}
					}
					if len(free) > 0 {
						m := free[c.Intn(len(free))]
						s1, err1 := base.NewBaseNodeSignFromFact(m.addr, m.priv, networkID, op.Fact())
						time.Sleep(2 * time.Millisecond)
						s2, err2 := base.NewBaseNodeSignFromFact(m.addr, m.priv, networkID, op.Fact())
						if err1 == nil && err2 == nil && !s1.SignedAt().Equal(s2.SignedAt()) {
							if _, err := op.AddNodeSigns([]base.NodeSign{s1, s2}); err == nil {
								c.Count("join-with-a-member-signing-twice", "built")
								if err := op.IsValid(networkID); err == nil {
									c.Violation("C17:duplicate-signer-accepted", fmt.Sprintf("a SuffrageJoin with signs %s and two different signatures of member %d passes IsValid: the member would count twice towards the threshold",
										strings.Join(signs, "/"), m.id), map[string]interface{}{"signs": signs, "twice": m.id, "members": nm, "t10": t10})
								}
								continue // refused before it reaches the processor
							}
						}
					}
				}
				ops = append(ops, opx{fmt.Sprintf("j:%d:%d:%s", cand.id, start, strings.Join(signs, "/")), op})
			case k < 7: // disjoin
				mi := c.Intn(nm)
				node := members[mi]
				start := memberStart[mi]
				if c.Chance(1, 10) {
					start++
				}
				if c.Chance(1, 12) {
					node = outsider
				}
				priv, key := node.priv, node.key
				if c.Chance(1, 10) {
					priv, key = w.newKey()
				}
				op := isaacoperation.NewSuffrageDisjoin(isaacoperation.NewSuffrageDisjoinFact(util.UUID().Bytes(), node.addr, base.Height(int64(start))))
				_ = op.NodeSign(priv, networkID, node.addr)
				ops = append(ops, opx{fmt.Sprintf("d:%d:%d:%d", node.id, start, key), op})
			default: // expel
				node := members[c.Intn(nm)]
				if c.Chance(1, 12) {
					node = outsider
				}
				es, ee := height-2+c.Intn(4), height-1+c.Intn(4)
				if es < 1 {
					es = 1
				}
				if ee < es {
					ee = es
				}
				f := isaac.NewSuffrageExpelFact(node.addr, base.Height(int64(es)), base.Height(int64(ee)), "no response")
				op := isaac.NewSuffrageExpelOperation(f)
				for _, m := range members {
					if m.id != node.id {
						_ = op.NodeSign(m.priv, networkID, m.addr)
					}
				}
				if len(op.Signs()) == 0 {
					continue
				}
				ops = append(ops, opx{fmt.Sprintf("x:%d:%d:%d", node.id, es, ee), op})
			}
		}
		if len(ops) == 0 {
			continue
		}
		var ms, cs []string
		for j, m := range members {
			ms = append(ms, fmt.Sprintf("%d.%d.%d", m.id, m.key, memberStart[j]))
		}
		for j, p := range cands {
			cs = append(cs, fmt.Sprintf("%d.%d.%d.%d", p.id, p.key, candStart[j], candDeadline[j]))
		}
		head := fmt.Sprintf("blk %d %d %d M:%s C:%s ;", height, sufHeight, t10, strings.Join(ms, ","), strings.Join(cs, ","))
		apply := func(order []int) (string, error) {
			th := base.Threshold(float64(t10) / 10)
			jp, err := isaacoperation.NewSuffrageJoinProcessor(base.Height(int64(height)), th, getState, nil, nil)
			if err != nil {
				return "", err
			}
			dp, err := isaacoperation.NewSuffrageDisjoinProcessor(base.Height(int64(height)), getState, nil, nil)
			if err != nil {
				return "", err
			}
			xp, err := isaacoperation.NewSuffrageExpelProcessor(base.Height(int64(height)), getState, nil, nil)
			if err != nil {
				return "", err
			}
			ctx := context.Background()
			merger := isaacoperation.NewSuffrageJoinStateValueMerger(base.Height(int64(height)), suffragest)
			merged := 0
			for _, oi := range order {
				op := ops[oi].op
				var p base.OperationProcessor
				switch op.(type) {
				case isaacoperation.SuffrageJoin:
					p = jp
				case isaacoperation.SuffrageDisjoin:
					p = dp
				default:
					p = xp
				}
				nctx, reason, err := p.PreProcess(ctx, op, getState)
				if err != nil {
					return "", err
				}
				ctx = nctx
				if reason != nil {
					continue
				}
				vs, reason, err := p.Process(ctx, op, getState)
				if err != nil {
					return "", err
				}
				if reason != nil {
					continue
				}
				for _, v := range vs {
					if v.Key() != isaac.SuffrageStateKey {
						continue
					}
					if err := merger.Merge(v.Value(), op.Hash()); err != nil {
						return "", err
					}
					merged++
				}
			}
			if merged == 0 {
				return "-", nil
			}
			st, err := merger.CloseValue()
			if err != nil {
				return "", err
			}
			sv := st.Value().(base.SuffrageNodesStateValue)
			var out []string
			for _, nd := range sv.Nodes() {
				id := 0
				fmt.Sscanf(nd.Address().String()[1:], "%d", &id)
				out = append(out, fmt.Sprintf("%d.%d.%d", id, w.keys[nd.Publickey().String()], nd.Start()))
			}
			return fmt.Sprintf("%d %s", sv.Height(), strings.Join(out, ",")), nil
		}
		order := make([]int, len(ops))
		for j := range order {
			order[j] = j
		}
		toks := func(order []int) string {
			var t []string
			for _, oi := range order {
				t = append(t, ops[oi].tok)
			}
			return strings.Join(t, " ")
		}
		res, err := apply(order)
		if err != nil {
			return err
		}
		c.Case(head+" "+toks(order), res)
		c.Nontrivial(head + toks(order))
		c.Count("result", map[bool]string{true: "no-change", false: "changed"}[res == "-"])
		// the same block in other orders
		for k := 0; k < 3; k++ {
			o2 := c.Perm(len(ops))
			r2, err := apply(o2)
			if err != nil {
				return err
			}
			c.Eval(1)
			if r2 != res {
				c.Violation("C17:result-depends-on-operation-order", fmt.Sprintf("%s [%s] gives %s, [%s] gives %s", head, toks(order), res, toks(o2), r2),
					map[string]interface{}{"block": head, "order1": toks(order), "order2": toks(o2)})
			}
		}
		// oracle on the real result
		if res != "-" {
			parts := strings.SplitN(res, " ", 2)
			if parts[0] != fmt.Sprint(sufHeight+1) {
				c.Violation("C17:suffrage-height-not-plus-one", res, map[string]interface{}{"block": head, "ops": toks(order)})
			}
			seen := map[string]bool{}
			for _, e := range strings.Split(parts[1], ",") {
				a := strings.SplitN(e, ".", 2)[0]
				if seen[a] {
					c.Violation("C17:duplicate-member", res, map[string]interface{}{"block": head, "ops": toks(order)})
				}
				seen[a] = true
			}
		}
		if i%50 == 0 {
			c.Sample(map[string]interface{}{"block": head, "ops": toks(order), "result": res})
		}
	}
	return nil
}

// the real sign test with s of n members signing
var c17signCache = map[int][]base.LocalNode{}

func c17signs(n, s, t10 int) bool {
	nodes, ok := c17signCache[n]
	if !ok {
		for i := 0; i < n; i++ {
			nodes = append(nodes, base.RandomLocalNode())
		}
		c17signCache[n] = nodes
	}
	bn := make([]base.Node, n)
	for i := range nodes {
		bn[i] = nodes[i]
	}
	suf, err := isaac.NewSuffrage(bn)
	if err != nil {
		return false
	}
	signs := make([]base.NodeSign, s)
	for i := 0; i < s; i++ {
		signs[i] = base.NewBaseNodeSign(nodes[i].Address(), nodes[i].Publickey(), []byte("sig"), time.Now())
	}
	return base.CheckFactSignsBySuffrage(suf, base.Threshold(float64(t10)/10), signs) == nil
}
