import MitumModel.Common
/-
Model of the ballot and proposal parts of `TempPool` (isaac/database/pool.go):
`SetBallot`/`Ballot`, `SetProposal`/`Proposal`/`ProposalByPoint`,
`cleanBallots`/`cleanProposals` (`cleanByHeight`).

A ballot key is (height, round, stage, suffrage-confirm); a proposal is stored
under its fact id, with an index from (height, round, proposer, previous block)
to the fact id that is overwritten by a later fact for the same triple (as the
code does).  One operation = one atomic step; whether `SetBallot`/`SetProposal`
are atomic in the real code is the regenerated lock fact, see `Race` below.
-/
namespace Mitum.BallotPool

structure BKey where
  h : Nat
  r : Nat
  acc : Bool
  sc : Bool
deriving Repr, DecidableEq

structure Triple where
  h : Nat
  r : Nat
  proposer : Nat
  prev : Nat
deriving Repr, DecidableEq

structure State where
  ballots : List (BKey × Nat)            -- key ↦ ballot id
  props : List (Nat × (Triple × Nat))    -- fact id ↦ (triple, proposal id)
  pidx : List (Triple × Nat)             -- triple ↦ fact id (last writer)
deriving Repr

def init : State := { ballots := [], props := [], pidx := [] }

def lookupB (k : BKey) : List (BKey × Nat) → Option Nat
  | [] => none
  | (k', v) :: rest => if k' = k then some v else lookupB k rest

def lookupN {β : Type} (k : Nat) : List (Nat × β) → Option β
  | [] => none
  | (k', v) :: rest => if k' = k then some v else lookupN k rest

def lookupT (t : Triple) : List (Triple × Nat) → Option Nat
  | [] => none
  | (t', v) :: rest => if t' = t then some v else lookupT t rest

/-- `Ballot` -/
def getBallot (s : State) (k : BKey) : Option Nat := lookupB k s.ballots

/-- `SetBallot` (atomic): first writer wins -/
def setBallot (s : State) (k : BKey) (v : Nat) : State × Bool :=
  match getBallot s k with
  | some _ => (s, false)
  | none => ({ s with ballots := s.ballots ++ [(k, v)] }, true)

/-- `Proposal` -/
def getProposal (s : State) (f : Nat) : Option Nat := (lookupN f s.props).map (·.2)

/-- `SetProposal` (atomic): first writer wins per fact; the point index is overwritten -/
def setProposal (s : State) (f : Nat) (t : Triple) (p : Nat) : State × Bool :=
  match lookupN f s.props with
  | some _ => (s, false)
  | none =>
    ({ s with props := s.props ++ [(f, (t, p))],
              pidx := (s.pidx.filter (fun e => !(e.1 = t))) ++ [(t, f)] }, true)

/-- `ProposalByPoint` -/
def proposalByPoint (s : State) (t : Triple) : Option Nat :=
  match lookupT t s.pidx with
  | none => none
  | some f => getProposal s f

def maxHeight : List Nat → Nat
  | [] => 0
  | x :: xs => max x (maxHeight xs)

/-- the threshold height of `cleanByHeight`: nothing when there is no key or `top - 3 < 0`;
    else `top` stepped down `deep` times with `SafePrev` -/
def cleanBound (heights : List Nat) (deep : Nat) : Option Nat :=
  if heights = [] then none
  else if maxHeight heights < 3 then none
  else some (maxHeight heights - deep)

/-- `cleanBallots` -/
def cleanBallots (s : State) (deep : Nat) : State :=
  match cleanBound (s.ballots.map (·.1.h)) deep with
  | none => s
  | some b => { s with ballots := s.ballots.filter (fun e => decide (b < e.1.h)) }

/-- `cleanProposals`: removes the index entries at or below the bound and the proposals they
    point to -/
def cleanProposals (s : State) (deep : Nat) : State :=
  match cleanBound (s.pidx.map (·.1.h)) deep with
  | none => s
  | some b =>
    let gone := (s.pidx.filter (fun e => decide (e.1.h ≤ b))).map (·.2)
    { s with pidx := s.pidx.filter (fun e => decide (b < e.1.h)),
             props := s.props.filter (fun e => !(e.1 ∈ gone)) }

inductive Op where
  | setBallot (k : BKey) (v : Nat)
  | setProposal (f : Nat) (t : Triple) (p : Nat)
  | cleanBallots
  | cleanProposals
deriving Repr

def step (deepP deepB : Nat) (s : State) : Op → State
  | .setBallot k v => (setBallot s k v).1
  | .setProposal f t p => (setProposal s f t p).1
  | .cleanBallots => cleanBallots s deepB
  | .cleanProposals => cleanProposals s deepP

/-! ### the unsynchronised variant: `Exists` and `Put` as two steps of each writer -/
namespace Race

structure Writer where
  key : Nat
  val : Nat
  passedCheck : Option Bool   -- result of `Exists`, once executed (`some false` = may put)
  returned : Option Bool
deriving Repr, DecidableEq

structure RState where
  store : List (Nat × Nat)
  writers : List Writer
deriving Repr

def exists_ (st : List (Nat × Nat)) (k : Nat) : Bool := st.any (fun e => e.1 == k)

/-- one step of writer `i`: first the `Exists` check, then (when absent) the `Put` -/
def stepW (s : RState) (i : Nat) : RState :=
  match s.writers[i]? with
  | none => s
  | some w =>
    match w.passedCheck with
    | none =>
      let found := exists_ s.store w.key
      let w' := { w with passedCheck := some found, returned := if found then some false else none }
      { s with writers := s.writers.set i w' }
    | some true => s
    | some false =>
      match w.returned with
      | some _ => s
      | none =>
        { store := (s.store.filter (fun e => !(e.1 == w.key))) ++ [(w.key, w.val)],
          writers := s.writers.set i { w with returned := some true } }

def run (s : RState) (sched : List Nat) : RState := sched.foldl stepW s

end Race

end Mitum.BallotPool
