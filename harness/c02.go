package main

import (
	"fmt"

	"github.com/spikeekips/mitum/base"
)

// exact ceiling in integer arithmetic; t10 = threshold in tenths
func requiredExact(n, t10 uint64) uint64 { return (n*t10 + 999) / 1000 }

func init() { register("C02", runC02) }

// C02: the whole stated grid n in 1..100000 x t in 51.0..100.0 is compared
// exhaustively with exact integer arithmetic (thorough) or n <= 3000 full grid
// + multiples of 25 (quick); a sample of the grid goes to the Lean driver to
// tie `Threshold.required` to the same numbers.
func runC02(c *Ctx) error {
	maxFull := uint64(3000)
	if c.Thorough() {
		maxFull = 100000
	}
	mismatch := 0
	check := func(n, t10 uint64) {
		th := base.Threshold(float64(t10) / 10)
		got := uint64(th.Threshold(uint(n)))
		want := requiredExact(n, t10)
		c.Eval(1)
		if got != want {
			mismatch++
			kind := "overcount"
			if got < want {
				kind = "undercount"
			}
			c.Count("mismatch", kind)
			if mismatch <= 20 {
				c.Violation("C02:float-ceil-"+kind,
					fmt.Sprintf("Threshold(%.1f).Threshold(%d)=%d, exact ceil=%d", float64(t10)/10, n, got, want),
					map[string]uint64{"n": n, "t10": t10, "got": got, "want": want})
			}
		}
		// sample for the Lean driver: sparse deterministic subset + random
		if (n*1009+t10*31)%997 == 0 || n <= 12 && t10%70 == 0 {
			c.Case(fmt.Sprintf("%d %d", n, t10), fmt.Sprint(got))
			if want != n && want*1000 != n*t10 {
				c.Nontrivial(fmt.Sprintf("%d/%d", n, t10))
			}
			if c.cases%500 == 1 {
				c.Sample(map[string]uint64{"n": n, "t10": t10, "impl": got, "exact": want})
			}
		}
	}
	for n := uint64(1); n <= maxFull; n++ {
		for t10 := uint64(510); t10 <= 1000; t10++ {
			check(n, t10)
		}
	}
	c.CountN("grid", fmt.Sprintf("full n<=%d", maxFull), int(maxFull*491))
	if !c.Thorough() {
		for n := uint64(3025); n <= 100000; n += 25 {
			for t10 := uint64(510); t10 <= 1000; t10++ {
				check(n, t10)
			}
		}
		c.CountN("grid", "n multiple of 25 up to 100000", int((100000-3025)/25+1)*491)
		// random points of the remaining grid
		for i := 0; i < 200000; i++ {
			check(uint64(3001+c.Intn(97000)), uint64(510+c.Intn(491)))
		}
		c.CountN("grid", "random n in 3001..100000", 200000)
	}
	c.Extra("exhaustive_grid", c.Thorough())
	c.Extra("mismatches", mismatch)
	return nil
}
