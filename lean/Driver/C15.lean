import MitumModel.Common
import MitumModel.Model.Import
import MitumModel.Gen.C15
namespace Mitum.Driver
open Mitum Mitum.Import

def c15FinalSave : FinalSave :=
  if Gen.C15.finalSaveCond = "len(ims) > 0" then .lenPos
  else if Gen.C15.finalSaveCond = "" then .always
  else .lenLtLimit

/-- `imp from to limit` → sorted saved heights -/
def stepC15 (ts : List String) : String :=
  match ts.mapM String.toNat? with
  | none =>
    match ts with
    | "imp" :: rest =>
      match rest.mapM String.toNat? with
      | some [frm, to, limit] =>
        match run c15FinalSave frm to limit with
        | some l =>
          let s := sortBy (fun a b => decide (a ≤ b)) l
          if s.isEmpty then "-" else ",".intercalate (s.map toString)
        | none => "err"
      | _ => "bad-op"
    | "impf" :: mode :: rest =>
      -- `impf <m|c> <bad> <from> <to> <limit>`: the merge of block `bad` fails (m) / the context is cancelled while it
      -- is merged (c); the verdict and what a successful run stored
      match rest.mapM String.toNat? with
      | some [bad, frm, to, limit] =>
        let fault : Fault := if mode = "m" then .mergeFails bad else .cancelDuringMerge bad
        let code : SaveCode := { singleReturnsMergeError := Gen.C15.singleBranchReturnsMergeError, mergesIgnoreContext := Gen.C15.mergeLoopIgnoresContext }
        match runF code fault c15FinalSave frm to limit with
        | some (some l) =>
          let s := sortBy (fun a b => decide (a ≤ b)) l
          "ok " ++ (if s.isEmpty then "-" else ",".intercalate (s.map toString))
        | some none => "err"
        | none => "err"
      | _ => "bad-op"
    | _ => "bad-op"
  | some _ => "bad-op"

end Mitum.Driver
