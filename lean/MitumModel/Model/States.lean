import MitumModel.Common
/-
Model of the node state machine's switching core (isaac/states/states.go):
`checkStateSwitchContext` (no handover broker present), `switchState` with
`exitAndEnter`, and the `ensureSwitchState` loop.  The outcomes of the handlers'
`exit` / `enter` are inputs (`Script`).
-/
namespace Mitum.States

/-- `unknown` stands for a target state no handler is registered for (it is never the current state) -/
inductive S | stopped | booting | joining | consensus | syncing | handover | broken | unknown
deriving Repr, DecidableEq

inductive Check | ok | ignore | redirect (next : S) | error
deriving Repr, DecidableEq

/-- `checkStateSwitchContext(sctx, current)` with `HandoverYBroker() == nil` -/
def check (allowed : Bool) (cur frm next : S) : Check :=
  if cur = .stopped ∧ next ≠ .booting ∧ next ≠ .broken then .ignore
  else if next = .unknown then .error                     -- "unknown next state": a plain error, before the origin is looked at
  else if next = cur then .ignore
  else if frm ≠ cur then .ignore
  else if next = .broken then .ok
  else if next = .handover then .ignore                  -- not under handover
  else if allowed then .ok
  else if cur = .handover then .ok
  else if next = .consensus ∨ next = .joining then
    (if cur = .syncing then .ignore else .redirect .syncing)
  else .ok

/-- outcome of a handler call -/
inductive Out | ok | err | ignore | redirect (next : S)
deriving Repr, DecidableEq

/-- `phase` false = exit, true = enter; arguments: handler's state, context from, context next -/
abbrev Script := Bool → S → S → S → Out

inductive SwitchRes
  | done                    -- nil (switched, or ignored)
  | redirect (frm next : S) -- a switch context came back as error
  | error
deriving Repr, DecidableEq

structure M where
  cur : S
  allowed : Bool
  log : List (S × S)        -- (reported state, state the machine was in right after the report)
deriving Repr, DecidableEq

/-- `switchState(sctx)` -/
def switchState (sc : Script) (m : M) (frm next : S) : M × SwitchRes :=
  match check m.allowed m.cur frm next with
  | .ignore => (m, .done)
  | .error => (m, .error)
  | c =>
    let (f, n) : S × S := match c with | .redirect r => (m.cur, r) | _ => (frm, next)
    -- exitAndEnter
    let exitRes : Option SwitchRes :=
      match sc false m.cur f n with
      | .ok => none
      | .redirect _ => none                 -- (stubs never redirect on exit)
      | o => if n = .broken then none else if o = .ignore then some .done else some .error
    match exitRes with
    | some r => (m, r)
    | none =>
      match sc true n f n with
      | .ok => ({ m with cur := n, log := m.log ++ [(n, n)] }, .done)
      | .redirect r => ({ m with cur := n }, .redirect n r)      -- `st.cs = nextHandler`, no report
      | .ignore => (m, .done)
      | .err => (m, .error)

inductive EnsureRes | ok | stopped | error | outOfFuel
deriving Repr, DecidableEq

/-- `ensureSwitchState(sctx)`; `n` is the loop counter -/
def ensure (sc : Script) : Nat → M → Nat → S → S → M × EnsureRes
  | 0, m, _, _, _ => (m, .outOfFuel)
  | fuel + 1, m, n, frm, next =>
    if 3 < n then ensure sc fuel m 0 frm .broken
    else
      match switchState sc m frm next with
      | (m', .done) => (m', if next = .stopped then .stopped else .ok)
      | (m', .error) => if next = .broken then (m', .error) else ensure sc fuel m' 0 frm .broken
      | (m', .redirect f r) => ensure sc fuel m' (n + 1) f r

end Mitum.States
