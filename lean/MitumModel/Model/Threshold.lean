/-
Model of `base.Threshold.Threshold` (base/threshold.go).

`t10` is the threshold in tenths of a percent point (67.0 % ↦ 670); the
property speaks of thresholds with one decimal place, so every threshold is an
integer number of tenths.  `required n t10` is the exact ceiling of
`n * t / 100 = n * t10 / 1000`.
-/
namespace Mitum.Threshold

/-- exact least integer `k` with `1000 * k ≥ n * t10` -/
def required (n t10 : Nat) : Nat := (n * t10 + 999) / 1000

end Mitum.Threshold
