package main

import (
	"go/ast"
	"strings"
)

func init() { register("C37", genC37) }

func genC37(o *Out) {
	f := o.pinFile("network/quicmemberlist/memberlist.go", "newMembersPool", "membersPool.Empty", "membersPool.Exists", "membersPool.Get",
		"membersPool.MembersLenOthers", "membersPool.MembersLen", "membersPool.Set", "membersPool.Remove", "membersPool.removeFromNode",
		"membersPool.Len", "membersPool.Traverse", "memberid")
	if f == nil {
		return
	}
	// Get: the default (found) case returns `i, true`
	found := false
	if fd := f.Func("membersPool", "Get"); fd != nil {
		ast.Inspect(fd.Body, func(n ast.Node) bool {
			cc, ok := n.(*ast.CaseClause)
			if !ok || cc.List != nil { // default clause has a nil list
				return true
			}
			for _, st := range cc.Body {
				if rs, ok := st.(*ast.ReturnStmt); ok && len(rs.Results) == 2 {
					found = strings.TrimSpace(f.Src(rs.Results[1])) == "true"
				}
			}
			return true
		})
	}
	o.boolean("getReturnsFound", found)
}
