import MitumModel.Model.Timers
import MitumModel.Gen.C34
import MitumModel.Pins
/-!
C34  Stopped timers stay stopped and do not affect their successors.
-/
namespace Mitum.C34
open Mitum.Timers

/-- per-instance invariant -/
structure IOk (now : Nat) (table : Nat → Option Nat) (k : Nat) (i : Inst) : Prop where
  canc_unbound : i.cancelled = true → table i.id ≠ some k
  live_nolate : i.cancelled = false → i.lateStarts = 0
  late_le : i.lateStarts + (if i.phase = .checked then 1 else 0) ≤ 1
  ready : (i.phase = .collected ∨ i.phase = .checked) → i.earliest < now
  rest_due : (i.phase = .idle ∨ (∃ b, i.phase = .ended b)) → i.earliest = i.due
  dead : i.deadAtStop = true → i.lateStarts = 0 ∧ i.phase ≠ .checked ∧ i.cancelled = true

structure Inv (s : St) : Prop where
  inst : ∀ k i, s.insts[k]? = some i → IOk s.now s.table k i
  valid : ∀ id k, s.table id = some k → ∃ i, s.insts[k]? = some i ∧ i.id = id

theorem inv_init : Inv {} := ⟨by intro k i h; simp at h, by intro id k h; simp at h⟩

theorem lt_of_getElem? {α : Type} (l : List α) (k : Nat) (x : α) (h : l[k]? = some x) : k < l.length := by
  rcases Nat.lt_or_ge k l.length with h' | h'
  · exact h'
  · simp [List.getElem?_eq_none h'] at h

theorem getElem?_setInst (s : St) (k k' : Nat) (i x : Inst) (hk : s.insts[k]? = some x) :
    (setInst s k i).insts[k']? = if k = k' then some i else s.insts[k']? := by
  have hlt := lt_of_getElem? _ _ _ hk
  simp only [setInst, List.getElem?_set]
  by_cases h : k = k'
  · subst h; simp [hlt]
  · simp [h]

/-- replace instance `k` by `i'` (same id), keeping time and table -/
theorem inv_setInst (s : St) (k : Nat) (i i' : Inst) (h : Inv s) (hk : s.insts[k]? = some i)
    (hi : IOk s.now s.table k i') (hid : i'.id = i.id) : Inv (setInst s k i') := by
  constructor
  · intro k' j hj
    rw [getElem?_setInst s k k' i' i hk] at hj
    by_cases hkk : k = k'
    · subst hkk; simp at hj; subst hj; exact hi
    · simp [hkk] at hj; exact h.inst k' j hj
  · intro id k' ht
    obtain ⟨j, hj, hjid⟩ := h.valid id k' ht
    rw [getElem?_setInst s k k' i' i hk]
    by_cases hkk : k = k'
    · subst hkk; rw [hk] at hj; cases hj; exact ⟨i', by simp, by rw [hid]; exact hjid⟩
    · exact ⟨j, by simp [hkk, hj], hjid⟩

theorem iok_unbindId (now : Nat) (t : Nat → Option Nat) (id k : Nat) (j : Inst) (h : IOk now t k j) :
    IOk now (unbindId t id) k j := by
  refine ⟨?_, h.2, h.3, h.4, h.5, h.6⟩
  intro hc; simp only [unbindId]
  by_cases hid : j.id = id
  · simp [hid]
  · simp [hid]; exact h.1 hc

theorem inv_removeById (s : St) (id : Nat) (h : Inv s) : Inv (removeById s id) := by
  unfold removeById
  cases ht : s.table id with
  | none => exact h
  | some k =>
    obtain ⟨i, hk, hiid⟩ := h.valid id k ht
    simp only [hk]
    have hi := h.inst k i hk
    constructor
    · intro k' j hj
      have hj' : (setInst s k { i with cancelled := true, deadAtStop := decide (i.phase ≠ .checked) }).insts[k']? = some j := hj
      rw [getElem?_setInst s k k' _ i hk] at hj'
      by_cases hkk : k = k'
      · subst hkk; simp at hj'; subst hj'
        have hlive : i.cancelled = false := by
          cases hc : i.cancelled with
          | false => rfl
          | true => exact absurd (hiid ▸ ht) (hi.1 hc)
        refine ⟨?_, by simp, hi.3, hi.4, hi.5, ?_⟩
        · intro _; simp [unbindId, hiid]
        · intro hd; simp at hd; exact ⟨hi.2 hlive, hd, rfl⟩
      · simp [hkk] at hj'
        exact iok_unbindId _ _ _ _ _ (h.inst k' j hj')
    · intro id' k' ht'
      have ht2 : unbindId s.table id id' = some k' := ht'
      simp only [unbindId] at ht2
      by_cases hid : id' = id
      · simp [hid] at ht2
      · simp [hid] at ht2
        obtain ⟨j, hj, hjid⟩ := h.valid id' k' ht2
        have hkk : k ≠ k' := by
          intro e; subst e; rw [hk] at hj; cases hj; exact hid (hjid.symm.trans hiid)
        refine ⟨j, ?_, hjid⟩
        show (setInst s k { i with cancelled := true, deadAtStop := decide (i.phase ≠ .checked) }).insts[k']? = some j
        rw [getElem?_setInst s k k' _ i hk]; simp [hkk, hj]

theorem inv_step (s : St) (ev : Ev) (h : Inv s) : Inv (step true s ev) := by
  cases ev with
  | stop id => exact inv_removeById s id h
  | tick d =>
    constructor
    · intro k i hi
      have := h.inst k i hi
      exact ⟨this.1, this.2, this.3, fun hp => Nat.lt_of_lt_of_le (this.4 hp) (Nat.le_add_right _ _), this.5, this.6⟩
    · exact h.valid
  | new id ivl next =>
    simp only [step]
    by_cases h0 : ivl = 0
    · simp [h0]; exact h
    · simp only [h0, if_false]
      constructor
      · intro k i hi
        by_cases hlt : k < s.insts.length
        · rw [List.getElem?_append_left hlt] at hi
          have := h.inst k i hi
          refine ⟨?_, this.2, this.3, this.4, this.5, this.6⟩
          intro hc; simp only [bindId]
          by_cases hid : i.id = id
          · simp [hid]; omega
          · simp [hid]; exact this.1 hc
        · rw [List.getElem?_append_right (by omega)] at hi
          have hk : k - s.insts.length = 0 := by
            rcases Nat.eq_zero_or_pos (k - s.insts.length) with h' | h'
            · exact h'
            · rw [List.getElem?_eq_none (by simp; omega)] at hi; cases hi
          rw [hk] at hi; simp at hi; subst hi
          exact ⟨by simp, by simp, by simp, by simp, by simp, by simp⟩
      · intro id' k' ht
        simp only [bindId] at ht
        by_cases hid : id' = id
        · simp [hid] at ht; subst ht
          exact ⟨{ id := id, ivl := ivl, next := next, due := s.now + ivl, earliest := s.now + ivl }, by simp, hid.symm⟩
        · simp [hid] at ht
          obtain ⟨j, hj, hjid⟩ := h.valid id' k' ht
          exact ⟨j, by rw [List.getElem?_append_left (lt_of_getElem? _ _ _ hj)]; exact hj, hjid⟩
  | collect k =>
    simp only [step]
    cases hk : s.insts[k]? with
    | none => exact h
    | some i =>
      simp only
      split
      · rename_i hc
        have hi := h.inst k i hk
        refine inv_setInst s k i _ h hk ⟨hi.1, hi.2, ?_, ?_, ?_, ?_⟩ rfl
        · have := hi.3; simp at this ⊢; omega
        · intro _; simp only; rw [hi.5 (Or.inl hc.2.1)]; exact hc.2.2.1
        · intro hp; simp at hp
        · intro hd; exact absurd hc.1 (hi.1 (hi.6 hd).2.2)
      · exact h
  | check k =>
    simp only [step]
    cases hk : s.insts[k]? with
    | none => exact h
    | some i =>
      simp only
      split
      · rename_i hc
        have hi := h.inst k i hk
        refine inv_setInst s k i _ h hk ⟨hi.1, hi.2, ?_, ?_, ?_, ?_⟩ rfl
        · cases hcn : i.cancelled with
          | true => have := hi.3; simp [hc] at this ⊢; omega
          | false => have := hi.2 hcn; simp [this]
        · intro _; exact hi.4 (Or.inl hc)
        · intro hp; cases hcn : i.cancelled <;> simp [hcn] at hp
        · intro hd; have := hi.6 hd; simp [this.2.2, this.1]
      · exact h
  | cbStart k =>
    simp only [step]
    cases hk : s.insts[k]? with
    | none => exact h
    | some i =>
      simp only
      split
      · rename_i hc
        have hi := h.inst k i hk
        refine inv_setInst s k i _ h hk ⟨hi.1, ?_, ?_, ?_, ?_, ?_⟩ rfl
        · intro hcn; simp only at hcn ⊢; simp [hcn, hi.2 hcn]
        · have := hi.3; simp [hc] at this ⊢
          cases hcn : i.cancelled <;> simp [this]
        · intro hp; simp at hp
        · intro hp; simp at hp
        · intro hd; exact absurd hc (hi.6 hd).2.1
      · exact h
  | cbEnd k keep =>
    simp only [step]
    cases hk : s.insts[k]? with
    | none => exact h
    | some i =>
      simp only
      split
      · rename_i hc
        have hi := h.inst k i hk
        refine inv_setInst s k i _ h hk ⟨hi.1, hi.2, ?_, ?_, ?_, ?_⟩ rfl
        · have := hi.3; simp [hc] at this ⊢; exact this
        · intro hp; simp at hp
        · intro _; rfl
        · intro hd; have := hi.6 hd; exact ⟨this.1, by simp, this.2.2⟩
      · exact h
  | finish k =>
    simp only [step]
    cases hk : s.insts[k]? with
    | none => exact h
    | some i =>
      simp only
      have hi := h.inst k i hk
      have hidle : Inv (setInst s k { i with phase := .idle }) → Inv (removeAfterRun true (setInst s k { i with phase := .idle }) k i) := by
        intro h'
        simp only [removeAfterRun, if_true]
        split
        · exact inv_removeById _ _ h'
        · exact h'
      cases hp : i.phase with
      | idle => simp; exact h
      | collected => simp; exact h
      | checked => simp; exact h
      | running => simp; exact h
      | failed =>
        simp only [removeAfterRun, if_true]
        split
        · exact inv_removeById _ _ h
        · exact h
      | ended b =>
        have hrest : IOk s.now s.table k { i with phase := .idle } := by
          refine ⟨hi.1, hi.2, ?_, ?_, ?_, ?_⟩
          · have := hi.3; simp [hp] at this ⊢; exact this
          · intro hq; simp at hq
          · intro _; exact hi.5 (Or.inr ⟨b, hp⟩)
          · intro hd; have := hi.6 hd; exact ⟨this.1, by simp, this.2.2⟩
        cases b with
        | true => simp only; exact inv_setInst s k i _ h hk hrest rfl
        | false => simp only; exact hidle (inv_setInst s k i _ h hk hrest rfl)

theorem inv_run (s : St) (evs : List Ev) (h : Inv s) : Inv (run true s evs) := by
  induction evs generalizing s with
  | nil => exact h
  | cons e r ih => exact ih _ (inv_step s e h)

theorem table_removeById (s : St) (id id' : Nat) (h : (removeById s id).table id' ≠ s.table id') : id' = id := by
  unfold removeById at h
  cases ht : s.table id with
  | none => simp [ht] at h
  | some k =>
    simp only [ht] at h
    cases hk : s.insts[k]? with
    | none =>
      simp only [hk, unbindId] at h
      by_cases hid : id' = id
      · exact hid
      · simp [hid] at h
    | some i =>
      simp only [hk, unbindId, setInst] at h
      by_cases hid : id' = id
      · exact hid
      · simp [hid] at h

/-- **remove_only_self.**  The removal done by a finished run touches the table
only where it still holds that very instance: a timer registered later under the
same id is never removed by its predecessor. -/
theorem remove_only_self (s : St) (k id' : Nat)
    (h : (step true s (.finish k)).table id' ≠ s.table id') : s.table id' = some k := by
  simp only [step] at h
  cases hk : s.insts[k]? with
  | none => simp [hk] at h
  | some i =>
    simp only [hk] at h
    have key : ∀ s' : St, s'.table = s.table → (removeAfterRun true s' k i).table id' ≠ s.table id' → s.table id' = some k := by
      intro s' hs hne
      simp only [removeAfterRun, if_true] at hne
      split at hne
      · rename_i hb
        have hid := table_removeById s' i.id id' (by rw [hs]; exact hne)
        rw [hid, ← hs]; exact hb
      · rw [hs] at hne; exact absurd rfl hne
    cases hp : i.phase with
    | idle => simp [hp] at h
    | collected => simp [hp] at h
    | checked => simp [hp] at h
    | running => simp [hp] at h
    | failed => simp only [hp] at h; exact key s rfl h
    | ended b =>
      cases b with
      | true => simp [hp, setInst] at h
      | false => simp only [hp] at h; exact key (setInst s k { i with phase := .idle }) rfl h

/-- a stopped timer's callback starts at most once more … -/
theorem late_starts_le_one (evs : List Ev) (k : Nat) (i : Inst)
    (hk : (run true {} evs).insts[k]? = some i) : i.lateStarts ≤ 1 := by
  have := ((inv_run {} evs inv_init).inst k i hk).late_le
  omega

/-- … and not at all when the stop found the run before its cancellation check
(idle, or collected by `iterate` but not yet past `ctx.Err()`): **no_start_after_stop** (partial:
the window between the check and the callback is the known finding). -/
theorem no_start_after_stop_partial (evs : List Ev) (k : Nat) (i : Inst)
    (hk : (run true {} evs).insts[k]? = some i) (hd : i.deadAtStop = true) : i.lateStarts = 0 :=
  (((inv_run {} evs inv_init).inst k i hk).dead hd).1

/-- a live (never stopped) timer has no late start by definition; and a stopped one is out of the table -/
theorem stopped_unbound (evs : List Ev) (k : Nat) (i : Inst)
    (hk : (run true {} evs).insts[k]? = some i) (hc : i.cancelled = true) :
    (run true {} evs).table i.id ≠ some k :=
  ((inv_run {} evs inv_init).inst k i hk).canc_unbound hc

/-- **not_before_interval.**  A callback can start only from phase `checked`, and then
the time allowed for it (registration + interval(0), or end of the previous
callback + interval(n)) lies strictly in the past. -/
theorem not_before_interval (evs : List Ev) (k : Nat) (i : Inst)
    (hk : (run true {} evs).insts[k]? = some i)
    (hstart : (step true (run true {} evs) (.cbStart k)).insts[k]? ≠ some i) :
    i.earliest < (run true {} evs).now := by
  have hinv := (inv_run {} evs inv_init).inst k i hk
  simp only [step, hk] at hstart
  by_cases hp : i.phase = .checked
  · exact hinv.ready (Or.inr hp)
  · simp [hp, hk] at hstart

/-! ### witnesses -/

def idReuse : List Ev :=
  [.new 7 5 5, .tick 6, .collect 0, .check 0, .cbStart 0, .new 7 5 5, .cbEnd 0 false, .finish 0]

/-- the repaired code: the successor registered under the same id survives its predecessor's removal -/
theorem id_reuse_successor_survives :
    (run true {} idReuse).table 7 = some 1 ∧ ((run true {} idReuse).insts[1]?.map (·.cancelled)) = some false := by
  decide

/-- the code before the repair (`removeTimer(tr.id)`): the successor is removed and cancelled -/
theorem id_reuse_old_code_witness :
    (run false {} idReuse).table 7 = none ∧ ((run false {} idReuse).insts[1]?.map (·.cancelled)) = some true := by
  decide

/-- the window that remains: a stop between `ctx.Err()` and the callback (known finding) -/
theorem stop_window_witness :
    ((run true {} [.new 7 5 5, .tick 6, .collect 0, .check 0, .stop 7, .cbStart 0]).insts[0]?.map (·.lateStarts)) = some 1 := by
  decide

/-! ### the tie to the source -/

theorem facts_ok :
    Gen.C34.finishRemovesSameOnly = true ∧ Gen.C34.runChecksCtxFirst = true ∧
    Gen.C34.newTimerSetsExpiry = true ∧ Gen.C34.extractErrors = [] := by decide

theorem source_pinned : Gen.C34.pins = Pins.C34 := by decide

end Mitum.C34
