import MitumModel.Model.BatchWork
/-
Model of `base.BatchIsValidMaps` / `IsValidMaps` (base/block.go).
A block map is (height, hash, previous).  `base` is the first requested height
(`prev.height + 1`, or 0 when there is no previous map).  Within a batch the
fetched maps arrive in an arbitrary order; each arrival is validated under the
lock, so an arrival is one atomic step.
`checkHeight` is the regenerated fact that a returned map whose height is not
the requested one is rejected.
-/
namespace Mitum.BlockMaps
open Mitum.BatchWork

structure BM where
  height : Nat
  hash : Nat
  prev : Nat
deriving Repr, DecidableEq

/-- the backward link check of `IsValidMaps` (after `maps[index] = m`) -/
def backOK (m : BM) (maps' : List (Option BM)) (previous : Option BM) (index : Nat) : Bool :=
  if index = 0 then
    (if m.height = 0 then true
     else match previous with
       | some p => decide (m.prev = p.hash)
       | none => false)       -- nil dereference in the code; unreachable: slotBase = 0 ⇒ height 0
  else match maps'[index - 1]? with
    | some (some b) => decide (m.prev = b.hash)
    | _ => true

/-- the forward link check of `IsValidMaps` -/
def fwdOK (m : BM) (maps' : List (Option BM)) (index : Nat) : Bool :=
  match maps'[index + 1]? with
  | some (some f) => decide (f.prev = m.hash)
  | _ => true

/-- `IsValidMaps(m, maps, previous)`; `slotBase` = previous.height + 1 (0 if none) -/
def isValidMaps (m : BM) (maps : List (Option BM)) (previous : Option BM) (slotBase : Nat) :
    Option (List (Option BM)) :=
  if m.height < slotBase then none
  else if maps.length ≤ m.height - slotBase then none
  else
    let maps' := maps.set (m.height - slotBase) (some m)
    if backOK m maps' previous (m.height - slotBase) && fwdOK m maps' (m.height - slotBase) then some maps' else none

structure BState where
  maps : List (Option BM)
  newprev : Option BM

/-- one job of a batch: (requested height, fetched map) -/
def job (checkHeight : Bool) (lastprev : Option BM) (slotBase lastheight : Nat) (s : BState)
    (rq : Nat) (m : BM) : Option BState :=
  if checkHeight && !(m.height = rq) then none
  else match isValidMaps m s.maps lastprev slotBase with
    | none => none
    | some maps' => some { maps := maps', newprev := if m.height = lastheight then some m else s.newprev }

/-- all jobs of one batch in their arrival order -/
def runBatch (checkHeight : Bool) (lastprev : Option BM) (slotBase lastheight len : Nat)
    (arrivals : List (Nat × BM)) (newprev0 : Option BM) : Option BState :=
  arrivals.foldl (fun acc a => acc.bind (fun s => job checkHeight lastprev slotBase lastheight s a.1 a.2))
    (some { maps := List.replicate len none, newprev := newprev0 })

/-- the first height of a batch whose predecessor's last map is `np` (`np.height + 1`, 0 when there is none) -/
def slotBaseOf (np : Option BM) : Nat := match np with | some p => p.height + 1 | none => 0

/-- `BatchIsValidMaps`: batches in order; `arrive b` gives the arrival order of batch `b`'s jobs
    as (requested height, response) pairs -/
def validate (checkHeight : Bool) (prev : Option BM) (limit : Nat) (batches : List Batch)
    (arrive : Batch → List (Nat × BM)) : Bool :=
  let reqBase := slotBaseOf prev
  let rec go (bs : List Batch) (newprev : Option BM) : Bool :=
    match bs with
    | [] => true
    | b :: rest =>
      let lastprev := newprev
      let slotBase := slotBaseOf lastprev
      let len := if (b.last + 1) % limit = 0 then limit else (b.last + 1) % limit
      match runBatch checkHeight lastprev slotBase (reqBase + b.last) len (arrive b) newprev with
      | none => false
      | some s => go rest s.newprev
  go batches prev

end Mitum.BlockMaps
