package main

import (
	"bytes"
	"context"
	"encoding/base64"
	"fmt"
	"os"
	"sort"
	"strings"
	"time"

	"github.com/spikeekips/mitum/base"
	"github.com/spikeekips/mitum/isaac"
	isaacblock "github.com/spikeekips/mitum/isaac/block"
	isaacdatabase "github.com/spikeekips/mitum/isaac/database"
	leveldbstorage "github.com/spikeekips/mitum/storage/leveldb"
	"github.com/spikeekips/mitum/util"
	"github.com/spikeekips/mitum/util/encoder"
	"github.com/spikeekips/mitum/util/fixedtree"
	"github.com/spikeekips/mitum/util/valuehash"
)

func init() { register("C16", runC16) }

// the ways a block can disagree with its manifest; every variant is written by the real
// LocalFSWriter, so the block map is signed and carries the right checksum of every item
var c16variants = []string{
	"ok", "ok", "ok",
	"states-foreign-tree",      // states tree (and manifest root) of other states
	"states-root-mismatch",     // manifest.StatesTree is not the root of the states tree
	"state-extra",              // one more state than the tree has
	"state-missing",            // one state of the tree is missing
	"state-other-height",       // the first state (and its tree node) is of another height
	"state-other-height-later", // a later state is of another height (needs two states at least)
	"ops-foreign-tree",
	"ops-root-mismatch",
	"op-extra",
	"op-missing",
	"proposal-mismatch",     // manifest.Proposal is not the proposal's fact hash
	"proposal-other-height", // the proposal is of another height
	"vp-other-block",        // the ACCEPT majority's new block is not the manifest hash
	"vp-accept-draw",        // the ACCEPT voteproof has no majority
	"vp-other-height",
	"vp-points-differ",
	"no-ops-root-set",         // no operations at all, manifest carries an operations tree root
	"empty-ops-tree-root-set", // an operations tree item without nodes, no operations, manifest carries an operations tree root
	"ok-empty",                // no operations, no states, no trees, no roots: consistent
	"ops-without-root",        // operations and their tree, the manifest has no operations tree root
	"states-without-root",     // states and their tree, the manifest has no states tree root
	"op-replaced-at-leaf",     // a leaf of the operations tree carries the key of a foreign operation (node hash kept, root kept), the operation is replaced
	"state-replaced-at-leaf",  // the same for a state
	"op-body-rewritten",       // the body of the last operation is rewritten; fact hash, operation hash and sign are kept (trees and manifest stay consistent)
	"state-body-rewritten",    // the value of the last state is rewritten under its old hash
}

// the variants that are also written as genesis blocks (height 0: no previous block, operations go through
// base.IsValidGenesisOperation in the importer)
var c16genesisList = []string{"ok", "ok-empty", "op-body-rewritten", "state-body-rewritten", "ops-foreign-tree", "states-foreign-tree", "vp-other-block", "op-extra", "state-extra"}

var c16genesisVariants = func() map[string]bool {
	m := map[string]bool{}
	for _, v := range c16genesisList {
		m[v] = true
	}
	return m
}()

// c16rewrite re-decodes v from its JSON with the bytes `old` replaced by `repl`: an object whose body changed and whose
// stored hashes did not
func c16rewrite[T any](env *c16env, v T, old, repl []byte) (T, error) {
	var out T
	b, err := env.enc.Marshal(v)
	if err != nil {
		return out, err
	}
	if !bytes.Contains(b, old) {
		return out, fmt.Errorf("body to rewrite not found in %s", string(b))
	}
	if err := encoder.Decode(env.enc, bytes.Replace(b, old, repl, 1), &out); err != nil {
		return out, err
	}
	return out, nil
}

type c16env struct {
	*c19env
	nodes []base.LocalNode
}

func runC16(c *Ctx) error {
	env0, err := c19newEnv()
	if err != nil {
		return err
	}
	for _, d := range []encoder.DecodeDetail{
		{Hint: isaac.DummyOperationFactHint, Instance: isaac.DummyOperationFact{}},
		{Hint: isaac.DummyOperationHint, Instance: isaac.DummyOperation{}},
	} {
		if err := env0.encs.AddDetail(d); err != nil {
			return err
		}
	}
	env := &c16env{c19env: env0, nodes: []base.LocalNode{env0.node, base.RandomLocalNode(), base.RandomLocalNode()}}
	n := 60
	if c.Thorough() {
		n = 1200
	}
	scratch, err := os.MkdirTemp("", "verif-c16-")
	if err != nil {
		return err
	}
	defer os.RemoveAll(scratch)
	for i := 0; i < n; i++ {
		variant := c16variants[c.Intn(len(c16variants))]
		if i < len(c16variants) {
			variant = c16variants[i]
		}
		nops, nsts := 1+c.Intn(4), 1+c.Intn(4)
		height := base.Height(int64(33 + c.Intn(50)))
		round := base.Round(uint64(c.Intn(3)))
		genesis := c16genesisVariants[variant] && c.Chance(1, 4)
		if g := i - len(c16variants); g >= 0 && g < len(c16genesisList) { // every genesis variant once, right after every variant once
			variant, genesis = c16genesisList[g], true
		}
		if genesis {
			height = base.GenesisHeight
			round = 0 // the genesis point is (0, 0)
		}
		src, dst := fmt.Sprintf("%s/s%d", scratch, i), fmt.Sprintf("%s/d%d", scratch, i)
		if err := os.MkdirAll(src, 0o700); err != nil {
			return err
		}
		if err := os.MkdirAll(dst, 0o700); err != nil {
			return err
		}
		m, err := c16write(c, env, src, variant, height, round, nops, nsts)
		if err != nil {
			return fmt.Errorf("write %s: %w", variant, err)
		}
		readers := isaac.NewBlockItemReaders(src, env.encs, nil)
		if err := readers.Add(isaacblock.LocalFSWriterHint, isaacblock.NewDefaultItemReaderFunc(3)); err != nil {
			return err
		}
		// the reference validator on the source block
		verr := isaacblock.IsValidBlockFromLocalFS(readers.Item, height, hNetworkID, nil, nil, nil)
		// the importer
		ierr := c16import(env, readers, dst, m, height)
		readers.Close()
		// the validator on what the importer stored
		stored := "-"
		if ierr == nil {
			dreaders := isaac.NewBlockItemReaders(dst, env.encs, nil)
			if err := dreaders.Add(isaacblock.LocalFSWriterHint, isaacblock.NewDefaultItemReaderFunc(3)); err != nil {
				return err
			}
			if derr := isaacblock.IsValidBlockFromLocalFS(dreaders.Item, height, hNetworkID, nil, nil, nil); derr == nil {
				stored = "valid"
			} else {
				stored = "invalid"
			}
			dreaders.Close()
		}
		_ = os.RemoveAll(src)
		_ = os.RemoveAll(dst)
		verdict := func(err error) string {
			if err == nil {
				return "accept"
			}
			return "reject"
		}
		iv, vv := verdict(ierr), verdict(verr)
		c.Eval(1)
		c.Count("variant", variant)
		c.Count("height", map[bool]string{true: "genesis", false: "above-genesis"}[genesis])
		c.Count("importer", iv)
		c.Count("validator", vv)
		consistent := variant == "ok" || variant == "ok-empty"
		input := map[string]interface{}{"variant": variant, "height": int64(height), "round": uint64(round), "operations": nops, "states": nsts,
			"importer": iv, "validator": vv, "stored_block_revalidated": stored}
		if ierr != nil {
			input["importer_error"] = c16short(ierr)
		}
		if verr != nil {
			input["validator_error"] = c16short(verr)
		}
		switch {
		case consistent && (ierr != nil || verr != nil):
			c.Violation("C16:consistent-block-refused", fmt.Sprintf("a well-formed block was refused: importer %v, validator %v", ierr, verr), input)
		case !consistent && ierr == nil && verr != nil:
			c.Violation("C16:importer-stores-what-validator-rejects:"+c16group(variant),
				fmt.Sprintf("%s: BlockImporter stored the block, IsValidBlockFromLocalFS rejects it (%s)", variant, c16short(verr)), input)
		case !consistent && ierr == nil && verr == nil:
			c.Violation("C16:inconsistent-block-passes-both:"+variant,
				fmt.Sprintf("%s: stored by BlockImporter and accepted by IsValidBlockFromLocalFS", variant), input)
		case !consistent && ierr != nil && verr == nil:
			c.Violation("C16:validator-accepts-inconsistent-block:"+variant, fmt.Sprintf("%s: IsValidBlockFromLocalFS accepts", variant), input)
		}
		if genesis {
			c.Case(fmt.Sprintf("blk %s %d %d genesis", variant, nops, nsts), fmt.Sprintf("importer=%s validator=%s", iv, vv))
		} else {
			c.Case(fmt.Sprintf("blk %s %d %d", variant, nops, nsts), fmt.Sprintf("importer=%s validator=%s", iv, vv))
		}
		c.Nontrivial(fmt.Sprintf("%s/%d/%d/%d/%d", variant, nops, nsts, height, round))
		if i < len(c16variants) || i%50 == 0 {
			c.Sample(input)
		}
	}
	return nil
}

func c16group(variant string) string {
	switch {
	case strings.HasSuffix(variant, "-body-rewritten"): // the item's own validity, not its relation to tree and manifest
		return strings.TrimSuffix(variant, "-rewritten")
	case strings.HasPrefix(variant, "state"):
		return "states"
	case strings.HasPrefix(variant, "op"), variant == "no-ops-root-set", variant == "empty-ops-tree-root-set":
		return "operations"
	case strings.HasPrefix(variant, "proposal"):
		return "proposal"
	}
	return "voteproofs"
}

func c16short(err error) string {
	s := err.Error()
	if i := strings.LastIndex(s, ": "); i >= 0 && len(s) > 160 {
		s = s[i+2:]
	}
	if len(s) > 200 {
		s = s[:200]
	}
	return s
}

func c16import(env *c16env, readers *isaac.BlockItemReaders, dst string, m base.BlockMap, height base.Height) (err error) {
	defer func() {
		if r := recover(); r != nil {
			err = fmt.Errorf("panic: %v", r)
		}
	}()
	// the sync path validates every fetched block map before it imports (BatchIsValidMaps)
	if err := m.IsValid(hNetworkID); err != nil {
		return err
	}
	bwdb := isaacdatabase.NewLeveldbBlockWrite(height, leveldbstorage.NewMemStorage(), env.encs, env.enc)
	defer bwdb.Close()
	im, err := isaacblock.NewBlockImporter(dst, env.encs, m, bwdb, func(context.Context) error { return nil }, hNetworkID)
	if err != nil {
		return err
	}
	var types []string
	m.Items(func(item base.BlockMapItem) bool {
		types = append(types, string(item.Type()))
		return true
	})
	sort.Strings(types)
	for _, t := range types {
		it := base.BlockItemType(t)
		if it == base.BlockItemMap {
			continue
		}
		var werr error
		_, found, rerr := readers.Item(height, it, func(ir isaac.BlockItemReader) error {
			werr = im.WriteItem(it, ir)
			return werr
		})
		switch {
		case werr != nil:
			_ = im.CancelImport(context.Background())
			return werr
		case rerr != nil:
			_ = im.CancelImport(context.Background())
			return rerr
		case !found:
			_ = im.CancelImport(context.Background())
			return fmt.Errorf("item %s not found in the source", t)
		}
	}
	merge, err := im.Save(context.Background())
	if err != nil {
		_ = im.CancelImport(context.Background())
		return err
	}
	return merge(context.Background())
}

func c16write(c *Ctx, env *c16env, root, variant string, height base.Height, round base.Round, nops, nsts int) (base.BlockMap, error) {
	ctx := context.Background()
	local := env.nodes[0]
	point := base.NewPoint(height, round)
	fs, err := isaacblock.NewLocalFSWriter(root, height, env.enc, env.enc, local, hNetworkID)
	if err != nil {
		return nil, err
	}
	var prev, prevSuf util.Hash
	if height != base.GenesisHeight {
		prev, prevSuf = valuehash.RandomSHA256(), valuehash.RandomSHA256()
	}
	opBody := map[string][]byte{}
	newOp := func() base.Operation {
		body := valuehash.RandomSHA256()
		fact := isaac.NewDummyOperationFact(util.UUID().Bytes(), body)
		opBody[fact.Hash().String()] = body.Bytes()
		op, _ := isaac.NewDummyOperation(fact, local.Privatekey(), hNetworkID)
		return op
	}
	stBody := map[string]string{}
	newState := func(h base.Height) base.State {
		v := util.UUID().String()
		var previous util.Hash
		if height != base.GenesisHeight {
			previous = valuehash.RandomSHA256()
		}
		st := base.NewBaseState(h, "k-"+util.UUID().String(), base.NewDummyStateValue(v), previous, []util.Hash{valuehash.RandomSHA256()})
		stBody[st.Hash().String()] = v
		return st
	}
	// operations
	var ops, treeOps []base.Operation
	if variant != "no-ops-root-set" && variant != "empty-ops-tree-root-set" && variant != "ok-empty" {
		for i := 0; i < nops; i++ {
			ops = append(ops, newOp())
		}
	}
	treeOps = ops
	written := ops
	switch variant {
	case "ops-foreign-tree":
		treeOps = nil
		for range ops {
			treeOps = append(treeOps, newOp())
		}
	case "op-extra":
		written = append(append([]base.Operation{}, ops...), newOp())
	case "op-missing":
		written = ops[:len(ops)-1]
		if len(written) == 0 { // keep the item present
			written = []base.Operation{newOp()}
			treeOps = append(append([]base.Operation{}, ops...), newOp())
		}
	}
	var opsRoot util.Hash
	ophs := make([][2]util.Hash, len(ops))
	for i := range ops {
		ophs[i] = [2]util.Hash{ops[i].Hash(), ops[i].Fact().Hash()}
	}
	var opsTree *fixedtree.Tree
	var replaced base.Operation // set by op-replaced-at-leaf: written instead of the last operation
	writeOps := func() error {
		for i := range written {
			op := written[i]
			if replaced != nil && i == len(written)-1 {
				op = replaced
			}
			if err := fs.SetOperation(ctx, uint64(len(written)), uint64(i), op); err != nil {
				return err
			}
		}
		return nil
	}
	if len(treeOps) > 0 {
		tw, err := fixedtree.NewWriter(base.OperationFixedtreeHint, uint64(len(treeOps)))
		if err != nil {
			return nil, err
		}
		for i := range treeOps {
			var node base.OperationFixedtreeNode
			if c.Chance(1, 4) {
				node = base.NewNotInStateOperationFixedtreeNode(treeOps[i].Fact().Hash(), "ignored")
			} else {
				node = base.NewInStateOperationFixedtreeNode(treeOps[i].Fact().Hash(), "")
			}
			if err := tw.Add(uint64(i), node); err != nil {
				return nil, err
			}
		}
		tr, err := tw.Tree()
		if err != nil {
			return nil, err
		}
		opsRoot = tr.Root()
		if variant == "op-replaced-at-leaf" {
			last := uint64(len(treeOps) - 1)
			foreign := newOp()
			if err := tr.Set(last, base.NewInStateOperationFixedtreeNode(foreign.Fact().Hash(), "").SetHash(tr.Node(last).Hash())); err != nil {
				return nil, err
			}
			replaced = foreign
		}
		opsTree = &tr
	}
	if variant == "op-body-rewritten" {
		last := written[len(written)-1]
		old := []byte(base64.StdEncoding.EncodeToString(opBody[last.Fact().Hash().String()]))
		nop, err := c16rewrite(env, last, old, []byte(base64.StdEncoding.EncodeToString(valuehash.RandomSHA256().Bytes())))
		if err != nil {
			return nil, err
		}
		if !nop.Hash().Equal(last.Hash()) || !nop.Fact().Hash().Equal(last.Fact().Hash()) || nop.IsValid(hNetworkID) == nil {
			return nil, fmt.Errorf("op-body-rewritten: the rewritten operation keeps its hashes and is invalid by itself: not so")
		}
		replaced = nop
	}
	if err := writeOps(); err != nil {
		return nil, err
	}
	if opsTree != nil {
		if err := fs.SetOperationsTree(ctx, *opsTree); err != nil {
			return nil, err
		}
	}
	if variant == "empty-ops-tree-root-set" {
		if err := fs.SetOperationsTree(ctx, fixedtree.EmptyTree()); err != nil {
			return nil, err
		}
	}
	if variant == "ops-root-mismatch" || variant == "no-ops-root-set" || variant == "empty-ops-tree-root-set" {
		opsRoot = valuehash.RandomSHA256()
	}
	if variant == "ops-without-root" {
		opsRoot = nil
	}
	// proposal
	prPoint := point
	if variant == "proposal-other-height" {
		prPoint = base.NewPoint(height+1, round)
	}
	pr := isaac.NewProposalSignFact(isaac.NewProposalFact(prPoint, local.Address(), prev, ophs))
	if err := pr.Sign(local.Privatekey(), hNetworkID); err != nil {
		return nil, err
	}
	if err := fs.SetProposal(ctx, pr); err != nil {
		return nil, err
	}
	manifestProposal := pr.Fact().Hash()
	if variant == "proposal-mismatch" {
		manifestProposal = valuehash.RandomSHA256()
	}
	// states
	var sts, treeSts []base.State
	if variant != "ok-empty" {
		for i := 0; i < nsts; i++ {
			sts = append(sts, newState(height))
		}
	}
	switch variant {
	case "state-other-height":
		sts[0] = newState(height - 1)
	case "state-other-height-later":
		if len(sts) < 2 {
			sts = append(sts, newState(height))
		}
		sts[1+c.Intn(len(sts)-1)] = newState(height - 1)
	}
	treeSts = sts
	writtenSts := sts
	switch variant {
	case "states-foreign-tree":
		treeSts = nil
		for range sts {
			treeSts = append(treeSts, newState(height))
		}
	case "state-extra":
		writtenSts = append(append([]base.State{}, sts...), newState(height))
	case "state-missing":
		writtenSts = sts[:len(sts)-1]
		if len(writtenSts) == 0 {
			writtenSts = []base.State{newState(height)}
			treeSts = append(append([]base.State{}, sts...), newState(height))
		}
	}
	var stsRoot util.Hash
	var stsTree *fixedtree.Tree
	if len(treeSts) > 0 {
		tw, err := fixedtree.NewWriter(base.StateFixedtreeHint, uint64(len(treeSts)))
		if err != nil {
			return nil, err
		}
		for i := range treeSts {
			if err := tw.Add(uint64(i), fixedtree.NewBaseNode(treeSts[i].Hash().String())); err != nil {
				return nil, err
			}
		}
		ststree, err := tw.Tree()
		if err != nil {
			return nil, err
		}
		stsRoot = ststree.Root()
		if variant == "state-replaced-at-leaf" {
			last := uint64(len(treeSts) - 1)
			foreign := newState(height)
			if err := ststree.Set(last, fixedtree.NewBaseNode(foreign.Hash().String()).SetHash(ststree.Node(last).Hash())); err != nil {
				return nil, err
			}
			writtenSts = append(append([]base.State{}, writtenSts[:len(writtenSts)-1]...), foreign)
		}
		stsTree = &ststree
	}
	if variant == "state-body-rewritten" {
		last := writtenSts[len(writtenSts)-1]
		nst, err := c16rewrite(env, last, []byte(stBody[last.Hash().String()]), []byte(util.UUID().String()))
		if err != nil {
			return nil, err
		}
		if !nst.Hash().Equal(last.Hash()) || nst.IsValid(nil) == nil {
			return nil, fmt.Errorf("state-body-rewritten: the rewritten state keeps its hash and is invalid by itself: not so")
		}
		writtenSts = append(append([]base.State{}, writtenSts[:len(writtenSts)-1]...), nst)
	}
	for i := range writtenSts {
		if err := fs.SetState(ctx, uint64(len(writtenSts)), uint64(i), writtenSts[i]); err != nil {
			return nil, err
		}
	}
	if stsTree != nil {
		if err := fs.SetStatesTree(ctx, *stsTree); err != nil {
			return nil, err
		}
	}
	if variant == "states-root-mismatch" {
		stsRoot = valuehash.RandomSHA256()
	}
	if variant == "states-without-root" {
		stsRoot = nil
	}
	manifest := isaac.NewManifest(height, prev, manifestProposal, opsRoot, stsRoot, prevSuf, time.Now().UTC())
	// voteproofs
	ipoint, apoint := point, point
	switch variant {
	case "vp-other-height":
		ipoint, apoint = base.NewPoint(height+1, round), base.NewPoint(height+1, round)
	case "vp-points-differ":
		apoint = base.NewPoint(height, round+1)
	}
	ifact := isaac.NewINITBallotFact(ipoint, prev, pr.Fact().Hash(), nil)
	ivp := isaac.NewINITVoteproof(ipoint)
	var isfs []base.BallotSignFact
	for _, nd := range env.nodes {
		sf := isaac.NewINITBallotSignFact(ifact)
		if err := sf.NodeSign(nd.Privatekey(), hNetworkID, nd.Address()); err != nil {
			return nil, err
		}
		isfs = append(isfs, sf)
	}
	ivp.SetMajority(ifact).SetSignFacts(isfs).SetThreshold(base.Threshold(67)).Finish()
	newBlock := manifest.Hash()
	if variant == "vp-other-block" {
		newBlock = valuehash.RandomSHA256()
	}
	avp := isaac.NewACCEPTVoteproof(apoint)
	var asfs []base.BallotSignFact
	for i, nd := range env.nodes {
		nb := newBlock
		if variant == "vp-accept-draw" && i > 0 { // three different new blocks: a draw
			nb = valuehash.RandomSHA256()
		}
		afact := isaac.NewACCEPTBallotFact(apoint, pr.Fact().Hash(), nb, nil)
		sf := isaac.NewACCEPTBallotSignFact(afact)
		if err := sf.NodeSign(nd.Privatekey(), hNetworkID, nd.Address()); err != nil {
			return nil, err
		}
		asfs = append(asfs, sf)
		if i == 0 && variant != "vp-accept-draw" {
			avp.SetMajority(afact)
		}
	}
	avp.SetSignFacts(asfs).SetThreshold(base.Threshold(67)).Finish()
	if err := fs.SetINITVoteproof(ctx, ivp); err != nil {
		return nil, err
	}
	if err := fs.SetACCEPTVoteproof(ctx, avp); err != nil {
		return nil, err
	}
	if err := fs.SetManifest(ctx, manifest); err != nil {
		return nil, err
	}
	return fs.Save(ctx)
}
