package main

func init() { register("C06", genC06) }

// C06: the model transcribes LastPoint.Before & co, Stage/Point compare and
// Ballotbox.SetLastPoint by hand; pinned by source hash.
func genC06(o *Out) {
	o.pinFile("isaac/lastpoint.go", "NewLastPoint", "NewLastPointFromVoteproof", "LastPoint.Before", "LastPoint.beforeSamePoint",
		"LastPoint.beforeNotSamePoint", "IsNewVoteproofbyPoint", "IsNewVoteproof", "IsNewBallot")
	o.pinFile("isaac/last_voteproofs.go", "LastVoteproofs.Cap", "findLastVoteproofs", "LastVoteproofsHandler.IsNew", "LastVoteproofsHandler.Set", "LastVoteproofsHandler.fillMissing")
	o.pinFile("isaac/states/ballotbox.go", "Ballotbox.SetLastPoint", "Ballotbox.SetLastPointFromVoteproof")
	o.pinFile("base/point.go", "Point.Compare", "StagePoint.Compare", "StagePoint.IsZero", "Height.IsZero")
	f := o.pinFile("base/stage.go", "Stage.Compare")
	if f != nil {
		if v, ok := f.ConstValue("statesmap"); ok {
			o.str("statesmap", normSpace(v))
		} else {
			o.errf("base/stage.go: statesmap not found")
		}
	}
}
