namespace Mitum.Gen.C34
def pins : List (String × String) := []
end Mitum.Gen.C34
