import MitumModel.Common
import MitumModel.Model.Voteproof
import MitumModel.Gen.C03
namespace Mitum.Driver
open Mitum Mitum.Voteproof

def c03nats (s : String) : Option (List Nat) :=
  if s = "" then some [] else (s.splitOn ",").mapM (·.toNat?)

/-- `vp <t10> S:<ids> V:<node=fact,…> E:<node/sig.sig;…> M:<fact|->` → `1`/`0` (accepted or not) -/
def stepC03 (ts : List String) : String :=
  match ts with
  | "vp" :: t :: s :: v :: e :: m :: flags =>
    let sect := fun (x : String) => (x.drop 2).toString
    let votes : Option (List (Nat × String)) :=
      if sect v = "" then some [] else
      ((sect v).splitOn ",").mapM (fun p => match p.splitOn "=" with
        | [n, f] => n.toNat?.map (fun n => (n, f))
        | _ => none)
    let expels : Option (List Expel) :=
      if sect e = "" then some [] else
      ((sect e).splitOn ";").mapM (fun p => match p.splitOn "/" with
        | [n, sg] =>
          match n.toNat?, (if sg = "" then some [] else (sg.splitOn ".").mapM (·.toNat?)) with
          | some n, some sg => some { node := n, signers := sg }
          | _, _ => none
        | _ => none)
    match t.toNat?, c03nats (sect s), votes, expels with
    | some t10, some S, some votes, some expels =>
      boolStr (valid S t10 { votes := votes, expels := expels, majority := if sect m = "-" then none else some (sect m),
                              stuck := flags.contains "stuck", offPoint := flags.contains "offpoint" } Gen.C03.stuckRejectsMajority)
    | _, _, _, _ => "bad-op"
  | _ => "bad-op"

end Mitum.Driver
