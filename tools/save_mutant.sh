#!/bin/bash
# usage: save_mutant.sh <Cxx> <A|B> "<caught_by text>" "<verify cmd text>"
id=$1; v=$2; d=/verif/seeded/$id-$v; mkdir -p $d
cp /tmp/mut/out-$id/$v/patch.diff /tmp/mut/out-$id/$v/DEMO.md $d/ 2>/dev/null
cp /tmp/mut/out-$id/$v/demo_test.go $d/ 2>/dev/null || cp -r /tmp/mut/out-$id/$v/demo $d/ 2>/dev/null
python3 - "$id" "$v" "$d" "$3" "$4" <<'PY'
import json,sys
id,v,d,caught,ver=sys.argv[1:6]
try: meta=json.load(open(f'/tmp/mut/out-{id}/{v}/meta.json'))
except Exception: meta={"property":id}
meta['verified_by_me']={"commands":[ver,"tools/try_mutant.sh patch.diff "+id+" (git -C /repo apply; ./check; git -C /repo checkout -- .)"]}
meta['caught_by']=caught
json.dump(meta,open(d+'/meta.json','w'),indent=1)
PY
