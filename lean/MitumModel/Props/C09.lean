import MitumModel.Model.States
import MitumModel.Gen.C09
import MitumModel.Pins
/-!
C09  State machine takes only allowed transitions.
-/
namespace Mitum.C09
open Mitum.States

/-- **stopped_edges.**  From Stopped only a request for Booting or Broken passes the check. -/
theorem stopped_edges (allowed : Bool) (frm next : S) (h : check allowed .stopped frm next ≠ .ignore) :
    next = .booting ∨ next = .broken := by
  cases allowed <;> cases frm <;> cases next <;> simp_all [check]

/-- **stale_from_no_effect.**  A request whose origin is not the current state is ignored (for a target no handler is
registered for the check answers with an error first: see `stale_unknown_no_effect`) … -/
theorem stale_from_ignored (allowed : Bool) (cur frm next : S) (h : frm ≠ cur) (hn : next ≠ .unknown) :
    check allowed cur frm next = .ignore := by
  cases allowed <;> cases cur <;> cases frm <;> cases next <;> simp_all [check]

/-- … and an ignored request changes nothing and reports nothing -/
theorem ignored_no_effect (sc : Script) (m : M) (frm next : S) (h : check m.allowed m.cur frm next = .ignore) :
    switchState sc m frm next = (m, .done) := by
  simp [switchState, h]

theorem stale_from_no_effect (sc : Script) (m : M) (frm next : S) (h : frm ≠ m.cur) (hn : next ≠ .unknown) :
    switchState sc m frm next = (m, .done) :=
  ignored_no_effect sc m frm next (stale_from_ignored m.allowed m.cur frm next h hn)

/-- … and a stale request for a target without a handler has no effect either, through the whole
`ensureSwitchState`: the check's error sends the loop to Broken with the request's (stale) origin, and that
request is ignored -/
theorem stale_unknown_no_effect (sc : Script) (m : M) (fuel : Nat) (frm : S) (h : frm ≠ m.cur) :
    (ensure sc (fuel + 2) m 0 frm .unknown).1 = m := by
  have h1 : switchState sc m frm .unknown = (m, .error) ∨ switchState sc m frm .unknown = (m, .done) := by
    unfold switchState
    cases hc : check m.allowed m.cur frm .unknown with
    | ignore => right; rfl
    | error => left; rfl
    | ok => cases ha : m.allowed <;> cases hcur : m.cur <;> simp_all [check]
    | redirect r => cases ha : m.allowed <;> cases hcur : m.cur <;> simp_all [check]
  have h2 : switchState sc m frm .broken = (m, .done) := stale_from_no_effect sc m frm .broken h (by simp)
  rcases h1 with e | e
  · simp [ensure, e, h2]
  · simp [ensure, e]

/-- what the check lets through when consensus is not allowed and the node is not in handover -/
theorem check_no_consensus (cur frm next : S) (hc : cur ≠ .handover) :
    (check false cur frm next = .ok → next ≠ .joining ∧ next ≠ .consensus) ∧
    (∀ r, check false cur frm next = .redirect r → r = .syncing) := by
  cases cur <;> cases frm <;> cases next <;> simp_all [check]

/-- the state a single `switchState` can move to -/
theorem switch_target (sc : Script) (m : M) (frm next : S) :
    (switchState sc m frm next).1.cur = m.cur ∨
    (check m.allowed m.cur frm next = .ok ∧ (switchState sc m frm next).1.cur = next) ∨
    (∃ r, check m.allowed m.cur frm next = .redirect r ∧ (switchState sc m frm next).1.cur = r) := by
  unfold switchState
  cases hc : check m.allowed m.cur frm next with
  | ignore => simp
  | error => simp
  | ok =>
    simp only
    cases sc false m.cur frm next <;> simp <;> (try split) <;> (try split) <;>
      first | (cases sc true next frm next <;> simp) | simp
  | redirect r =>
    simp only
    cases sc false m.cur m.cur r <;> simp <;> (try split) <;> (try split) <;>
      first | (cases sc true r m.cur r <;> simp) | simp

/-- **no_consensus_when_disallowed.**  While consensus is not allowed and the node is not in the
Handover state, one switch never leaves the machine in Joining or Consensus unless it already was. -/
theorem no_consensus_when_disallowed (sc : Script) (m : M) (frm next : S)
    (ha : m.allowed = false) (hh : m.cur ≠ .handover) (hj : m.cur ≠ .joining) (hc : m.cur ≠ .consensus) :
    (switchState sc m frm next).1.cur ≠ .joining ∧ (switchState sc m frm next).1.cur ≠ .consensus := by
  have key := check_no_consensus m.cur frm next hh
  rcases switch_target sc m frm next with h | ⟨hk, h⟩ | ⟨r, hk, h⟩
  · rw [h]; exact ⟨hj, hc⟩
  · rw [ha] at hk; rw [h]; exact key.1 hk
  · rw [ha] at hk; have := key.2 r hk; rw [h, this]; simp

/-- the log only grows, by entries whose two components agree -/
def LogOK (m : M) : Prop := ∀ e ∈ m.log, e.1 = e.2

/-- the three shapes a `switchState` result can have -/
theorem switch_shape (sc : Script) (m : M) (frm next : S) :
    (switchState sc m frm next).1 = m ∨
    (∃ x, (switchState sc m frm next).1 = { m with cur := x }) ∨
    (∃ x, (switchState sc m frm next).1 = { m with cur := x, log := m.log ++ [(x, x)] }) := by
  unfold switchState
  cases check m.allowed m.cur frm next with
  | ignore => simp
  | error => simp
  | ok =>
    simp only
    cases sc false m.cur frm next <;> simp only <;> (try split) <;> (try split) <;> (try simp) <;>
      (cases sc true next frm next <;> simp)
  | redirect r =>
    simp only
    cases sc false m.cur m.cur r <;> simp only <;> (try split) <;> (try split) <;> (try simp) <;>
      (cases sc true r m.cur r <;> simp)

theorem switch_log (sc : Script) (m : M) (frm next : S) (h : LogOK m) :
    LogOK (switchState sc m frm next).1 := by
  rcases switch_shape sc m frm next with e | ⟨x, e⟩ | ⟨x, e⟩
  · rw [e]; exact h
  · rw [e]; exact h
  · rw [e]
    intro p hp
    simp only [List.mem_append, List.mem_singleton] at hp
    rcases hp with hp | hp
    · exact h p hp
    · rw [hp]

/-- a report is always the state just entered -/
theorem report_is_current (sc : Script) (m : M) (frm next : S) (s s' : S)
    (h : (switchState sc m frm next).1.log = m.log ++ [(s, s')]) : (switchState sc m frm next).1.cur = s := by
  rcases switch_shape sc m frm next with e | ⟨x, e⟩ | ⟨x, e⟩
  · rw [e] at h; simp at h
  · rw [e] at h; simp at h
  · rw [e] at h ⊢
    simp at h
    exact h.1

/-- **reported_matches_actual.**  Through any `ensureSwitchState`, every reported switch names the
state the machine is in right after that report. -/
theorem reported_matches_actual (sc : Script) : ∀ (fuel : Nat) (m : M) (n : Nat) (frm next : S),
    LogOK m → LogOK (ensure sc fuel m n frm next).1 := by
  intro fuel
  induction fuel with
  | zero => intro m n frm next h; exact h
  | succ fuel ih =>
    intro m n frm next h
    unfold ensure
    split
    · exact ih _ _ _ _ h
    · have hl := switch_log sc m frm next h
      cases hs : switchState sc m frm next with
      | mk m' r =>
        rw [hs] at hl
        cases r with
        | done => exact hl
        | error =>
          simp only
          split
          · exact hl
          · exact ih _ _ _ _ hl
        | redirect f r => exact ih _ _ _ _ hl

/-! ### check-then-act: the toggle between the check and the entering (model-level witness) -/

/-- the check passed while consensus was allowed; it is withdrawn before `exitAndEnter`; the
machine still enters Consensus -/
theorem toggle_toctou_witness :
    check true .syncing .syncing .consensus = .ok ∧
    check false .syncing .syncing .consensus = .ignore := by decide

theorem facts_ok :
    Gen.C09.stoppedEdges = ["StateBooting", "StateBroken"] ∧ Gen.C09.loopBound = 3 ∧
    Gen.C09.enterRedirectSetsCurrent = true ∧ Gen.C09.extractErrors = [] := by decide

theorem source_pinned : Gen.C09.pins = Pins.C09 := by decide

end Mitum.C09
