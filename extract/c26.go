package main

import "strings"

func init() { register("C26", genC26) }

func genC26(o *Out) {
	r := o.pinFile("isaac/database/perm_redis.go", "NewRedisPermanent", "RedisPermanent.State", "RedisPermanent.StateBytes", "RedisPermanent.BlockMap", "RedisPermanent.BlockMapBytes",
		"RedisPermanent.SuffrageProof", "RedisPermanent.SuffrageProofBytes", "RedisPermanent.SuffrageProofByBlockHeight", "RedisPermanent.ExistsInStateOperation",
		"RedisPermanent.ExistsKnownOperation", "RedisPermanent.MergeTempDatabase", "RedisPermanent.mergeTempDatabaseFromLeveldb", "RedisPermanent.mergeStatesTempDatabaseFromLeveldb",
		"RedisPermanent.mergeSuffrageProofsTempDatabaseFromLeveldb", "RedisPermanent.mergeSuffrageProofsByBlockHeightTempDatabaseFromLeveldb", "RedisPermanent.mergeBlockMapTempDatabaseFromLeveldb",
		"RedisPermanent.mergeOperationsTempDatabaseFromLeveldb", "RedisPermanent.loadLastBlockMap", "RedisPermanent.loadLastSuffrageProof", "RedisPermanent.loadNetworkPolicy", "RedisPermanent.loadLast")
	l := o.pinFile("isaac/database/perm_leveldb.go", "LeveldbPermanent.mergeTempDatabaseFromLeveldb", "LeveldbPermanent.State")
	b := o.pinFile("isaac/database/perm_base.go", "basePermanent.mergeTempCaches", "basePermanent.removeStateFromCache", "basePermanent.updateLast")
	if r == nil || l == nil || b == nil {
		return
	}
	body := func(fl *File, recv, name string) string {
		d := fl.Func(recv, name)
		if d == nil {
			o.errf("%s.%s not found", recv, name)
			return ""
		}
		return normSpace(fl.Src(d.Body))
	}
	purge := "temp.iterStateKeys(func(stateKey string) (bool, error) { db.basePermanent.removeStateFromCache(stateKey) return true, nil })"
	o.boolean("redisPurgesStateCache", strings.Contains(body(r, "RedisPermanent", "mergeTempDatabaseFromLeveldb"), purge))
	o.boolean("leveldbPurgesStateCache", strings.Contains(body(l, "LeveldbPermanent", "mergeTempDatabaseFromLeveldb"), purge))
	both := func(name string) bool {
		return strings.Contains(body(r, "RedisPermanent", "mergeTempDatabaseFromLeveldb"), name) && strings.Contains(body(l, "LeveldbPermanent", "mergeTempDatabaseFromLeveldb"), name)
	}
	o.boolean("bothUpdateLastAndCaches", both("db.updateLast(") && both("db.basePermanent.mergeTempCaches(temp.stcache, temp.instateoperationcache)"))
}
