import MitumModel.Common
import MitumModel.Model.FixedTree
/-
Model of `isaacblock.SuffrageProof` (isaac/block/suffrage.go): `IsValid` (state
height = manifest height, the state holds a suffrage) and `Prove(previous)`
(genesis rules, or: higher than the previous state, `Previous()` = its hash, the
previous state holds a suffrage, suffrage height + 1; the fixed-tree proof proves
the state's hash; and — `rootCompared`, the repaired code — the proof's root is
the manifest's states-tree root).

The block map is reduced to the manifest's height and states-tree root; hashes of
the tree are symbolic (`SHash`).
-/
namespace Mitum.SuffrageProof
open Mitum.FixedTree

structure Prev where
  hash : Bytes
  height : Nat
  isSuffrage : Bool
  sufHeight : Nat
deriving Repr, DecidableEq

structure SP where
  manifestHeight : Nat               -- `base.GenesisHeight` = 0
  statesTree : Option SHash           -- `Manifest().StatesTree()`
  stHeight : Nat
  stKey : Bytes                       -- the state's hash (the key proven in the tree)
  stPrev : Option Bytes               -- `State.Previous()`
  isSuffrage : Bool
  sufHeight : Nat
  proof : List (PEntry SHash)
deriving Repr, DecidableEq

inductive Res | ok | error | panic
deriving Repr, DecidableEq

def proofRoot (p : List (PEntry SHash)) : Option SHash := (p.getLast?).bind (fun e => e.map (·.hash))

def isValid (sp : SP) : Bool := decide (sp.stHeight = sp.manifestHeight) && sp.isSuffrage

/-- `Prove(previousState)`; a nil previous state of a non-genesis proof is dereferenced -/
def prove (rootCompared : Bool) (sp : SP) (prev : Option Prev) : Res :=
  if sp.manifestHeight = 0 then
    if prev.isSome then .error
    else if sp.stHeight ≠ 0 then .error
    else if !(FixedTree.prove snh sp.proof sp.stKey) then .error
    else if rootCompared && !(decide (proofRoot sp.proof = sp.statesTree) && sp.statesTree.isSome) then .error
    else .ok
  else
    match prev with
    | none => .panic
    | some p =>
      if sp.stHeight ≤ p.height then .error
      else if sp.stPrev ≠ some p.hash then .error
      else if !p.isSuffrage then .error
      else if sp.sufHeight ≠ p.sufHeight + 1 then .error
      else if !(FixedTree.prove snh sp.proof sp.stKey) then .error
      else if rootCompared && !(decide (proofRoot sp.proof = sp.statesTree) && sp.statesTree.isSome) then .error
      else .ok

def accept (rootCompared : Bool) (sp : SP) (prev : Option Prev) : Bool :=
  isValid sp && decide (prove rootCompared sp prev = .ok)

end Mitum.SuffrageProof
