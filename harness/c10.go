package main

import (
	"context"
	"fmt"
	"runtime"
	"strings"
	"time"

	"github.com/spikeekips/mitum/base"
	"github.com/spikeekips/mitum/isaac"
	isaacblock "github.com/spikeekips/mitum/isaac/block"
	isaacdatabase "github.com/spikeekips/mitum/isaac/database"
	isaacoperation "github.com/spikeekips/mitum/isaac/operation"
	leveldbstorage "github.com/spikeekips/mitum/storage/leveldb"
	"github.com/spikeekips/mitum/util"
	"github.com/spikeekips/mitum/util/fixedtree"
	"github.com/spikeekips/mitum/util/hint"
	"github.com/spikeekips/mitum/util/valuehash"
)

func init() { register("C10", runC10) }

// a file-system writer that keeps nothing: only the manifest is looked at
type c10fs struct{}

func (c10fs) SetProposal(context.Context, base.ProposalSignFact) error           { return nil }
func (c10fs) SetOperation(context.Context, uint64, uint64, base.Operation) error { return nil }
func (c10fs) SetOperationsTree(context.Context, fixedtree.Tree) error            { return nil }
func (c10fs) SetState(context.Context, uint64, uint64, base.State) error         { return nil }
func (c10fs) SetStatesTree(context.Context, fixedtree.Tree) error                { return nil }
func (c10fs) SetManifest(context.Context, base.Manifest) error                   { return nil }
func (c10fs) SetINITVoteproof(context.Context, base.INITVoteproof) error         { return nil }
func (c10fs) SetACCEPTVoteproof(context.Context, base.ACCEPTVoteproof) error     { return nil }
func (c10fs) Save(context.Context) (base.BlockMap, error)                        { return nil, fmt.Errorf("not saved") }
func (c10fs) Cancel() error                                                      { return nil }

type c10db struct {
	db *isaacdatabase.LeveldbBlockWrite
	st *leveldbstorage.Storage
	at time.Time
}

var c10open []c10db

type c10op struct {
	tok string
	op  base.Operation
}

// c10noisy delays PreProcess of some operations (the sequential phase of the proposal processor)
type c10noisy struct {
	base.OperationProcessor
	seed uint64
}

func (p c10noisy) PreProcess(ctx context.Context, op base.Operation, gs base.GetStateFunc) (context.Context, base.OperationProcessReasonError, error) {
	b := op.Hash().Bytes()
	y := (uint64(b[2])<<8 | uint64(b[3])) * (p.seed*40503 + 7)
	if y&1 == 0 {
		time.Sleep(time.Duration((y>>5)%1200) * time.Microsecond)
	}
	return p.OperationProcessor.PreProcess(ctx, op, gs)
}

func runC10(c *Ctx) error {
	env, err := c19newEnv()
	if err != nil {
		return err
	}
	n := 40
	if c.Thorough() {
		n = 600
	}
	w := &c17world{keys: map[string]int{}}
	for i := 0; i < n; i++ {
		height := 30 + c.Intn(20)
		sufHeight := 5 + c.Intn(10)
		t10 := []int{670, 670, 750, 1000, 510}[c.Intn(5)]
		nm := 2 + c.Intn(5)
		var members []c17party
		var memberStart []int
		var svs []base.SuffrageNodeStateValue
		for j := 0; j < nm; j++ {
			p := w.party()
			members = append(members, p)
			st := 1 + c.Intn(height-1)
			memberStart = append(memberStart, st)
			svs = append(svs, isaac.NewSuffrageNodeStateValue(isaac.NewNode(p.priv.Publickey(), p.addr), base.Height(int64(st))))
		}
		suffragest := base.NewBaseState(base.Height(int64(height-1)), isaac.SuffrageStateKey,
			isaac.NewSuffrageNodesStateValue(base.Height(int64(sufHeight)), svs), valuehash.RandomSHA256(), []util.Hash{valuehash.RandomSHA256()})
		nc := c.Intn(4)
		manyJoins := c.Chance(1, 4) // three to five candidates that all join in this block
		if manyJoins {
			nc = 3 + c.Intn(3)
		}
		// an expired candidate (not the last one of the list) registers again in this block
		reRegister := !manyJoins && c.Chance(1, 4)
		if reRegister && nc < 2 {
			nc = 2 + c.Intn(3)
		}
		var cands []c17party
		var candStart, candDeadline []int
		var cvs []base.SuffrageCandidateStateValue
		for j := 0; j < nc; j++ {
			p := w.party()
			cands = append(cands, p)
			st := height - 3 + c.Intn(3)
			dl := height - 1 + c.Intn(4)
			if dl < st {
				dl = st
			}
			if manyJoins && dl < height {
				dl = height + 1
			}
			if reRegister && j == 0 {
				dl = height - 1
				if st > dl {
					st = dl
				}
			}
			candStart = append(candStart, st)
			candDeadline = append(candDeadline, dl)
			cvs = append(cvs, isaac.NewSuffrageCandidateStateValue(isaac.NewNode(p.priv.Publickey(), p.addr), base.Height(int64(st)), base.Height(int64(dl))))
		}
		var candidatest base.State
		if nc > 0 {
			candidatest = base.NewBaseState(base.Height(int64(height-2)), isaac.SuffrageCandidateStateKey,
				isaac.NewSuffrageCandidatesStateValue(cvs), valuehash.RandomSHA256(), []util.Hash{valuehash.RandomSHA256()})
		}
		policy := isaac.DefaultNetworkPolicy()
		policyst := base.NewBaseState(base.Height(int64(height-5)), isaac.NetworkPolicyStateKey,
			isaac.NewNetworkPolicyStateValue(policy), valuehash.RandomSHA256(), []util.Hash{valuehash.RandomSHA256()})
		getState := func(key string) (base.State, bool, error) {
			switch key {
			case isaac.SuffrageCandidateStateKey:
				if candidatest == nil {
					return nil, false, nil
				}
				return candidatest, true, nil
			case isaac.SuffrageStateKey:
				return suffragest, true, nil
			case isaac.NetworkPolicyStateKey:
				return policyst, true, nil
			}
			return nil, false, nil
		}
		outsider := w.party()
		var ops []c10op
		twoPolicies := false
		if manyJoins {
			for _, ci := range c.Perm(nc) {
				cand := cands[ci]
				op := isaacoperation.NewSuffrageJoin(isaacoperation.NewSuffrageJoinFact(util.UUID().Bytes(), cand.addr, base.Height(int64(candStart[ci]))))
				_ = op.NodeSign(cand.priv, hNetworkID, cand.addr)
				signs := []string{fmt.Sprintf("%d.%d", cand.id, cand.key)}
				for _, m := range members {
					_ = op.NodeSign(m.priv, hNetworkID, m.addr)
					signs = append(signs, fmt.Sprintf("%d.%d", m.id, m.key))
				}
				ops = append(ops, c10op{fmt.Sprintf("j:%d:%d:%s", cand.id, candStart[ci], strings.Join(signs, "/")), op})
			}
		}
		nops := 1 + c.Intn(9)
		for j := 0; j < nops; j++ {
			switch k := c.Intn(14); {
			case k < 4 && nc > 0: // join
				ci := c.Intn(nc)
				cand, start := cands[ci], candStart[ci]
				if c.Chance(1, 10) {
					start++
				}
				if c.Chance(1, 12) {
					cand = []c17party{members[c.Intn(nm)], outsider}[c.Intn(2)]
				}
				op := isaacoperation.NewSuffrageJoin(isaacoperation.NewSuffrageJoinFact(util.UUID().Bytes(), cand.addr, base.Height(int64(start))))
				var signs []string
				if !c.Chance(1, 10) {
					_ = op.NodeSign(cand.priv, hNetworkID, cand.addr)
					signs = append(signs, fmt.Sprintf("%d.%d", cand.id, cand.key))
				}
				for _, m := range members {
					if c.Chance(4, 5) {
						_ = op.NodeSign(m.priv, hNetworkID, m.addr)
						signs = append(signs, fmt.Sprintf("%d.%d", m.id, m.key))
					}
				}
				if len(signs) == 0 {
					continue
				}
				ops = append(ops, c10op{fmt.Sprintf("j:%d:%d:%s", cand.id, start, strings.Join(signs, "/")), op})
			case k < 7: // disjoin
				mi := c.Intn(nm)
				node, start := members[mi], memberStart[mi]
				if c.Chance(1, 10) {
					start++
				}
				if c.Chance(1, 12) {
					node = outsider
				}
				op := isaacoperation.NewSuffrageDisjoin(isaacoperation.NewSuffrageDisjoinFact(util.UUID().Bytes(), node.addr, base.Height(int64(start))))
				_ = op.NodeSign(node.priv, hNetworkID, node.addr)
				ops = append(ops, c10op{fmt.Sprintf("d:%d:%d:%d", node.id, start, node.key), op})
			case k < 9: // expel
				node := members[c.Intn(nm)]
				es, ee := height-2+c.Intn(4), height-1+c.Intn(4)
				if es < 1 {
					es = 1
				}
				if ee < es {
					ee = es
				}
				op := isaac.NewSuffrageExpelOperation(isaac.NewSuffrageExpelFact(node.addr, base.Height(int64(es)), base.Height(int64(ee)), "no response"))
				for _, m := range members {
					if m.id != node.id {
						_ = op.NodeSign(m.priv, hNetworkID, m.addr)
					}
				}
				if len(op.Signs()) == 0 {
					continue
				}
				ops = append(ops, c10op{fmt.Sprintf("x:%d:%d:%d", node.id, es, ee), op})
			case k < 12: // candidate (a new node, a member, or a node that is a candidate already)
				who := w.party()
				switch c.Intn(6) {
				case 0:
					who = members[c.Intn(nm)]
				case 1:
					if nc > 0 {
						who = cands[c.Intn(nc)]
					}
				}
				op := isaacoperation.NewSuffrageCandidate(isaacoperation.NewSuffrageCandidateFact(util.UUID().Bytes(), who.addr, who.priv.Publickey()))
				_ = op.NodeSign(who.priv, hNetworkID, who.addr)
				ops = append(ops, c10op{fmt.Sprintf("c:%d", who.id), op})
				if c.Chance(1, 4) { // the same node again, in another operation
					op2 := isaacoperation.NewSuffrageCandidate(isaacoperation.NewSuffrageCandidateFact(util.UUID().Bytes(), who.addr, who.priv.Publickey()))
					_ = op2.NodeSign(who.priv, hNetworkID, who.addr)
					ops = append(ops, c10op{fmt.Sprintf("c:%d", who.id), op2})
				}
			default: // network policy (two of them in a block: only the first one counts)
				np := isaac.DefaultNetworkPolicy()
				np.SetMaxOperationsInProposal(uint64(100 + c.Intn(1000)))
				op := isaacoperation.NewNetworkPolicy(isaacoperation.NewNetworkPolicyFact(util.UUID().Bytes(), np))
				for _, m := range members {
					if c.Chance(9, 10) {
						_ = op.NodeSign(m.priv, hNetworkID, m.addr)
					}
				}
				if len(op.Signs()) == 0 {
					continue
				}
				ops = append(ops, c10op{fmt.Sprintf("p:%d", np.MaxOperationsInProposal()), op})
			}
		}
		// one member leaves twice in this block: by its own disjoin operation and by an expel of the other members
		sameNodeTwice := false
		if nm >= 3 && c.Chance(1, 4) {
			mi := c.Intn(nm)
			node := members[mi]
			dop := isaacoperation.NewSuffrageDisjoin(isaacoperation.NewSuffrageDisjoinFact(util.UUID().Bytes(), node.addr, base.Height(int64(memberStart[mi]))))
			_ = dop.NodeSign(node.priv, hNetworkID, node.addr)
			xop := isaac.NewSuffrageExpelOperation(isaac.NewSuffrageExpelFact(node.addr, base.Height(int64(height-1)), base.Height(int64(height+1)), "no response"))
			for _, m := range members {
				if m.id != node.id {
					_ = xop.NodeSign(m.priv, hNetworkID, m.addr)
				}
			}
			at := c.Intn(len(ops) + 1)
			rest := append([]c10op{}, ops[at:]...)
			ops = append(append(ops[:at:at], c10op{fmt.Sprintf("d:%d:%d:%d", node.id, memberStart[mi], node.key), dop}), rest...)
			ops = append(ops, c10op{fmt.Sprintf("x:%d:%d:%d", node.id, height-1, height+1), xop})
			sameNodeTwice = true
		}
		// two network-policy operations, the first one refused by the process constraint of the parallel phase
		if c.Chance(1, 4) {
			var pair []c10op
			for _, v := range []int{3 * (34 + c.Intn(300)), 3*(34+c.Intn(300)) + 1 + c.Intn(2)} {
				np := isaac.DefaultNetworkPolicy()
				np.SetMaxOperationsInProposal(uint64(v))
				op := isaacoperation.NewNetworkPolicy(isaacoperation.NewNetworkPolicyFact(util.UUID().Bytes(), np))
				for _, m := range members {
					_ = op.NodeSign(m.priv, hNetworkID, m.addr)
				}
				pair = append(pair, c10op{fmt.Sprintf("p:%d", v), op})
			}
			at := c.Intn(len(ops) + 1)
			rest := append([]c10op{}, ops[at:]...)
			ops = append(append(ops[:at:at], pair[0]), rest...)
			at2 := at + 1 + c.Intn(len(ops)-at)
			rest = append([]c10op{}, ops[at2:]...)
			ops = append(append(ops[:at2:at2], pair[1]), rest...)
			twoPolicies = true
		}
		if reRegister {
			who := cands[0]
			op := isaacoperation.NewSuffrageCandidate(isaacoperation.NewSuffrageCandidateFact(util.UUID().Bytes(), who.addr, who.priv.Publickey()))
			_ = op.NodeSign(who.priv, hNetworkID, who.addr)
			at := c.Intn(len(ops) + 1)
			ops = append(ops[:at], append([]c10op{{fmt.Sprintf("c:%d", who.id), op}}, ops[at:]...)...)
		}
		if len(ops) == 0 {
			continue
		}
		// expel operations never travel in a proposal (getOperation drops them): they reach the processor as the
		// expels of the INIT voteproof and are processed after the proposal's operations
		byHash := map[string]base.Operation{}
		var ophs [][2]util.Hash
		var toks, xtoks []string
		var expels []base.SuffrageExpelOperation
		for j := range ops {
			if x, ok := ops[j].op.(isaac.SuffrageExpelOperation); ok {
				expels = append(expels, x)
				xtoks = append(xtoks, ops[j].tok)
				continue
			}
			byHash[ops[j].op.Hash().String()] = ops[j].op
			ophs = append(ophs, [2]util.Hash{ops[j].op.Hash(), ops[j].op.Fact().Hash()})
			toks = append(toks, ops[j].tok)
		}
		toks = append(toks, xtoks...)
		point := base.NewPoint(base.Height(int64(height)), 0)
		previous := isaac.NewManifest(base.Height(int64(height-1)), valuehash.RandomSHA256(), valuehash.RandomSHA256(), nil, nil, suffragest.Hash(), time.Now().UTC())
		proposal := isaac.NewProposalSignFact(isaac.NewProposalFact(point, members[0].addr, previous.Hash(), ophs))
		_ = proposal.Sign(members[0].priv, hNetworkID)
		var ivp base.INITVoteproof
		{
			var efacts []util.Hash
			for j := range expels {
				efacts = append(efacts, expels[j].Fact().Hash())
			}
			fact := isaac.NewINITBallotFact(point, previous.Hash(), proposal.Fact().Hash(), efacts)
			sf := isaac.NewINITBallotSignFact(fact)
			_ = sf.NodeSign(members[0].priv, hNetworkID, members[0].addr)
			if len(expels) > 0 {
				vp := isaac.NewINITExpelVoteproof(point)
				vp.SetMajority(fact).SetSignFacts([]base.BallotSignFact{sf}).SetThreshold(base.Threshold(100))
				vp.SetExpels(expels)
				vp.Finish()
				ivp = vp
			} else {
				vp := isaac.NewINITVoteproof(point)
				vp.SetMajority(fact).SetSignFacts([]base.BallotSignFact{sf}).SetThreshold(base.Threshold(100)).Finish()
				ivp = vp
			}
		}
		th := base.Threshold(float64(t10) / 10)
		// the completion order of the parallel phase is stirred through the processors' process-constraint hook:
		// every operation sleeps a little, differently in every run
		runNo := 0
		run := func(workers int64) (string, string, error) {
			runNo++
			seed := uint64(i*1000 + runNo)
			delay := func(base.Height, base.GetStateFunc) (base.OperationProcessorProcessFunc, error) {
				return func(_ context.Context, op base.Operation, _ base.GetStateFunc) (base.OperationProcessReasonError, error) {
					b := op.Hash().Bytes()
					x := (uint64(b[0])<<8 | uint64(b[1])) * (seed*2654435761 + 1)
					if x&3 != 0 {
						time.Sleep(time.Duration((x>>7)%1500) * time.Microsecond)
					}
					// the hook is also what it is in a node, a constraint: some network-policy operations are refused
					// here, in the parallel phase, after they went through PreProcess
					if np, ok := op.Fact().(isaacoperation.NetworkPolicyFact); ok && np.Policy().MaxOperationsInProposal()%3 == 0 {
						return base.NewBaseOperationProcessReason("refused by the process constraint"), nil
					}
					return nil, nil
				}, nil
			}
			// the sequential phase is stirred too: PreProcess of some operations starts late
			noisy := func(p base.OperationProcessor, err error) (base.OperationProcessor, error) {
				if err != nil || p == nil {
					return p, err
				}
				return c10noisy{OperationProcessor: p, seed: seed}, nil
			}
			// the writer's save worker keeps writing states after Process has returned: a database is closed only
			// two seconds after its run, never under the worker
			for len(c10open) > 0 && time.Since(c10open[0].at) > 2*time.Second {
				_ = c10open[0].db.Close()
				_ = c10open[0].st.Close()
				c10open = c10open[1:]
			}
			mst := leveldbstorage.NewMemStorage()
			bwdb := isaacdatabase.NewLeveldbBlockWrite(base.Height(int64(height)), mst, env.encs, env.enc)
			c10open = append(c10open, c10db{db: bwdb, st: mst, at: time.Now()})
			args := isaac.NewDefaultProposalProcessorArgs()
			args.MaxWorkerSize = workers
			args.GetStateFunc = getState
			args.GetOperationFunc = func(_ context.Context, oph, _ util.Hash) (base.Operation, error) {
				return byHash[oph.String()], nil
			}
			args.NewWriterFunc = func(pr base.ProposalSignFact, gs base.GetStateFunc) (isaac.BlockWriter, error) {
				return isaacblock.NewWriter(pr, gs, bwdb, func(isaac.BlockWriteDatabase) error { return nil }, c10fs{}, workers), nil
			}
			args.NewOperationProcessorFunc = func(h base.Height, ht hint.Hint, gs base.GetStateFunc) (base.OperationProcessor, error) {
				switch ht.Type() {
				case isaacoperation.SuffrageCandidateHint.Type():
					return noisy(isaacoperation.NewSuffrageCandidateProcessor(h, gs, nil, delay, policy.SuffrageCandidateLifespan()))
				case isaacoperation.SuffrageJoinHint.Type():
					return noisy(isaacoperation.NewSuffrageJoinProcessor(h, th, gs, nil, delay))
				case isaac.SuffrageExpelOperationHint.Type():
					return noisy(isaacoperation.NewSuffrageExpelProcessor(h, gs, nil, delay))
				case isaacoperation.SuffrageDisjoinHint.Type():
					return noisy(isaacoperation.NewSuffrageDisjoinProcessor(h, gs, nil, delay))
				case isaacoperation.NetworkPolicyHint.Type():
					return noisy(isaacoperation.NewNetworkPolicyProcessor(h, th, gs, nil, delay))
				}
				return nil, nil
			}
			p, err := isaac.NewDefaultProposalProcessor(proposal, previous, args)
			if err != nil {
				return "", "", err
			}
			m, err := p.Process(context.Background(), ivp)
			if err != nil { // a failure has to be the same failure on every node
				msg := err.Error()
				if i := strings.LastIndex(msg, "; "); i >= 0 {
					msg = msg[i+2:]
				}
				return "error: " + msg, "error", nil
			}
			suf := "-"
			// the writer hands the closed states to its save worker: wait for the suffrage state when the manifest names a new one
			var st base.State
			if !m.Suffrage().Equal(suffragest.Hash()) {
				for t := 0; t < 2000 && st == nil; t++ {
					if st = bwdb.SuffrageState(); st == nil {
						time.Sleep(time.Millisecond)
					}
				}
			}
			if st != nil {
				sv := st.Value().(base.SuffrageNodesStateValue)
				var out []string
				for _, nd := range sv.Nodes() {
					id := 0
					fmt.Sscanf(nd.Address().String()[1:], "%d", &id)
					out = append(out, fmt.Sprintf("%d.%d.%d", id, w.keys[nd.Publickey().String()], nd.Start()))
				}
				suf = fmt.Sprintf("%d %s", sv.Height(), strings.Join(out, ","))
			}
			hs := func(h util.Hash) string {
				if h == nil {
					return "nil"
				}
				return h.String()
			}
			return fmt.Sprintf("manifest=%s ops=%s states=%s suffrage=%s", hs(m.Hash()), hs(m.OperationsTree()), hs(m.StatesTree()), hs(m.Suffrage())), suf, nil
		}
		// the states the block is built on belong to the database: processing must leave them as they are
		priorOf := func() string {
			var out []string
			for _, st := range []base.State{suffragest, candidatest, policyst} {
				if st == nil {
					continue
				}
				b, err := env.enc.Marshal(st)
				if err != nil {
					b = []byte("marshal: " + err.Error())
				}
				out = append(out, st.Key()+"="+string(b))
			}
			return strings.Join(out, "\n")
		}
		prior := priorOf()
		first, suf, err := run(1)
		if err != nil {
			return fmt.Errorf("process %v: %w", toks, err)
		}
		if now := priorOf(); now != prior {
			c.Violation("C10:prior-state-mutated", fmt.Sprintf("blk %d [%s]: processing the block changed a state of the previous blocks in place: before\n%s\nafter\n%s", height, strings.Join(toks, " "), prior, now),
				map[string]interface{}{"height": height, "ops": toks})
			prior = now
		}
		if suf == "error" {
			c.Count("process", first)
		} else {
			c.Count("process", "manifest")
		}
		var ms, cs []string
		for j, m := range members {
			ms = append(ms, fmt.Sprintf("%d.%d.%d", m.id, m.key, memberStart[j]))
		}
		for j, p := range cands {
			cs = append(cs, fmt.Sprintf("%d.%d.%d.%d", p.id, p.key, candStart[j], candDeadline[j]))
		}
		head := fmt.Sprintf("blk %d %d %d M:%s C:%s ;", height, sufHeight, t10, strings.Join(ms, ","), strings.Join(cs, ","))
		same := true
		for _, workers := range []int64{1, 2, 7, 64} {
			reps := 2
			if c.Thorough() {
				reps = 4
			}
			for r := 0; r < reps; r++ {
				if r%2 == 1 {
					runtime.Gosched()
				}
				got, suf2, err := run(workers)
				if err != nil {
					return fmt.Errorf("process %v with %d workers: %w", toks, workers, err)
				}
				c.Eval(1)
				if got != first || suf2 != suf {
					same = false
					c.Violation("C10:manifest-depends-on-schedule", fmt.Sprintf("%s [%s]: one worker gives %s (%s); %d workers, run %d, give %s (%s)", head, strings.Join(toks, " "), first, suf, workers, r, got, suf2),
						map[string]interface{}{"block": head, "ops": toks, "workers": workers})
				}
			}
		}
		c.Count("operations", fmt.Sprint(len(ops)))
		for _, t := range toks {
			c.Count("kind", t[:1])
		}
		c.Count("suffrage", map[bool]string{true: "unchanged", false: "changed"}[suf == "-"])
		if reRegister {
			c.Count("directed", "expired-candidate-registers-again")
		}
		if sameNodeTwice {
			c.Count("directed", "member-disjoins-and-is-expelled")
		}
		if twoPolicies {
			c.Count("directed", "two-policies-first-refused-by-constraint")
		}
		_ = same
		// doProcessOperation records no result for an operation that Process refuses with a reason; fixedtree.Writer
		// drops the slots nobody wrote, so a block in which every operation is refused that way has an empty operations
		// tree and Manifest fails ("empty ndoes"), the same way under every schedule. The suffrage model has no
		// such outcome: these blocks are compared across schedules only.
		allRefused := true
		for _, t := range toks {
			var v int
			if n, _ := fmt.Sscanf(t, "p:%d", &v); n != 1 || v%3 != 0 {
				allRefused = false
			}
		}
		if allRefused && suf == "error" && strings.Contains(first, "empty ndoes") {
			c.Count("directed", "every-operation-refused-in-process-phase")
		} else {
			c.Case(head+" "+strings.Join(toks, " "), suf)
		}
		c.Nontrivial(head + strings.Join(toks, " "))
		if i%20 == 0 {
			c.Sample(map[string]interface{}{"block": head, "ops": toks, "result": first, "suffrage": suf})
		}
	}
	return nil
}
