import MitumModel.Common
/-
Model of launch/ratelimit.go: rule selection (`RateLimiterRules.rule`), the
cached path (`RateLimiterRules.Rule` with an existing limiter, `ruleByNode`),
and a token bucket (the contract of golang.org/x/time/rate that
`RateLimiter.Allow` delegates to).

Rules are identified by numbers (their burst in the harness); rule sets are
static during a history (no `Set…RuleSet` updates), so every freshness test
`l.UpdatedAt() >= set.UpdatedAt()` of the cached path is true.
-/
namespace Mitum.RateLimit

inductive Ty where
  | clientid | net | node | suffrage | defaultmap | default
deriving Repr, DecidableEq

structure Rules where
  clientids : Option (List (String × Nat))      -- client id ↦ rule
  nets : Option (List (Nat × Option Nat))        -- ordered nets: (net id, rule for the handler if any)
  nodes : Option (List (String × Nat))           -- node ↦ rule
  suffrage : Option Nat                          -- rule for consensus nodes
  members : List String                          -- consensus nodes
  defaultMap : Option Nat                        -- rule of the default map for the handler
  builtin : Nat                                  -- built-in default rule
deriving Repr

structure Req where
  addrNets : List Nat          -- ids of the nets that contain the request's address
  clientid : String
  node : Option String         -- node known for the address (from `AddNode`)
deriving Repr

def lookupS (k : String) : List (String × Nat) → Option Nat
  | [] => none
  | (k', v) :: rest => if k' = k then some v else lookupS k rest

/-- `NetRateLimiterRuleSet.rule`: the first net containing the address decides (found or not) -/
def netRule (nets : List (Nat × Option Nat)) (addrNets : List Nat) : Option Nat :=
  match nets with
  | [] => none
  | (n, r) :: rest => if n ∈ addrNets then r else netRule rest addrNets

/-- `RateLimiterRules.rule`: the precedence chain -/
def select (rs : Rules) (q : Req) : Ty × Nat :=
  match (if q.clientid = "" then none else rs.clientids.bind (lookupS q.clientid)) with
  | some r => (.clientid, r)
  | none =>
    match rs.nets.bind (fun ns => netRule ns q.addrNets) with
    | some r => (.net, r)
    | none =>
      match q.node.bind (fun n => rs.nodes.bind (lookupS n)) with
      | some r => (.node, r)
      | none =>
        match q.node.bind (fun n => if n ∈ rs.members then rs.suffrage else none) with
        | some r => (.suffrage, r)
        | none =>
          match rs.defaultMap with
          | some r => (.defaultmap, r)
          | none => (.default, rs.builtin)

/-- `RateLimiterRules.Rule(addr, handler, hint, l)`: `cached` is the limiter kept for this
    (address, handler): its rule-set type and rule -/
def cachedSelect (rs : Rules) (cached : Option (Ty × Nat)) (q : Req) : Ty × Nat :=
  match cached with
  | none => select rs q
  | some l =>
    if q.clientid ≠ "" ∧ rs.clientids.isSome ∧ l.1 = Ty.clientid then l
    else if rs.nets.isSome ∧ l.1 = Ty.net then l
    else if q.node.isSome ∧ rs.nodes.isSome ∧ l.1 = Ty.node then l
    else if q.node.isSome ∧ rs.suffrage.isSome ∧ l.1 = Ty.suffrage ∧ (match q.node with | some n => decide (n ∈ rs.members) | none => false) = true then l
    else select rs q

/-! ### token bucket (x/time/rate contract), integer scaled: `num/den` tokens per tick -/

structure Bucket where
  num : Nat
  den : Nat
  burst : Nat
  tok : Nat      -- tokens × den
deriving Repr

def Bucket.cap (b : Bucket) : Nat := b.burst * b.den

/-- `dt` ticks pass, then one request -/
def Bucket.request (b : Bucket) (dt : Nat) : Bucket × Bool :=
  let t := min b.cap (b.tok + b.num * dt)
  if b.den ≤ t then ({ b with tok := t - b.den }, true) else ({ b with tok := t }, false)

/-- a stream of requests given by the ticks between them; returns the number allowed -/
def Bucket.run : Bucket → List Nat → Nat
  | _, [] => 0
  | b, dt :: rest => let r := b.request dt; (if r.2 then 1 else 0) + Bucket.run r.1 rest

/-! ### one cached limiter: `NewRateLimiter`, `Update`, `Allow` for the three kinds of rule -/

inductive Kind where
  | nolimit                 -- `Limit == rate.Inf`
  | blocked                 -- `Limit == 0` or `Burst < 1`
  | bucket (limit burst : Nat)
deriving Repr, DecidableEq

/-- the two fields `Allow` looks at -/
structure Lim where
  nolimit : Bool
  limiter : Option (Nat × Nat)     -- (limit, burst) of the token bucket, when there is one
deriving Repr, DecidableEq

def newLim : Kind → Lim
  | .nolimit => { nolimit := true, limiter := none }
  | .blocked => { nolimit := false, limiter := none }
  | .bucket l b => { nolimit := false, limiter := some (l, b) }

/-- `RateLimiter.Update`; `resetsFlag` says whether the blocking branch sets `nolimit = false` -/
def updateLim (resetsFlag : Bool) (r : Lim) (k : Kind) : Lim :=
  let changed := match r.limiter, k with
    | some (l, b), .bucket l' b' => !(l = l' ∧ b = b')
    | some _, _ => true
    | none, _ => true
  if changed then
    match k with
    | .nolimit => { nolimit := true, limiter := none }
    | .blocked => { nolimit := if resetsFlag then false else r.nolimit, limiter := none }
    | .bucket l b => { nolimit := false, limiter := some (l, b) }
  else r

/-- `RateLimiter.Allow` without a token bucket: the flag decides; with one, the bucket does -/
def allowsWithoutBucket (r : Lim) : Option Bool := if r.limiter.isNone then some r.nolimit else none

end Mitum.RateLimit
