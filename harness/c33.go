package main

import (
	"context"
	"fmt"
	"strings"
	"sync"
	"sync/atomic"
	"time"

	"github.com/pkg/errors"
	"github.com/spikeekips/mitum/util"
)

func init() { register("C33", runC33) }

type c33err struct{ id int }

func (e c33err) Error() string { return fmt.Sprintf("job error %d", e.id) }

func c33errID(err error) string {
	if err == nil {
		return "nil"
	}
	var je c33err
	if errors.As(err, &je) {
		return fmt.Sprintf("err%d", je.id)
	}
	return "ctxerr"
}

func runC33(c *Ctx) error {
	// 1. scripted histories, step by step against the model
	nscripts := 150
	if c.Thorough() {
		nscripts = 3000
	}
	for si := 0; si < nscripts; si++ {
		semSize := 1 + c.Intn(3)
		wk, err := util.NewBaseJobWorker(context.Background(), int64(semSize))
		if err != nil {
			return err
		}
		gates := map[int]chan error{}
		var ran sync.Map // job -> times started
		returned := map[int]chan struct{}{}
		var toks, outs []string
		running := []int{}
		nextJob := 1
		failed := false
		doneCalled := false
		nsteps := 2 + c.Intn(8)
		for st := 0; st < nsteps; st++ {
			k := c.Intn(10)
			switch {
			case k < 5 && (len(running) < semSize || failed || doneCalled):
				j := nextJob
				nextJob++
				gate := make(chan error, 1)
				ret := make(chan struct{})
				gates[j], returned[j] = gate, ret
				err := wk.NewJob(func(context.Context, uint64) error {
					n, _ := ran.LoadOrStore(j, new(int32))
					atomic.AddInt32(n.(*int32), 1)
					e := <-gate
					close(ret)
					return e
				})
				toks = append(toks, fmt.Sprintf("nj:%d", j))
				if err == nil {
					outs = append(outs, "accepted")
					running = append(running, j)
				} else {
					outs = append(outs, "rejected")
				}
			case k < 8 && len(running) > 0:
				i := c.Intn(len(running))
				j := running[i]
				running = append(running[:i], running[i+1:]...)
				var e error
				et := "-"
				if c.Chance(1, 3) {
					e = c33err{j}
					et = fmt.Sprint(j)
					failed = true
				}
				gates[j] <- e
				<-returned[j]
				time.Sleep(2 * time.Millisecond) // let the cancel/release after the callback's return happen
				toks = append(toks, fmt.Sprintf("fin:%d:%s", j, et))
				outs = append(outs, "ok")
			case k == 8:
				wk.Done()
				doneCalled = true
				toks = append(toks, "done")
				outs = append(outs, "ok")
			}
		}
		// final Wait (it cancels the worker when it returns)
		wch := make(chan error, 1)
		go func() { wch <- wk.Wait() }()
		res := "blocked"
		select {
		case e := <-wch:
			res = c33errID(e)
		case <-time.After(40 * time.Millisecond):
		}
		toks = append(toks, "wait")
		outs = append(outs, res)
		// release everything still blocked
		for _, j := range running {
			gates[j] <- nil
		}
		wk.Close()
		// oracle
		ran.Range(func(k, v interface{}) bool {
			if atomic.LoadInt32(v.(*int32)) != 1 {
				c.Violation("C33:job-ran-more-than-once", strings.Join(toks, " "), map[string]interface{}{"history": toks})
			}
			return true
		})
		if res == "nil" && (len(running) > 0 || failed) {
			c.Violation("C33:wait-nil-with-unfinished-or-failed-jobs", strings.Join(toks, " "), map[string]interface{}{"history": toks})
		}
		c.Case("seq "+fmt.Sprint(semSize)+" "+strings.Join(toks, " "), strings.Join(outs, " "))
		if nextJob > 2 {
			c.Nontrivial(strings.Join(toks, " "))
		}
		if si%40 == 0 {
			c.Sample(map[string]interface{}{"semSize": semSize, "history": toks, "results": outs})
		}
	}
	// 2. concurrent random runs, oracle only
	nruns := 150
	if c.Thorough() {
		nruns = 5000
	}
	for ri := 0; ri < nruns; ri++ {
		semSize := int64(1 + c.Intn(8))
		njobs := 1 + c.Intn(40)
		failAt := map[int]bool{}
		if c.Chance(1, 2) {
			for k := 0; k < 1+c.Intn(3); k++ {
				failAt[c.Intn(njobs)] = true
			}
		}
		wk, err := util.NewBaseJobWorker(context.Background(), semSize)
		if err != nil {
			return err
		}
		var cur, maxc int32
		starts := make([]int32, njobs)
		finishedOK := make([]int32, njobs)
		acceptedN := 0
		for j := 0; j < njobs; j++ {
			j := j
			if err := wk.NewJob(func(ctx context.Context, _ uint64) error {
				atomic.AddInt32(&starts[j], 1)
				n := atomic.AddInt32(&cur, 1)
				for {
					m := atomic.LoadInt32(&maxc)
					if n <= m || atomic.CompareAndSwapInt32(&maxc, m, n) {
						break
					}
				}
				time.Sleep(time.Duration(j%3) * 50 * time.Microsecond)
				atomic.AddInt32(&cur, -1)
				if failAt[j] {
					return c33err{j}
				}
				atomic.AddInt32(&finishedOK[j], 1)
				return nil
			}); err != nil {
				break
			}
			acceptedN++
		}
		wk.Done()
		werr := wk.Wait()
		c.Eval(1)
		in := map[string]interface{}{"semSize": semSize, "jobs": njobs, "failing": len(failAt)}
		if atomic.LoadInt32(&maxc) > int32(semSize) {
			c.Violation("C33:concurrency-over-semaphore", fmt.Sprintf("%d jobs ran at once with semaphore %d", maxc, semSize), in)
		}
		for j := 0; j < acceptedN; j++ {
			if s := atomic.LoadInt32(&starts[j]); s > 1 {
				c.Violation("C33:job-ran-more-than-once", fmt.Sprintf("job %d started %d times", j, s), in)
			}
		}
		if werr == nil {
			for j := 0; j < acceptedN; j++ {
				if atomic.LoadInt32(&finishedOK[j]) != 1 {
					c.Violation("C33:wait-nil-with-unfinished-or-failed-jobs", fmt.Sprintf("Wait returned nil but accepted job %d did not finish successfully", j), in)
					break
				}
			}
		} else {
			id := c33errID(werr)
			ok := false
			for j := range failAt {
				if id == fmt.Sprintf("err%d", j) {
					ok = true
				}
			}
			if !ok {
				c.Violation("C33:wait-error-not-a-job-error", fmt.Sprintf("Wait returned %v", werr), in)
			}
		}
	}
	return nil
}
