package main

import (
	"crypto/sha256"
	"encoding/hex"
	"fmt"
	"go/ast"
	"go/parser"
	"go/token"
	"os"
	"path/filepath"
	"reflect"
	"sort"
	"strings"
)

func init() { register("C27", genC27) }

type c27struct struct {
	pkg    string
	name   string
	tags   []string // json tags of the named fields, in source order
	embeds []string // type names of the embedded fields (last selector element)
}

// every struct type of the non-test sources, by name (package-qualified where the bare name clashes)
func c27collect() (map[string]*c27struct, []string) {
	all := map[string]*c27struct{}
	var errs []string
	_ = filepath.Walk(repoRoot, func(p string, info os.FileInfo, err error) error {
		if err != nil {
			return nil
		}
		if info.IsDir() {
			if n := info.Name(); n == ".git" || n == "vendor" || n == "testdata" {
				return filepath.SkipDir
			}
			return nil
		}
		if !strings.HasSuffix(p, ".go") || strings.HasSuffix(p, "_test.go") || strings.HasSuffix(p, "_verif.go") {
			return nil
		}
		fset := token.NewFileSet()
		f, err := parser.ParseFile(fset, p, nil, 0)
		if err != nil {
			errs = append(errs, "parse "+p)
			return nil
		}
		for _, d := range f.Decls {
			gd, ok := d.(*ast.GenDecl)
			if !ok || gd.Tok != token.TYPE {
				continue
			}
			for _, sp := range gd.Specs {
				ts := sp.(*ast.TypeSpec)
				st, ok := ts.Type.(*ast.StructType)
				if !ok {
					continue
				}
				s := &c27struct{pkg: f.Name.Name, name: ts.Name.Name}
				for _, fl := range st.Fields.List {
					if len(fl.Names) == 0 { // embedded
						t := fl.Type
						if se, ok := t.(*ast.StarExpr); ok {
							t = se.X
						}
						switch x := t.(type) {
						case *ast.Ident:
							s.embeds = append(s.embeds, x.Name)
						case *ast.SelectorExpr:
							s.embeds = append(s.embeds, x.Sel.Name)
						}
						continue
					}
					tag := ""
					if fl.Tag != nil {
						raw := strings.Trim(fl.Tag.Value, "`")
						tag = reflect.StructTag(raw).Get("json")
					}
					name := strings.Split(tag, ",")[0]
					for _, n := range fl.Names {
						if name == "-" || !n.IsExported() {
							continue
						}
						if name == "" {
							s.tags = append(s.tags, n.Name)
						} else {
							s.tags = append(s.tags, name)
						}
					}
				}
				key := s.name
				if _, dup := all[key]; dup {
					key = s.pkg + "." + s.name
				}
				all[key] = s
			}
		}
		return nil
	})
	return all, errs
}

func c27tags(all map[string]*c27struct, s *c27struct, depth int) []string {
	if depth > 6 {
		return nil
	}
	out := append([]string{}, s.tags...)
	for _, e := range s.embeds {
		if e == "BaseHinter" {
			out = append(out, "_hint")
			continue
		}
		if t, ok := all[e]; ok {
			out = append(out, c27tags(all, t, depth+1)...)
		}
	}
	return out
}

func genC27(o *Out) {
	_ = o.pinFile("util/encoder/json/encoder.go", "Encoder.Decode", "Encoder.DecodeWithHint", "Encoder.decodeWithHint", "Encoder.analyze", "Encoder.guessHint")
	_ = o.pinFile("util/json_sonic.go", "marshalJSON", "unmarshalJSON")
	// every hand-written codec of the protocol objects: one pin per file over all its MarshalJSON / DecodeJSON /
	// UnmarshalJSON methods (what each does with a member's value is not modelled; a change there sends the check
	// to the differential run for a failing object)
	for _, pat := range []string{"*/*.go", "*/*/*.go", "*/*/*/*.go"} {
		files, _ := filepath.Glob(filepath.Join(repoRoot, pat))
		sort.Strings(files)
		for _, abs := range files {
			if strings.HasSuffix(abs, "_test.go") || strings.HasSuffix(abs, "_verif.go") || strings.Contains(abs, "/test_") {
				continue
			}
			rel, _ := filepath.Rel(repoRoot, abs)
			f, err := load(rel)
			if err != nil {
				o.errf("%s: %v", rel, err)
				continue
			}
			var parts []string
			for _, d := range f.AST.Decls {
				fd, ok := d.(*ast.FuncDecl)
				if !ok || fd.Body == nil {
					continue
				}
				switch fd.Name.Name {
				case "MarshalJSON", "DecodeJSON", "UnmarshalJSON", "decodeJSON", "jsonMarshaller", "JSONMarshaler":
					parts = append(parts, recvName(fd)+"."+fd.Name.Name+":"+f.normSrc(fd))
				}
			}
			if len(parts) == 0 {
				continue
			}
			sort.Strings(parts)
			h := sha256.Sum256([]byte(strings.Join(parts, "\n")))
			o.pins = append(o.pins, [2]string{rel, hex.EncodeToString(h[:8])})
		}
	}
	all, errs := c27collect()
	for _, e := range errs {
		o.errf("%s", e)
	}
	// pairs: <X>JSONMarshaler / <X>JSONUnmarshaler (the spelling "Mmarshaler" occurs once)
	type pair struct{ m, u *c27struct }
	pairs := map[string]*pair{}
	for _, s := range all {
		ln := s.name
		var stem string
		isM := false
		switch {
		case strings.HasSuffix(ln, "JSONMarshaler"):
			stem, isM = strings.TrimSuffix(ln, "JSONMarshaler"), true
		case strings.HasSuffix(ln, "JSONMmarshaler"):
			stem, isM = strings.TrimSuffix(ln, "JSONMmarshaler"), true
		case strings.HasSuffix(ln, "JSONUnmarshaler"):
			stem = strings.TrimSuffix(ln, "JSONUnmarshaler")
		default:
			continue
		}
		key := s.pkg + "." + strings.ToLower(stem[:1]) + stem[1:]
		p := pairs[key]
		if p == nil {
			p = &pair{}
			pairs[key] = p
		}
		if isM {
			p.m = s
		} else {
			p.u = s
		}
	}
	var keys []string
	for k := range pairs {
		keys = append(keys, k)
	}
	sort.Strings(keys)
	var rows []string
	uniq := func(xs []string) []string {
		set := map[string]bool{}
		var out []string
		for _, x := range xs {
			if !set[x] {
				set[x] = true
				out = append(out, x)
			}
		}
		sort.Strings(out)
		return out
	}
	q := func(xs []string) string {
		ys := make([]string, len(xs))
		for i, x := range xs {
			ys[i] = leanStr(x)
		}
		return "[" + strings.Join(ys, ", ") + "]"
	}
	n := 0
	for _, k := range keys {
		p := pairs[k]
		if p.m == nil || p.u == nil {
			continue // one-sided: the same struct serves both ways, or the type is write-only
		}
		n++
		rows = append(rows, fmt.Sprintf("  (%s, %s, %s)", leanStr(k), q(uniq(c27tags(all, p.m, 0))), q(uniq(c27tags(all, p.u, 0)))))
	}
	o.raw("/-- per marshaler/unmarshaler struct pair: the JSON member names written and the member names read (embedded structs resolved) -/")
	o.raw("def tagTable : List (String × List String × List String) := [\n" + strings.Join(rows, ",\n") + "]")
	o.nat("tagPairs", int64(n))
	// registered hinters
	if f, err := load("launch/hinters.go"); err == nil {
		var hs []string
		ast.Inspect(f.AST, func(nd ast.Node) bool {
			kv, ok := nd.(*ast.KeyValueExpr)
			if !ok {
				return true
			}
			if id, ok := kv.Key.(*ast.Ident); ok && id.Name == "Hint" {
				hs = append(hs, normSpace(f.Src(kv.Value)))
			}
			return true
		})
		sort.Strings(hs)
		o.strList("registered", hs)
	} else {
		o.errf("launch/hinters.go: %v", err)
	}
}
