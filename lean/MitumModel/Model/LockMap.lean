/-
Model of util/lock.go: `Locked[T]`, `SingleLockedMap`, `ShardedMap` (plain and
deep sharded; deep sharding is flattened: an operation on a deep sharded map
descends to the leaf `SingleLockedMap` under the container locks and then runs
on that leaf alone, and only the outermost `length` is maintained).

Keys and values are naturals (the harness uses uint64 keys and values; the Go
zero value is 0).  User callbacks are functions of what the real callback is
given; their possible outcomes are data.
-/
namespace Mitum.LockMap

abbrev Key := Nat
abbrev Val := Nat
/-- contents of one Go `map[K]V` -/
abbrev M := List (Key × Val)

def lookup : M → Key → Option Val
  | [], _ => none
  | (k', v) :: r, k => if k' = k then some v else lookup r k

def erase : M → Key → M
  | [], _ => []
  | (k', v) :: r, k => if k' = k then erase r k else (k', v) :: erase r k

/-- store a cell: `some v` writes, `none` deletes -/
def put (m : M) (k : Key) : Option Val → M
  | some v => (k, v) :: erase m k
  | none => erase m k

inductive Err | none | cb | closed
  deriving DecidableEq, Repr

/-- result of an operation in one canonical shape: returned value (0 = Go zero
value), up to two flags, error kind -/
structure Res where
  v : Val := 0
  b1 : Bool := false
  b2 : Bool := false
  err : Err := .none
  deriving DecidableEq, Repr

/-- outcome of a `Set` callback or of `create` -/
inductive CbOut | ok (v : Val) | ign | err
/-- outcome of a `Remove` callback -/
inductive RmOut | ok | ign | err
/-- outcome of a `SetOrRemove` callback -/
inductive SrOut | set (v : Val) | remove | ign | err

inductive Op
  | exists_ (k : Key)
  | value (k : Key)
  | setValue (k : Key) (v : Val)
  | removeValue (k : Key)
  | get (k : Key) (f : Option Val → Bool)
  | getOrCreate (k : Key) (create : CbOut) (f : Val → Bool → Bool)
  | set (k : Key) (f : Option Val → CbOut)
  | remove (k : Key) (f : Option Val → RmOut)
  | setOrRemove (k : Key) (f : Option Val → SrOut)

def Op.key : Op → Key
  | .exists_ k | .value k | .setValue k _ | .removeValue k | .get k _
  | .getOrCreate k _ _ | .set k _ | .remove k _ | .setOrRemove k _ => k

def cbErr (b : Bool) : Err := if b then .cb else .none

/-- What an operation does to the cell of its key inside an open
`SingleLockedMap`: new cell, result, change of the number of keys. -/
def cellOp (c : Option Val) : Op → Option Val × Res × Int
  | .exists_ _ => (c, { b1 := c.isSome }, 0)
  | .value _ => (c, { v := c.getD 0, b1 := c.isSome }, 0)
  | .setValue _ v => (some v, { b1 := c.isNone }, if c.isNone then 1 else 0)
  | .removeValue _ => (none, { b1 := c.isSome }, if c.isSome then -1 else 0)
  | .get _ f => (c, { v := c.getD 0, b1 := c.isSome, err := cbErr (f c) }, 0)
  | .getOrCreate _ create f =>
    match c with
    | some v => (c, { v := v, b1 := false, b2 := true, err := cbErr (f v false) }, 0)
    | none =>
      match create with
      | .ok v => (some v, { v := v, b1 := true, b2 := true, err := cbErr (f v true) }, 1)
      | .ign => (none, {}, 0)
      | .err => (none, { err := .cb }, 0)
  | .set _ f =>
    match f c with
    | .ok v => (some v, { v := v, b1 := c.isNone }, if c.isNone then 1 else 0)
    | .ign => (c, { v := c.getD 0 }, 0)
    | .err => (c, { err := .cb }, 0)
  | .remove _ f =>
    match f c with
    | .ok => (none, { b1 := c.isSome }, if c.isSome then -1 else 0)
    | .ign => (c, {}, 0)
    | .err => (c, { err := .cb }, 0)
  | .setOrRemove _ f =>
    match f c with
    | .ign => (c, { v := c.getD 0 }, 0)
    | .err => (c, { err := .cb }, 0)
    | .remove => if c.isSome then (none, { b2 := true }, -1) else (c, {}, 0)
    | .set v => (some v, { v := v, b1 := c.isNone }, if c.isNone then 1 else 0)

/-- a closed `SingleLockedMap` (`m == nil`) -/
def closedLeaf : Op → Res
  | .exists_ _ | .value _ | .setValue _ _ | .removeValue _ => {}
  | .get _ f => { err := cbErr (f none) }
  | .getOrCreate _ _ _ | .set _ _ | .setOrRemove _ _ => { err := .closed }
  | .remove _ f => match f none with | .err => { err := .cb } | _ => {}

/-! ### SingleLockedMap: `none` = closed -/

abbrev Single := Option M

def singleOp (s : Single) (op : Op) : Single × Res :=
  match s with
  | none => (none, closedLeaf op)
  | some m => let r := cellOp (lookup m op.key) op; (some (put m op.key r.1), r.2.1)

def singleLen : Single → Nat
  | none => 0
  | some m => m.length

/-! ### ShardedMap (flattened over its leaves) -/

def upd {α : Type} (f : Nat → α) (i : Nat) (x : α) (j : Nat) : α := if j = i then x else f j

structure Sh where
  n : Nat
  closed : Bool := false
  /-- `none`: leaf not created; `some none`: created and closed; `some (some m)`: open -/
  leaves : Nat → Option Single := fun _ => none
  length : Int := 0

/-- operations that go through `newItem` (create the leaf); the others use `loadItem` -/
def usesNew : Op → Bool
  | .setValue _ _ | .getOrCreate _ _ _ | .set _ _ | .setOrRemove _ _ => true
  | _ => false

/-- result of a `ShardedMap` operation on a closed map -/
def closedRes : Op → Res
  | .exists_ _ | .value _ | .setValue _ _ | .removeValue _ => {}
  | _ => { err := .closed }

inductive Acq | done (r : Res) | at_ (i : Nat)

/-- the part of an operation done under the map's own lock -/
def acquire (s : Sh) (op : Op) : Sh × Acq :=
  if s.closed then (s, .done (closedRes op))
  else
    let i := op.key % s.n
    match s.leaves i with
    | some _ => (s, .at_ i)
    | none =>
      if usesNew op then ({ s with leaves := upd s.leaves i (some (some [])) }, .at_ i)
      else (s, .done (cellOp none op).2.1)

/-- the part done under the leaf's lock: new state, result, pending change of `length` -/
def leafStep (s : Sh) (i : Nat) (op : Op) : Sh × Res × Int :=
  match s.leaves i with
  | some (some m) =>
    let r := cellOp (lookup m op.key) op
    ({ s with leaves := upd s.leaves i (some (some (put m op.key r.1))) }, r.2.1, r.2.2)
  | _ => (s, closedLeaf op, 0)

def addLen (s : Sh) (d : Int) : Sh := { s with length := s.length + d }

/-- a whole operation with nothing in between (sequential use) -/
def shOp (s : Sh) (op : Op) : Sh × Res :=
  match acquire s op with
  | (s', .done r) => (s', r)
  | (s', .at_ i) => let r := leafStep s' i op; (addLen r.1 r.2.2, r.2.1)

def emptyLeaf : Option Single → Option Single
  | some (some _) => some (some [])
  | x => x

def closeLeaf : Option Single → Option Single
  | some _ => some none
  | none => none

def shEmpty (s : Sh) : Sh :=
  if s.closed then { s with length := 0 } else { s with leaves := fun i => emptyLeaf (s.leaves i), length := 0 }

def shClose (s : Sh) : Sh :=
  { s with closed := true, leaves := fun i => closeLeaf (s.leaves i), length := 0 }

def leafItems : Option Single → M
  | some (some m) => m
  | _ => []

/-- what `Map()` / `Traverse` deliver when nothing else runs -/
def shItems (s : Sh) : M :=
  if s.closed then [] else (List.range s.n).flatMap (fun i => leafItems (s.leaves i))

/-- the sequential map the sharded map stands for -/
def abs (s : Sh) : Key → Option Val := fun k =>
  match s.leaves (k % s.n) with
  | some (some m) => lookup m k
  | _ => none

/-- the sequential specification: one map from keys to values -/
def specOp (sp : Key → Option Val) (op : Op) : (Key → Option Val) × Res :=
  let r := cellOp (sp op.key) op
  (fun k => if k = op.key then r.1 else sp k, r.2.1)

/-! ### fine-grained concurrent semantics of the sharded map -/

inductive Pend
  | atLeaf (op : Op) (i : Nat)
  | needAdd (d : Int) (r : Res)
  | done (r : Res)

structure CSt where
  sh : Sh
  pend : List Pend := []

inductive Ev
  | call (op : Op)     -- takes the map lock, finds/creates the leaf, releases the lock
  | leaf (j : Nat)     -- operation `j` runs under its leaf's lock
  | add (j : Nat)      -- operation `j` updates `length` and returns
  | empty              -- `Empty()` (taken as one step)
  | close              -- `Close()` (taken as one step)

def cstep (c : CSt) : Ev → CSt
  | .call op =>
    match acquire c.sh op with
    | (s', .done r) => { sh := s', pend := c.pend ++ [.done r] }
    | (s', .at_ i) => { sh := s', pend := c.pend ++ [.atLeaf op i] }
  | .leaf j =>
    match c.pend[j]? with
    | some (.atLeaf op i) =>
      let r := leafStep c.sh i op
      { sh := r.1, pend := c.pend.set j (if r.2.2 = 0 then .done r.2.1 else .needAdd r.2.2 r.2.1) }
    | _ => c
  | .add j =>
    match c.pend[j]? with
    | some (.needAdd d r) => { sh := addLen c.sh d, pend := c.pend.set j (.done r) }
    | _ => c
  | .empty => { c with sh := shEmpty c.sh }
  | .close => { c with sh := shClose c.sh }

def crun (c : CSt) (evs : List Ev) : CSt := evs.foldl cstep c

/-- the operation linearised by an event, with its result -/
def emitted (c : CSt) : Ev → Option (Op × Res)
  | .call op => match acquire c.sh op with | (_, .done r) => some (op, r) | _ => none
  | .leaf j => match c.pend[j]? with
    | some (.atLeaf op i) => some (op, (leafStep c.sh i op).2.1)
    | _ => none
  | _ => none

def Pend.isDone : Pend → Bool
  | .done _ => true
  | _ => false

def quiescent (c : CSt) : Bool := c.pend.all Pend.isDone

def Ev.isKeyOp : Ev → Bool
  | .empty | .close => false
  | _ => true

/-! ### Locked[T] -/

structure Lk where
  value : Val := 0
  isempty : Bool := true
  deriving DecidableEq, Repr

inductive LOp
  | value | mustValue | setValue (v : Val) | emptyValue
  | get (f : Val → Bool → Bool)
  | getOrCreate (create : CbOut) (f : Val → Bool → Bool)
  | set (f : Val → Bool → CbOut)
  | empty (f : Val → Bool → RmOut)

def lkOp (l : Lk) : LOp → Lk × Res
  | .value => (l, if l.isempty then { b1 := true } else { v := l.value })
  | .mustValue => (l, { v := l.value })
  | .setValue v => ({ value := v, isempty := false }, {})
  | .emptyValue => ({ value := 0, isempty := true }, {})
  | .get f => (l, { v := l.value, b1 := l.isempty, err := cbErr (f l.value l.isempty) })
  | .getOrCreate create f =>
    if !l.isempty then (l, { v := l.value, b2 := true, err := cbErr (f l.value false) })
    else match create with
      | .ign => (l, {})
      | .err => (l, { err := .cb })
      | .ok v => ({ value := v, isempty := false }, { v := v, b1 := true, b2 := true, err := cbErr (f v true) })
  | .set f =>
    match f l.value l.isempty with
    | .ok v => ({ value := v, isempty := false }, { v := v })
    | .ign => (l, { v := l.value })
    | .err => (l, { err := .cb })
  | .empty f =>
    match f l.value l.isempty with
    | .ok => ({ value := 0, isempty := true }, {})
    | .ign => (l, {})
    | .err => (l, { err := .cb })

end Mitum.LockMap
