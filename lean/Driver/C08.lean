import MitumModel.Common
import MitumModel.Model.Mimic
import MitumModel.Gen.C08
namespace Mitum.Driver.MimicDrv
open Mitum Mitum.Mimic

/-- `c<j>` = delivery j checks the pool; `b<j>` = its broadcast (set, then send) -/
def steps (t : String) : Option (List Nat) :=
  match (t.drop 1).toString.toNat? with
  | none => none
  | some j => if t.startsWith "c" then some [j] else if t.startsWith "b" then some [j, j] else none

def code : Code :=
  { sendStored := Gen.C08.broadcastSendsStored, stopsOnSetError := Gen.C08.broadcastStopsOnSetError, keysAgree := Gen.C08.poolKeysAgree }

/-- one delivery after the other (each runs check, set, send in one go); `okWrites` pool writes succeed, the later
    ones fail (`none`: a healthy pool).  Plain and suffrage-confirm ballots live under different pool keys. -/
def sequential (okWrites : Option Nat) (ds : List (Bool × Nat)) : List Nat × List Nat :=
  let stepOne (acc : St × St × Nat) (d : Bool × Nat) : St × St × Nat :=
    let (plain, sc, writes) := acc
    let s := if d.1 then sc else plain
    -- the delivery's write fails when the pool has no successful writes left; it writes only when its check finds nothing
    let willWrite := (seen code s).isNone
    let fails := match okWrites with | none => false | some k => decide (k ≤ writes)
    let i := s.ds.length
    let s1 : St := { s with ds := s.ds ++ [{ fact := d.2, pc := 0, setFails := fails }] }
    let s2 := run code s1 [i, i, i]
    let writes' := if willWrite then writes + 1 else writes
    if d.1 then (plain, s2, writes') else (s2, sc, writes')
  let r := ds.foldl stepOne ({ pool := none, sent := [], ds := [] }, { pool := none, sent := [], ds := [] }, 0)
  (r.1.sent, r.2.1.sent)

end Mitum.Driver.MimicDrv

namespace Mitum.Driver
open Mitum Mitum.Mimic

/-- `sched <f1,f2,…> ; <c0 c1 b0 …>` → the facts the local node hands to the network, in order -/
def stepC08 (ts : List String) : String :=
  match ts with
  | "sched" :: fs :: ";" :: sched =>
    match (fs.splitOn ",").mapM (·.toNat?), sched.mapM MimicDrv.steps with
    | some facts, some ss =>
      let s := run MimicDrv.code (start facts) ss.flatten
      if s.sent.isEmpty then "-" else ",".intercalate (s.sent.map toString)
    | _, _ => "bad-op"
  | "seq" :: ok :: ";" :: ds =>
    -- `seq <okWrites|-> ; <i|s><fact>…` → the facts sent for the plain and for the suffrage-confirm stage point
    let okw : Option (Option Nat) := if ok = "-" then some none else ok.toNat?.map some
    let parse (t : String) : Option (Bool × Nat) :=
      if t.startsWith "s" then (t.drop 1).toNat?.map (fun n => (true, n))
      else if t.startsWith "i" then (t.drop 1).toNat?.map (fun n => (false, n))
      else none
    match okw, ds.mapM parse with
    | some okw, some ds =>
      let r := MimicDrv.sequential okw ds
      let shw (l : List Nat) : String := if l.isEmpty then "-" else ",".intercalate (l.map toString)
      s!"plain={shw r.1} sc={shw r.2}"
    | _, _ => "bad-op"
  | _ => "bad-op"
end Mitum.Driver
