package main

import (
	"fmt"
	"net"
	"sort"
	"strings"
	"sync"

	"github.com/spikeekips/mitum/base"
	"github.com/spikeekips/mitum/network/quicmemberlist"
)

func init() { register("C37", runC37) }

func runC37(c *Ctx) error {
	nodes := []base.LocalNode{base.RandomLocalNode(), base.RandomLocalNode(), base.RandomLocalNode()}
	addrs := make([]*net.UDPAddr, 4)
	for i := range addrs {
		addrs[i] = &net.UDPAddr{IP: net.IPv4(127, 0, 0, 1), Port: 4000 + i}
	}
	idOf := func(id string) int {
		for i, a := range addrs {
			if net.JoinHostPort(a.IP.String(), fmt.Sprint(a.Port)) == id {
				return i + 1
			}
		}
		return 0
	}
	nhist := 1000
	if c.Thorough() {
		nhist = 30000
	}
	for hi := 0; hi < nhist; hi++ {
		pool := quicmemberlist.NewVerifMembersPool()
		present := map[int]int{} // addr -> node (spec)
		var toks, outs []string
		nsteps := 3 + c.Intn(14)
		for st := 0; st < nsteps; st++ {
			ai := c.Intn(len(addrs))
			ni := c.Intn(len(nodes))
			hist := func() string { return strings.Join(toks, " ") }
			switch k := c.Intn(10); {
			case k < 5: // join / re-join (possibly by another node)
				if n, ok := present[ai+1]; ok && c.Chance(2, 3) {
					ni = n - 1 // re-join of the same node
				}
				m, err := quicmemberlist.NewMember(fmt.Sprintf("m%d-%d", hi, st), addrs[ai], nodes[ni].Address(), nodes[ni].Publickey(), "127.0.0.1:1", true)
				if err != nil {
					return err
				}
				added := pool.Set(m)
				toks = append(toks, fmt.Sprintf("j:%d:%d", ai+1, ni+1))
				outs = append(outs, b01(added))
				_, was := present[ai+1]
				if added == was {
					c.Violation("C37:set-added-flag", hist(), map[string]interface{}{"history": toks})
				}
				present[ai+1] = ni + 1
			case k < 7: // leave
				removed, err := pool.Remove(addrs[ai])
				if err != nil {
					return err
				}
				toks = append(toks, fmt.Sprintf("l:%d", ai+1))
				outs = append(outs, b01(removed))
				delete(present, ai+1)
			case k < 9: // Get / Exists
				m, found := pool.Get(addrs[ai])
				ex := pool.Exists(addrs[ai])
				toks = append(toks, fmt.Sprintf("g:%d", ai+1))
				node := 0
				if m != nil {
					for i := range nodes {
						if nodes[i].Address().Equal(m.Address()) {
							node = i + 1
						}
					}
				}
				outs = append(outs, fmt.Sprintf("%d/%s/%s", node, b01(found), b01(ex)))
				want, ok := present[ai+1]
				if ex != ok {
					c.Violation("C37:exists-wrong", hist(), map[string]interface{}{"history": toks})
				}
				if ok && !found {
					c.Violation("C37:get-found-flag", fmt.Sprintf("history %s: Get of a present member reports found=false", hist()), map[string]interface{}{"history": toks})
				}
				if ok && node != want || !ok && (found || m != nil) {
					c.Violation("C37:get-wrong-member", hist(), map[string]interface{}{"history": toks})
				}
			default: // per-node view
				toks = append(toks, fmt.Sprintf("n:%d", ni+1))
				ids := pool.VerifNodeMembers(nodes[ni].Address())
				var got []int
				for _, id := range ids {
					got = append(got, idOf(id))
				}
				sort.Ints(got)
				outs = append(outs, fmt.Sprintf("%d/%d/%s", pool.MembersLen(nodes[ni].Address()), pool.Len(), strings.Trim(strings.ReplaceAll(fmt.Sprint(got), " ", ","), "[]")))
				var want []int
				for a, n := range present {
					if n == ni+1 {
						want = append(want, a)
					}
				}
				sort.Ints(want)
				if fmt.Sprint(got) != fmt.Sprint(want) {
					cls := "C37:node-list-wrong"
					if len(got) > len(want) {
						cls = "C37:node-list-duplicates-or-stale"
					} else if len(got) < len(want) {
						cls = "C37:node-list-lost-members"
					}
					c.Violation(cls, fmt.Sprintf("history %s: node %d list %v, present members of the node %v", hist(), ni+1, got, want), map[string]interface{}{"history": toks})
				}
				if pool.Len() != len(present) {
					c.Violation("C37:len-wrong", hist(), map[string]interface{}{"history": toks})
				}
			}
		}
		c.Case("seq "+strings.Join(toks, " "), strings.Join(outs, " "))
		if len(present) >= 2 {
			c.Nontrivial(strings.Join(toks, " "))
		}
		if hi%250 == 0 {
			c.Sample(map[string]string{"history": strings.Join(toks, " "), "results": strings.Join(outs, " ")})
		}
	}
	// concurrent: a re-join races a leave (and another node's re-join) on one address; at quiescence the
	// per-node lists must agree with the address table (the model's invariant), whatever the schedule
	rounds := 4000
	if c.Thorough() {
		rounds = 150000
	}
	pool := quicmemberlist.NewVerifMembersPool()
	mk := func(ai, ni int) quicmemberlist.Member {
		m, _ := quicmemberlist.NewMember("m", addrs[ai], nodes[ni].Address(), nodes[ni].Publickey(), "127.0.0.1:1", true)
		return m
	}
	bad := 0
	for r := 0; r < rounds && bad < 3; r++ {
		ai := r % 2
		pool.Set(mk(ai, 0))
		start := make(chan struct{})
		var wg sync.WaitGroup
		acts := []func(){
			func() { pool.Set(mk(ai, r%len(nodes))) },
			func() { _, _ = pool.Remove(addrs[ai]) },
			func() { pool.Set(mk(ai, (r+1)%len(nodes))) },
		}
		for gi := 0; gi < 2+r%2; gi++ {
			wg.Add(1)
			go func(f func()) {
				defer wg.Done()
				<-start
				f()
			}(acts[gi])
		}
		close(start)
		wg.Wait()
		c.Eval(1)
		// quiescent check
		m, _ := pool.Get(addrs[ai])
		present := pool.Exists(addrs[ai])
		id := net.JoinHostPort(addrs[ai].IP.String(), fmt.Sprint(addrs[ai].Port))
		for ni := range nodes {
			in := 0
			for _, x := range pool.VerifNodeMembers(nodes[ni].Address()) {
				if x == id {
					in++
				}
			}
			want := 0
			if present && m != nil && m.Address().Equal(nodes[ni].Address()) {
				want = 1
			}
			if in != want {
				bad++
				c.Violation("C37:concurrent-lists-inconsistent", fmt.Sprintf("round %d: address %s present=%v but occurs %d times in node %d's list (expected %d)", r, id, present, in, ni+1, want),
					map[string]interface{}{"round": r, "schedule": "re-join vs leave vs re-join on one address, started together"})
			}
		}
		_, _ = pool.Remove(addrs[ai])
	}
	return nil
}
