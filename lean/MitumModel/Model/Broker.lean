import MitumModel.Common
import MitumModel.Model.Frame
/-
Model of network/quicstream/header/broker.go on top of the framing model
(`Frame`): heads (`writeHead` / `readDataType` + `readHead`) and bodies
(`writeBody` / `readBody`) over a reader that delivers the stream in arbitrary
chunks (end of stream signalled after the last chunk).

The header payload is opaque: which encoder hints are known and what kind of
header a payload decodes to is the parameter `Codec` (the JSON codec itself is
property C27).
-/
namespace Mitum.Broker
open Mitum.Frame

/-- data types -/
def dtRequest : UInt8 := 1
def dtBody : UInt8 := 2
def dtResponse : UInt8 := 3
/-- body types -/
def btEmpty : UInt8 := 1
def btFixed : UInt8 := 2
def btStream : UInt8 := 3

structure Head where
  dt : UInt8          -- `dtRequest` or `dtResponse`
  encHint : Bytes
  header : Bytes
deriving Repr, DecidableEq

/-- `writeHead` -/
def encodeHead (h : Head) : Bytes := [h.dt] ++ (encodeItem h.encHint ++ encodeItem h.header)

inductive Body
  | empty
  | fixed (payload : Bytes)
  | stream (payload : Bytes)
deriving Repr, DecidableEq

/-- `writeBody` (the announced length of a fixed body is the payload's length) -/
def encodeBody : Body → Bytes
  | .empty => [dtBody, btEmpty]
  | .fixed p => [dtBody, btFixed] ++ (be64 p.length ++ p)
  | .stream p => [dtBody, btStream] ++ p

structure Codec where
  knownEnc : Bytes → Bool
  /-- the kind (`dtRequest` / `dtResponse`) of header the payload decodes to, `none` = decode error -/
  kind : Bytes → Bytes → Option UInt8

def validDT (b : UInt8) : Bool := b == dtRequest || b == dtBody || b == dtResponse
def validBT (b : UInt8) : Bool := b == btEmpty || b == btFixed || b == btStream

/-- `readDataType` -/
def readDataType (cs : List Bytes) : Outcome (UInt8 × List Bytes) :=
  match ensureRead cs 1 with
  | none => .error
  | some ([b], r) => if validDT b then .ok (b, r) else .error
  | some _ => .panic

/-- `readHead` after the data type `dt` has been read -/
def readHead (c : Codec) (maxItem : Nat) (dt : UInt8) (cs : List Bytes) : Outcome (Head × List Bytes) :=
  if dt != dtRequest && dt != dtResponse then .error
  else match readLengthedStream maxItem cs with
    | .error => .error
    | .panic => .panic
    | .ok (hint, r1) =>
      if !c.knownEnc hint then .error
      else match readLengthedStream maxItem r1 with
        | .error => .error
        | .panic => .panic
        | .ok (hd, r2) =>
          if c.kind hint hd == some dt then .ok ({ dt := dt, encHint := hint, header := hd }, r2) else .error

/-- what the reader of a body gets: the kind, the announced length, the bytes the body
reader delivers, and what is left of the stream afterwards -/
structure BodyRead where
  body : Body
  announced : Nat
  rest : List Bytes
deriving Repr, DecidableEq

/-- the bytes a `SectionReader` of `n` bytes delivers from the chunks: all `n`, or what is there -/
def takeUpTo (cs : List Bytes) (n : Nat) : Bytes × List Bytes :=
  match ensureRead cs n with
  | some (b, r) => (b, r)
  | none => (cs.flatten, [])

/-- `readBody` after the data type `dtBody` has been read -/
def readBody (cs : List Bytes) : Outcome BodyRead :=
  match ensureRead cs 1 with
  | none => .error
  | some ([b], r) =>
    if !validBT b then .error
    else if b == btEmpty then .ok { body := .empty, announced := 0, rest := r }
    else if b == btStream then .ok { body := .stream r.flatten, announced := 0, rest := [] }
    else match ensureRead r 8 with
      | none => .error
      | some (p, r2) =>
        match readBe64 p with
        | none => .panic
        | some n => let t := takeUpTo r2 n; .ok { body := .fixed t.1, announced := n, rest := t.2 }
  | some _ => .panic

/-- one message as the receiving side sees it -/
inductive Msg
  | head (h : Head)
  | body (b : Body) (announced : Nat)
deriving Repr, DecidableEq

/-- read the next message of a stream -/
def readMsg (c : Codec) (maxItem : Nat) (cs : List Bytes) : Outcome (Msg × List Bytes) :=
  match readDataType cs with
  | .error => .error
  | .panic => .panic
  | .ok (dt, r) =>
    if dt == dtBody then
      match readBody r with
      | .ok br => .ok (.body br.body br.announced, br.rest)
      | .error => .error
      | .panic => .panic
    else
      match readHead c maxItem dt r with
      | .ok (h, r2) => .ok (.head h, r2)
      | .error => .error
      | .panic => .panic

end Mitum.Broker
