import MitumModel.Common
import MitumModel.Model.OpPool
import MitumModel.Model.ExpelPool
import MitumModel.Model.BallotPool
import MitumModel.Model.ProposalMaker
import MitumModel.Gen.C23
import MitumModel.Gen.C38
namespace Mitum.Driver
open Mitum

/-- C22: `seq s:<op>:<fact> h:<limit>:<m>:<r> …` -/
def stepC22 (ts : List String) : String :=
  match ts with
  | "seq" :: ops =>
    let step := fun (acc : OpPool.State × List String × Bool) (t : String) =>
      if acc.2.2 then acc else
      match (t.splitOn ":") with
      | ["s", o, f] =>
        match o.toNat?, f.toNat? with
        | some o, some f =>
          let r := OpPool.setOperation acc.1 { op := o, fact := f }
          (r.1, acc.2.1 ++ [boolStr r.2], false)
        | _, _ => (acc.1, acc.2.1 ++ ["bad-op"], true)
      | ["h", l, m, r, "o"] =>
        -- a filter that decides per operation
        match l.toNat?, m.toNat?, r.toNat? with
        | some l, some m, some r =>
          let pass := fun (x : OpPool.Rec) => if m = 0 then true else !(x.op % m == r)
          let res := OpPool.operationHashes l pass acc.1
          (res.2, acc.2.1 ++ ["[" ++ ",".intercalate (res.1.map (fun x => toString x.op)) ++ "]"], false)
        | _, _, _ => (acc.1, acc.2.1 ++ ["bad-op"], true)
      | ["h", l, m, r] =>
        match l.toNat?, m.toNat?, r.toNat? with
        | some l, some m, some r =>
          let pass := fun (x : OpPool.Rec) => if m = 0 then true else !(x.fact % m == r)
          let res := OpPool.operationHashes l pass acc.1
          (res.2, acc.2.1 ++ ["[" ++ ",".intercalate (res.1.map (fun x => toString x.op)) ++ "]"], false)
        | _, _, _ => (acc.1, acc.2.1 ++ ["bad-op"], true)
      | _ => (acc.1, acc.2.1 ++ ["bad-op"], true)
    joinSp (ops.foldl step (OpPool.init, [], false)).2.1
  | _ => "bad-op"

def c23Cfg : ExpelPool.Cfg :=
  { startAboveContinues := Gen.C23.traverseStartAboveContinues && Gen.C23.lookupStartAboveContinues,
    endBelowStops := Gen.C23.traverseEndBelowStops || Gen.C23.lookupEndBelowStops }

def exId (x : ExpelPool.Ex) : String := s!"{x.node}.{x.start}.{x.stop}"

/-- C23: `seq p:<node>:<start>:<end>:<hash> t:<h> l:<h>:<node> r:<h> …` -/
def stepC23 (ts : List String) : String :=
  match ts with
  | "seq" :: ops =>
    let step := fun (acc : List ExpelPool.Ex × List String) (t : String) =>
      match (t.splitOn ":").map String.toNat? with
      | [none, some n, some s, some e, some h] =>
        (ExpelPool.put acc.1 { node := n, start := s, stop := e, hash := h }, acc.2 ++ ["ok"])
      | [none, some h] =>
        if t.startsWith "t:" then
          (acc.1, acc.2 ++ ["[" ++ ",".intercalate ((ExpelPool.traverse c23Cfg h acc.1).map exId) ++ "]"])
        else (ExpelPool.removeByHeight h acc.1, acc.2 ++ ["ok"])
      | [none, some h, some n] =>
        match ExpelPool.lookup c23Cfg h n acc.1 with
        | some x => (acc.1, acc.2 ++ [exId x])
        | none => (acc.1, acc.2 ++ ["none"])
      | _ => (acc.1, acc.2 ++ ["bad-op"])
    joinSp (ops.foldl step ([], [])).2
  | _ => "bad-op"

end Mitum.Driver

namespace Mitum.Driver
open Mitum

def parseNats (s : String) (sep : String) : Option (List Nat) := (s.splitOn sep).mapM String.toNat?

/-- C24: `seq sb:<h.r.acc.sc>:<id> gb:<h.r.acc.sc> sp:<fact>:<h.r.proposer.prev>:<id> gp:<fact> gt:<h.r.proposer.prev> cb:<deep> cp:<deep>` -/
def stepC24 (ts : List String) : String :=
  match ts with
  | "seq" :: ops =>
    let showOpt := fun (o : Option Nat) => match o with | some v => toString v | none => "none"
    let step := fun (acc : BallotPool.State × List String) (t : String) =>
      match t.splitOn ":" with
      | ["sb", k, v] =>
        match parseNats k ".", v.toNat? with
        | some [h, r, a, sc], some v =>
          let res := BallotPool.setBallot acc.1 { h := h, r := r, acc := a == 1, sc := sc == 1 } v
          (res.1, acc.2 ++ [boolStr res.2])
        | _, _ => (acc.1, acc.2 ++ ["bad-op"])
      | ["gb", k] =>
        match parseNats k "." with
        | some [h, r, a, sc] => (acc.1, acc.2 ++ [showOpt (BallotPool.getBallot acc.1 { h := h, r := r, acc := a == 1, sc := sc == 1 })])
        | _ => (acc.1, acc.2 ++ ["bad-op"])
      | ["sp", f, t, p] =>
        match f.toNat?, parseNats t ".", p.toNat? with
        | some f, some [h, r, pr, pv], some p =>
          let res := BallotPool.setProposal acc.1 f { h := h, r := r, proposer := pr, prev := pv } p
          (res.1, acc.2 ++ [boolStr res.2])
        | _, _, _ => (acc.1, acc.2 ++ ["bad-op"])
      | ["gp", f] =>
        match f.toNat? with
        | some f => (acc.1, acc.2 ++ [showOpt (BallotPool.getProposal acc.1 f)])
        | none => (acc.1, acc.2 ++ ["bad-op"])
      | ["gt", t] =>
        match parseNats t "." with
        | some [h, r, pr, pv] => (acc.1, acc.2 ++ [showOpt (BallotPool.proposalByPoint acc.1 { h := h, r := r, proposer := pr, prev := pv })])
        | _ => (acc.1, acc.2 ++ ["bad-op"])
      | ["cb", d] =>
        match d.toNat? with
        | some d => (BallotPool.cleanBallots acc.1 d, acc.2 ++ ["ok"])
        | none => (acc.1, acc.2 ++ ["bad-op"])
      | ["cp", d] =>
        match d.toNat? with
        | some d => (BallotPool.cleanProposals acc.1 d, acc.2 ++ ["ok"])
        | none => (acc.1, acc.2 ++ ["bad-op"])
      | _ => (acc.1, acc.2 ++ ["bad-op"])
    joinSp (ops.foldl step (BallotPool.init, [])).2
  | _ => "bad-op"

end Mitum.Driver

namespace Mitum.Driver
open Mitum

/-- C38: `seq m:<h.r.0.prev> e:<…> f:<h.r.proposer.prev> o …` (proposer 0 = local) -/
def stepC38 (ts : List String) : String :=
  match ts with
  | "seq" :: ops =>
    -- proposal ids are shown in the order of their first appearance (a failed make takes an id nobody ever sees)
    let shw (seen : List Nat) (p : Nat) : List Nat × String :=
      match seen.idxOf? p with
      | some i => (seen, toString (i + 1))
      | none => (seen ++ [p], toString (seen.length + 1))
    let step := fun (acc : ProposalMaker.State × Nat × List String × List Nat) (t : String) =>
      let (st, nf, outs, seen) := acc
      match t.splitOn ":" with
      | ["o"] => (st, nf, outs ++ ["-"], seen)
      | ["c", d] =>
        match d.toNat? with
        | some d => ({ st with pool := BallotPool.cleanProposals st.pool d }, nf, outs ++ ["-"], seen)
        | none => (st, nf, outs ++ ["bad-op"], seen)
      | [k, tr] =>
        let failing := tr.endsWith "!"
        let tr := if failing then tr.dropRight 1 else tr
        match parseNats tr "." with
        | some [h, r, pr, pv] =>
          let trip : BallotPool.Triple := { h := h, r := r, proposer := pr, prev := pv }
          if k = "f" then
            let r := ProposalMaker.step st (.foreign (1000000 + nf) trip (1000000 + nf))
            (r.1, nf + 1, outs ++ ["-"], seen)
          else
            let code := Gen.C38.makeReturnsSetProposalError
            let r := if failing then (if code then ProposalMaker.step st (.makeFail trip []) else ProposalMaker.stepLoose st (.makeFail trip []))
                     else ProposalMaker.step st (.make trip [])
            match r.2 with
            | some p => let x := shw seen p; (r.1, nf, outs ++ [x.2], x.1)
            | none => (r.1, nf, outs ++ ["err"], seen)
        | _ => (st, nf, outs ++ ["bad-op"], seen)
      | _ => (st, nf, outs ++ ["bad-op"], seen)
    joinSp (ops.foldl step (ProposalMaker.init, 0, [], [])).2.2.1
  | _ => "bad-op"

end Mitum.Driver
