import MitumModel.Model.RateLimit
import MitumModel.Gen.C36
import MitumModel.Pins
/-!
C36  Rate limiting picks the highest-precedence rule and enforces it.
-/
namespace Mitum.C36
open Mitum.RateLimit

/-- ✦ `select_precedence`, level 1: a matching client-id rule is used whatever else matches. -/
theorem clientid_first (rs : Rules) (q : Req) (cs : List (String × Nat)) (r : Nat)
    (hc : rs.clientids = some cs) (hne : q.clientid ≠ "") (hr : lookupS q.clientid cs = some r) :
    select rs q = (Ty.clientid, r) := by
  unfold select; simp [hne, hc, hr]

/-- level 2: no client-id rule ⇒ the first net containing the address decides. -/
theorem net_second (rs : Rules) (q : Req) (r : Nat)
    (hc : (if q.clientid = "" then none else rs.clientids.bind (lookupS q.clientid)) = none)
    (hn : rs.nets.bind (fun ns => netRule ns q.addrNets) = some r) :
    select rs q = (Ty.net, r) := by
  unfold select; simp [hc, hn]

/-- level 3: then the node rule. -/
theorem node_third (rs : Rules) (q : Req) (r : Nat)
    (hc : (if q.clientid = "" then none else rs.clientids.bind (lookupS q.clientid)) = none)
    (hn : rs.nets.bind (fun ns => netRule ns q.addrNets) = none)
    (hd : q.node.bind (fun n => rs.nodes.bind (lookupS n)) = some r) :
    select rs q = (Ty.node, r) := by
  unfold select; simp [hc, hn, hd]

/-- level 4: then the suffrage rule (consensus nodes). -/
theorem suffrage_fourth (rs : Rules) (q : Req) (r : Nat)
    (hc : (if q.clientid = "" then none else rs.clientids.bind (lookupS q.clientid)) = none)
    (hn : rs.nets.bind (fun ns => netRule ns q.addrNets) = none)
    (hd : q.node.bind (fun n => rs.nodes.bind (lookupS n)) = none)
    (hs : q.node.bind (fun n => if n ∈ rs.members then rs.suffrage else none) = some r) :
    select rs q = (Ty.suffrage, r) := by
  unfold select; simp [hc, hn, hd, hs]

/-- levels 5/6: then the default map, then the built-in default. -/
theorem default_last (rs : Rules) (q : Req)
    (hc : (if q.clientid = "" then none else rs.clientids.bind (lookupS q.clientid)) = none)
    (hn : rs.nets.bind (fun ns => netRule ns q.addrNets) = none)
    (hd : q.node.bind (fun n => rs.nodes.bind (lookupS n)) = none)
    (hs : q.node.bind (fun n => if n ∈ rs.members then rs.suffrage else none) = none) :
    select rs q = match rs.defaultMap with | some r => (Ty.defaultmap, r) | none => (Ty.default, rs.builtin) := by
  unfold select; simp only [hc, hn, hd, hs]; cases rs.defaultMap <;> rfl

/-- the first net containing the address decides -/
theorem netRule_first (n : Nat) (r : Option Nat) (rest : List (Nat × Option Nat)) (addrNets : List Nat)
    (h : n ∈ addrNets) : netRule ((n, r) :: rest) addrNets = r := by
  simp [netRule, h]

/-- the full statement: for every history, the cached path returns the rule `select` returns -/
def cached_eq_fresh_full : Prop :=
  ∀ (rs : Rules) (cached : Option (Ty × Nat)) (q₀ q : Req),
    cached = some (select rs q₀) → cachedSelect rs cached q = select rs q

/-- ◐ `cached_eq_fresh_partial`: when the request carries the same hint and address as the request
    that created the cached limiter (rule sets unchanged), the cached path agrees with `select`. -/
theorem cached_eq_fresh_partial (rs : Rules) (q : Req) :
    cachedSelect rs (some (select rs q)) q = select rs q := by
  unfold cachedSelect
  simp only
  repeat' split
  all_goals rfl

theorem cachedSelect_none (rs : Rules) (q : Req) : cachedSelect rs none q = select rs q := rfl

/-- ✗ known finding C36:cached-limiter-hides-higher-precedence-rule — after a request without a
    client id created a `net` limiter for the address, a request from the same address with the
    client id `vip` is still served by the `net` rule although the client-id rule matches. -/
theorem cached_net_hides_clientid_witness : ¬ cached_eq_fresh_full := by
  intro h
  have := h { clientids := some [("vip", 50)], nets := some [(1, some 5)], nodes := none, suffrage := none,
              members := [], defaultMap := none, builtin := 33 }
    (some (Ty.net, 5)) { addrNets := [1], clientid := "", node := none }
    { addrNets := [1], clientid := "vip", node := none } (by decide)
  revert this
  decide

/-! ### token bucket -/

theorem request_tok_le_cap (b : Bucket) (dt : Nat) (h : b.tok ≤ b.cap) : (b.request dt).1.tok ≤ (b.request dt).1.cap := by
  unfold Bucket.request Bucket.cap at *
  simp only
  split <;> simp only <;> omega

theorem request_same_params (b : Bucket) (dt : Nat) :
    (b.request dt).1.num = b.num ∧ (b.request dt).1.den = b.den ∧ (b.request dt).1.burst = b.burst := by
  unfold Bucket.request; simp only; split <;> simp

theorem request_spend (b : Bucket) (dt : Nat) :
    (b.request dt).1.tok + (if (b.request dt).2 then b.den else 0) ≤ b.tok + b.num * dt := by
  unfold Bucket.request
  simp only
  split
  · simp only [if_true]; omega
  · simp only [Bool.false_eq_true, if_false]; omega

/-- potential argument: den × allowed ≤ tokens at the start + refill over the window -/
theorem run_potential : ∀ (dts : List Nat) (b : Bucket), b.tok ≤ b.cap →
    b.den * b.run dts ≤ b.tok + b.num * dts.sum := by
  intro dts
  induction dts with
  | nil => intro b _; simp [Bucket.run]
  | cons dt rest ih =>
    intro b hb
    have hp := request_same_params b dt
    have hcap := request_tok_le_cap b dt hb
    have h1 := ih (b.request dt).1 hcap
    rw [hp.1, hp.2.1] at h1
    have h2 := request_spend b dt
    simp only [Bucket.run, List.sum_cons]
    rw [Nat.mul_add, Nat.mul_add]
    cases hr : (b.request dt).2 with
    | true => rw [hr] at h2; simp only [if_true] at h2 ⊢; omega
    | false => rw [hr] at h2; simp only [Bool.false_eq_true, if_false] at h2 ⊢; omega

/-- ✦ `bucket_bound`: in any window (a request stream with the given inter-arrival ticks, from any
    bucket state) the number of allowed requests is at most `burst + rate × window`:
    `den × allowed ≤ burst × den + num × window`. -/
theorem bucket_bound (b : Bucket) (dts : List Nat) (hb : b.tok ≤ b.cap) :
    b.den * b.run dts ≤ b.burst * b.den + b.num * dts.sum := by
  have := run_potential dts b hb
  unfold Bucket.cap at hb
  omega

/-- **update_follows_rule.**  Whatever a cached limiter was before (any sequence of earlier rules), after
`Update` to a rule it lets everything through exactly when the rule is "no limit", refuses everything
exactly when the rule is blocking, and otherwise runs the rule's token bucket. -/
theorem update_follows_rule (r : Lim) (k : Kind) :
    (updateLim true r k) = newLim k ∨ (∃ l b, k = .bucket l b ∧ r.limiter = some (l, b) ∧ updateLim true r k = r) := by
  cases k with
  | nolimit => left; simp [updateLim, newLim]; cases r.limiter <;> simp
  | blocked => left; simp [updateLim, newLim]; cases r.limiter <;> simp
  | bucket l b =>
    cases hr : r.limiter with
    | none => left; simp [updateLim, newLim, hr]
    | some p =>
      obtain ⟨l', b'⟩ := p
      by_cases h : l' = l ∧ b' = b
      · right
        obtain ⟨rfl, rfl⟩ := h
        exact ⟨l', b', rfl, rfl, by simp [updateLim, hr]⟩
      · left
        simp [updateLim, newLim, hr, h]

theorem update_chain_follows_last (r : Lim) (ks : List Kind) (k : Kind) (hk : k = .nolimit ∨ k = .blocked) :
    allowsWithoutBucket (updateLim true (ks.foldl (updateLim true) r) k) = some (decide (k = .nolimit)) := by
  rcases hk with rfl | rfl
  · rcases update_follows_rule (ks.foldl (updateLim true) r) .nolimit with h | ⟨l, b, h, _⟩
    · rw [h]; rfl
    · cases h
  · rcases update_follows_rule (ks.foldl (updateLim true) r) .blocked with h | ⟨l, b, h, _⟩
    · rw [h]; rfl
    · cases h

/-- without the reset in the blocking branch (a seeded change), "no limit" followed by a blocking rule keeps
letting everything through -/
theorem nolimit_then_blocked_witness :
    allowsWithoutBucket (updateLim false (newLim .nolimit) .blocked) = some true ∧
    allowsWithoutBucket (updateLim true (newLim .nolimit) .blocked) = some false := by decide

/-- ✦ facts of the current source: the order in which `rule()` consults the rule sets, the limiter update -/
theorem facts_ok :
    Gen.C36.extractErrors = [] ∧ Gen.C36.ruleOrder = ["clientid", "net", "node", "suffrage", "defaultmap", "default"] ∧
    Gen.C36.updateSetsBothFields = true ∧ Gen.C36.allowFollowsFlagWithoutLimiter = true ∧ Gen.C36.membershipBeforeHash = true ∧
    Gen.C36.pins = Pins.C36 := by
  refine ⟨by decide, by decide, by decide, by decide, by decide, by decide⟩

example : ({ num := 1, den := 10, burst := 3, tok := 30 } : Bucket).run [0, 0, 0, 0, 5, 5, 20] = 5 := by decide

end Mitum.C36
