package main

import (
	"encoding/hex"
	"fmt"
	"strings"
	"time"

	"github.com/spikeekips/mitum/base"
	"github.com/spikeekips/mitum/isaac"
	isaacblock "github.com/spikeekips/mitum/isaac/block"
	leveldbstorage "github.com/spikeekips/mitum/storage/leveldb"
	"github.com/spikeekips/mitum/util"
	"github.com/spikeekips/mitum/util/valuehash"
)

func init() { register("C20", runC20) }

// every bytes-level read, name -> canonical text
func (d *c19db) byteReads(keys []string, maxHeight, maxSuf int) map[string]string {
	out := map[string]string{}
	tri := func(enchint string, meta, body []byte, found bool, err error) string {
		if err != nil {
			return "err"
		}
		if !found {
			return "-"
		}
		return fmt.Sprintf("%s/%s/%d:%s", enchint, hex.EncodeToString(meta), len(body), hex.EncodeToString(body[:min(len(body), 24)]))
	}
	{
		e, m, b, f, err := d.center.LastBlockMapBytes()
		out["LastBlockMapBytes"] = tri(e, m, b, f, err)
	}
	{
		e, m, b, f, lh, err := d.center.LastSuffrageProofBytes()
		out["LastSuffrageProofBytes"] = tri(e, m, b, f, err) + fmt.Sprintf("@%d", lh)
	}
	for h := 0; h <= maxHeight; h++ {
		e, m, b, f, err := d.center.BlockMapBytes(base.Height(int64(h)))
		out[fmt.Sprintf("BlockMapBytes(%d)", h)] = tri(e, m, b, f, err)
	}
	for sh := 0; sh <= maxSuf+1; sh++ {
		e, m, b, f, err := d.center.SuffrageProofBytes(base.Height(int64(sh)))
		out[fmt.Sprintf("SuffrageProofBytes(%d)", sh)] = tri(e, m, b, f, err)
	}
	for _, k := range append(append([]string{}, keys...), isaac.SuffrageStateKey, isaac.NetworkPolicyStateKey) {
		e, m, b, f, err := d.center.StateBytes(k)
		out["StateBytes("+k+")"] = tri(e, m, b, f, err)
	}
	return out
}

// a block writer of `h` with contents of its own, written and left alone
func c20abandoned(d *c19db, h int) error {
	height := base.Height(int64(h))
	manifest := isaac.NewManifest(height, valuehash.RandomSHA256(), valuehash.RandomSHA256(), valuehash.RandomSHA256(), valuehash.RandomSHA256(), valuehash.RandomSHA256(), time.Now())
	m := isaacblock.NewBlockMap()
	m.SetManifest(manifest)
	for _, t := range []base.BlockItemType{base.BlockItemProposal, base.BlockItemOperations, base.BlockItemOperationsTree, base.BlockItemStates, base.BlockItemStatesTree, base.BlockItemVoteproofs} {
		if err := m.SetItem(isaacblock.NewBlockMapItem(t, util.UUID().String())); err != nil {
			return err
		}
	}
	if err := m.Sign(d.env.node.Address(), d.env.node.Privatekey(), hNetworkID); err != nil {
		return err
	}
	st := base.NewBaseState(height, "ka", base.NewDummyStateValue("abandoned"), valuehash.RandomSHA256(), []util.Hash{valuehash.RandomSHA256()})
	w, err := d.center.NewBlockWriteDatabase(height)
	if err != nil {
		return err
	}
	if err := w.SetBlockMap(m); err != nil {
		return err
	}
	if err := w.SetStates([]base.State{st}); err != nil {
		return err
	}
	if err := w.SetOperations([]util.Hash{valuehash.RandomSHA256()}); err != nil {
		return err
	}
	return w.Write()
}

func runC20(c *Ctx) error {
	env, err := c19newEnv()
	if err != nil {
		return err
	}
	n := 60
	if c.Thorough() {
		n = 1500
	}
	smallKeys := []string{"ka", "kb", "kc", "kd"}
	bigKeys := append([]string{}, smallKeys...)
	for j := 0; j < 360; j++ {
		bigKeys = append(bigKeys, fmt.Sprintf("x%03d", j))
	}
	seen := map[string]bool{}
	for i := 0; i < n; i++ {
		// every tenth history has blocks of more records than one batch of the merge into the permanent database (333)
		keys := smallKeys
		big := i%10 == 7
		if big {
			keys = bigKeys
			c.Count("histories", "big-blocks")
		}
		d := &c19db{env: env, st: leveldbstorage.NewMemStorage(), permst: leveldbstorage.NewMemStorage(),
			mapIDs: map[string]string{}, proofID: map[string]string{}, valueID: map[string]string{}, polID: map[string]string{}, ops: map[string]util.Hash{}, stcache: (i % 2) * 100}
		if err := d.open(); err != nil {
			return err
		}
		var toks, tops []string // tops: the same history as operations of the temps model (Model/ReopenTemps.lean)
		intemps := 0            // blocks held in temps by the running Center
		next, sufH, vcount, ocount, pcount := 0, -1, 0, 0, 0
		opIDs := []string{"oX"}
		nsteps := 3 + c.Intn(10)
		// every fourth history starts with a fixed prefix: a key cached by the permanent database (kb) is updated by a
		// block that also updates a key the permanent database never served (ka); then the random steps go on
		var forced []string
		if i%4 == 1 {
			forced = []string{"B:kb", "B:ka", "M", "B:ka,kb", "B:", "M"}
			if (i/4)%2 == 1 { // the other way round: which of the two comes first in the store's key order is not ours to say
				forced = []string{"B:ka", "B:kb", "M", "B:ka,kb", "B:", "M"}
			}
			nsteps += len(forced)
			c.Count("histories", "with-forced-prefix")
		}
		for st := 0; st < nsteps; st++ {
			var tok string
			k := c.Intn(13)
			var forcedKeys []string
			isForced := false
			if len(forced) > 0 {
				isForced = true
				switch f := forced[0]; {
				case f == "M":
					k = 7
				default:
					k = 0
					if f != "B:" {
						forcedKeys = strings.Split(f[2:], ",")
					}
				}
				forced = forced[1:]
			}
			switch {
			case k < 7 || next == 0:
				b := &c19block{Height: next, States: map[string]string{}, SufH: -1}
				for _, key := range keys {
					in := c.Chance(1, 3) || (big && len(key) == 4)
					if isForced {
						in = false
						for _, fk := range forcedKeys {
							in = in || fk == key
						}
					}
					if in {
						vcount++
						b.States[key] = fmt.Sprintf("v%d", vcount)
					}
				}
				if next == 0 || c.Chance(1, 3) {
					sufH++
					b.SufH = sufH
				}
				if c.Chance(1, 4) {
					pcount++
					b.Policy = fmt.Sprintf("q%d", pcount)
				}
				for j := 0; j < c.Intn(3); j++ {
					ocount++
					id := fmt.Sprintf("o%d", ocount)
					b.Known = append(b.Known, id)
					opIDs = append(opIDs, id)
				}
				b.DupStates = (b.SufH >= 0 || b.Policy != "") && c.Chance(1, 5)
				if b.DupStates {
					c.Count("histories", "block-sets-suffrage-or-policy-state-twice")
				}
				if err := d.write(b); err != nil {
					return fmt.Errorf("write block %d: %w", next, err)
				}
				tok = b.tok()
				tops = append(tops, "c")
				intemps++
				next++
			case k < 10:
				if err := d.center.MergeAllPermanent(); err != nil {
					return err
				}
				tok = "MERGE"
				for ; intemps > 1; intemps-- { // the newest temp stays a temp ("keep last one in temps")
					tops = append(tops, "m")
				}
			case k == 10 || k == 11:
				// a second block writer for the newest height (the next round's proposal was processed too) that is
				// written but never merged: it stays on disk beside the merged one
				if err := c20abandoned(d, next-1); err != nil {
					return err
				}
				tok = fmt.Sprintf("ABANDONED:%d", next-1)
				tops = append(tops, fmt.Sprintf("a%d", next-1))
			default:
				h := next - 1 - c.Intn(3)
				if h < 0 {
					h = 0
				}
				removed, err := d.center.RemoveBlocks(base.Height(int64(h)))
				if err != nil {
					return err
				}
				tok = fmt.Sprintf("REMOVE:%d:%s", h, b01(removed))
				tops = append(tops, fmt.Sprintf("r%d", h))
				if removed {
					intemps -= next - h
					next = h
					sufH = c19lastSuf(toks, h)
				}
			}
			c.Count("step", strings.SplitN(tok, ":", 2)[0])
			toks = append(toks, tok)
			// quiescent point: every read, then the same reads from databases opened anew on the same storage
			before := d.reads(keys, next, sufH, opIDs)
			bbefore := d.byteReads(keys, next, sufH)
			// the databases are not opened anew after every step: what they keep in memory (last reads, state cache)
			// lives across several steps, as in a running node
			if st != nsteps-1 && (len(forced) > 0 || c.Chance(1, 2)) {
				c.Count("quiescent-points", "read-only")
				continue
			}
			c.Count("quiescent-points", "reopened")
			if err := d.open(); err != nil {
				return fmt.Errorf("reopen: %w", err)
			}
			after := d.reads(keys, next, sufH, opIDs)
			bafter := d.byteReads(keys, next, sufH)
			// the temps model: the number of blocks before and after opening anew
			{
				last := func() int {
					m, found, err := d.center.LastBlockMap()
					if err != nil || !found {
						return 0
					}
					return int(m.Manifest().Height()) + 1
				}
				c.Case("temps "+strings.Join(tops, " "), fmt.Sprintf("before=%d after=%d", next, last()))
			}
			c.Eval(1 + len(bbefore))
			in := map[string]interface{}{"history": append([]string{}, toks...)}
			if before != after {
				c.Violation("C20:objects-differ-after-reopen", fmt.Sprintf("history %s: reads before %q, after reopening %q", strings.Join(toks, " "), before, after), in)
				break // the reopened databases no longer hold what the history says: nothing further to learn from it
			}
			for name, b := range bbefore {
				a := bafter[name]
				kind := strings.SplitN(name, "(", 2)[0]
				same := a == b
				if !seen[kind+b01(same)] && b != "-" {
					seen[kind+b01(same)] = true
					blen := 0
					fmt.Sscanf(b[strings.LastIndex(b, "/")+1:], "%d", &blen)
					c.Case(fmt.Sprintf("reopen %s %d", kind, blen), map[bool]string{true: "same", false: "differs"}[same])
				}
				c.Count("bytes-read", kind)
				if !same {
					cls := "C20:bytes-differ-after-reopen"
					if kind == "LastSuffrageProofBytes" && strings.Contains(a, "/0:") {
						cls = "C20:last-proof-body-dropped"
					}
					c.Violation(cls, fmt.Sprintf("history %s: %s before %s, after reopening %s", strings.Join(toks, " "), name, b, a), in)
				}
			}
		}
		c.Nontrivial(strings.Join(toks, " "))
	}
	return nil
}
