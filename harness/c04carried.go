package main

import (
	"fmt"
	"sort"
	"strings"
	"time"

	"github.com/spikeekips/mitum/base"
	"github.com/spikeekips/mitum/isaac"
	isaacstates "github.com/spikeekips/mitum/isaac/states"
	"github.com/spikeekips/mitum/util/valuehash"
)

// Voteproofs carried by ballots, with a suffrage that changes between two heights.  A 0 round
// INIT ballot of height 33 carries the ACCEPT voteproof of 32; the box hands a carried voteproof
// on through Ballotbox.Voteproof() after validating it.  The nodes that voted on height 32 are the
// suffrage of height 31 (`old`), the nodes that vote on 33 are the suffrage of 32 (`new`).  Every
// voteproof that comes out is judged as another node judges it: IsValid, and
// IsValidVoteproofWithSuffrage with the suffrage of the height before the voteproof's own.
func c04carried(c *Ctx) error {
	n := 60
	if c.Thorough() {
		n = 1500
	}
	for i := 0; i < n; i++ {
		psize := 3 + c.Intn(5)
		pool := make([]base.LocalNode, psize)
		for j := range pool {
			pool[j] = base.RandomLocalNode()
		}
		subset := func(min int) []int {
			k := min + c.Intn(psize-min+1)
			s := append([]int{}, c.Perm(psize)[:k]...)
			sort.Ints(s)
			return s
		}
		oldIdx, newIdx := subset(1), subset(1)
		signers := subset(1)
		switch c.Intn(6) {
		case 0, 1: // the suffrage shrank and only those who stayed signed the carried voteproof
			oldIdx = subset(3)
			k := 1 + c.Intn(len(oldIdx)-1)
			newIdx = append([]int{}, oldIdx[:k]...)
			signers = newIdx
		case 2: // nodes joined, and they signed too
			signers = newIdx
		case 3: // everybody of the old suffrage signed
			signers = oldIdx
		}
		mk := func(idx []int) base.Suffrage {
			ns := make([]base.Node, len(idx))
			for j, x := range idx {
				ns[j] = pool[x]
			}
			s, _ := isaac.NewSuffrage(ns)
			return s
		}
		oldsuf, newsuf := mk(oldIdx), mk(newIdx)
		point := base.NewPoint(base.Height(33), base.Round(0))
		sufOf := func(h base.Height) base.Suffrage {
			if h < point.Height().SafePrev() {
				return oldsuf
			}
			return newsuf
		}
		t10 := []int{670, 670, 600, 1000, 510}[c.Intn(5)]
		th := base.Threshold(float64(t10) / 10)
		box := isaacstates.NewBallotbox(pool[newIdx[0]].Address(), func() base.Threshold { return th },
			func(h base.Height) (base.Suffrage, bool, error) { return sufOf(h), true, nil })
		setLast := c.Bool()
		if setLast { // the local node finished INIT of 32 and waits for the ACCEPT voteproof of 32
			lp, err := isaac.NewLastPoint(base.NewStagePoint(point.PrevHeight(), base.StageINIT), true, false)
			if err != nil {
				return err
			}
			box.SetLastPoint(lp)
		}
		block := valuehash.RandomSHA256()
		afact := isaac.NewACCEPTBallotFact(point.PrevHeight(), valuehash.RandomSHA256(), block, nil)
		asfs := make([]base.BallotSignFact, len(signers))
		for j, x := range signers {
			sf := isaac.NewACCEPTBallotSignFact(afact)
			_ = sf.NodeSign(pool[x].Privatekey(), hNetworkID, pool[x].Address())
			asfs[j] = sf
		}
		avp := isaac.NewACCEPTVoteproof(afact.Point().Point)
		avp.SetMajority(afact).SetSignFacts(asfs).SetThreshold(th).Finish()
		wellFormed := avp.IsValid(hNetworkID) == nil
		genuine := wellFormed && isaac.IsValidVoteproofWithSuffrage(avp, oldsuf) == nil
		onlyNew := wellFormed && !genuine && isaac.IsValidVoteproofWithSuffrage(avp, newsuf) == nil
		ifact := isaac.NewINITBallotFact(point, block, valuehash.RandomSHA256(), nil)
		voters := subset(1)
		if c.Chance(2, 3) {
			voters = newIdx
		}
		desc := fmt.Sprintf("pool %d old %v new %v; ACCEPT voteproof of 32 signed by %v (threshold %d/1000, last point set: %v); 0 round INIT ballots of 33 carrying it from %v",
			psize, oldIdx, newIdx, signers, t10, setLast, voters)
		input := map[string]interface{}{"pool": psize, "old": oldIdx, "new": newIdx, "signers": signers, "t10": t10, "voters": voters, "last_point_set": setLast}
		var got []base.Voteproof
		for _, x := range voters {
			sf := isaac.NewINITBallotSignFact(ifact)
			_ = sf.NodeSign(pool[x].Privatekey(), hNetworkID, pool[x].Address())
			_, _ = box.Vote(isaac.NewINITBallot(avp, sf, nil))
			got = append(got, c04drain(box, 400*time.Microsecond)...)
		}
		box.Count()
		got = append(got, c04drain(box, 2*time.Millisecond)...)
		c.Eval(1)
		var carriedOut bool
		var outs []string
		for _, vp := range got {
			outs = append(outs, fmt.Sprintf("%v:%v:%d", vp.Point(), vp.Result(), len(vp.SignFacts())))
			if vp.Point().Height() == point.Height().SafePrev() {
				carriedOut = true
			}
			if err := vp.IsValid(hNetworkID); err != nil {
				c.Violation("C04:emitted-voteproof-invalid", fmt.Sprintf("%s: emitted %v fails IsValid: %s", desc, vp.Point(), c16short(err)), input)
				continue
			}
			if err := isaac.IsValidVoteproofWithSuffrage(vp, sufOf(vp.Point().Height().SafePrev())); err != nil {
				c.Violation("C04:carried-voteproof-fails-validation", fmt.Sprintf("%s: the box sent out %v (%v, %d sign facts), which fails IsValidVoteproofWithSuffrage with the suffrage of height %d: %s",
					desc, vp.Point(), vp.Result(), len(vp.SignFacts()), vp.Point().Height().SafePrev(), c16short(err)), input)
			}
		}
		kind := "carried-not-well-formed"
		switch {
		case genuine:
			kind = "carried-genuine"
		case onlyNew:
			kind = "carried-valid-only-with-later-suffrage"
		case wellFormed:
			kind = "carried-not-a-voteproof-of-either"
		}
		c.Count("carried", kind+map[bool]string{true: "/sent-out", false: "/kept"}[carriedOut])
		c.Nontrivial("carried " + desc)
		if i%20 == 0 {
			c.Sample(map[string]interface{}{"carried": input, "kind": kind, "emitted": strings.Join(outs, " ")})
		}
	}
	return nil
}
