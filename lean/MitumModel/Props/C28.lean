import MitumModel.Model.Signed
import MitumModel.Gen.C28
import MitumModel.Pins
/-!
C28  Signed objects detect any change to signed content.
-/
namespace Mitum.C28
open Mitum.Signed

/-- plain concatenation is injective once the widths are fixed -/
theorem flatten_inj (a b : List Bytes) (hl : a.map List.length = b.map List.length) (h : a.flatten = b.flatten) : a = b := by
  induction a generalizing b with
  | nil =>
    cases b with
    | nil => rfl
    | cons y ys => simp at hl
  | cons x xs ih =>
    cases b with
    | nil => simp at hl
    | cons y ys =>
      simp only [List.map_cons, List.cons.injEq] at hl
      simp only [List.flatten_cons] at h
      have := List.append_inj h hl.1
      rw [this.1, ih ys hl.2 this.2]

theorem getF_setF_self (l : List (String × Bytes)) (n : String) (v : Bytes) (h : hasF l n = true) :
    getF (setF l n v) n = v := by
  induction l with
  | nil => simp [hasF] at h
  | cons e r ih =>
    obtain ⟨k, x⟩ := e
    by_cases he : k = n
    · simp [setF, getF, he]
    · simp only [hasF, he, decide_false, Bool.false_or] at h
      simp [setF, getF, he, ih h]

theorem getF_setF_other (l : List (String × Bytes)) (n m : String) (v : Bytes) (hnm : m ≠ n) :
    getF (setF l n v) m = getF l m := by
  induction l with
  | nil => rfl
  | cons e r ih =>
    obtain ⟨k, x⟩ := e
    by_cases he : k = n
    · subst he
      have hkm : ¬ k = m := fun h => hnm h.symm
      simp [setF, getF, hkm]
    · by_cases hm : k = m
      · subst hm
        simp [setF, getF, he]
      · simp [setF, getF, he, hm, ih]

theorem getField_setField_self (f : Fact) (n : String) (v : Bytes) (h : hasF f.fields n = true) :
    getField (setField f n v) n = v := getF_setF_self f.fields n v h

theorem getField_setField_other (f : Fact) (n m : String) (v : Bytes) (hnm : m ≠ n) :
    getField (setField f n v) m = getField f m := getF_setF_other f.fields n m v hnm

theorem hashInput_eq (hashed : List String) (f : Fact) :
    hashInput hashed f = (hashed.map (getField f)).flatten := rfl

/-- changing a hashed field to a different value of the same width changes the hash input -/
theorem hashInput_setField_ne (hashed : List String) (f : Fact) (n : String) (v : Bytes)
    (hn : n ∈ hashed) (hp : hasF f.fields n = true)
    (hw : v.length = (getField f n).length) (hv : v ≠ getField f n) :
    hashInput hashed (setField f n v) ≠ hashInput hashed f := by
  intro h
  rw [hashInput_eq, hashInput_eq] at h
  have hl : (hashed.map (getField (setField f n v))).map List.length = (hashed.map (getField f)).map List.length := by
    simp only [List.map_map]
    apply List.map_congr_left
    intro m _
    simp only [Function.comp]
    by_cases hm : m = n
    · subst hm; rw [getField_setField_self f m v hp, hw]
    · rw [getField_setField_other f n m v hm]
  have := flatten_inj _ _ hl h
  have hmem := List.map_inj_left.mp this n hn
  rw [getField_setField_self f n v hp] at hmem
  exact hv hmem

theorem signMsg_inj_hash (net : Bytes) (s : Sign) (h1 h2 : Bytes) (h : signMsg net s h1 = signMsg net s h2) : h1 = h2 := by
  unfold signMsg at h
  have := List.append_cancel_left (List.append_cancel_left h)
  exact List.append_cancel_right this

/-- **mutation_detected_partial.**  For a kind of fact whose `IsValid` recomputes the
hash: replacing any hashed field by a different value of the same width makes a valid
signed object invalid — whatever the adversary writes into the stored hash, since the
signs stay what the signers produced. -/
theorem mutation_detected_partial (hashed : List String) (net : Bytes) (f : Fact) (signs : List Sign)
    (hvalid : valid hashed true net f signs = true)
    (n : String) (v stored' : Bytes) (hn : n ∈ hashed)
    (hp : hasF f.fields n = true)
    (hw : v.length = (getField f n).length) (hv : v ≠ getField f n) :
    valid hashed true net { setField f n v with stored := stored' } signs = false := by
  unfold valid at hvalid ⊢
  simp only [Bool.not_true, Bool.false_or, Bool.and_eq_true, decide_eq_true_eq] at hvalid
  obtain ⟨⟨hst, hne⟩, hall⟩ := hvalid
  cases hres : (decide (stored' = hashInput hashed { setField f n v with stored := stored' }) && !signs.isEmpty &&
      signs.all (verify net { setField f n v with stored := stored' })) with
  | false => simpa using hres
  | true =>
    exfalso
    simp only [Bool.and_eq_true, decide_eq_true_eq] at hres
    obtain ⟨⟨hst', _⟩, hall'⟩ := hres
    cases hs : signs with
    | nil => simp [hs] at hne
    | cons s r =>
      have v1 := List.all_eq_true.mp hall s (by simp [hs])
      have v2 := List.all_eq_true.mp hall' s (by simp [hs])
      unfold verify at v1 v2
      simp only [decide_eq_true_eq] at v1 v2
      have hm : signMsg net s f.stored = signMsg net s stored' := by
        have := v1.symm.trans v2
        exact (Prod.mk.inj this).2
      have heq := signMsg_inj_hash net s _ _ hm
      have hi : hashInput hashed { setField f n v with stored := stored' } = hashInput hashed (setField f n v) := rfl
      rw [hi] at hst'
      exact hashInput_setField_ne hashed f n v hn hp hw hv (by rw [← hst', ← heq, hst])

/-- a change of the stored hash alone is caught by every sign -/
theorem stored_hash_bound (hashed : List String) (rec : Bool) (net : Bytes) (f : Fact) (signs : List Sign)
    (hvalid : valid hashed rec net f signs = true) (stored' : Bytes) (hne : stored' ≠ f.stored) :
    valid hashed rec net { f with stored := stored' } signs = false := by
  unfold valid at hvalid ⊢
  simp only [Bool.and_eq_true] at hvalid
  obtain ⟨⟨_, hnn⟩, hall⟩ := hvalid
  cases hs : signs with
  | nil => simp [hs] at hnn
  | cons s r =>
    have v1 := List.all_eq_true.mp hall s (by simp [hs])
    unfold verify at v1
    simp only [decide_eq_true_eq] at v1
    have : verify net { f with stored := stored' } s = false := by
      unfold verify
      simp only [decide_eq_false_iff_not]
      intro h2
      have hm := (Prod.mk.inj (v1.symm.trans h2)).2
      exact hne (signMsg_inj_hash net s _ _ hm).symm
    simp [List.all_cons, this]

/-- signer, signing time and node (same width) and the network id (same length) are bound by the sign -/
theorem sign_fields_bound (net net' : Bytes) (f : Fact) (s s' : Sign) (hv : verify net f s = true)
    (hsig : s'.signature = s.signature)
    (hdiff : s'.signer ≠ s.signer ∨
      (s'.node.length = s.node.length ∧ s'.signedAt.length = s.signedAt.length ∧ net'.length = net.length ∧
        (s'.node ≠ s.node ∨ s'.signedAt ≠ s.signedAt ∨ net' ≠ net))) :
    verify net' f s' = false := by
  unfold verify at hv ⊢
  simp only [decide_eq_true_eq] at hv
  simp only [decide_eq_false_iff_not]
  intro h2
  rw [hsig, hv] at h2
  have hk := (Prod.mk.inj h2).1
  have hm := (Prod.mk.inj h2).2
  rcases hdiff with hd | ⟨hn, ht, hl, hd⟩
  · exact hd hk.symm
  · unfold signMsg at hm
    have e1 := List.append_inj hm hl.symm
    have e2 := List.append_inj e1.2 hn.symm
    have e3 := List.append_cancel_left e2.2
    rcases hd with h | h | h
    · exact h e2.1.symm
    · exact h e3.symm
    · exact h e1.1.symm

/-! ### what the hash does not bind (witnesses; replayed on the real objects by the harness) -/

/-- the kind of a fact is not part of its hash: relabelling keeps hash and signs -/
theorem kind_not_bound (hashed : List String) (rec : Bool) (net : Bytes) (f : Fact) (signs : List Sign) (k : String) :
    valid hashed rec net { f with kind := k } signs = valid hashed rec net f signs := rfl

/-- without widths the concatenation is ambiguous: moving a byte from one hash field to the next -/
theorem shift_witness :
    hashInput ["previousBlock", "proposal"] { kind := "init", fields := [("previousBlock", [1, 2, 3]), ("proposal", [4, 5])], stored := [] } =
    hashInput ["previousBlock", "proposal"] { kind := "init", fields := [("previousBlock", [1, 2]), ("proposal", [3, 4, 5])], stored := [] } := by
  decide

/-- a field that the hash function does not read can be changed freely -/
theorem unhashed_field_free (hashed : List String) (f : Fact) (n : String) (v : Bytes) (hn : n ∉ hashed) :
    hashInput hashed (setField f n v) = hashInput hashed f := by
  rw [hashInput_eq, hashInput_eq]
  congr 1
  apply List.map_congr_left
  intro m hm
  exact getField_setField_other f n m v (fun e => hn (e ▸ hm))

/-! ### the tie to the source -/

def expectedKinds : List (String × List String × Bool) :=
  [("init", ["expelfacts", "point", "previousBlock", "proposal", "token"], true),
   ("sc", ["expelfacts", "point", "previousBlock", "proposal", "token"], true),
   ("emptyproposal", ["expelfacts", "point", "previousBlock", "proposal", "r", "token"], true),
   ("accept", ["expelfacts", "newBlock", "point", "proposal", "token"], true),
   ("proposal", ["operations", "point", "previousBlock", "proposedAt", "proposer", "token"], true),
   ("expel", ["end", "node", "start", "token"], true)]

theorem facts_ok :
    Gen.C28.kinds = expectedKinds ∧ Gen.C28.signCoversNetworkHashTime = true ∧
    Gen.C28.nodeSignCoversNode = true ∧ Gen.C28.operationHashReadsSignsInOrder = true ∧ Gen.C28.extractErrors = [] := by decide

theorem source_pinned : Gen.C28.pins = Pins.C28 := by decide

end Mitum.C28
