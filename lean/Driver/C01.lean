import MitumModel.Common
import MitumModel.Model.Vote
import MitumModel.Model.Threshold
namespace Mitum.Driver
open Mitum Mitum.Vote

def resStr : Res → String
  | .majority k => "M " ++ k
  | .draw => "D"
  | .notYet => "N"

/-- all permutations (small lists only) -/
def perms : List String → List (List String)
  | [] => [[]]
  | x :: xs => (perms xs).flatMap (fun p => (List.range (p.length + 1)).map (fun i => p.take i ++ [x] ++ p.drop i))

/-- FindVoteResult over every map iteration order: the admissible results, sorted, `|`-joined -/
def fvAll (q th : Nat) (votes : List String) : String :=
  let ks := keysOf votes
  let orders := if ks.length ≤ 5 then perms ks else [ks, ks.reverse]
  let rs := (orders.map (fun o => resStr (findVoteResult q th votes o))).eraseDups
  "|".intercalate (rs.mergeSort (fun a b => decide (a ≤ b)))

/-- `fm q th n1 n2 …`  → FindMajority result;  `fv q th k1 k2 …` → FindVoteResult with the
    set of admissible answers over iteration orders reduced to first-occurrence order and its
    reverse (joined by `|` when they differ);  `vr q t10 k…` → Threshold.VoteResult -/
def stepC01 (ts : List String) : String :=
  match ts with
  | "fm" :: q :: th :: rest =>
    match q.toNat?, th.toNat?, natToks? rest with
    | some q, some th, some set => toString (findMajority q th set)
    | _, _, _ => "bad-op"
  | "fv" :: q :: th :: votes =>
    match q.toNat?, th.toNat? with
    | some q, some th => fvAll q th votes
    | _, _ => "bad-op"
  | "vr" :: q :: t10 :: votes =>
    match q.toNat?, t10.toNat? with
    | some q, some t10 => fvAll q (Threshold.required q t10) votes
    | _, _ => "bad-op"
  | _ => "bad-op"

end Mitum.Driver
