package main

import (
	"fmt"
	"sort"
	"strings"
	"sync"

	"github.com/spikeekips/mitum/base"
	"github.com/spikeekips/mitum/isaac"
	isaacdatabase "github.com/spikeekips/mitum/isaac/database"
	leveldbstorage "github.com/spikeekips/mitum/storage/leveldb"
	"github.com/spikeekips/mitum/util"
	ldbstorage "github.com/syndtr/goleveldb/leveldb/storage"
)

func init() { register("C21", runC21) }

// ---- a goleveldb storage that records every mutation, so that the disk as it was after the first n of them
// (a crash at any write boundary: everything later is lost, a record cut in two is a torn record) can be rebuilt

type crashOp struct {
	kind byte // 'M' set meta, 'C' create, 'W' write, 'X' close, 'R' remove, 'N' rename
	fd   ldbstorage.FileDesc
	fd2  ldbstorage.FileDesc
	data []byte
}

type crashFS struct {
	ldbstorage.Storage
	mu  sync.Mutex
	log []crashOp
}

func newCrashFS() *crashFS { return &crashFS{Storage: ldbstorage.NewMemStorage()} }

func (s *crashFS) add(op crashOp) {
	s.mu.Lock()
	s.log = append(s.log, op)
	s.mu.Unlock()
}

func (s *crashFS) mark() int {
	s.mu.Lock()
	defer s.mu.Unlock()
	return len(s.log)
}

func (s *crashFS) SetMeta(fd ldbstorage.FileDesc) error {
	s.add(crashOp{kind: 'M', fd: fd})
	return s.Storage.SetMeta(fd)
}

func (s *crashFS) Create(fd ldbstorage.FileDesc) (ldbstorage.Writer, error) {
	w, err := s.Storage.Create(fd)
	if err != nil {
		return nil, err
	}
	s.add(crashOp{kind: 'C', fd: fd})
	return &crashWriter{Writer: w, s: s, fd: fd}, nil
}

func (s *crashFS) Remove(fd ldbstorage.FileDesc) error {
	s.add(crashOp{kind: 'R', fd: fd})
	return s.Storage.Remove(fd)
}

func (s *crashFS) Rename(oldfd, newfd ldbstorage.FileDesc) error {
	s.add(crashOp{kind: 'N', fd: oldfd, fd2: newfd})
	return s.Storage.Rename(oldfd, newfd)
}

type crashWriter struct {
	ldbstorage.Writer
	s  *crashFS
	fd ldbstorage.FileDesc
}

func (w *crashWriter) Write(p []byte) (int, error) {
	w.s.add(crashOp{kind: 'W', fd: w.fd, data: append([]byte{}, p...)})
	return w.Writer.Write(p)
}

func (w *crashWriter) Close() error {
	w.s.add(crashOp{kind: 'X', fd: w.fd})
	return w.Writer.Close()
}

// the disk after the first n mutations; `tear` > 0 keeps only that many bytes of the last one when it is a write
func (s *crashFS) imageAt(n int, tear int) (ldbstorage.Storage, error) {
	s.mu.Lock()
	ops := append([]crashOp{}, s.log[:n]...)
	s.mu.Unlock()
	img := ldbstorage.NewMemStorage()
	open := map[ldbstorage.FileDesc]ldbstorage.Writer{}
	closeFd := func(fd ldbstorage.FileDesc) {
		if w, ok := open[fd]; ok {
			_ = w.Close()
			delete(open, fd)
		}
	}
	for i, op := range ops {
		switch op.kind {
		case 'M':
			if err := img.SetMeta(op.fd); err != nil {
				return nil, err
			}
		case 'C':
			closeFd(op.fd)
			w, err := img.Create(op.fd)
			if err != nil {
				return nil, err
			}
			open[op.fd] = w
		case 'W':
			data := op.data
			if i == len(ops)-1 && tear > 0 && tear < len(data) {
				data = data[:tear]
			}
			if w, ok := open[op.fd]; ok {
				if _, err := w.Write(data); err != nil {
					return nil, err
				}
			}
		case 'X':
			closeFd(op.fd)
		case 'R':
			closeFd(op.fd)
			_ = img.Remove(op.fd)
		case 'N':
			closeFd(op.fd)
			closeFd(op.fd2)
			_ = img.Rename(op.fd, op.fd2)
		}
	}
	for fd := range open {
		closeFd(fd)
	}
	return img, nil
}

// ---- the harness

var c21ctr int

// c21continue uses the recovered database further: one fresh block is committed on top of the chain recovery showed,
// the database is opened once more, and it must show exactly that chain plus the new block (nothing an interrupted
// write or removal left behind may come back)
func c21continue(c *Ctx, r *c19db, rst *leveldbstorage.Storage, toks []string, last int, keys, opIDs []string, in map[string]interface{}) {
	c21ctr++
	nb := &c19block{Height: last + 1, States: map[string]string{keys[0]: fmt.Sprintf("z%d", c21ctr)}, SufH: -1,
		Known: []string{fmt.Sprintf("oz%d", c21ctr)}, InState: []string{fmt.Sprintf("oy%d", c21ctr)}}
	if last < 0 {
		nb.SufH = 0
	}
	if err := r.write(nb); err != nil {
		c.Violation("C21:recovered-database-refuses-next-block", fmt.Sprintf("after recovery at height %d the next block cannot be committed: %v", last, err), in)
		return
	}
	ntoks := append(append([]string{}, toks...), nb.tok())
	ops := append(append([]string{}, opIDs...), nb.Known[0], nb.InState[0])
	r2 := &c19db{env: r.env, st: rst, permst: rst, mapIDs: r.mapIDs, proofID: r.proofID, valueID: r.valueID, polID: r.polID, ops: r.ops}
	if err := r2.open(); err != nil {
		c.Violation("C21:database-does-not-open-after-crash", fmt.Sprintf("after recovery at height %d and one more commit the database does not open: %v", last, err), in)
		return
	}
	last2 := -1
	if m, found, err := r2.center.LastBlockMap(); err == nil && found {
		last2 = int(m.Manifest().Height())
	}
	c.Eval(1)
	c.Count("cut", "continued-after-recovery")
	if last2 != last+1 {
		c.Violation("C21:unwritten-block-visible-after-recovery", fmt.Sprintf("recovery showed the chain %s (last height %d); block %d was committed on it and the database opened again: its last height is %d", strings.Join(toks, " "), last, last+1, last2), in)
		return
	}
	c.Case(fmt.Sprintf("hist K:%s O:%s ; %s", strings.Join(keys, ","), strings.Join(ops, ","), strings.Join(ntoks, " ")), r2.reads(keys, last2+1, c19lastSuf(ntoks, last2+1), ops))
}

func runC21(c *Ctx) error {
	env, err := c19newEnv()
	if err != nil {
		return err
	}
	n := 12
	maxCuts := 80
	if c.Thorough() {
		n = 60
		maxCuts = 400
	}
	for i := 0; i < n; i++ {
		big := i%2 == 1 // blocks with more keys than one permanent-merge batch (333)
		fs := newCrashFS()
		st, err := leveldbstorage.NewStorage(fs, nil)
		if err != nil {
			return err
		}
		ids := map[string]string{}
		d := &c19db{env: env, st: st, permst: st, writerOrder: true, mapIDs: ids, proofID: map[string]string{}, valueID: map[string]string{}, polID: map[string]string{}, ops: map[string]util.Hash{}}
		if err := d.open(); err != nil {
			return err
		}
		keys := []string{"ka", "kb", "kc", "kd"}
		if big {
			for j := 0; j < 360; j++ {
				keys = append(keys, fmt.Sprintf("x%03d", j))
			}
		}
		var toks []string
		next, sufH, vcount, ocount, pcount := 0, -1, 0, 0, 0
		opIDs := []string{"oX"}
		newBlock := func(all bool) *c19block {
			b := &c19block{Height: next, States: map[string]string{}, SufH: -1}
			for _, key := range keys {
				if all || c.Chance(1, 3) {
					vcount++
					b.States[key] = fmt.Sprintf("v%d", vcount)
				}
			}
			if next == 0 || c.Chance(1, 3) {
				sufH++
				b.SufH = sufH
			}
			if c.Chance(1, 4) {
				pcount++
				b.Policy = fmt.Sprintf("q%d", pcount)
			}
			for j := 0; j < 1+c.Intn(2); j++ {
				ocount++
				id := fmt.Sprintf("o%d", ocount)
				b.Known = append(b.Known, id)
				opIDs = append(opIDs, id)
			}
			for j := 0; j < 1+c.Intn(2); j++ {
				ocount++
				id := fmt.Sprintf("o%d", ocount)
				b.InState = append(b.InState, id)
				opIDs = append(opIDs, id)
			}
			return b
		}
		// a committed prefix of 2..4 blocks, merged as far as MergeAllPermanent goes
		pre := 2 + c.Intn(3)
		for j := 0; j < pre; j++ {
			b := newBlock(big && j > 0) // in the big runs the blocks that get merged into the permanent database are big too
			if err := d.write(b); err != nil {
				return err
			}
			toks = append(toks, b.tok())
			next++
		}
		if !big && c.Bool() {
			if err := d.center.MergeAllPermanent(); err != nil {
				return err
			}
		}
		// the phase that is cut: one more block is written and committed, then the older temps are merged
		from := fs.mark()
		b := newBlock(big)
		if err := d.write(b); err != nil {
			return err
		}
		toks = append(toks, b.tok())
		next++
		committed := fs.mark()
		if err := d.center.MergeAllPermanent(); err != nil {
			return err
		}
		to := fs.mark()
		full := strings.Join(toks, " ")
		// every block's token, to cut the history at the height the recovered database shows
		cuts := []int{}
		for x := from; x <= to; x++ {
			cuts = append(cuts, x)
		}
		if len(cuts) > maxCuts {
			var pick []int
			for j := 0; j < maxCuts; j++ {
				pick = append(pick, cuts[j*len(cuts)/maxCuts])
			}
			pick = append(pick, committed, to)
			sort.Ints(pick)
			cuts = pick
		}
		c.Count("log-ops-in-phase", fmt.Sprintf("%s:%d", map[bool]string{true: "big", false: "small"}[big], to-from))
		for ci, cut := range cuts {
			tear := 0
			if ci%3 == 1 {
				tear = 1 + c.Intn(16) // the last write only partly reached the disk
			}
			img, err := fs.imageAt(cut, tear)
			if err != nil {
				return err
			}
			rst, err := leveldbstorage.NewStorage(img, nil)
			if err != nil {
				return fmt.Errorf("reopen at cut %d: %w", cut, err)
			}
			r := &c19db{env: env, st: rst, permst: rst, mapIDs: ids, proofID: d.proofID, valueID: d.valueID, polID: d.polID, ops: d.ops}
			if err := r.open(); err != nil {
				c.Violation("C21:database-does-not-open-after-crash", fmt.Sprintf("history %s, crash after %d of %d storage writes of the last commit: %v", full, cut-from, to-from, err),
					map[string]interface{}{"history": toks, "cut": cut - from, "of": to - from})
				_ = rst.Close()
				continue
			}
			last := -1
			if m, found, err := r.center.LastBlockMap(); err == nil && found {
				last = int(m.Manifest().Height())
			}
			c.Eval(1)
			phase := "during-block-write"
			if cut > committed || (cut == committed && tear == 0) { // a torn last write of the commit is not a commit
				phase = "during-permanent-merge"
			}
			c.Count("cut", phase)
			c.Count("recovered-last", map[bool]string{true: "new-block-visible", false: "new-block-not-visible"}[last == next-1])
			in := map[string]interface{}{"history": toks, "cut": cut - from, "of": to - from, "phase": phase, "recovered_last_height": last, "torn_bytes": tear}
			switch {
			case last < next-2:
				c.Violation("C21:committed-block-lost", fmt.Sprintf("history %s, crash after %d of %d storage writes (%s): last height after recovery is %d, block %d had been committed before", full, cut-from, to-from, phase, last, next-2), in)
			case phase == "during-permanent-merge" && last != next-1:
				c.Violation("C21:committed-block-lost", fmt.Sprintf("history %s, crash %s: block %d was committed before the crash, last height after recovery is %d", full, phase, next-1, last), in)
			default:
				// all reads must be those of the chain cut at `last`: the block is there with all its data, or not at all
				hist := strings.Join(toks[:last+1], " ")
				sh := c19lastSuf(toks[:last+1], last+1)
				res := r.reads(keys, last+1, sh, opIDs)
				c.Case(fmt.Sprintf("hist K:%s O:%s ; %s", strings.Join(keys, ","), strings.Join(opIDs, ","), hist), res)
			}
			_ = rst.Close()
		}
		// an import that stopped before its merge: two more block write databases are written (the second with more
		// records than one removal batch) and never merged; after reopening nothing of them is visible and everything
		// committed before is still there
		if big {
			img, err := fs.imageAt(to, 0)
			if err != nil {
				return err
			}
			rst, err := leveldbstorage.NewStorage(img, nil)
			if err != nil {
				return err
			}
			w := &c19db{env: env, st: rst, permst: rst, noMerge: true, mapIDs: ids, proofID: d.proofID, valueID: d.valueID, polID: d.polID, ops: d.ops}
			if err := w.open(); err != nil {
				return err
			}
			for j := 0; j < 2; j++ {
				c21ctr++
				ub := &c19block{Height: next + j, States: map[string]string{}, SufH: -1, Known: []string{fmt.Sprintf("ou%d", c21ctr)}}
				for _, key := range keys {
					if j == 1 || c.Chance(1, 3) {
						ub.States[key] = fmt.Sprintf("u%d.%s", c21ctr, key)
					}
				}
				if err := w.write(ub); err != nil {
					return err
				}
			}
			r := &c19db{env: env, st: rst, permst: rst, mapIDs: ids, proofID: d.proofID, valueID: d.valueID, polID: d.polID, ops: d.ops}
			in := map[string]interface{}{"history": toks, "phase": "unmerged-import-of-two-blocks"}
			if err := r.open(); err != nil {
				c.Violation("C21:database-does-not-open-after-crash", fmt.Sprintf("history %s, then two block write databases written and not merged: %v", full, err), in)
			} else {
				last := -1
				if m, found, err := r.center.LastBlockMap(); err == nil && found {
					last = int(m.Manifest().Height())
				}
				c.Eval(1)
				c.Count("cut", "unmerged-import")
				if last != next-1 {
					c.Violation("C21:committed-block-lost", fmt.Sprintf("history %s, then blocks %d and %d written but never merged: last height after recovery is %d", full, next, next+1, last), in)
				} else {
					c.Case(fmt.Sprintf("hist K:%s O:%s ; %s", strings.Join(keys, ","), strings.Join(opIDs, ","), full), r.reads(keys, last+1, c19lastSuf(toks, last+1), opIDs))
					c21continue(c, r, rst, toks, last, keys, opIDs, in)
				}
			}
			_ = rst.Close()
		}
		// a second phase: blocks are removed again (Center.RemoveBlocks), the newest one alone or, after two more
		// commits, all the blocks that are not merged yet: at every cut the database shows a prefix of the chain, each
		// block with all its data or gone, and it can be used further
		if i%3 != 2 {
			if i%3 == 1 {
				for j := 0; j < 2; j++ {
					b := newBlock(false)
					if err := d.write(b); err != nil {
						return err
					}
					toks = append(toks, b.tok())
					next++
				}
				full = strings.Join(toks, " ")
			}
			base0 := next - 1
			if i%3 == 1 {
				base0 = next - 3
			}
			rfrom := fs.mark()
			removed, err := d.center.RemoveBlocks(base.Height(int64(base0)))
			if err != nil {
				return err
			}
			rto := fs.mark()
			if removed {
				c.Count("log-ops-in-phase", fmt.Sprintf("remove-%d-%s:%d", next-base0, map[bool]string{true: "big", false: "small"}[big], rto-rfrom))
				for cut := rfrom; cut <= rto; cut++ {
					img, err := fs.imageAt(cut, 0)
					if err != nil {
						return err
					}
					rst, err := leveldbstorage.NewStorage(img, nil)
					if err != nil {
						return err
					}
					r := &c19db{env: env, st: rst, permst: rst, mapIDs: ids, proofID: d.proofID, valueID: d.valueID, polID: d.polID, ops: d.ops}
					in := map[string]interface{}{"history": toks, "cut": cut - rfrom, "of": rto - rfrom, "phase": "during-removal", "removed_from": base0}
					if err := r.open(); err != nil {
						c.Violation("C21:database-does-not-open-after-crash", fmt.Sprintf("history %s, crash after %d of %d storage writes of the removal of the blocks from %d: %v", full, cut-rfrom, rto-rfrom, base0, err), in)
						_ = rst.Close()
						continue
					}
					last := -1
					if m, found, err := r.center.LastBlockMap(); err == nil && found {
						last = int(m.Manifest().Height())
					}
					c.Eval(1)
					c.Count("cut", "during-removal")
					if last > next-1 || last < base0-1 {
						c.Violation("C21:committed-block-lost", fmt.Sprintf("history %s, crash during the removal of the blocks from %d: last height after recovery is %d", full, base0, last), in)
					} else {
						hist := strings.Join(toks[:last+1], " ")
						c.Case(fmt.Sprintf("hist K:%s O:%s ; %s", strings.Join(keys, ","), strings.Join(opIDs, ","), hist), r.reads(keys, last+1, c19lastSuf(toks[:last+1], last+1), opIDs))
						c21continue(c, r, rst, toks[:last+1], last, keys, opIDs, in)
					}
					_ = rst.Close()
				}
			}
		}
		c.Nontrivial(full)
		_ = st.Close()
		if i%3 == 0 {
			c.Sample(map[string]interface{}{"history": toks[:min(len(toks), 3)], "big": big, "log_ops": to - from, "cuts": len(cuts)})
		}
	}
	_ = base.NilHeight
	_ = isaac.SuffrageStateKey
	_ = isaacdatabase.CleanSyncPool
	return nil
}
