import MitumModel.Common
import MitumModel.Model.Import
import MitumModel.Gen.C15
namespace Mitum.Driver
open Mitum Mitum.Import

def c15FinalSave : FinalSave :=
  if Gen.C15.finalSaveCond = "len(ims) > 0" then .lenPos
  else if Gen.C15.finalSaveCond = "" then .always
  else .lenLtLimit

/-- `imp from to limit` → sorted saved heights -/
def stepC15 (ts : List String) : String :=
  match ts.mapM String.toNat? with
  | none =>
    match ts with
    | "imp" :: rest =>
      match rest.mapM String.toNat? with
      | some [frm, to, limit] =>
        match run c15FinalSave frm to limit with
        | some l =>
          let s := sortBy (fun a b => decide (a ≤ b)) l
          if s.isEmpty then "-" else ",".intercalate (s.map toString)
        | none => "err"
      | _ => "bad-op"
    | _ => "bad-op"
  | some _ => "bad-op"

end Mitum.Driver
