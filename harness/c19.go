package main

import (
	"context"
	"fmt"
	"sort"
	"strings"
	"time"

	"github.com/redis/go-redis/v9"
	"github.com/spikeekips/mitum/base"
	"github.com/spikeekips/mitum/isaac"
	isaacblock "github.com/spikeekips/mitum/isaac/block"
	isaacdatabase "github.com/spikeekips/mitum/isaac/database"
	"github.com/spikeekips/mitum/launch"
	leveldbstorage "github.com/spikeekips/mitum/storage/leveldb"
	redisstorage "github.com/spikeekips/mitum/storage/redis"
	"github.com/spikeekips/mitum/util"
	"github.com/spikeekips/mitum/util/encoder"
	jsonenc "github.com/spikeekips/mitum/util/encoder/json"
	"github.com/spikeekips/mitum/util/fixedtree"
	"github.com/spikeekips/mitum/util/valuehash"
)

func init() { register("C19", runC19) }

type c19env struct {
	encs *encoder.Encoders
	enc  encoder.Encoder
	node base.LocalNode
}

func c19newEnv() (*c19env, error) {
	enc := jsonenc.NewEncoder()
	encs := encoder.NewEncoders(enc, enc)
	if err := launch.LoadHinters(encs); err != nil {
		return nil, err
	}
	for _, d := range []encoder.DecodeDetail{
		{Hint: base.DummyStateValueHint, Instance: base.DummyStateValue{}},
	} {
		if err := encs.AddDetail(d); err != nil {
			return nil, err
		}
	}
	return &c19env{encs: encs, enc: enc, node: base.RandomLocalNode()}, nil
}

// one committed block as the history records it
type c19block struct {
	Height   int
	MapID    string            // identity of the block map (fresh per write)
	States   map[string]string // key -> value id
	SufH     int               // suffrage height set by this block, -1 = none
	ProofID  string
	Policy   string   // id of the network policy set by this block, "" = none
	Known    []string // known operations (ids)
	InState  []string // operations recorded in the block's states
	mapHash  string
	proofKey string
	// the block writer is given the suffrage and policy states a second time, with other values, at the same height (the
	// first ones stay the block's states: the writer keeps the first state of a key and height)
	DupStates bool
}

type c19db struct {
	env         *c19env
	st          *leveldbstorage.Storage
	permst      *leveldbstorage.Storage
	perm        isaac.PermanentDatabase
	redis       *redis.Options // when set, the permanent database is the Redis-backed one (C26)
	prefix      string
	mirror      *c19db // a second database that receives the very same objects (C26)
	writerOrder bool   // blocks of even height are stored in the order of isaacblock.Writer.Save
	center      *isaacdatabase.Center
	mapIDs      map[string]string // manifest hash -> id
	proofID     map[string]string // suffrage state hash -> id
	valueID     map[string]string // state hash -> value id
	polID       map[string]string
	ops         map[string]util.Hash
	counter     int
	stcache     int  // size of the permanent database's state cache (0: none)
	noMerge     bool // blocks are written (Write) but not handed to MergeBlockWriteDatabase: an import that stopped before its merge
}

func (d *c19db) open() error {
	var perm isaac.PermanentDatabase
	if d.redis != nil {
		rst, err := redisstorage.NewStorage(context.Background(), d.redis, d.prefix)
		if err != nil {
			return err
		}
		p, err := isaacdatabase.NewRedisPermanent(rst, d.env.encs, d.env.enc, d.stcache)
		if err != nil {
			return err
		}
		perm = p
	} else {
		p, err := isaacdatabase.NewLeveldbPermanent(d.permst, d.env.encs, d.env.enc, d.stcache)
		if err != nil {
			return err
		}
		perm = p
	}
	center, err := isaacdatabase.NewCenter(d.st, d.env.encs, d.env.enc, perm, func(h base.Height) (isaac.BlockWriteDatabase, error) {
		return isaacdatabase.NewLeveldbBlockWrite(h, d.st, d.env.encs, d.env.enc), nil
	})
	if err != nil {
		return err
	}
	d.perm, d.center = perm, center
	return nil
}

func (d *c19db) opHash(id string) util.Hash {
	h, ok := d.ops[id]
	if !ok {
		h = valuehash.RandomSHA256()
		d.ops[id] = h
	}
	return h
}

func (d *c19db) write(b *c19block) error {
	height := base.Height(int64(b.Height))
	var sts []base.State
	keys := make([]string, 0, len(b.States))
	for k := range b.States {
		keys = append(keys, k)
	}
	sort.Strings(keys)
	inst := append([]string{}, b.InState...)
	for i, k := range keys {
		var ops []util.Hash
		if i == 0 {
			for _, o := range inst {
				ops = append(ops, d.opHash(o))
			}
		}
		if len(ops) == 0 {
			ops = []util.Hash{valuehash.RandomSHA256()}
		}
		st := base.NewBaseState(height, k, base.NewDummyStateValue(b.States[k]), valuehash.RandomSHA256(), ops)
		d.valueID[st.Hash().String()] = b.States[k]
		sts = append(sts, st)
	}
	if len(keys) == 0 && len(inst) > 0 {
		b.InState = nil
	}
	var sufst base.State
	if b.SufH >= 0 {
		sv := isaac.NewSuffrageNodesStateValue(base.Height(int64(b.SufH)), []base.SuffrageNodeStateValue{isaac.NewSuffrageNodeStateValue(d.env.node, height)})
		sufst = base.NewBaseState(height, isaac.SuffrageStateKey, sv, valuehash.RandomSHA256(), []util.Hash{valuehash.RandomSHA256()})
		sts = append(sts, sufst)
		d.counter++
		b.ProofID = fmt.Sprintf("p%d.%d", b.SufH, d.counter)
		d.proofID[sufst.Hash().String()] = b.ProofID
		d.valueID[sufst.Hash().String()] = "suf" + b.ProofID
	}
	if b.Policy != "" {
		pol := isaac.DefaultNetworkPolicy()
		pol.SetMaxOperationsInProposal(uint64(100 + d.counter))
		d.counter++
		pst := base.NewBaseState(height, isaac.NetworkPolicyStateKey, isaac.NewNetworkPolicyStateValue(pol), valuehash.RandomSHA256(), []util.Hash{valuehash.RandomSHA256()})
		sts = append(sts, pst)
		d.polID[fmt.Sprint(pol.MaxOperationsInProposal())] = b.Policy
		d.valueID[pst.Hash().String()] = "pol" + b.Policy
	}
	var dups []base.State
	if b.DupStates {
		if sufst != nil {
			sv := isaac.NewSuffrageNodesStateValue(base.Height(int64(b.SufH)), []base.SuffrageNodeStateValue{isaac.NewSuffrageNodeStateValue(d.env.node, height+1)})
			st2 := base.NewBaseState(height, isaac.SuffrageStateKey, sv, valuehash.RandomSHA256(), []util.Hash{valuehash.RandomSHA256()})
			d.proofID[st2.Hash().String()] = "dup-" + b.ProofID
			d.valueID[st2.Hash().String()] = "dup-suf" + b.ProofID
			dups = append(dups, st2)
		}
		if b.Policy != "" {
			pol := isaac.DefaultNetworkPolicy()
			pol.SetMaxOperationsInProposal(uint64(100 + d.counter))
			d.counter++
			st2 := base.NewBaseState(height, isaac.NetworkPolicyStateKey, isaac.NewNetworkPolicyStateValue(pol), valuehash.RandomSHA256(), []util.Hash{valuehash.RandomSHA256()})
			d.polID[fmt.Sprint(pol.MaxOperationsInProposal())] = "dup-" + b.Policy
			d.valueID[st2.Hash().String()] = "dup-pol" + b.Policy
			dups = append(dups, st2)
		}
	}
	var sufhash util.Hash = valuehash.RandomSHA256()
	manifest := isaac.NewManifest(height, valuehash.RandomSHA256(), valuehash.RandomSHA256(), valuehash.RandomSHA256(), valuehash.RandomSHA256(), sufhash, time.Now())
	m := isaacblock.NewBlockMap()
	m.SetManifest(manifest)
	for _, t := range []base.BlockItemType{base.BlockItemProposal, base.BlockItemOperations, base.BlockItemOperationsTree, base.BlockItemStates, base.BlockItemStatesTree, base.BlockItemVoteproofs} {
		if err := m.SetItem(isaacblock.NewBlockMapItem(t, util.UUID().String())); err != nil {
			return err
		}
	}
	if err := m.Sign(d.env.node.Address(), d.env.node.Privatekey(), hNetworkID); err != nil {
		return err
	}
	d.counter++
	b.MapID = fmt.Sprintf("m%d.%d", b.Height, d.counter)
	d.mapIDs[manifest.Hash().String()] = b.MapID
	var known []util.Hash
	for _, o := range b.Known {
		known = append(known, d.opHash(o))
	}
	store := func(x *c19db) error {
		w, err := x.center.NewBlockWriteDatabase(height)
		if err != nil {
			return err
		}
		// with a state cache in the permanent database, every other block writer gets a (tiny) state cache
		// of its own, as the block importer of launch gives it one
		if x.stcache > 0 && b.Height%2 == 1 {
			if sw, ok := w.(interface {
				SetStateCache(util.GCache[string, [2]interface{}])
			}); ok {
				sw.SetStateCache(util.NewLRUGCache[string, [2]interface{}](1))
			}
		}
		// two orders occur in the repository: the importer sets the block map first and calls Write last; the block
		// writer (isaacblock.Writer.Save) writes states and operations, calls Write, and only then sets the block map
		// and the suffrage proof
		writerOrder := x.writerOrder && b.Height%2 == 0
		if !writerOrder {
			if err := w.SetBlockMap(m); err != nil {
				return err
			}
		}
		if err := w.SetStates(sts); err != nil {
			return err
		}
		if len(dups) > 0 {
			if err := w.SetStates(dups); err != nil {
				return err
			}
		}
		if err := w.SetOperations(known); err != nil {
			return err
		}
		if writerOrder {
			if err := w.Write(); err != nil {
				return err
			}
			if err := w.SetBlockMap(m); err != nil {
				return err
			}
		}
		if sufst != nil {
			if err := w.SetSuffrageProof(isaacblock.NewSuffrageProof(m, sufst, fixedtree.Proof{})); err != nil {
				return err
			}
		}
		if !writerOrder {
			if err := w.Write(); err != nil {
				return err
			}
		}
		if x.noMerge {
			return nil
		}
		return x.center.MergeBlockWriteDatabase(w)
	}
	if err := store(d); err != nil {
		return err
	}
	if d.mirror != nil {
		return store(d.mirror)
	}
	return nil
}

func (d *c19db) proofName(p base.SuffrageProof, found bool, err error) string {
	switch {
	case err != nil:
		return "err"
	case !found || p == nil:
		return "-"
	}
	if id, ok := d.proofID[p.State().Hash().String()]; ok {
		return id
	}
	return "?"
}

// every read of the Center, in one canonical string
func (d *c19db) reads(keys []string, maxHeight, maxSuf int, opIDs []string) string {
	var out []string
	// states
	var ss []string
	for _, k := range append(append([]string{}, keys...), isaac.SuffrageStateKey, isaac.NetworkPolicyStateKey) {
		st, found, err := d.center.State(k)
		switch {
		case err != nil:
			ss = append(ss, "err")
		case !found:
			ss = append(ss, "-")
		default:
			ss = append(ss, fmt.Sprintf("%s@%d", d.valueID[st.Hash().String()], st.Height()))
		}
	}
	out = append(out, "S:"+strings.Join(ss, ","))
	// block maps
	var ms []string
	for h := 0; h <= maxHeight+1; h++ {
		m, found, err := d.center.BlockMap(base.Height(int64(h)))
		switch {
		case err != nil:
			ms = append(ms, "err")
		case !found:
			ms = append(ms, "-")
		default:
			ms = append(ms, d.mapIDs[m.Manifest().Hash().String()])
		}
	}
	out = append(out, "M:"+strings.Join(ms, ","))
	lm := "-"
	if m, found, err := d.center.LastBlockMap(); err != nil {
		lm = "err"
	} else if found {
		lm = d.mapIDs[m.Manifest().Hash().String()]
	}
	out = append(out, "LM:"+lm)
	// suffrage proofs
	var ps []string
	for sh := 0; sh <= maxSuf+2; sh++ {
		ps = append(ps, d.proofName(d.center.SuffrageProof(base.Height(int64(sh)))))
	}
	out = append(out, "P:"+strings.Join(ps, ","))
	var pb []string
	for h := 0; h <= maxHeight+1; h++ {
		pb = append(pb, d.proofName(d.center.SuffrageProofByBlockHeight(base.Height(int64(h)))))
	}
	out = append(out, "PB:"+strings.Join(pb, ","))
	out = append(out, "LP:"+d.proofName(d.center.LastSuffrageProof()))
	if _, _, _, found, lh, err := d.center.LastSuffrageProofBytes(); err != nil {
		out = append(out, "LPH:err")
	} else if !found {
		out = append(out, "LPH:-")
	} else {
		out = append(out, fmt.Sprintf("LPH:%d", lh))
	}
	// operations
	var os []string
	for _, o := range opIDs {
		a, err1 := d.center.ExistsInStateOperation(d.opHash(o))
		b, err2 := d.center.ExistsKnownOperation(d.opHash(o))
		if err1 != nil || err2 != nil {
			os = append(os, "err")
			continue
		}
		os = append(os, b01(a)+b01(b))
	}
	out = append(out, "O:"+strings.Join(os, ","))
	pol := "-"
	if p := d.center.LastNetworkPolicy(); p != nil {
		pol = d.polID[fmt.Sprint(p.MaxOperationsInProposal())]
		if pol == "" {
			pol = "?"
		}
	}
	out = append(out, "POL:"+pol)
	return strings.Join(out, " ")
}

func (b *c19block) tok() string {
	keys := make([]string, 0, len(b.States))
	for k := range b.States {
		keys = append(keys, k)
	}
	sort.Strings(keys)
	var ss []string
	for _, k := range keys {
		ss = append(ss, k+"="+b.States[k])
	}
	suf := "-"
	if b.SufH >= 0 {
		suf = fmt.Sprintf("%d/%s", b.SufH, b.ProofID)
	}
	pol := "-"
	if b.Policy != "" {
		pol = b.Policy
	}
	return fmt.Sprintf("B:%d:%s:%s:%s:%s:%s:%s", b.Height, b.MapID, strings.Join(ss, ","), suf, pol, strings.Join(b.Known, ","), strings.Join(b.InState, ","))
}

func runC19(c *Ctx) error {
	env, err := c19newEnv()
	if err != nil {
		return err
	}
	n := 60
	if c.Thorough() {
		n = 1500
	}
	smallKeys := []string{"ka", "kb", "kc", "kd"}
	for i := 0; i < n; i++ {
		// every tenth history has blocks with more records than one batch of the permanent merge (333)
		big := i%10 == 9
		keys := smallKeys
		if big {
			keys = append([]string{}, smallKeys...)
			for j := 0; j < 360; j++ {
				keys = append(keys, fmt.Sprintf("x%03d", j))
			}
		}
		d := &c19db{env: env, st: leveldbstorage.NewMemStorage(), permst: leveldbstorage.NewMemStorage(),
			mapIDs: map[string]string{}, proofID: map[string]string{}, valueID: map[string]string{}, polID: map[string]string{}, ops: map[string]util.Hash{}, stcache: (i % 2) * 100}
		if err := d.open(); err != nil {
			return err
		}
		var toks []string
		next, sufH, vcount, ocount, pcount := 0, -1, 0, 0, 0
		opIDs := []string{"oX"} // oX is never written
		nsteps := 4 + c.Intn(14)
		if big {
			nsteps = 4 + c.Intn(5)
		}
		for st := 0; st < nsteps; st++ {
			var tok string
			switch k := c.Intn(10); {
			case k < 7 || next == 0:
				b := &c19block{Height: next, States: map[string]string{}, SufH: -1}
				bigBlock := big && (next == 0 || c.Chance(1, 2))
				for j, key := range keys {
					if (j < len(smallKeys) && c.Chance(1, 3)) || (j >= len(smallKeys) && bigBlock) {
						vcount++
						b.States[key] = fmt.Sprintf("v%d", vcount)
					}
				}
				if bigBlock {
					c.Count("big-blocks", "written")
				}
				if next == 0 || c.Chance(1, 3) {
					sufH++
					b.SufH = sufH
				}
				if c.Chance(1, 4) {
					pcount++
					b.Policy = fmt.Sprintf("q%d", pcount)
				}
				for j := 0; j < c.Intn(3); j++ {
					ocount++
					id := fmt.Sprintf("o%d", ocount)
					b.Known = append(b.Known, id)
					opIDs = append(opIDs, id)
				}
				if len(b.States) > 0 {
					for j := 0; j < c.Intn(3); j++ {
						ocount++
						id := fmt.Sprintf("o%d", ocount)
						b.InState = append(b.InState, id)
						opIDs = append(opIDs, id)
					}
				}
				if err := d.write(b); err != nil {
					return fmt.Errorf("write block %d: %w", next, err)
				}
				tok = b.tok()
				next++
			case k < 9:
				if err := d.center.MergeAllPermanent(); err != nil {
					return err
				}
				tok = "MERGE"
			default:
				h := next - 1 - c.Intn(3)
				if h < 0 {
					h = 0
				}
				removed, err := d.center.RemoveBlocks(base.Height(int64(h)))
				if err != nil {
					return err
				}
				tok = fmt.Sprintf("REMOVE:%d:%s", h, b01(removed))
				if removed {
					next = h
					// the suffrage height continues from what is left: recompute from the tokens (the model does the same)
					sufH = c19lastSuf(toks, h)
				}
			}
			toks = append(toks, tok)
			c.Count("step", strings.SplitN(tok, ":", 2)[0])
			res := d.reads(keys, next, sufH, opIDs)
			c19oracle(c, toks, res)
			c.Case(fmt.Sprintf("hist K:%s O:%s ; %s", strings.Join(keys, ","), strings.Join(opIDs, ","), strings.Join(toks, " ")), res)
		}
		c.Nontrivial(strings.Join(toks, " "))
		if i%20 == 0 {
			c.Sample(map[string]interface{}{"history": toks})
		}
	}
	return nil
}

// the suffrage height of the newest block below `height` that set one
func c19lastSuf(toks []string, height int) int {
	suf := -1
	cur := map[int]int{}
	for _, t := range toks {
		p := strings.Split(t, ":")
		switch p[0] {
		case "B":
			var h int
			fmt.Sscan(p[1], &h)
			delete(cur, h)
			if p[4] != "-" {
				var s int
				fmt.Sscan(strings.SplitN(p[4], "/", 2)[0], &s)
				cur[h] = s
			}
		case "REMOVE":
			if p[2] == "1" {
				var h int
				fmt.Sscan(p[1], &h)
				for k := range cur {
					if k >= h {
						delete(cur, k)
					}
				}
			}
		}
	}
	for h, s := range cur {
		if h < height && s > suf {
			suf = s
		}
	}
	return suf
}

// the three suffrage-proof reads against the committed chain itself
func c19oracle(c *Ctx, toks []string, res string) {
	type blk struct {
		h, suf int
		proof  string
	}
	var chain []blk
	for _, t := range toks {
		p := strings.Split(t, ":")
		switch p[0] {
		case "B":
			var b blk
			fmt.Sscan(p[1], &b.h)
			b.suf = -1
			if p[4] != "-" {
				q := strings.SplitN(p[4], "/", 2)
				fmt.Sscan(q[0], &b.suf)
				b.proof = q[1]
			}
			chain = append(chain, b)
		case "REMOVE":
			if p[2] == "1" {
				var h int
				fmt.Sscan(p[1], &h)
				var keep []blk
				for _, b := range chain {
					if b.h < h {
						keep = append(keep, b)
					}
				}
				chain = keep
			}
		}
	}
	field := func(name string) []string {
		for _, f := range strings.Split(res, " ") {
			if strings.HasPrefix(f, name+":") {
				return strings.Split(f[len(name)+1:], ",")
			}
		}
		return nil
	}
	in := map[string]interface{}{"history": append([]string{}, toks...), "reads": res}
	for sh, got := range field("P") {
		want := "-"
		for _, b := range chain {
			if b.suf == sh {
				want = b.proof
			}
		}
		if got != want {
			c.Violation("C19:suffrage-proof-of-other-height", fmt.Sprintf("SuffrageProof(%d) = %s, the committed chain says %s (history %s)", sh, got, want, strings.Join(toks, " ")), in)
			break
		}
	}
	last := -1
	if len(chain) > 0 {
		last = chain[len(chain)-1].h
	}
	for h, got := range field("PB") {
		want := "-"
		if h <= last {
			for _, b := range chain {
				if b.h <= h && b.suf >= 0 {
					want = b.proof
				}
			}
		}
		if got != want {
			c.Violation("C19:proof-by-block-height-below-temps", fmt.Sprintf("SuffrageProofByBlockHeight(%d) = %s, the committed chain says %s (history %s)", h, got, want, strings.Join(toks, " ")), in)
			break
		}
	}
	if f := field("LPH"); len(f) == 1 && f[0] != "-" && f[0] != fmt.Sprint(last) {
		c.Violation("C19:last-proof-bytes-height", fmt.Sprintf("LastSuffrageProofBytes reports last height %s, the newest block is %d (history %s)", f[0], last, strings.Join(toks, " ")), in)
	}
}
