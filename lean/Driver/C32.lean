import MitumModel.Common
import MitumModel.Model.LockMap
namespace Mitum.Driver.LockMapDrv
open Mitum Mitum.LockMap

def errStr : Err → String
  | .none => "n" | .cb => "e" | .closed => "c"

def resStr (r : Res) : String := s!"{r.v}/{boolStr r.b1}/{boolStr r.b2}/{errStr r.err}"

def cbOut? (s : String) (cur : Val) : Option CbOut :=
  if s = "i" then some .ign else if s = "e" then some .err
  else if s = "p" then some (.ok (cur + 1))
  else if s.startsWith "o" then (s.drop 1).toString.toNat?.map .ok else none

def rmOut? (s : String) : Option RmOut :=
  if s = "o" then some .ok else if s = "i" then some .ign else if s = "e" then some .err else none

def srOut? (s : String) (cur : Val) : Option SrOut :=
  if s = "i" then some .ign else if s = "e" then some .err else if s = "r" then some .remove
  else if s = "p" then some (.set (cur + 1))
  else if s.startsWith "s" then (s.drop 1).toString.toNat?.map .set else none

def bit (s : String) (i : Nat) : Bool := (s.toList.getD i '0') == '1'

/-- parse one map operation token -/
def mapOp? (t : String) : Option Op :=
  match t.splitOn ":" with
  | ["ex", k] => k.toNat?.map .exists_
  | ["va", k] => k.toNat?.map .value
  | ["sv", k, v] => match k.toNat?, v.toNat? with | some k, some v => some (.setValue k v) | _, _ => none
  | ["rv", k] => k.toNat?.map .removeValue
  | ["ge", k, e] => k.toNat?.map (fun k => .get k (fun c => if c.isSome then bit e 0 else bit e 1))
  | ["gc", k, cr, e] =>
    match k.toNat?, cbOut? cr 0 with
    | some k, some cr => some (.getOrCreate k cr (fun _ created => if created then bit e 1 else bit e 0))
    | _, _ => none
  | ["se", k, a, b] =>
    match k.toNat?, cbOut? a 0, cbOut? b 0 with
    | some k, some _, some _ =>
      some (.set k (fun c => match c with
        | some v => (cbOut? a v).getD .err
        | none => (cbOut? b 0).getD .err))
    | _, _, _ => none
  | ["rm", k, a, b] =>
    match k.toNat?, rmOut? a, rmOut? b with
    | some k, some a, some b => some (.remove k (fun c => if c.isSome then a else b))
    | _, _, _ => none
  | ["sr", k, a, b] =>
    match k.toNat?, srOut? a 0, srOut? b 0 with
    | some k, some _, some _ =>
      some (.setOrRemove k (fun c => match c with
        | some v => (srOut? a v).getD .err
        | none => (srOut? b 0).getD .err))
    | _, _, _ => none
  | _ => none

def itemsStr (m : M) : String :=
  let l := sortBy (fun a b => decide (a.1 ≤ b.1)) m
  if l.isEmpty then "-" else ",".intercalate (l.map (fun e => s!"{e.1}={e.2}"))

def stepSingle (acc : Single × List String) (t : String) : Single × List String :=
  match t with
  | "len" => (acc.1, acc.2 ++ [toString (singleLen acc.1)])
  | "map" => (acc.1, acc.2 ++ [itemsStr (acc.1.getD [])])
  | "empty" => (acc.1.map (fun _ => []), acc.2 ++ ["-"])
  | "close" => (none, acc.2 ++ ["-"])
  | _ =>
    match mapOp? t with
    | some op => let r := singleOp acc.1 op; (r.1, acc.2 ++ [resStr r.2])
    | none => (acc.1, acc.2 ++ ["bad-op"])

def stepSharded (acc : Sh × List String) (t : String) : Sh × List String :=
  match t with
  | "len" => (acc.1, acc.2 ++ [toString acc.1.length])
  | "map" => (acc.1, acc.2 ++ [itemsStr (shItems acc.1)])
  | "empty" => (shEmpty acc.1, acc.2 ++ ["-"])
  | "close" => (shClose acc.1, acc.2 ++ ["-"])
  | _ =>
    match mapOp? t with
    | some op => let r := shOp acc.1 op; (r.1, acc.2 ++ [resStr r.2])
    | none => (acc.1, acc.2 ++ ["bad-op"])

def lkOp? (t : String) : Option LOp :=
  match t.splitOn ":" with
  | ["lv"] => some .value
  | ["lm"] => some .mustValue
  | ["ls", v] => v.toNat?.map .setValue
  | ["le"] => some .emptyValue
  | ["lg", e] => some (.get (fun _ isempty => if isempty then bit e 1 else bit e 0))
  | ["lgc", cr, e] => (cbOut? cr 0).map (fun cr => .getOrCreate cr (fun _ created => if created then bit e 1 else bit e 0))
  | ["lset", a, b] =>
    match cbOut? a 0, cbOut? b 0 with
    | some _, some _ => some (.set (fun v isempty => if isempty then (cbOut? b v).getD .err else (cbOut? a v).getD .err))
    | _, _ => none
  | ["lemp", a, b] =>
    match rmOut? a, rmOut? b with
    | some a, some b => some (.empty (fun _ isempty => if isempty then b else a))
    | _, _ => none
  | _ => none

def stepLocked (acc : Lk × List String) (t : String) : Lk × List String :=
  match lkOp? t with
  | some op => let r := lkOp acc.1 op; (r.1, acc.2 ++ [resStr r.2])
  | none => (acc.1, acc.2 ++ ["bad-op"])

end Mitum.Driver.LockMapDrv
namespace Mitum.Driver
open Mitum Mitum.LockMap Mitum.Driver.LockMapDrv
/-- `single <ops…>` | `sharded <n> <ops…>` | `locked <e|v<n>> <ops…>` -/
def stepC32 (ts : List String) : String :=
  match ts with
  | "single" :: ops => joinSp (ops.foldl stepSingle (some [], [])).2
  | "sharded" :: n :: ops =>
    match n.toNat? with
    | some n => if n = 0 then "bad-op" else joinSp (ops.foldl stepSharded ({ n := n }, [])).2
    | none => "bad-op"
  | "locked" :: init :: ops =>
    let l0 : Option Lk := if init = "e" then some {} else
      if init.startsWith "v" then (init.drop 1).toString.toNat?.map (fun v => { value := v, isempty := false }) else none
    match l0 with
    | some l0 => joinSp (ops.foldl stepLocked (l0, [])).2
    | none => "bad-op"
  | _ => "bad-op"

end Mitum.Driver
