package main

import (
	"bytes"
	"context"
	"fmt"
	"sort"
	"strings"

	leveldbstorage "github.com/spikeekips/mitum/storage/leveldb"
	leveldbutil "github.com/syndtr/goleveldb/leveldb/util"
)

func init() { register("C25", runC25) }

func c25raw(st *leveldbstorage.Storage) map[string]string {
	m := map[string]string{}
	_ = st.Iter(nil, func(k, v []byte) (bool, error) {
		m[string(k)] = string(v)
		return true, nil
	}, true)
	return m
}

func c25hexkv(k, v []byte) string { return hx(k) + "=" + hx(v) }

// C25: histories over one raw storage with several prefix storages whose prefixes look alike.
func runC25(c *Ctx) error {
	prefixes := [][]byte{[]byte("ab"), {'a', 'b', 0}, {'a', 'b', 0xff}, []byte("b"), {0xff, 0xff}, {'a'}, []byte("ac"), {'a', 0xff}}
	nhist := 300
	if c.Thorough() {
		nhist = 12000
	}
	randKey := func() []byte {
		alpha := []byte{0, 1, 'a', 'b', 0xfe, 0xff}
		n := 1 + c.Intn(3)
		k := make([]byte, n)
		for i := range k {
			k[i] = alpha[c.Intn(len(alpha))]
		}
		return k
	}
	for hi := 0; hi < nhist; hi++ {
		raw := leveldbstorage.NewMemStorage()
		psts := make([]*leveldbstorage.PrefixStorage, len(prefixes))
		closed := make([]bool, len(prefixes))
		for i, p := range prefixes {
			psts[i] = leveldbstorage.NewPrefixStorage(raw, append([]byte{}, p...))
		}
		var toks, outs []string
		nsteps := 5 + c.Intn(25)
		for st := 0; st < nsteps; st++ {
			pi := c.Intn(len(prefixes))
			before := c25raw(raw)
			key := randKey()
			tok, out := "", ""
			touched := true // whether the op may legitimately change keys under prefix pi
			switch k := c.Intn(20); {
			case k < 7:
				v := c.Bytes(1 + c.Intn(2))
				err := psts[pi].Put(key, v, nil)
				tok, out = fmt.Sprintf("put:%d:%s:%s", pi, hx(key), hx(v)), errTok(err)
			case k < 9:
				err := psts[pi].Delete(key, nil)
				tok, out = fmt.Sprintf("del:%d:%s", pi, hx(key)), errTok(err)
			case k < 12:
				v, found, err := psts[pi].Get(key)
				tok = fmt.Sprintf("get:%d:%s", pi, hx(key))
				switch {
				case err != nil:
					out = errTok(err)
				case !found:
					out = "none"
				default:
					out = hx(v)
				}
			case k < 15: // iteration, optionally over a sub-range
				var r *leveldbutil.Range
				rt := "-"
				switch c.Intn(4) {
				case 0:
				case 1:
					sub := randKey()
					r = leveldbutil.BytesPrefix(sub)
					rt = "p" + hx(sub)
				case 2:
					a, b := randKey(), randKey()
					if bytes.Compare(a, b) > 0 {
						a, b = b, a
					}
					r = &leveldbutil.Range{Start: a, Limit: b}
					rt = "r" + hx(a) + "." + hx(b)
				case 3:
					a := randKey()
					r = &leveldbutil.Range{Start: a}
					rt = "s" + hx(a)
				}
				var got []string
				err := psts[pi].Iter(r, func(k, v []byte) (bool, error) {
					got = append(got, c25hexkv(k, v))
					return true, nil
				}, true)
				tok = fmt.Sprintf("iter:%d:%s", pi, rt)
				if err != nil {
					out = errTok(err)
				} else {
					out = "[" + strings.Join(got, ",") + "]"
					// oracle: every visited key, re-prefixed, exists in the raw store under this prefix
					if !closed[pi] {
						for _, g := range got {
							kv := strings.SplitN(g, "=", 2)
							kb := unhx(kv[0])
							if _, ok := before[string(prefixes[pi])+string(kb)]; !ok {
								c.Violation("C25:iter-outside-prefix", fmt.Sprintf("history %s %s visits %s which is not a key under the prefix", strings.Join(toks, " "), tok, kv[0]), map[string]interface{}{"history": append(toks, tok)})
							}
						}
					} else if len(got) > 0 {
						c.Violation("C25:iter-after-close-leaks", fmt.Sprintf("history %s %s: iteration through a closed prefix storage visits %d keys of other prefixes", strings.Join(toks, " "), tok, len(got)), map[string]interface{}{"history": append(toks, tok)})
					}
				}
				touched = false
			case k < 16:
				err := psts[pi].Remove()
				tok, out = fmt.Sprintf("remove:%d", pi), errTok(err)
			case k < 17:
				_ = psts[pi].Close()
				closed[pi] = true
				tok, out = fmt.Sprintf("close:%d", pi), "ok"
			case k < 18 && !closed[pi] && c.Chance(1, 3): // BatchFunc: more puts than the batch size, so the batch rolls over
				bs := 2 + c.Intn(2)
				add, done, _ := psts[pi].BatchFunc(context.Background(), uint64(bs), nil)
				run := func(f func() error) error { return f() }
				var kvs []string
				var berr error
				seenK := map[string]bool{}
				for j := 0; j < 4+c.Intn(4); j++ {
					bk := randKey()
					if seenK[string(bk)] {
						continue
					}
					seenK[string(bk)] = true
					bv := c.Bytes(1)
					kvs = append(kvs, hx(bk)+"."+hx(bv))
					if err := add(func(b leveldbstorage.LeveldbBatch) { b.Put(bk, bv) }, run); err != nil && berr == nil {
						berr = err
					}
				}
				if err := done(run); err != nil && berr == nil {
					berr = err
				}
				tok, out = fmt.Sprintf("bfunc:%d:%d:%s", pi, bs, strings.Join(kvs, ",")), errTok(berr)
			case k < 18: // batch put/delete
				b := psts[pi].NewBatch()
				k2 := randKey()
				v := c.Bytes(1)
				b.Put(key, v)
				b.Delete(k2)
				err := psts[pi].Batch(b, nil)
				tok, out = fmt.Sprintf("batch:%d:%s:%s:%s", pi, hx(key), hx(v), hx(k2)), errTok(err)
			default: // BatchRemove over a raw range
				a, b := randKey(), randKey()
				if bytes.Compare(a, b) > 0 {
					a, b = b, a
				}
				limit := 1 + c.Intn(4)
				n, err := leveldbstorage.BatchRemove(raw, &leveldbutil.Range{Start: a, Limit: b}, limit)
				tok = fmt.Sprintf("bremove:%s:%s:%d", hx(a), hx(b), limit)
				out = fmt.Sprintf("%d%s", n, map[bool]string{true: "", false: " " + errTok(err)}[err == nil])
				// oracle: exactly the keys in [a,b) are gone
				after := c25raw(raw)
				for k, v := range before {
					in := bytes.Compare([]byte(k), a) >= 0 && bytes.Compare([]byte(k), b) < 0
					av, ok := after[k]
					if in && ok || !in && (!ok || av != v) {
						c.Violation("C25:batch-remove-wrong-set", fmt.Sprintf("history %s %s: key %s in-range=%v present-after=%v", strings.Join(toks, " "), tok, hx([]byte(k)), in, ok), map[string]interface{}{"history": append(toks, tok)})
					}
				}
				pi = -1
			}
			// isolation oracle on the raw store: keys not under prefix pi are untouched
			after := c25raw(raw)
			if pi >= 0 {
				p := string(prefixes[pi])
				for k, v := range before {
					if strings.HasPrefix(k, p) && touched && !closed[pi] {
						continue
					}
					if av, ok := after[k]; !ok || av != v {
						cls := "C25:write-outside-prefix"
						if closed[pi] {
							cls = "C25:closed-storage-changed-keys"
						}
						c.Violation(cls, fmt.Sprintf("history %s %s: key %s outside prefix %s changed", strings.Join(toks, " "), tok, hx([]byte(k)), hx(prefixes[pi])), map[string]interface{}{"history": append(toks, tok)})
					}
				}
				for k := range after {
					if _, ok := before[k]; !ok && !strings.HasPrefix(k, p) {
						c.Violation("C25:write-outside-prefix", fmt.Sprintf("history %s %s: new key %s outside prefix", strings.Join(toks, " "), tok, hx([]byte(k))), map[string]interface{}{"history": append(toks, tok)})
					}
				}
			}
			toks = append(toks, tok)
			outs = append(outs, out)
		}
		// final raw content
		fin := c25raw(raw)
		var ks []string
		for k := range fin {
			ks = append(ks, k)
		}
		sort.Strings(ks)
		var dump []string
		for _, k := range ks {
			dump = append(dump, c25hexkv([]byte(k), []byte(fin[k])))
		}
		toks = append(toks, "dump")
		outs = append(outs, "["+strings.Join(dump, ",")+"]")
		c.Case("seq "+strings.Join(toks, " "), strings.Join(outs, " "))
		if len(fin) >= 2 {
			c.Nontrivial(strings.Join(toks, " "))
		}
		if hi%100 == 0 {
			c.Sample(map[string]string{"history": strings.Join(toks, " "), "results": strings.Join(outs, " ")})
		}
		_ = raw.Close()
	}
	return nil
}

func errTok(err error) string {
	if err == nil {
		return "ok"
	}
	if strings.Contains(err.Error(), "closed") {
		return "closed"
	}
	return "err"
}

func unhx(s string) []byte {
	if s == "-" {
		return nil
	}
	b := make([]byte, len(s)/2)
	for i := range b {
		fmt.Sscanf(s[2*i:2*i+2], "%02x", &b[i])
	}
	return b
}
