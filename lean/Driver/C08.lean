import MitumModel.Common
import MitumModel.Model.Mimic
import MitumModel.Gen.C08
namespace Mitum.Driver.MimicDrv
open Mitum Mitum.Mimic

/-- `c<j>` = delivery j checks the pool; `b<j>` = its broadcast (set, then send) -/
def steps (t : String) : Option (List Nat) :=
  match (t.drop 1).toString.toNat? with
  | none => none
  | some j => if t.startsWith "c" then some [j] else if t.startsWith "b" then some [j, j] else none

end Mitum.Driver.MimicDrv

namespace Mitum.Driver
open Mitum Mitum.Mimic

/-- `sched <f1,f2,…> ; <c0 c1 b0 …>` → the facts the local node hands to the network, in order -/
def stepC08 (ts : List String) : String :=
  match ts with
  | "sched" :: fs :: ";" :: sched =>
    match (fs.splitOn ",").mapM (·.toNat?), sched.mapM MimicDrv.steps with
    | some facts, some ss =>
      let s := run Gen.C08.broadcastSendsStored (start facts) ss.flatten
      if s.sent.isEmpty then "-" else ",".intercalate (s.sent.map toString)
    | _, _ => "bad-op"
  | _ => "bad-op"
end Mitum.Driver
