import MitumModel.Common
import MitumModel.Model.Selector
namespace Mitum.Driver
open Mitum Mitum.Selector

/-- `select h r b1,b2,… ; addr1 addr2 …` -/
def stepC07 (ts : List String) : String :=
  match ts with
  | "select" :: h :: r :: bs :: ";" :: addrs =>
    match h.toNat?, r.toNat?, (bs.splitOn ",").mapM String.toNat? with
    | some h, some r, some prev =>
      match select prev h r addrs with
      | some p => p
      | none => "none"
    | _, _, _ => "bad-op"
  | _ => "bad-op"

end Mitum.Driver
