package main

import (
	"fmt"
	"strings"
	"sync"
	"time"

	"github.com/spikeekips/mitum/base"
	"github.com/spikeekips/mitum/isaac"
	isaacstates "github.com/spikeekips/mitum/isaac/states"
	"github.com/spikeekips/mitum/util"
	"github.com/spikeekips/mitum/util/valuehash"
)

func init() { register("C06", runC06) }

type c06lp struct {
	h, r   int
	acc    bool
	maj    bool
	sc     bool
	isZero bool
}

func b01(b bool) string {
	if b {
		return "1"
	}
	return "0"
}

func (l c06lp) tok() string {
	if l.isZero {
		return "z"
	}
	return fmt.Sprintf("%d,%d,%s,%s,%s", l.h, l.r, b01(l.acc), b01(l.maj), b01(l.sc))
}

func (l c06lp) stagePoint() base.StagePoint {
	st := base.StageINIT
	if l.acc {
		st = base.StageACCEPT
	}
	return base.NewStagePoint(base.NewPoint(base.Height(l.h), base.Round(uint64(l.r))), st)
}

func (l c06lp) real() isaac.LastPoint {
	if l.isZero {
		return isaac.LastPoint{}
	}
	lp, err := isaac.NewLastPoint(l.stagePoint(), l.maj, l.sc)
	if err != nil {
		panic(err)
	}
	return lp
}

// a real voteproof object with the given point / result / suffrage-confirm majority
func (l c06lp) voteproof() base.Voteproof {
	pt := base.NewPoint(base.Height(l.h), base.Round(uint64(l.r)))
	if l.acc {
		vp := isaac.NewACCEPTVoteproof(pt)
		if l.maj {
			vp.SetMajority(isaac.NewACCEPTBallotFact(pt, valuehash.RandomSHA256(), valuehash.RandomSHA256(), nil))
		}
		vp.Finish()
		return vp
	}
	vp := isaac.NewINITVoteproof(pt)
	switch {
	case l.sc:
		vp.SetMajority(isaac.NewSuffrageConfirmBallotFact(pt, valuehash.RandomSHA256(), valuehash.RandomSHA256(), []util.Hash{valuehash.RandomSHA256()}))
	case l.maj:
		vp.SetMajority(isaac.NewINITBallotFact(pt, valuehash.RandomSHA256(), valuehash.RandomSHA256(), nil))
	}
	vp.Finish()
	return vp
}

func c06domain(maxh, maxr int) []c06lp {
	var d []c06lp
	for h := 0; h <= maxh; h++ {
		for r := 0; r <= maxr; r++ {
			for _, acc := range []bool{false, true} {
				for _, maj := range []bool{false, true} {
					for _, sc := range []bool{false, true} {
						if sc && acc {
							continue // NewLastPoint rejects it
						}
						d = append(d, c06lp{h: h, r: r, acc: acc, maj: maj, sc: sc})
					}
				}
			}
		}
	}
	return d
}

func c06less(a, b c06lp) bool { // (round, stage) strictly earlier at the same height
	if a.r != b.r {
		return a.r < b.r
	}
	return !a.acc && b.acc
}

func runC06(c *Ctx) error {
	dom := c06domain(2, 2)
	lasts := append([]c06lp{{isZero: true}}, dom...)
	// 1. all pairs: Before / IsNewBallot / IsNewVoteproof
	for _, l := range lasts {
		rl := l.real()
		for _, p := range dom {
			got := rl.Before(p.stagePoint(), p.sc)
			if got != isaac.IsNewBallot(rl, p.stagePoint(), p.sc) {
				c.Violation("C06:isnewballot-differs", l.tok()+" "+p.tok(), nil)
			}
			c.Case(fmt.Sprintf("before %s %s", l.tok(), p.tok()), b01(got))
			if !l.isZero && got && p.h < l.h {
				c.Violation("C06:height-regressed", fmt.Sprintf("last %s accepts %s", l.tok(), p.tok()), map[string]string{"last": l.tok(), "point": p.tok()})
			}
			if !l.isZero && got && p.h == l.h && c06less(p, l) && !(p.sc && !l.maj) {
				c.Violation("C06:backward-without-sc", fmt.Sprintf("last %s accepts %s", l.tok(), p.tok()), map[string]string{"last": l.tok(), "point": p.tok()})
			}
			// voteproof form: sc implies a majority result
			if p.sc && !p.maj {
				continue
			}
			vp := p.voteproof()
			isnew := isaac.IsNewVoteproof(rl, vp)
			c.Case(fmt.Sprintf("isnew %s %s", l.tok(), p.tok()), b01(isnew))
			if !l.isZero && isnew && p.h < l.h {
				c.Violation("C06:height-regressed", fmt.Sprintf("last %s voteproof %s is new", l.tok(), p.tok()), map[string]string{"last": l.tok(), "point": p.tok()})
			}
			c.Nontrivial(l.tok() + ">" + p.tok())
		}
	}
	// 2. update sequences through the real Ballotbox.SetLastPoint
	runSeq := func(seq []c06lp) {
		box := isaacstates.NewBallotbox(base.RandomAddress(""), func() base.Threshold { return base.Threshold(100) },
			func(base.Height) (base.Suffrage, bool, error) { return nil, false, nil })
		var toks []string
		var flags strings.Builder
		var accepted []c06lp
		backwardAt := []int{}
		for _, n := range seq {
			toks = append(toks, n.tok())
			ok := box.SetLastPoint(n.real())
			flags.WriteString(b01(ok))
			if ok {
				if k := len(accepted); k > 0 {
					l := accepted[k-1]
					if n.h < l.h {
						c.Violation("C06:height-regressed", strings.Join(toks, " "), map[string]interface{}{"seq": toks})
					}
					if n.h == l.h && c06less(n, l) {
						backwardAt = append(backwardAt, k)
						if !(n.sc && !l.maj) {
							c.Violation("C06:backward-without-sc", strings.Join(toks, " "), map[string]interface{}{"seq": toks})
						}
					}
				}
				accepted = append(accepted, n)
			}
		}
		c.Case("seq "+strings.Join(toks, " "), flags.String())
		// revisit oracle
		for j := 1; j < len(accepted); j++ {
			for i := 0; i < j; i++ {
				a, b := accepted[i], accepted[j]
				if a.h == b.h && a.r == b.r && a.acc == b.acc && a.sc == b.sc {
					detour := false
					for _, k := range backwardAt {
						if k > i && k <= j {
							detour = true
						}
					}
					cls := "C06:position-revisited"
					if detour {
						cls = "C06:sc-detour-revisits-position"
					}
					c.Count("revisit", cls)
					c.Violation(cls, "accepted updates "+strings.Join(toks, " ")+" take position "+a.tok()+" twice", map[string]interface{}{"seq": toks})
				}
			}
		}
		if len(accepted) >= 2 {
			c.Nontrivial(strings.Join(toks, " "))
		}
		c.Count("accepted-per-seq", fmt.Sprint(len(accepted)))
	}
	// update sequences are built from positions a voteproof can produce: a suffrage-confirm
	// position always carries a majority (IsSuffrageConfirmBallotFact(vp.Majority()))
	realistic := func(d []c06lp) []c06lp {
		var o []c06lp
		for _, x := range d {
			if x.sc && !x.maj {
				continue
			}
			o = append(o, x)
		}
		return o
	}
	small := realistic(c06domain(1, 1))
	dom = realistic(dom)
	depth := 3
	if c.Thorough() {
		depth = 4
	}
	var rec func(prefix []c06lp)
	rec = func(prefix []c06lp) {
		if len(prefix) == depth {
			runSeq(prefix)
			return
		}
		for _, n := range small {
			rec(append(prefix, n))
		}
	}
	rec(nil)
	n := 20000
	if c.Thorough() {
		n = 300000
	}
	for i := 0; i < n; i++ {
		k := 3 + c.Intn(5)
		seq := make([]c06lp, k)
		for j := range seq {
			seq[j] = dom[c.Intn(len(dom))]
		}
		runSeq(seq)
		if i%5000 == 0 {
			var t []string
			for _, s := range seq {
				t = append(t, s.tok())
			}
			c.Sample(map[string]interface{}{"updates(h,r,accept,majority,sc)": t})
		}
	}
	// 3. LastVoteproofsHandler under random voteproof sequences: Cap never regresses in height
	m := 3000
	if c.Thorough() {
		m = 60000
	}
	for i := 0; i < m; i++ {
		h := isaac.NewLastVoteproofsHandler()
		k := 2 + c.Intn(7)
		lastH := -1
		var toks []string
		var flags string // what IsNew said before each Set (compared with the Lean model of the handler)
		// the handler's reference position must be the last accepted voteproof's position, as LastPoint has it
		var ref isaac.LastPoint
		refSet, detour := false, false
		var refp c06lp
		for j := 0; j < k; j++ {
			p := dom[c.Intn(len(dom))]
			if j > 0 && c.Chance(1, 3) { // stay at the height, move the round or the stage: round changes inside one height
				p = refp
				switch c.Intn(3) {
				case 0:
					p.r++
					p.acc = false
				case 1:
					p.acc = !p.acc
				default:
					p.maj = !p.maj
				}
				p.sc = false
			}
			if p.sc && !p.maj {
				p.maj = true
			}
			toks = append(toks, p.tok())
			vp := p.voteproof()
			wasNew := h.IsNew(vp)
			flags += b01(wasNew)
			expectNew := !refSet || isaac.IsNewVoteproof(ref, vp)
			if wasNew != expectNew {
				cls := "C06:handler-reference-is-not-the-last-accepted"
				if detour { // after a suffrage-confirm detour the INIT and ACCEPT slots disagree about the round (known finding)
					cls = "C06:sc-detour-revisits-position"
				}
				c.Violation(cls, fmt.Sprintf("voteproofs %s: LastVoteproofsHandler.IsNew says %v, the position of the last accepted voteproof (%s) says %v", strings.Join(toks, " "), wasNew, refp.tok(), expectNew),
					map[string]interface{}{"seq": append([]string{}, toks...)})
			}
			if expectNew {
				if refSet && p.h == refp.h && c06less(p, refp) {
					detour = true
				}
				if lp, err := isaac.NewLastPointFromVoteproof(vp); err == nil {
					ref, refSet, refp = lp, true, p
				}
			}
			set := h.Set(vp)
			c.Eval(1)
			if cap := h.Last().Cap(); cap != nil {
				ch := int(cap.Point().Height())
				if ch < lastH {
					c.Violation("C06:lastvoteproofs-height-regressed", strings.Join(toks, " "), map[string]interface{}{"seq": toks})
				}
				lastH = ch
			}
			if wasNew && !set {
				c.Violation("C06:lastvoteproofs-new-not-set", strings.Join(toks, " "), map[string]interface{}{"seq": toks})
			}
		}
		if i%10 == 0 { // every tenth sequence also goes to the Lean model of the handler (Model/LastVoteproofs.lean)
			capTok := "z"
			if cap := h.Last().Cap(); cap != nil {
				capTok = fmt.Sprintf("%d,%d,%s,%s,%s", cap.Point().Height(), cap.Point().Round(), b01(cap.Point().Stage() == base.StageACCEPT),
					b01(cap.Result() == base.VoteResultMajority), b01(isaac.IsSuffrageConfirmBallotFact(cap.Majority())))
			}
			c.Case("lvh "+strings.Join(toks, " "), flags+" cap="+capTok)
		}
	}
	return c06ballotbox(c)
}

// 4. the ballotbox's own position while it counts: the last point is a draw, and one suffrage-confirm ballot of an
// earlier round or stage of the height arrives carrying the old INIT majority voteproof (with expels).  The box hands
// that voteproof out; its position must not go back to that old, not suffrage-confirm, INIT position.
// several callers set the last point of one ballotbox at the same time (the counting goroutine, the states seeding the
// box from a voteproof they received): whatever the interleaving, the box ends at the highest point
func c06concurrentLastPoint(c *Ctx) error {
	iterations := 2500
	if c.Thorough() {
		iterations = 30000
	}
	mk := func(h int64, r uint64, stage base.Stage) isaac.LastPoint {
		p, _ := isaac.NewLastPoint(base.NewStagePoint(base.RawPoint(h, r), stage), true, false)
		return p
	}
	for n := 0; n < iterations; n++ {
		box := isaacstates.NewBallotbox(base.RandomAddress(""), func() base.Threshold { return base.Threshold(100) },
			func(base.Height) (base.Suffrage, bool, error) { return nil, false, nil })
		h0 := int64(33 + c.Intn(5))
		_ = box.SetLastPoint(mk(h0, 0, base.StageINIT))
		var points []isaac.LastPoint
		for j := 0; j < 3+c.Intn(5); j++ {
			points = append(points, mk(h0+int64(c.Intn(4)), uint64(c.Intn(3)), []base.Stage{base.StageINIT, base.StageACCEPT}[c.Intn(2)]))
		}
		highest := mk(h0+4, 0, base.StageINIT)
		points = append(points, highest)
		begin := make(chan struct{})
		var wg sync.WaitGroup
		for _, j := range c.Perm(len(points)) {
			wg.Add(1)
			go func(p isaac.LastPoint) {
				defer wg.Done()
				<-begin
				_ = box.SetLastPoint(p)
			}(points[j])
		}
		close(begin)
		wg.Wait()
		c.Eval(1)
		if last := box.LastPoint(); !last.StagePoint.Equal(highest.StagePoint) {
			var ps []string
			for _, p := range points {
				ps = append(ps, p.StagePoint.String())
			}
			c.Violation("C06:ballotbox-position-went-back", fmt.Sprintf("%d concurrent SetLastPoint calls %v: the box ends at %v, the highest point given is %v", len(points), ps, last.StagePoint, highest.StagePoint),
				map[string]interface{}{"points": ps, "iteration": n})
			break
		}
	}
	c.Count("directed", "concurrent-set-last-point")
	return nil
}

func c06ballotbox(c *Ctx) error {
	if err := c06concurrentLastPoint(c); err != nil {
		return err
	}
	n := 30
	if c.Thorough() {
		n = 600
	}
	for i := 0; i < n; i++ {
		size := 3 + c.Intn(2)
		nodes := make([]base.LocalNode, size)
		bn := make([]base.Node, size)
		for j := range nodes {
			nodes[j] = base.RandomLocalNode()
			bn[j] = nodes[j]
		}
		suf, err := isaac.NewSuffrage(bn)
		if err != nil {
			return err
		}
		th := base.Threshold(67)
		box := isaacstates.NewBallotbox(nodes[0].Address(), func() base.Threshold { return th },
			func(base.Height) (base.Suffrage, bool, error) { return suf, true, nil })
		point := base.NewPoint(base.Height(int64(33+c.Intn(5))), base.Round(uint64(c.Intn(2))))
		expelnode := nodes[size-1]
		ef := isaac.NewSuffrageExpelFact(expelnode.Address(), point.Height()-1, point.Height()+1, "no response")
		eop := isaac.NewSuffrageExpelOperation(ef)
		for _, nd := range nodes[:size-1] {
			_ = eop.NodeSign(nd.Privatekey(), hNetworkID, nd.Address())
		}
		expels := []base.SuffrageExpelOperation{eop}
		efacts := []util.Hash{ef.Hash()}
		prev, pr := valuehash.RandomSHA256(), valuehash.RandomSHA256()
		ifact := isaac.NewINITBallotFact(point, prev, pr, efacts)
		var isfs []base.BallotSignFact
		for _, nd := range nodes[:size-1] {
			sf := isaac.NewINITBallotSignFact(ifact)
			_ = sf.NodeSign(nd.Privatekey(), hNetworkID, nd.Address())
			isfs = append(isfs, sf)
		}
		ivp := isaac.NewINITExpelVoteproof(point)
		_ = ivp.SetSignFacts(isfs).SetMajority(ifact).SetThreshold(th)
		ivp.SetExpels(expels)
		ivp.Finish()
		// the position the box has reached: a draw later in the height
		var lastSP base.StagePoint
		kind := c.Intn(3)
		switch kind {
		case 0:
			lastSP = base.NewStagePoint(point.NextRound(), base.StageINIT)
		case 1:
			lastSP = base.NewStagePoint(point, base.StageACCEPT)
		default:
			lastSP = base.NewStagePoint(point.NextRound().NextRound(), base.StageINIT)
		}
		last, err := isaac.NewLastPoint(lastSP, false, false)
		if err != nil {
			return err
		}
		if !box.SetLastPoint(last) {
			continue
		}
		voters := 1
		if c.Chance(1, 4) {
			voters = 2
		}
		for j := 1; j <= voters && j < size-1; j++ {
			sfact := isaac.NewSuffrageConfirmBallotFact(point, prev, pr, efacts)
			sf := isaac.NewINITBallotSignFact(sfact)
			_ = sf.NodeSign(nodes[j].Privatekey(), hNetworkID, nodes[j].Address())
			_, _ = box.Vote(isaac.NewINITBallot(ivp, sf, nil))
		}
		time.Sleep(500 * time.Microsecond)
		box.Count()
		var got []string
	drain:
		for {
			select {
			case vp := <-box.Voteproof():
				got = append(got, fmt.Sprintf("%v/%v", vp.Point(), vp.Result()))
			case <-time.After(time.Millisecond):
				break drain
			}
		}
		after := box.LastPoint()
		c.Eval(1)
		c.Count("ballotbox-draw-then-confirm-ballot", fmt.Sprintf("last-kind-%d/handed-out-%d", kind, len(got)))
		if after.StagePoint.Compare(last.StagePoint) < 0 && !after.IsSuffrageConfirm() {
			c.Violation("C06:ballotbox-position-went-back", fmt.Sprintf("suffrage of %d, last point %v (draw); %d suffrage-confirm ballot(s) of %v carrying the old INIT majority voteproof: handed out %v, the last point is now %v (majority %v, not suffrage confirm)",
				size, last.StagePoint, voters, point, got, after.StagePoint, after.IsMajority()), map[string]interface{}{"suffrage": size, "last": last.StagePoint.String(), "point": point.String(), "voters": voters})
		}
	}
	return nil
}
