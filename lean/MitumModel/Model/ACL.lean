import MitumModel.Common
/-
Model of `launch.ACL.Allow`, `allow`, `fromDefault`, `ACLPerm.String`,
`ACLPerm.UnmarshalText` (launch/acl.go).  Permissions are `Nat` (uint8 in Go:
all values < 256); the table is an association list user ↦ (scope ↦ perm).
The numeric constants and the two reserved names are parameters (`Cfg`) that
are instantiated from the regenerated facts.
-/
namespace Mitum.ACL

structure Cfg where
  prohibit : Nat
  super : Nat
  defaultScope : String
  defaultUser : String
deriving Repr, DecidableEq

abbrev Perms := List (String × Nat)
abbrev Table := List (String × Perms)

def lookup {α : Type} (k : String) : List (String × α) → Option α
  | [] => none
  | (k', v) :: rest => if k' = k then some v else lookup k rest

/-- `fromDefault` -/
def fromDefault (c : Cfg) (perms : Perms) (required : Nat) : Nat × Bool :=
  match lookup c.defaultScope perms with
  | some p => (p, decide (required ≤ p))
  | none => (0, false)

/-- `ACL.allow` (unexported): the user's scope perm, else the user's `_default`. -/
def allowUser (c : Cfg) (tbl : Table) (user scope : String) (required : Nat) : Nat × Bool :=
  match lookup user tbl with
  | none => (0, false)
  | some perms =>
    match lookup scope perms with
    | none => fromDefault c perms required
    | some p => (p, decide (required ≤ p))

/-- `ACL.Allow` -/
def allow (c : Cfg) (superuser : String) (tbl : Table) (user scope : String) (required : Nat) : Nat × Bool :=
  if required = c.prohibit then (c.prohibit, false)
  else if user = superuser then (c.super, true)
  else
    let r := allowUser c tbl user scope required
    if c.prohibit ≤ r.1 then r
    else allowUser c tbl c.defaultUser scope required

/-- the documented four-level chain, stated outright: the permission that decides -/
def effective (c : Cfg) (tbl : Table) (user scope : String) : Option Nat :=
  let own := fun (u : String) =>
    match lookup u tbl with
    | none => none
    | some perms =>
      match lookup scope perms with
      | some p => some p
      | none => lookup c.defaultScope perms
  match own user with
  | some p => some p
  | none => own c.defaultUser

/-- `ACLPerm.String` -/
def permString (c : Cfg) (p : Nat) : List Char :=
  if p = 0 then "<empty perm>".toList
  else if p = c.prohibit then ['x']
  else if p = c.super then ['s']
  else List.replicate (p - 1) 'o'

/-- `ACLPerm.UnmarshalText` (uint8 arithmetic: `ACLPerm(count)` truncates mod 256) -/
def permParse (c : Cfg) (t : List Char) : Option Nat :=
  if t = ['x'] then some c.prohibit
  else if t = ['s'] then some c.super
  else if t.length < 1 then none
  else if !(t.all (· = 'o')) then none
  else
    let cnt := (t.count 'o') % 256
    let cnt := if c.super < cnt then c.super else cnt
    some ((cnt + 1) % 256)

/-- `ACLPerm.IsValid` -/
def permValid (c : Cfg) (p : Nat) : Bool := !(p = 0) && !(c.super < p)

end Mitum.ACL
