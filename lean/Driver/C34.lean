import MitumModel.Common
import MitumModel.Model.Timers
import MitumModel.Gen.C34
namespace Mitum.Driver.TimersDrv
open Mitum Mitum.Timers

def same : Bool := Gen.C34.finishRemovesSameOnly

/-- which instance lost its table entry between two states (the `whenRemoved` the harness observes) -/
def removedBetween (a b : St) : String :=
  let ids := (a.insts.map (·.id)).eraseDups
  let rs := ids.filterMap (fun id => match a.table id, b.table id with
    | some k, none => some s!"R{k}"
    | _, _ => none)
  if rs.isEmpty then "-" else ",".intercalate rs

def phaseOf (s : St) (k : Nat) : Option Phase := s.insts[k]?.map (·.phase)

def tryStart (s : St) (k : Nat) : St × Bool :=
  let s' := run same s [.tick 10, .collect k, .check k, .cbStart k]
  (s', phaseOf s k != some .running && phaseOf s' k == some .running)

structure D where
  s : St := {}
  held : List Nat := []
  out : List String := []

def stepTok (d : D) (t : String) : D :=
  match t.splitOn ":" with
  | ["new", id, next] =>
    match id.toNat?, next.toNat? with
    | some id, some next =>
      let s' := step same d.s (.new id 4 (if next = 0 then 0 else 4))
      { d with s := s', out := d.out ++ [toString d.s.insts.length] }
    | _, _ => { d with out := d.out ++ ["bad-op"] }
  | ["waitK", k] =>
    match k.toNat? with
    | some k =>
      let s' := run same d.s [.tick 10, .collect k, .check k]
      let ok := phaseOf d.s k != some .checked && phaseOf s' k == some .checked
      { d with s := s', held := if ok then k :: d.held else d.held, out := d.out ++ [if ok then "K" else "no"] }
    | none => { d with out := d.out ++ ["bad-op"] }
  | ["waitC", k] =>
    match k.toNat? with
    | some k =>
      let r := tryStart d.s k
      let n := (r.1.insts[k]?.map (·.called)).getD 0
      { d with s := r.1, held := d.held.filter (· != k), out := d.out ++ [if r.2 then s!"C{n}" else "no"] }
    | none => { d with out := d.out ++ ["bad-op"] }
  | ["rel", k, o] =>
    match k.toNat? with
    | some k =>
      let s' := run same d.s [.cbEnd k (o == "keep"), .finish k]
      { d with s := s', out := d.out ++ [removedBetween d.s s'] }
    | none => { d with out := d.out ++ ["bad-op"] }
  | ["stop", id] =>
    match id.toNat? with
    | some id =>
      let s' := step same d.s (.stop id)
      { d with s := s', out := d.out ++ [removedBetween d.s s'] }
    | none => { d with out := d.out ++ ["bad-op"] }
  | ["idle"] =>
    let ks := (List.range d.s.insts.length).filter (fun k => !(d.held.contains k))
    let r := ks.foldl (fun (acc : St × List String) k =>
      let x := tryStart acc.1 k
      (x.1, if x.2 then acc.2 ++ [s!"C{k}"] else acc.2)) (d.s, [])
    { d with s := r.1, out := d.out ++ [if r.2.isEmpty then "-" else ",".intercalate r.2] }
  | _ => { d with out := d.out ++ ["bad-op"] }

end Mitum.Driver.TimersDrv
namespace Mitum.Driver
open Mitum Mitum.Driver.TimersDrv
/-- `seq new:<id>:<next> waitK:<k> waitC:<k> rel:<k>:<keep|drop|err> stop:<id> idle` -/
def stepC34 (ts : List String) : String :=
  match ts with
  | "seq" :: ops => joinSp (ops.foldl stepTok {}).out
  | _ => "bad-op"
end Mitum.Driver
