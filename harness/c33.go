package main

import (
	"context"
	"fmt"
	"strings"
	"sync"
	"sync/atomic"
	"time"

	"github.com/pkg/errors"
	"github.com/spikeekips/mitum/util"
)

func init() { register("C33", runC33) }

type c33err struct {
	id    int
	wraps error // some job errors wrap context.Canceled / DeadlineExceeded (a job that gave up on its own context)
}

func (e c33err) Error() string { return fmt.Sprintf("job error %d", e.id) }
func (e c33err) Unwrap() error { return e.wraps }

func (c *Ctx) c33jobErr(id int) c33err {
	switch c.Intn(4) {
	case 0:
		return c33err{id: id, wraps: context.Canceled}
	case 1:
		return c33err{id: id, wraps: context.DeadlineExceeded}
	}
	return c33err{id: id}
}

func c33rejected(err error) string {
	switch {
	case errors.Is(err, util.ErrJobWorkerDone):
		return "rejected:done"
	default:
		return "rejected:" + c33errID(err)
	}
}

func c33errID(err error) string {
	if err == nil {
		return "nil"
	}
	var je c33err
	if errors.As(err, &je) {
		return fmt.Sprintf("err%d", je.id)
	}
	return "ctxerr"
}

func runC33(c *Ctx) error {
	// 1. scripted histories, step by step against the model
	nscripts := 150
	if c.Thorough() {
		nscripts = 3000
	}
	for si := 0; si < nscripts; si++ {
		semSize := 1 + c.Intn(3)
		wk, err := util.NewBaseJobWorker(context.Background(), int64(semSize))
		if err != nil {
			return err
		}
		gates := map[int]chan error{}
		var ran sync.Map // job -> times started
		returned := map[int]chan struct{}{}
		var toks, outs []string
		running := []int{}
		nextJob := 1
		failed := false
		doneCalled := false
		nsteps := 2 + c.Intn(8)
		// a NewJob issued while the semaphore is full: it returns after a later event
		var blockedJob int
		var blockedRes chan error
		resolveBlocked := func() {
			if blockedRes == nil {
				return
			}
			select {
			case err := <-blockedRes:
				toks = append(toks, fmt.Sprintf("nj:%d", blockedJob))
				if err == nil {
					outs = append(outs, "accepted")
					running = append(running, blockedJob)
				} else {
					outs = append(outs, c33rejected(err))
				}
				blockedRes = nil
			case <-time.After(20 * time.Millisecond):
			}
		}
		for st := 0; st < nsteps; st++ {
			k := c.Intn(10)
			switch {
			case k < 5 && blockedRes == nil && len(running) >= semSize && !failed && !doneCalled && c.Chance(1, 2):
				j := nextJob
				nextJob++
				gate := make(chan error, 1)
				ret := make(chan struct{})
				gates[j], returned[j] = gate, ret
				blockedJob, blockedRes = j, make(chan error, 1)
				go func(res chan error) {
					res <- wk.NewJob(func(context.Context, uint64) error {
						n, _ := ran.LoadOrStore(j, new(int32))
						atomic.AddInt32(n.(*int32), 1)
						e := <-gate
						close(ret)
						return e
					})
				}(blockedRes)
				time.Sleep(time.Millisecond)
				c.Count("scripted", "blocked-newjob")
			case k < 5 && blockedRes == nil && (len(running) < semSize || failed || doneCalled):
				j := nextJob
				nextJob++
				gate := make(chan error, 1)
				ret := make(chan struct{})
				gates[j], returned[j] = gate, ret
				// the script expects this call not to block; if it does (the real worker
				// disagrees with the model) it is recorded as "blocked" and left pending
				resc := make(chan error, 1)
				go func() {
					resc <- wk.NewJob(func(context.Context, uint64) error {
						n, _ := ran.LoadOrStore(j, new(int32))
						atomic.AddInt32(n.(*int32), 1)
						e := <-gate
						close(ret)
						return e
					})
				}()
				toks = append(toks, fmt.Sprintf("nj:%d", j))
				select {
				case err := <-resc:
					if err == nil {
						outs = append(outs, "accepted")
						running = append(running, j)
					} else {
						outs = append(outs, c33rejected(err))
					}
				case <-time.After(100 * time.Millisecond):
					outs = append(outs, "blocked")
					blockedJob, blockedRes = j, resc
					st = nsteps // stop the script here
				}
			case k < 8 && len(running) > 0:
				i := c.Intn(len(running))
				j := running[i]
				running = append(running[:i], running[i+1:]...)
				var e error
				et := "-"
				if c.Chance(1, 3) {
					e = c.c33jobErr(j)
					et = fmt.Sprint(j)
					failed = true
				}
				gates[j] <- e
				<-returned[j]
				time.Sleep(2 * time.Millisecond) // let the cancel/release after the callback's return happen
				toks = append(toks, fmt.Sprintf("fin:%d:%s", j, et))
				outs = append(outs, "ok")
				resolveBlocked()
			case k == 8:
				wk.Done()
				doneCalled = true
				toks = append(toks, "done")
				outs = append(outs, "ok")
				resolveBlocked()
			}
		}
		if blockedRes != nil { // still blocked: nothing released the semaphore or cancelled the worker
			toks = append(toks, fmt.Sprintf("nj:%d", blockedJob))
			outs = append(outs, "blocked")
		}
		// final Wait (it cancels the worker when it returns)
		wch := make(chan error, 1)
		go func() { wch <- wk.Wait() }()
		res := "blocked"
		select {
		case e := <-wch:
			res = c33errID(e)
		case <-time.After(40 * time.Millisecond):
		}
		toks = append(toks, "wait")
		outs = append(outs, res)
		// release everything still blocked
		for _, j := range running {
			gates[j] <- nil
		}
		wk.Close()
		if blockedRes != nil {
			if err := <-blockedRes; err == nil {
				gates[blockedJob] <- nil
			}
		}
		// oracle
		ran.Range(func(k, v interface{}) bool {
			if atomic.LoadInt32(v.(*int32)) != 1 {
				c.Violation("C33:job-ran-more-than-once", strings.Join(toks, " "), map[string]interface{}{"history": toks})
			}
			return true
		})
		if res == "nil" && (len(running) > 0 || failed) {
			c.Violation("C33:wait-nil-with-unfinished-or-failed-jobs", strings.Join(toks, " "), map[string]interface{}{"history": toks})
		}
		c.Case("seq "+fmt.Sprint(semSize)+" "+strings.Join(toks, " "), strings.Join(outs, " "))
		if nextJob > 2 {
			c.Nontrivial(strings.Join(toks, " "))
		}
		if si%40 == 0 {
			c.Sample(map[string]interface{}{"semSize": semSize, "history": toks, "results": outs})
		}
	}
	// 2. concurrent random runs, oracle only
	nruns := 150
	if c.Thorough() {
		nruns = 5000
	}
	for ri := 0; ri < nruns; ri++ {
		semSize := int64(1 + c.Intn(8))
		njobs := 1 + c.Intn(40)
		failAt := map[int]bool{}
		failErr := map[int]error{}
		if c.Chance(1, 2) {
			for k := 0; k < 1+c.Intn(3); k++ {
				j := c.Intn(njobs)
				failAt[j] = true
				failErr[j] = c.c33jobErr(j)
			}
		}
		wk, err := util.NewBaseJobWorker(context.Background(), semSize)
		if err != nil {
			return err
		}
		var cur, maxc int32
		starts := make([]int32, njobs)
		finishedOK := make([]int32, njobs)
		acceptedN := 0
		for j := 0; j < njobs; j++ {
			j := j
			if err := wk.NewJob(func(ctx context.Context, _ uint64) error {
				atomic.AddInt32(&starts[j], 1)
				n := atomic.AddInt32(&cur, 1)
				for {
					m := atomic.LoadInt32(&maxc)
					if n <= m || atomic.CompareAndSwapInt32(&maxc, m, n) {
						break
					}
				}
				time.Sleep(time.Duration(j%3) * 50 * time.Microsecond)
				atomic.AddInt32(&cur, -1)
				if failAt[j] {
					return failErr[j]
				}
				atomic.AddInt32(&finishedOK[j], 1)
				return nil
			}); err != nil {
				break
			}
			acceptedN++
		}
		wk.Done()
		werr := wk.Wait()
		c.Eval(1)
		in := map[string]interface{}{"semSize": semSize, "jobs": njobs, "failing": len(failAt)}
		if atomic.LoadInt32(&maxc) > int32(semSize) {
			c.Violation("C33:concurrency-over-semaphore", fmt.Sprintf("%d jobs ran at once with semaphore %d", maxc, semSize), in)
		}
		for j := 0; j < acceptedN; j++ {
			if s := atomic.LoadInt32(&starts[j]); s > 1 {
				c.Violation("C33:job-ran-more-than-once", fmt.Sprintf("job %d started %d times", j, s), in)
			}
		}
		if werr == nil {
			for j := 0; j < acceptedN; j++ {
				if atomic.LoadInt32(&finishedOK[j]) != 1 {
					c.Violation("C33:wait-nil-with-unfinished-or-failed-jobs", fmt.Sprintf("Wait returned nil but accepted job %d did not finish successfully", j), in)
					break
				}
			}
		} else {
			id := c33errID(werr)
			ok := false
			for j := range failAt {
				if id == fmt.Sprintf("err%d", j) {
					ok = true
				}
			}
			if !ok {
				c.Violation("C33:wait-error-not-a-job-error", fmt.Sprintf("Wait returned %v", werr), in)
			}
		}
	}
	// 3. RunJobWorker / BatchWork with more jobs than slots: the error returned is a job's error
	nrw := 200
	if c.Thorough() {
		nrw = 6000
	}
	for ri := 0; ri < nrw; ri++ {
		semSize := int64(1 + c.Intn(4))
		size := int64(2 + c.Intn(30))
		failAt := map[uint64]error{}
		for k := 0; k < 1+c.Intn(2); k++ {
			j := uint64(c.Intn(int(size)))
			failAt[j] = c.c33jobErr(int(j))
		}
		batch := c.Bool()
		var visits sync.Map
		job := func(_ context.Context, i, _ uint64) error {
			n, _ := visits.LoadOrStore(i, new(int32))
			atomic.AddInt32(n.(*int32), 1)
			time.Sleep(time.Duration(i%3) * 30 * time.Microsecond)
			if e, ok := failAt[i]; ok {
				return e
			}
			return nil
		}
		var err error
		what := "RunJobWorker"
		if batch {
			what = "BatchWork"
			err = util.BatchWork(context.Background(), size, semSize, func(context.Context, uint64) error { return nil }, job)
		} else {
			err = util.RunJobWorker(context.Background(), semSize, size, job)
		}
		c.Eval(1)
		c.Count("runworker", what)
		in := map[string]interface{}{"what": what, "semSize": semSize, "size": size, "failing": len(failAt)}
		if id := c33errID(err); !strings.HasPrefix(id, "err") {
			c.Violation("C33:returned-error-not-the-job-error", fmt.Sprintf("%s(size %d, %d slots) with failing jobs returned %q (%s), not a job's error", what, size, semSize, fmt.Sprint(err), id), in)
		}
		visits.Range(func(k, v interface{}) bool {
			if atomic.LoadInt32(v.(*int32)) != 1 {
				c.Violation("C33:job-ran-more-than-once", fmt.Sprintf("%s visited index %v %d times", what, k, *v.(*int32)), in)
			}
			return true
		})
	}
	// 4. the last running job fails while Wait is already waiting: Wait must not return nil
	nst := 40000
	if c.Thorough() {
		nst = 600000
	}
	var stop int32
	var wg sync.WaitGroup
	var iters int64
	for g := 0; g < 32; g++ {
		wg.Add(1)
		go func() {
			defer wg.Done()
			for atomic.LoadInt32(&stop) == 0 && atomic.AddInt64(&iters, 1) <= int64(nst) {
				wk, err := util.NewBaseJobWorker(context.Background(), 1)
				if err != nil {
					return
				}
				_ = wk.NewJob(func(context.Context, uint64) error { return c33err{id: 1} })
				wk.Done()
				if werr := wk.Wait(); werr == nil {
					if atomic.CompareAndSwapInt32(&stop, 0, 1) {
						c.Violation("C33:wait-nil-with-unfinished-or-failed-jobs", "one-slot worker, the only accepted job failed, Wait returned nil (the failure was recorded after the slot was released)",
							map[string]interface{}{"semSize": 1, "jobs": 1, "failing": 1, "stress": true})
					}
				}
				wk.Close()
			}
		}()
	}
	wg.Wait()
	c.Eval(int(atomic.LoadInt64(&iters)))
	return nil
}
