package main

import (
	"context"
	"fmt"
	"sort"
	"strings"
	"sync"

	"github.com/spikeekips/mitum/base"
	"github.com/spikeekips/mitum/isaac"
	isaacblock "github.com/spikeekips/mitum/isaac/block"
	"github.com/spikeekips/mitum/util/valuehash"
)

func init() { register("C15", runC15) }

// stub importer: records the height when its Save's deferred function runs ("stored")
type c15importer struct {
	height int
	log    *c15log
}

type c15log struct {
	sync.Mutex
	saved    []int
	merges   int
	canceled []int
}

func (im *c15importer) WriteMap(base.BlockMap) error                              { return nil }
func (im *c15importer) WriteItem(base.BlockItemType, isaac.BlockItemReader) error { return nil }
func (im *c15importer) Save(context.Context) (func(context.Context) error, error) {
	return func(context.Context) error {
		im.log.Lock()
		im.log.saved = append(im.log.saved, im.height)
		im.log.Unlock()
		return nil
	}, nil
}
func (im *c15importer) CancelImport(context.Context) error {
	im.log.Lock()
	im.log.canceled = append(im.log.canceled, im.height)
	im.log.Unlock()
	return nil
}

func runC15(c *Ctx) error {
	maxN := 12
	if c.Thorough() {
		maxN = 40
	}
	for n := 1; n <= maxN; n++ {
		for limit := 1; limit <= maxN; limit++ {
			from := c.Intn(5)
			to := from + n - 1
			lg := &c15log{}
			err := isaacblock.ImportBlocks(context.Background(), base.Height(from), base.Height(to), int64(limit), nil,
				func(_ context.Context, h base.Height) (base.BlockMap, bool, error) {
					return base.NewDummyBlockMap(base.NewDummyManifest(h, valuehash.RandomSHA256())), true, nil
				},
				nil,
				func(m base.BlockMap) (isaac.BlockImporter, error) {
					return &c15importer{height: int(m.Manifest().Height()), log: lg}, nil
				},
				nil,
				func(context.Context) error {
					lg.Lock()
					lg.merges++
					lg.Unlock()
					return nil
				},
			)
			saved := append([]int{}, lg.saved...)
			sort.Ints(saved)
			res := "err"
			if err == nil {
				res = strings.Trim(strings.ReplaceAll(fmt.Sprint(saved), " ", ","), "[]")
				if res == "" {
					res = "-"
				}
			}
			c.Case(fmt.Sprintf("imp %d %d %d", from, to, limit), res)
			in := map[string]interface{}{"from": from, "to": to, "limit": limit, "saved": saved}
			if err == nil {
				last := -1
				if len(saved) > 0 {
					last = saved[len(saved)-1]
				}
				full := len(saved) == n
				for i := range saved {
					if full && saved[i] != from+i {
						full = false
					}
				}
				if !full {
					cls := "C15:blocks-not-stored"
					if n%limit == 0 {
						cls = "C15:final-full-batch-not-saved"
					}
					c.Violation(cls, fmt.Sprintf("ImportBlocks(%d..%d, batch %d) returned success but stored %v (last stored height %d)", from, to, limit, saved, last), in)
				}
			} else {
				c.Violation("C15:import-failed", fmt.Sprintf("ImportBlocks(%d..%d, batch %d): %v", from, to, limit, err), in)
			}
			if n > limit {
				c.Nontrivial(fmt.Sprintf("%d/%d", n, limit))
			}
			c.Count("shape", map[bool]string{true: "count multiple of limit", false: "other"}[n%limit == 0])
			if n == limit || (n == 6 && limit == 3) {
				c.Sample(in)
			}
		}
	}
	c.Extra("exhaustive_grid", true)
	// faults: the merge of one block fails, or the context is cancelled while one block is merged; whatever happens,
	// a run that reports success has stored every block of the range
	maxF := 7
	if c.Thorough() {
		maxF = 14
	}
	for n := 1; n <= maxF; n++ {
		for limit := 1; limit <= 5; limit++ {
			for pos := 0; pos < n; pos++ {
				for _, mode := range []string{"merge-fails", "cancelled-during-merge"} {
					from := c.Intn(4)
					to := from + n - 1
					lg := &c15log{}
					ctx, cancel := context.WithCancel(context.Background())
					bad := from + pos
					err := isaacblock.ImportBlocks(ctx, base.Height(from), base.Height(to), int64(limit), nil,
						func(_ context.Context, h base.Height) (base.BlockMap, bool, error) {
							return base.NewDummyBlockMap(base.NewDummyManifest(h, valuehash.RandomSHA256())), true, nil
						},
						nil,
						func(m base.BlockMap) (isaac.BlockImporter, error) {
							return &c15faulty{c15importer: c15importer{height: int(m.Manifest().Height()), log: lg}, bad: bad, mode: mode, cancel: cancel}, nil
						},
						nil,
						func(context.Context) error { return nil },
					)
					cancel()
					saved := append([]int{}, lg.saved...)
					sort.Ints(saved)
					{
						res := "err"
						if err == nil {
							res = "ok " + strings.Trim(strings.ReplaceAll(fmt.Sprint(saved), " ", ","), "[]")
							if len(saved) == 0 {
								res = "ok -"
							}
						}
						c.Case(fmt.Sprintf("impf %s %d %d %d %d", mode[:1], bad, from, to, limit), res)
					}
					c.Count("faults", fmt.Sprintf("%s/%s", mode, map[bool]string{true: "success", false: "error"}[err == nil]))
					if err == nil {
						full := len(saved) == n
						for i := range saved {
							if full && saved[i] != from+i {
								full = false
							}
						}
						if !full {
							c.Violation("C15:success-with-blocks-missing", fmt.Sprintf("ImportBlocks(%d..%d, batch %d) with %s at block %d returned success but stored %v", from, to, limit, mode, bad, saved),
								map[string]interface{}{"from": from, "to": to, "limit": limit, "mode": mode, "block": bad, "saved": saved})
						}
					}
				}
			}
		}
	}
	return nil
}

// an importer whose merge step (the function Save returns) fails for one block, or cancels the run's context there
type c15faulty struct {
	c15importer
	bad    int
	mode   string
	cancel func()
}

func (im *c15faulty) Save(context.Context) (func(context.Context) error, error) {
	return func(context.Context) error {
		if im.height == im.bad {
			if im.mode == "merge-fails" {
				return fmt.Errorf("merge of block %d failed", im.height)
			}
			im.cancel()
		}
		im.log.Lock()
		im.log.saved = append(im.log.saved, im.height)
		im.log.Unlock()
		return nil
	}, nil
}
