import MitumModel.Model.Worker
import MitumModel.Props.C14
import MitumModel.Gen.C33
import MitumModel.Pins
/-!
C33  Job workers run every accepted job once and report the first error.
-/
namespace Mitum.C33
open Mitum.Worker

/-- invariant of every reachable worker state (job ids handed to `NewJob` are fresh) -/
structure Inv (w : W) : Prop where
  cause_first : w.cause = firstErr w.finished
  split : ∀ j, j ∈ w.accepted ↔ (j ∈ w.running ∨ j ∈ w.finished.map (·.1))
  disjoint : ∀ j, j ∈ w.running → j ∉ w.finished.map (·.1)
  run_nodup : w.running.Nodup
  fin_nodup : (w.finished.map (·.1)).Nodup
  bounded : w.running.length ≤ w.semSize

theorem inv_init (n : Nat) : Inv (init n) := by
  constructor <;> simp [init, firstErr]

theorem firstErr_append (l : List (Nat × Option Nat)) (j : Nat) (e : Option Nat) :
    firstErr (l ++ [(j, e)]) = match firstErr l with | some c => some c | none => e := by
  induction l with
  | nil => cases e <;> rfl
  | cons x xs ih =>
    obtain ⟨k, ek⟩ := x
    cases ek with
    | none => simpa [firstErr] using ih
    | some c => simp [firstErr]

/-- fresh job ids: a `NewJob j` event uses an id that was never accepted before -/
def Fresh (w : W) : Ev → Prop
  | .newJob j => j ∉ w.accepted
  | _ => True

theorem inv_step (w : W) (e : Ev) (h : Inv w) (hf : Fresh w e) : Inv (step w e).1 := by
  cases e with
  | newJob j =>
    by_cases h1 : (w.cause.isSome || w.done) = true
    · have : (step w (Ev.newJob j)).1 = w := by simp [step, h1]
      rw [this]; exact h
    · have hb : (w.cause.isSome || w.done) = false := by simpa using h1
      by_cases h2 : w.running.length < w.semSize
      · have hstate : (step w (Ev.newJob j)).1 =
            { w with running := w.running ++ [j], accepted := w.accepted ++ [j] } := by
          simp [step, hb, h2]
        rw [hstate]
        have hj : j ∉ w.accepted := hf
        have hjr : j ∉ w.running := fun hr => hj ((h.split j).mpr (Or.inl hr))
        have hjf : j ∉ w.finished.map (·.1) := fun hr => hj ((h.split j).mpr (Or.inr hr))
        constructor
        · exact h.cause_first
        · intro k
          simp only [List.mem_append, List.mem_singleton]
          have := h.split k
          constructor
          · rintro (hk | rfl)
            · rcases this.mp hk with h' | h'
              · exact Or.inl (Or.inl h')
              · exact Or.inr h'
            · exact Or.inl (Or.inr rfl)
          · rintro ((hk | rfl) | hk)
            · exact Or.inl (this.mpr (Or.inl hk))
            · exact Or.inr rfl
            · exact Or.inl (this.mpr (Or.inr hk))
        · intro k hk
          rcases List.mem_append.mp hk with hk | hk
          · exact h.disjoint k hk
          · simp at hk; subst hk; exact hjf
        · show (w.running ++ [j]).Nodup
          rw [List.nodup_append]
          exact ⟨h.run_nodup, by simp, by intro a ha b hb; simp at hb; subst hb; intro he; subst he; exact hjr ha⟩
        · exact h.fin_nodup
        · show (w.running ++ [j]).length ≤ w.semSize
          simp only [List.length_append, List.length_cons, List.length_nil]; omega
      · have : (step w (Ev.newJob j)).1 = w := by simp [step, hb, h2]
        rw [this]; exact h
  | finish j err =>
    unfold step
    by_cases hj : j ∈ w.running
    · simp only [hj, if_true]
      constructor
      · simp only
        rw [firstErr_append, ← h.cause_first]
        cases w.cause <;> rfl
      · intro k
        simp only [List.mem_filter, List.map_append, List.map_cons, List.map_nil, List.mem_append, List.mem_singleton,
          Bool.not_eq_true', decide_eq_false_iff_not]
        have := h.split k
        constructor
        · intro hk
          rcases this.mp hk with h' | h'
          · by_cases hkj : k = j
            · exact Or.inr (Or.inr hkj)
            · exact Or.inl ⟨h', hkj⟩
          · exact Or.inr (Or.inl h')
        · rintro (⟨hk, _⟩ | hk | rfl)
          · exact this.mpr (Or.inl hk)
          · exact this.mpr (Or.inr hk)
          · exact this.mpr (Or.inl hj)
      · intro k hk
        simp only [List.mem_filter, Bool.not_eq_true', decide_eq_false_iff_not] at hk
        simp only [List.map_append, List.map_cons, List.map_nil, List.mem_append, List.mem_singleton]
        rintro (hf' | rfl)
        · exact h.disjoint k hk.1 hf'
        · exact hk.2 rfl
      · exact (List.filter_sublist).nodup h.run_nodup
      · simp only [List.map_append, List.map_cons, List.map_nil]
        rw [List.nodup_append]
        exact ⟨h.fin_nodup, by simp, by intro a ha b hb; simp at hb; subst hb; intro he; subst he; exact h.disjoint _ hj ha⟩
      · exact Nat.le_trans (List.length_filter_le _ _) h.bounded
    · simp only [hj, if_false]; exact h
  | done => unfold step; exact ⟨h.cause_first, h.split, h.disjoint, h.run_nodup, h.fin_nodup, h.bounded⟩
  | wait =>
    unfold step
    cases hc : w.cause with
    | some e => simp only; exact h
    | none => simp only; split <;> exact h

/-- histories with fresh job ids -/
def FreshRun : W → List Ev → Prop
  | _, [] => True
  | w, e :: rest => Fresh w e ∧ FreshRun (step w e).1 rest

theorem inv_run (evs : List Ev) : ∀ (w : W), Inv w → FreshRun w evs → Inv (run w evs) := by
  induction evs with
  | nil => intro w h _; exact h
  | cons e rest ih =>
    intro w h hf
    simp only [run, List.foldl_cons]
    exact ih _ (inv_step w e h hf.1) hf.2

/-- ✦ every accepted job runs and completes at most once: accepted jobs are exactly the running
    ones plus the completed ones, without repetition, in every reachable state. -/
theorem each_job_once (n : Nat) (evs : List Ev) (hf : FreshRun (init n) evs) :
    let w := run (init n) evs
    w.running.Nodup ∧ (w.finished.map (·.1)).Nodup ∧ (∀ j, j ∈ w.running → j ∉ w.finished.map (·.1)) ∧
    (∀ j, j ∈ w.accepted ↔ (j ∈ w.running ∨ j ∈ w.finished.map (·.1))) := by
  have h := inv_run evs (init n) (inv_init n) hf
  exact ⟨h.run_nodup, h.fin_nodup, h.disjoint, h.split⟩

/-- ✦ `Wait` returns nil only when every accepted job has completed, and none of them failed. -/
theorem wait_nil_all_finished (n : Nat) (evs : List Ev) (hf : FreshRun (init n) evs)
    (hw : (step (run (init n) evs) Ev.wait).2 = Res.waitNil) :
    ∀ j, j ∈ (run (init n) evs).accepted → (j, none) ∈ (run (init n) evs).finished := by
  have h := inv_run evs (init n) (inv_init n) hf
  generalize run (init n) evs = w at h hw
  unfold step at hw
  cases hc : w.cause with
  | some e => simp [hc] at hw
  | none =>
    simp only [hc] at hw
    by_cases hd : (w.done && w.running.isEmpty) = true
    · simp only [Bool.and_eq_true] at hd
      have hrun : w.running = [] := by simpa using hd.2
      intro j hj
      rcases (h.split j).mp hj with h' | h'
      · rw [hrun] at h'; simp at h'
      · obtain ⟨x, hx, hxj⟩ := List.mem_map.mp h'
        obtain ⟨k, ek⟩ := x
        simp only at hxj; subst hxj
        -- no completed job failed, since the cause is the first error and it is none
        have hfe := h.cause_first
        rw [hc] at hfe
        have : ∀ (l : List (Nat × Option Nat)), firstErr l = none → ∀ y ∈ l, y.2 = none := by
          intro l
          induction l with
          | nil => intro _ y hy; simp at hy
          | cons z zs ihl =>
            intro hz y hy
            obtain ⟨a, b⟩ := z
            cases b with
            | some c => simp [firstErr] at hz
            | none =>
              simp only [firstErr] at hz
              rcases List.mem_cons.mp hy with rfl | hy'
              · rfl
              · exact ihl hz y hy'
        have := this w.finished hfe.symm (k, ek) hx
        simp only at this; subst this; exact hx
    · simp [hd] at hw

/-- ✦ if some job failed, `Wait` returns the error of the first job that failed (in completion
    order) — and it is never `nil`. -/
theorem first_error_returned (n : Nat) (evs : List Ev) (hf : FreshRun (init n) evs) (e : Nat)
    (he : firstErr (run (init n) evs).finished = some e) :
    (step (run (init n) evs) Ev.wait).2 = Res.waitErr e := by
  have h := inv_run evs (init n) (inv_init n) hf
  unfold step
  rw [h.cause_first, he]

/-- ✦ after a failure (or `Done`) no further job is accepted. -/
theorem no_accept_after_error (w : W) (j : Nat) (h : w.cause.isSome = true ∨ w.done = true) :
    (step w (Ev.newJob j)).2 = Res.rejected := by
  unfold step
  rcases h with h | h <;> simp [h]

/-- ✦ never more than `semSize` jobs run at once. -/
theorem step_semSize (w : W) (e : Ev) : (step w e).1.semSize = w.semSize := by
  cases e with
  | newJob j =>
    simp only [step]
    by_cases h1 : (w.cause.isSome || w.done) = true
    · simp [h1]
    · by_cases h2 : w.running.length < w.semSize <;> simp [h1, h2]
  | finish j err =>
    simp only [step]
    by_cases h : j ∈ w.running <;> simp [h]
  | done => rfl
  | wait =>
    simp only [step]
    cases w.cause with
    | some c => rfl
    | none => by_cases h : (w.done && w.running.isEmpty) = true <;> simp [h]

theorem run_semSize (evs : List Ev) : ∀ (w : W), (run w evs).semSize = w.semSize := by
  induction evs with
  | nil => intro w; rfl
  | cons e rest ih => intro w; simp only [run, List.foldl_cons]; exact (ih _).trans (step_semSize w e)

theorem concurrency_bounded (n : Nat) (evs : List Ev) (hf : FreshRun (init n) evs) :
    (run (init n) evs).running.length ≤ n := by
  have := (inv_run evs (init n) (inv_init n) hf).bounded
  rwa [run_semSize] at this

/-- `NewJob` is refused exactly when its context has a cause, and that cause is
the first of `Done` / a job's error: a refused `NewJob` reports a job error only
if that job failed. -/
def NjOk (w : W) : Prop :=
  (w.njCause = none ↔ (w.cause = none ∧ w.done = false)) ∧
  (∀ e, w.njCause = some (some e) → w.cause.isSome = true)

theorem njok_step (w : W) (e : Ev) (h : NjOk w) : NjOk (step w e).1 := by
  obtain ⟨h1, h2⟩ := h
  cases e with
  | newJob j =>
    simp only [step]
    split
    · exact ⟨h1, h2⟩
    · split <;> exact ⟨h1, h2⟩
  | wait =>
    simp only [step]
    split
    · exact ⟨h1, h2⟩
    · split <;> exact ⟨h1, h2⟩
  | done =>
    simp only [step, NjOk]
    cases hn : w.njCause with
    | none => simp
    | some c =>
      simp
      intro e he; exact h2 e (by rw [hn, he])
  | finish j err =>
    simp only [step]
    split
    · simp only [NjOk]
      cases hn : w.njCause with
      | some c =>
        have : ¬ (w.cause = none ∧ w.done = false) := fun hc => by rw [h1.mpr hc] at hn; cases hn
        constructor
        · simp
          intro hc
          cases hcc : w.cause with
          | some x => simp [hcc] at hc
          | none =>
            simp [hcc] at hc
            cases hd : w.done with
            | true => rfl
            | false => exact absurd ⟨hcc, hd⟩ this
        · intro e he
          have := h2 e (by rw [hn]; exact he)
          cases hcc : w.cause with
          | some x => simp
          | none => simp [hcc] at this
      | none =>
        have hc := h1.mp hn
        cases err with
        | none => simp [hc.1, hc.2]
        | some x => simp [hc.1]
    · exact ⟨h1, h2⟩

theorem njok_run (n : Nat) (evs : List Ev) : NjOk (run (init n) evs) := by
  have : ∀ (w : W), NjOk w → NjOk (run w evs) := by
    induction evs with
    | nil => intro w h; exact h
    | cons e r ih => intro w h; exact ih _ (njok_step w e h)
  exact this _ ⟨by simp [init], by simp [init]⟩

/-- ✦ tie to the source -/
theorem source_pinned : Gen.C33.extractErrors = [] ∧ Gen.C33.pins = Pins.C33 := by
  refine ⟨by decide, by decide⟩

example : (step (run (init 2) [Ev.newJob 1, Ev.newJob 2, Ev.finish 2 (some 7), Ev.finish 1 (some 9), Ev.done]) Ev.wait).2
    = Res.waitErr 7 := by decide
example : FreshRun (init 2) [Ev.newJob 1, Ev.newJob 2, Ev.finish 2 (some 7)] := by
  simp [FreshRun, Fresh, step, init]

end Mitum.C33
