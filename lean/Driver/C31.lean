import MitumModel.Common
import MitumModel.Model.Hint
import MitumModel.Gen.C31
namespace Mitum.Driver
open Mitum Mitum.Hint

def c31Ver (s : String) : Option Ver :=
  match (s.splitOn ".").mapM String.toNat? with
  | some [a, b, c] => some ⟨a, b, c⟩
  | _ => none

def stepC31 (ts : List String) : String :=
  let rej := Gen.C31.typeRejectsMarker
  let ce := Gen.C31.addCachesEffective
  match ts with
  | ["ty", t] => boolStr (typeValid rej Gen.C31.minTypeLength Gen.C31.maxTypeLength t.toList)
  | ["pp", t, v] =>
    match parse (print t.toList v.toList) with
    | some (t', v') => String.ofList t' ++ " " ++ String.ofList v'
    | none => "err"
  | "seq" :: ops =>
    let step := fun (acc : CSet × List String) (t : String) =>
      match t.splitOn ":" with
      | ["a", ty, v, val] =>
        match c31Ver v, val.toNat? with
        | some v, some val =>
          let r := add ce acc.1 ⟨ty, v⟩ val
          (r.1, acc.2 ++ [if r.2 then "ok" else "dup"])
        | _, _ => (acc.1, acc.2 ++ ["bad-op"])
      | ["f", ty, v] =>
        match c31Ver v with
        | some v =>
          let r := find acc.1 ⟨ty, v⟩
          (r.1, acc.2 ++ [match r.2 with | .found _ x => toString x | .notFound => "none"])
        | none => (acc.1, acc.2 ++ ["bad-op"])
      | ["t", ty] =>
        let r := findByType acc.1 ty
        (r.1, acc.2 ++ [match r.2 with | .found h x => s!"v{h.v.major}.{h.v.minor}.{h.v.patch}={x}" | .notFound => "none"])
      | _ => (acc.1, acc.2 ++ ["bad-op"])
    joinSp (ops.foldl step (CSet.empty, [])).2
  | _ => "bad-op"

end Mitum.Driver
