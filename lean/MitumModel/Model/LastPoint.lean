import MitumModel.Common
/-
Model of `isaac.LastPoint.Before`, `beforeSamePoint`, `beforeNotSamePoint`,
`IsNewVoteproofbyPoint`, `IsNewBallot` (isaac/lastpoint.go) and of
`Ballotbox.SetLastPoint` (isaac/states/ballotbox.go).

Stages: only the two valid stages are modelled, `acc = false` is INIT and
`acc = true` is ACCEPT (Stage.Compare orders INIT < ACCEPT).  The zero last
point is `none`.
-/
namespace Mitum.LastPoint

structure Pt where
  h : Nat
  r : Nat
  acc : Bool
deriving Repr, DecidableEq

structure LP where
  pt : Pt
  maj : Bool
  sc : Bool
deriving Repr, DecidableEq

/-- `Stage.Compare` as a number: INIT ↦ 1, ACCEPT ↦ 3 -/
def stageN (acc : Bool) : Nat := if acc then 3 else 1

/-- `StagePoint.Compare p l > 0` -/
def ptGt (p l : Pt) : Bool :=
  if p.h ≠ l.h then decide (l.h < p.h)
  else if p.r ≠ l.r then decide (l.r < p.r)
  else decide (stageN l.acc < stageN p.acc)

def beforeSamePoint (l : LP) (p : Pt) (sc : Bool) : Bool :=
  if sc then !l.sc
  else if !l.maj then false
  else if p.acc = l.pt.acc then false
  else true

def beforeNotSamePoint (l : LP) (p : Pt) (sc : Bool) : Bool :=
  if l.maj && decide (stageN p.acc < stageN l.pt.acc) then false
  else if ptGt p l.pt then true
  else if sc && !l.maj then true
  else false

/-- `LastPoint.Before` -/
def before (l : Option LP) (p : Pt) (sc : Bool) : Bool :=
  match l with
  | none => true
  | some l =>
    if p.h ≠ l.pt.h then decide (l.pt.h < p.h)
    else if p.r = l.pt.r ∧ stageN l.pt.acc ≤ stageN p.acc then beforeSamePoint l p sc
    else beforeNotSamePoint l p sc

/-- `IsNewVoteproofbyPoint` -/
def isNewVoteproofByPoint (l : Option LP) (p : Pt) (maj sc : Bool) : Bool :=
  before l p sc ||
    match l with
    | none => false
    | some l => !l.maj && maj && decide (p.h = l.pt.h ∧ p.r = l.pt.r) && decide (stageN l.pt.acc ≤ stageN p.acc)

/-- `Ballotbox.SetLastPoint`: returns the new last point and whether it was accepted -/
def setLastPoint (l : Option LP) (n : LP) : Option LP × Bool :=
  if before l n.pt n.sc then (some n, true) else (l, false)

/-- run a sequence of updates, keeping the accepted ones (oldest first) -/
def runUpdates : Option LP → List LP → List LP
  | _, [] => []
  | l, n :: ns =>
    if before l n.pt n.sc then n :: runUpdates (some n) ns else runUpdates l ns

/-- a "backward" accepted move: same height, strictly earlier (round, stage) -/
def backward (l : LP) (p : Pt) : Bool :=
  decide (p.h = l.pt.h) && (decide (p.r < l.pt.r) || (decide (p.r = l.pt.r) && decide (stageN p.acc < stageN l.pt.acc)))

end Mitum.LastPoint
