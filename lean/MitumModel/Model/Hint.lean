import MitumModel.Common
/-
Model of util/hint: `hintString`, `EnsureParseHint`/`parseHint` (split at the
first match of `-v\d+`), `Type.IsValid`, and `CompatibleSet`
(add / find / findByType with its one-entry LRU cache).

Version strings are kept opaque here (a canonical semver text starting with
`v` and a digit, as `util.Version.String()` prints it); the semver library's
parse/print is exercised by the correspondence runs.
-/
namespace Mitum.Hint

def isDigit (c : Char) : Bool := decide ('0' ≤ c ∧ c ≤ '9')
def isLowerAlnum (c : Char) : Bool := decide ('a' ≤ c ∧ c ≤ 'z') || isDigit c
def isTypeChar (c : Char) : Bool := isLowerAlnum c || c == '-' || c == '_' || c == '+'

/-- does `-v<digit>` start at the head of the list -/
def markerAt : List Char → Bool
  | a :: b :: d :: _ => a == '-' && b == 'v' && isDigit d
  | _ => false

/-- `regVersion.Match`: the list contains `-v<digit>` somewhere -/
def hasMarker : List Char → Bool
  | [] => false
  | c :: cs => markerAt (c :: cs) || hasMarker cs

/-- index of the first `-v<digit>` (`regVersion.FindStringIndex(s)[0]`) -/
def findMarker : List Char → Option Nat
  | [] => none
  | c :: cs => if markerAt (c :: cs) then some 0 else (findMarker cs).map (· + 1)

/-- `Type.IsValid`; `rejectMarker` is the regenerated fact that a type containing
    `-v<digit>` is rejected -/
def typeValid (rejectMarker : Bool) (minLen maxLen : Nat) (t : List Char) : Bool :=
  decide (minLen ≤ t.length) && decide (t.length ≤ maxLen) &&
  (match t.head?, t.getLast? with
   | some a, some b => isLowerAlnum a && isLowerAlnum b
   | _, _ => false) &&
  t.all isTypeChar && !(rejectMarker && hasMarker t)

/-- what a printed version looks like: `v` followed by a digit -/
def versionShape : List Char → Bool
  | a :: d :: _ => a == 'v' && isDigit d
  | _ => false

/-- `hintString` -/
def print (t v : List Char) : List Char := t ++ '-' :: v

/-- `EnsureParseHint`: type = text before the first marker, version text = after the `-` -/
def parse (s : List Char) : Option (List Char × List Char) :=
  match findMarker s with
  | none => none
  | some i => some (s.take i, s.drop (i + 1))

/-! ### CompatibleSet -/

/-- semver precedence of two prerelease identifiers (unequal): numeric below alphanumeric,
    numerics by value (= by length, then text: no leading zeros), alphanumerics by ASCII text -/
def ltChars : List Char → List Char → Bool
  | [], [] => false
  | [], _ :: _ => true
  | _ :: _, [] => false
  | a :: as, b :: bs => decide (a.toNat < b.toNat) || (decide (a.toNat = b.toNat) && ltChars as bs)

def identLt (x y : List Char) : Bool :=
  let nx := x.all isDigit
  let ny := y.all isDigit
  if nx != ny then nx
  else if nx then decide (x.length < y.length) || (decide (x.length = y.length) && ltChars x y)
  else ltChars x y

/-- dot-separated prerelease identifiers, left to right; a longer list wins when all preceding
    identifiers are equal -/
def identsLt : List (List Char) → List (List Char) → Bool
  | [], [] => false
  | [], _ :: _ => true
  | _ :: _, [] => false
  | x :: xs, y :: ys => if x = y then identsLt xs ys else identLt x y

structure Ver where
  major : Nat
  minor : Nat
  patch : Nat
  pre : List (List Char) := []     -- prerelease identifiers; [] = a release (higher than any prerelease)
deriving Repr, DecidableEq

/-- `Version.Compare(a, b) < 0` as semver defines it -/
def Ver.lt (a b : Ver) : Bool :=
  decide (a.major < b.major) || (decide (a.major = b.major) &&
    (decide (a.minor < b.minor) || (decide (a.minor = b.minor) &&
      (decide (a.patch < b.patch) || (decide (a.patch = b.patch) &&
        (match a.pre, b.pre with
         | [], _ => false
         | _ :: _, [] => true
         | pa, pb => identsLt pa pb))))))

structure H where
  t : String
  v : Ver
deriving Repr, DecidableEq

inductive CVal where
  | notFound
  | found (h : H) (val : Nat)
deriving Repr, DecidableEq

structure CSet where
  set : List ((String × Nat) × (H × Nat))      -- (type, major) ↦ (registered hint, value)
  heads : List (String × (H × Nat))            -- type ↦ highest version overall
  cache : Option (String × Ver ⊕ String) × CVal  -- one-entry LRU: key (hint or type) ↦ value
deriving Repr

def CSet.empty : CSet := { set := [], heads := [], cache := (none, .notFound) }

def lookupKey {κ β : Type} [DecidableEq κ] (k : κ) : List (κ × β) → Option β
  | [] => none
  | (k', v) :: rest => if k' = k then some v else lookupKey k rest

def upsert {κ β : Type} [DecidableEq κ] (k : κ) (v : β) (l : List (κ × β)) : List (κ × β) :=
  (l.filter (fun e => !(e.1 = k))) ++ [(k, v)]

/-- cache-free `find`: the registered entry with the same type and major version -/
def findPlain (s : CSet) (h : H) : CVal :=
  match lookupKey (h.t, h.v.major) s.set with
  | some (_, val) => .found h val
  | none => .notFound

def findByTypePlain (s : CSet) (t : String) : CVal :=
  match lookupKey t s.heads with
  | some (h, val) => .found h val
  | none => .notFound

/-- `add`; returns `false` for "already added". `cacheEffective` is the regenerated fact that
    the cache entry written by `add` holds the value kept in the set (not the value passed in). -/
def add (cacheEffective : Bool) (s : CSet) (h : H) (val : Nat) : CSet × Bool :=
  let key := (h.t, h.v.major)
  match lookupKey key s.set with
  | some (eh, _) =>
    if eh = h then (s, false)
    else
      let set' := if eh.v.lt h.v then upsert key (h, val) s.set else s.set
      let kept := match lookupKey key set' with | some (_, x) => x | none => val
      let heads' := match lookupKey h.t s.heads with
        | some (hh, _) => if hh.v.lt h.v then upsert h.t (h, val) s.heads else s.heads
        | none => upsert h.t (h, val) s.heads
      ({ set := set', heads := heads',
         cache := (some (.inl (h.t, h.v)), .found h (if cacheEffective then kept else val)) }, true)
  | none =>
    let heads' := match lookupKey h.t s.heads with
      | some (hh, _) => if hh.v.lt h.v then upsert h.t (h, val) s.heads else s.heads
      | none => upsert h.t (h, val) s.heads
    ({ set := upsert key (h, val) s.set, heads := heads',
       cache := (some (.inl (h.t, h.v)), .found h val) }, true)

/-- `Find` through the cache -/
def find (s : CSet) (h : H) : CSet × CVal :=
  if s.cache.1 = some (.inl (h.t, h.v)) then (s, s.cache.2)
  else
    let r := findPlain s h
    ({ s with cache := (some (.inl (h.t, h.v)), r) }, r)

/-- `FindBytType` through the cache -/
def findByType (s : CSet) (t : String) : CSet × CVal :=
  if s.cache.1 = some (.inr t) then (s, s.cache.2)
  else
    let r := findByTypePlain s t
    ({ s with cache := (some (.inr t), r) }, r)

end Mitum.Hint
