package main

import (
	"go/ast"
	"sort"
	"strings"
)

func init() { register("C28", genC28) }

// fields of the receiver `fact` that a function reads (fact.x, fact.Token())
func factFields(f *File, fd *ast.FuncDecl) []string {
	set := map[string]bool{}
	if fd == nil {
		return nil
	}
	ast.Inspect(fd.Body, func(n ast.Node) bool {
		se, ok := n.(*ast.SelectorExpr)
		if !ok {
			return true
		}
		if id, ok := se.X.(*ast.Ident); ok && id.Name == "fact" {
			switch se.Sel.Name {
			case "Token":
				set["token"] = true
			case "baseBallotFact", "INITBallotFact", "ACCEPTBallotFact", "BaseFact", "hashBytes", "generateHash", "hash":
			default:
				set[se.Sel.Name] = true
			}
		}
		return true
	})
	var out []string
	for k := range set {
		out = append(out, k)
	}
	sort.Strings(out)
	return out
}

func genC28(o *Out) {
	fb := o.pinFile("isaac/ballot_fact.go", "baseBallotFact.hashBytes", "baseBallotFact.IsValid", "INITBallotFact.hashBytes", "INITBallotFact.generateHash",
		"INITBallotFact.IsValid", "ACCEPTBallotFact.generateHash", "ACCEPTBallotFact.IsValid", "SuffrageConfirmBallotFact.IsValid",
		"EmptyProposalINITBallotFact.IsValid", "EmptyProposalINITBallotFact.generateHash")
	fp := o.pinFile("isaac/proposal.go", "ProposalFact.generateHash", "ProposalFact.IsValid", "ProposalSignFact.IsValid")
	fe := o.pinFile("isaac/suffrage_operation.go", "SuffrageExpelFact.hash", "SuffrageExpelFact.IsValid", "SuffrageExpelOperation.IsValid")
	fs := o.pinFile("base/sign.go", "NewBaseSignFromBytes", "BaseSign.Verify", "BaseNodeSign.Verify", "NewBaseNodeSignFromBytes")
	_ = o.pinFile("isaac/ballot_sign.go", "baseBallotSignFact.IsValid")
	fo := o.pinFile("base/base_operation.go", "BaseOperation.IsValid", "BaseOperation.HashBytes")
	if fb == nil || fp == nil || fe == nil || fs == nil {
		return
	}
	union := func(ls ...[]string) []string {
		set := map[string]bool{}
		for _, l := range ls {
			for _, x := range l {
				set[x] = true
			}
		}
		var out []string
		for k := range set {
			out = append(out, k)
		}
		sort.Strings(out)
		return out
	}
	recomputes := func(f *File, recv string) bool {
		fd := f.Func(recv, "IsValid")
		if fd == nil {
			return false
		}
		src := normSpace(f.Src(fd.Body))
		return strings.Contains(src, "!fact.Hash().Equal(fact.generateHash())") || strings.Contains(src, "!fact.Hash().Equal(fact.hash())")
	}
	baseH := factFields(fb, fb.Func("baseBallotFact", "hashBytes"))
	initH := union(baseH, factFields(fb, fb.Func("INITBallotFact", "hashBytes")))
	kinds := []struct {
		name   string
		hashed []string
		rec    bool
	}{
		{"init", initH, recomputes(fb, "INITBallotFact")},
		{"sc", initH, recomputes(fb, "SuffrageConfirmBallotFact")},
		{"emptyproposal", union(initH, factFields(fb, fb.Func("EmptyProposalINITBallotFact", "generateHash"))), recomputes(fb, "EmptyProposalINITBallotFact")},
		{"accept", union(baseH, factFields(fb, fb.Func("ACCEPTBallotFact", "generateHash"))), recomputes(fb, "ACCEPTBallotFact")},
		{"proposal", factFields(fp, fp.Func("ProposalFact", "generateHash")), recomputes(fp, "ProposalFact")},
		{"expel", factFields(fe, fe.Func("SuffrageExpelFact", "hash")), recomputes(fe, "SuffrageExpelFact")},
	}
	var rows []string
	for _, k := range kinds {
		var q []string
		for _, h := range k.hashed {
			q = append(q, leanStr(h))
		}
		rows = append(rows, "("+leanStr(k.name)+", ["+strings.Join(q, ", ")+"], "+map[bool]string{true: "true", false: "false"}[k.rec]+")")
	}
	o.raw("/-- per kind of fact: the fields its hash function reads, and whether `IsValid` compares the stored hash with the recomputation -/")
	o.raw("def kinds : List (String × List String × Bool) := [" + strings.Join(rows, ",\n  ") + "]")
	// no hash function mentions the hint / kind of the fact
	hintHashed := false
	for _, p := range []struct {
		f    *File
		recv string
		fn   string
	}{{fb, "baseBallotFact", "hashBytes"}, {fb, "INITBallotFact", "hashBytes"}, {fb, "ACCEPTBallotFact", "generateHash"}, {fb, "EmptyProposalINITBallotFact", "generateHash"}} {
		if fd := p.f.Func(p.recv, p.fn); fd != nil {
			src := p.f.Src(fd.Body)
			if strings.Contains(src, "Hint") {
				hintHashed = true
			}
		}
	}
	o.boolean("ballotFactHashCoversKind", hintHashed)
	// the signed message: networkID ‖ [node ‖] fact hash ‖ signedAt
	msg := false
	if fd := fs.Func("BaseSign", "Verify"); fd != nil {
		src := normSpace(fs.Src(fd.Body))
		msg = strings.Contains(src, "si.signer.Verify(util.ConcatBytesSlice( networkID, b, localtime.New(si.signedAt).Bytes(), ), si.signature)")
	}
	nodeMsg := false
	if fd := fs.Func("BaseNodeSign", "Verify"); fd != nil {
		src := normSpace(fs.Src(fd.Body))
		nodeMsg = strings.Contains(src, "si.BaseSign.Verify(networkID, util.ConcatByters(si.node, util.BytesToByter(b)))")
	}
	// the operation hash reads the signs in their order
	signOrder := false
	if fo != nil {
		if fd := fo.Func("BaseOperation", "HashBytes"); fd != nil {
			src := normSpace(fo.Src(fd.Body))
			signOrder = strings.Contains(src, "bs[0] = op.fact.Hash() for i := range op.signs { bs[i+1] = op.signs[i] } return util.ConcatByters(bs...)")
		}
	}
	o.boolean("operationHashReadsSignsInOrder", signOrder)
	o.boolean("signCoversNetworkHashTime", msg)
	o.boolean("nodeSignCoversNode", nodeMsg)
}
