#!/usr/bin/env python3
"""Copy the current `pins` tables from lean/MitumModel/Gen/Cxx.lean into the
hand-maintained lean/MitumModel/Pins.lean (run only when /repo was changed on
purpose, e.g. after a fix: commit).  usage: update_pins.py [Cxx ...]"""
import os, re, sys, glob
ROOT = os.path.dirname(os.path.dirname(os.path.abspath(__file__)))
gen = os.path.join(ROOT, "lean/MitumModel/Gen")
pinsf = os.path.join(ROOT, "lean/MitumModel/Pins.lean")
import subprocess
subprocess.run(["go", "build", "-o", os.path.join(ROOT, "bin/extract"), "."], cwd=os.path.join(ROOT, "extract"), check=True,
               env=dict(os.environ, GOFLAGS="-mod=mod", GOPROXY="off", GOSUMDB="off", GOTOOLCHAIN="local"))
subprocess.run([os.path.join(ROOT, "bin/extract"), "/repo", gen], check=True)
cur = {}
if os.path.exists(pinsf):
    for m in re.finditer(r"def (C\d+) : List \(String × String\) := \[(.*?)\]\n", open(pinsf).read(), re.S):
        cur[m.group(1)] = m.group(2)
ids = sys.argv[1:] or [os.path.basename(f)[:-5] for f in glob.glob(gen + "/C*.lean")]
for i in ids:
    src = open(os.path.join(gen, i + ".lean")).read()
    m = re.search(r"def pins : List \(String × String\) := \[(.*?)\]\n", src, re.S)
    if m:
        cur[i] = m.group(1)
with open(pinsf, "w") as f:
    f.write("/- Hand-maintained: the source hashes of the functions each model transcribes, as of the\n   tree the models were written against.  Updated only by tools/update_pins.py. -/\nnamespace Mitum.Pins\n\n")
    for i in sorted(cur):
        f.write(f"def {i} : List (String × String) := [{cur[i]}]\n\n")
    f.write("end Mitum.Pins\n")
print("pins:", sorted(cur))
