import MitumModel.Common
import MitumModel.Model.Members
import MitumModel.Gen.C37
namespace Mitum.Driver
open Mitum Mitum.Members

/-- `seq j:<addr>:<node> l:<addr> g:<addr> n:<node>` -/
def stepC37 (ts : List String) : String :=
  match ts with
  | "seq" :: ops =>
    let step := fun (acc : State × List String) (t : String) =>
      match (t.splitOn ":") with
      | ["j", a, n] =>
        match a.toNat?, n.toNat? with
        | some a, some n => let r := join acc.1 a n; (r.1, acc.2 ++ [boolStr r.2])
        | _, _ => (acc.1, acc.2 ++ ["bad-op"])
      | ["l", a] =>
        match a.toNat? with
        | some a => let r := leave acc.1 a; (r.1, acc.2 ++ [boolStr r.2])
        | none => (acc.1, acc.2 ++ ["bad-op"])
      | ["g", a] =>
        match a.toNat? with
        | some a =>
          let r := lookupMember Gen.C37.getReturnsFound acc.1 a
          (acc.1, acc.2 ++ [s!"{r.1.getD 0}/{boolStr r.2}/{boolStr (exists_ acc.1 a)}"])
        | none => (acc.1, acc.2 ++ ["bad-op"])
      | ["n", n] =>
        match n.toNat? with
        | some n =>
          let l := sortBy (fun a b => decide (a ≤ b)) (acc.1.nodes n)
          (acc.1, acc.2 ++ [s!"{membersLen acc.1 n}/{len acc.1}/{",".intercalate (l.map toString)}"])
        | none => (acc.1, acc.2 ++ ["bad-op"])
      | _ => (acc.1, acc.2 ++ ["bad-op"])
    joinSp (ops.foldl step (init, [])).2
  | _ => "bad-op"

end Mitum.Driver
