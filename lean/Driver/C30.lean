import MitumModel.Common
import MitumModel.Model.Broker
namespace Mitum.Driver.BrokerDrv
open Mitum Mitum.Frame Mitum.Broker

def hexVal (c : Char) : Option Nat :=
  if '0' ≤ c ∧ c ≤ '9' then some (c.toNat - '0'.toNat)
  else if 'a' ≤ c ∧ c ≤ 'f' then some (c.toNat - 'a'.toNat + 10) else none

def unhexL : List Char → Option Bytes
  | [] => some []
  | a :: b :: r =>
    match hexVal a, hexVal b, unhexL r with
    | some x, some y, some t => some (UInt8.ofNat (x * 16 + y) :: t)
    | _, _, _ => none
  | _ => none

def unhex (s : String) : Option Bytes := if s = "-" then some [] else unhexL s.toList

def hexDigit (n : Nat) : Char := if n < 10 then Char.ofNat (n + 48) else Char.ofNat (n + 87)
def hex (b : Bytes) : String :=
  if b.isEmpty then "-" else String.ofList (b.flatMap (fun x => [hexDigit (x.toNat / 16), hexDigit (x.toNat % 16)]))

structure Tab where
  known : List Bytes
  heads : List (Bytes × UInt8 × String)

def Tab.codec (t : Tab) : Codec :=
  { knownEnc := fun h => t.known.contains h,
    kind := fun _ hd => (t.heads.find? (fun e => e.1 == hd)).map (·.2.1) }

def Tab.token (t : Tab) (hd : Bytes) : String := ((t.heads.find? (fun e => e.1 == hd)).map (·.2.2)).getD "?"

/-- one reading call of the real broker on the remaining stream -/
def readOp (t : Tab) (maxItem : Nat) (op : String) (cs : List Bytes) : String × Option (List Bytes) :=
  match readMsg t.codec maxItem cs with
  | .panic => ("panic", none)
  | .error => ("error", none)
  | .ok (.head h, rest) =>
    let want := (op == "rq" && h.dt == dtRequest) || ((op == "rs" || op == "rb") && h.dt == dtResponse)
    if want then (s!"head:{h.dt.toNat}:{hex h.encHint}:{t.token h.header}", some rest) else ("error", none)
  | .ok (.body b n, rest) =>
    if op != "rb" then ("error", none)
    else match b with
      | .empty => ("body:1:0:-", some rest)
      | .fixed p => (s!"body:2:{n}:{hex p}", some rest)
      | .stream p => (s!"body:3:0:{hex p}", some rest)

end Mitum.Driver.BrokerDrv
namespace Mitum.Driver
open Mitum Mitum.Frame Mitum.Broker Mitum.Driver.BrokerDrv
/-- `read <maxItem> K:<hex,…> H:<hex=kind=token,…> S:<chunkhex,…> ; rq|rs|rb …` -/
def stepC30 (ts : List String) : String :=
  match ts with
  | "read" :: m :: k :: h :: s :: ";" :: ops =>
    let sect := fun (x : String) => (x.drop 2).toString
    let lst := fun (x : String) => if sect x = "" then [] else (sect x).splitOn ","
    let known := (lst k).mapM unhex
    let heads := (lst h).mapM (fun e => match e.splitOn "=" with
      | [hx, kd, tok] => match unhex hx, kd.toNat? with
        | some b, some kd => some (b, UInt8.ofNat kd, tok)
        | _, _ => none
      | _ => none)
    let chunks := (lst s).mapM unhex
    match m.toNat?, known, heads, chunks with
    | some maxItem, some known, some heads, some chunks =>
      let t : Tab := { known := known, heads := heads }
      let r := ops.foldl (fun (acc : Option (List Bytes) × List String) op =>
        match acc.1 with
        | none => (none, acc.2 ++ ["skip"])
        | some cs => let x := readOp t maxItem op cs; (x.2, acc.2 ++ [x.1])) (some chunks, [])
      joinSp r.2
    | _, _, _, _ => "bad-op"
  | _ => "bad-op"
end Mitum.Driver
