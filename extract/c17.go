package main

import "strings"

func init() { register("C17", genC17) }

func genC17(o *Out) {
	fj := o.pinFile("isaac/operation/suffrage_join_processor.go", "NewSuffrageJoinProcessor", "SuffrageJoinProcessor.PreProcess", "SuffrageJoinProcessor.Process",
		"SuffrageJoinProcessor.findCandidateFromSigns", "SuffrageJoinStateValueMerger.Merge", "SuffrageJoinStateValueMerger.closeValue")
	fd := o.pinFile("isaac/operation/suffrage_disjoin_processor.go", "NewSuffrageDisjoinProcessor", "SuffrageDisjoinProcessor.PreProcess", "SuffrageDisjoinProcessor.Process")
	fe := o.pinFile("isaac/operation/suffrage_expel_processor.go", "NewSuffrageExpelProcessor", "SuffrageExpelProcessor.PreProcess", "SuffrageExpelProcessor.Process")
	fs := o.pinFile("base/sign.go", "CheckFactSignsBySuffrage")
	_ = fs
	if fj == nil || fd == nil || fe == nil {
		return
	}
	has := func(f *File, recv, name string, parts ...string) bool {
		x := f.Func(recv, name)
		if x == nil {
			return false
		}
		src := normSpace(f.Src(x.Body))
		for _, p := range parts {
			if !strings.Contains(src, p) {
				o.errf("%s.%s: clause not found: %s", recv, name, p)
				return false
			}
		}
		return true
	}
	o.boolean("joinChecks", has(fj, "SuffrageJoinProcessor", "PreProcess",
		"if len(p.candidates) < 1 {", "if _, found := p.preprocessed[n.String()]; found {", "if p.suffrage.Exists(n) {",
		"case !found: return ctx, base.NewBaseOperationProcessReasonf(\"candidate not in candidates", "case fact.Start() != i.Start():",
		"case i.Deadline() < p.Height():", "case !node.Publickey().Equal(info.Publickey()):",
		"if err := base.CheckFactSignsBySuffrage(p.suffrage, p.threshold, noop.NodeSigns()); err != nil {",
		"p.preprocessed[info.Address().String()] = struct{}{}"))
	o.boolean("disjoinChecks", has(fd, "SuffrageDisjoinProcessor", "PreProcess",
		"signer = sf.NodeSigns()[0].Signer()", "if _, found := p.preprocessed[n.String()]; found {",
		"util.LoadFromContext(ctx, ExpelPreProcessedContextKey, &expelpreprocessed)", "case !found: return ctx, base.NewBaseOperationProcessReasonf(\"not in suffrage",
		"case fact.Start() != stv.Start():", "case !signer.Equal(stv.Publickey()):", "p.preprocessed[n.String()] = struct{}{}"))
	o.boolean("expelChecks", has(fe, "SuffrageExpelProcessor", "PreProcess",
		"case fact.ExpelStart() > p.Height():", "case fact.ExpelEnd() < p.Height():", "if _, found := p.preprocessed[n.String()]; found {",
		"if !p.suffrage.Exists(n) {", "p.preprocessed[n.String()] = struct{}{}", "preprocessed = append(preprocessed, n)"))
	o.boolean("mergerSortsJoined", has(fj, "SuffrageJoinStateValueMerger", "closeValue",
		"return s.joined[i].Address().String() < s.joined[j].Address().String()", "util.Filter2Slices( existingnodes, s.disjoined,"))
	o.boolean("mergerHeightPlusOne", has(fj, "SuffrageJoinStateValueMerger", "closeValue",
		"isaac.NewSuffrageNodesStateValue( s.existing.Height()+1, newnodes, )", "isaac.NewSuffrageNodeStateValue(s.joined[i], s.Height()+1)"))
}
