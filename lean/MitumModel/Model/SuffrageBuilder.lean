import MitumModel.Model.BlockMaps
/-
Model of `isaac.SuffrageStateBuilder.Build / buildBatch / prove`
(isaac/suffrage_builder.go).  A suffrage proof is abstracted exactly like a
block map in `Model/BlockMaps.lean`: `height` = suffrage height, `hash` = the
identity of its state, `prev` = the identity of the state it proves against
(`proof.Prove(previous)` succeeds iff `prev = previous.hash`; the genesis proof
proves against no state).  `prove` has the same slot/neighbour structure as
`IsValidMaps`, except that the unrepaired code did not guard a negative slot
index (a Go panic inside a worker goroutine).
Regenerated facts: `guardNegative`, `checkHeight`, `accumulates`, `limit`.
-/
namespace Mitum.SuffrageBuilder
open Mitum.BatchWork Mitum.BlockMaps

inductive Outcome where
  | ok (heights : List (Option Nat))
  | err
  | panic
deriving Repr, DecidableEq

structure Facts where
  guardNegative : Bool
  checkHeight : Bool
  accumulates : Bool
  limit : Nat
deriving Repr

inductive BRes where
  | ok (s : BState)
  | err
  | panic

/-- one batch of `buildBatch`: jobs in arrival order; `none` response = not found -/
def runBatch (f : Facts) (previous : Option BM) (slotBase lastheight len : Nat)
    (arrivals : List (Nat × Option BM)) (newprev0 : Option BM) : BRes :=
  arrivals.foldl (fun acc a =>
    match acc with
    | .ok s =>
      match a.2 with
      | none => .err
      | some m =>
        if f.checkHeight && !(m.height = a.1) then .err
        else if m.height < slotBase then (if f.guardNegative then .err else .panic)
        else match job false previous slotBase lastheight s a.1 m with
          | some s' => .ok s'
          | none => .err
    | r => r) (.ok { maps := List.replicate len none, newprev := newprev0 })

def slotHeights (maps : List (Option BM)) : List (Option Nat) := maps.map (fun e => e.map (·.height))

/-- `Build` when the remote's last proof `last` is newer than the local state -/
def build (f : Facts) (loc : Option BM) (last : BM) (resp : Nat → Option BM) (lastBlockNewer : Bool := false) : Outcome :=
  let frm := match loc with | some p => p.height + 1 | none => 0
  if last.height < frm then
    -- the remote's last proof is not above the local suffrage height: nothing new, unless its *block*
    -- is newer than the local state's (then `buildBatch` runs with an empty range and `BatchWork` fails)
    (if lastBlockNewer then .err else .ok [])
  else
    match plan (last.height + 1 - frm) f.limit with
    | none => .err
    | some bs =>
      let rec go (bs : List Batch) (newprev : Option BM) (acc : List (Option Nat)) (lastBatch : List (Option Nat)) : Outcome :=
        match bs with
        | [] => .ok ((if f.accumulates then acc else lastBatch) ++ [some last.height])
        | b :: rest =>
          let previous := newprev
          let slotBase := match previous with | some p => p.height + 1 | none => 0
          let len := if (b.last + 1) % f.limit = 0 then f.limit else (b.last + 1) % f.limit
          let arrivals := (List.range (b.last + 1 - b.first)).map (fun k => (frm + b.first + k, resp (frm + b.first + k)))
          match runBatch f previous slotBase (frm + b.last) len arrivals newprev with
          | .err => .err
          | .panic => .panic
          | .ok s => go rest s.newprev (acc ++ slotHeights s.maps) (slotHeights s.maps)
      go bs loc [] []

end Mitum.SuffrageBuilder
