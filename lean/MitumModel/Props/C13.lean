import MitumModel.Model.SuffrageProof
import MitumModel.Props.C12
import MitumModel.Gen.C13
import MitumModel.Pins
/-!
C13  Suffrage proofs bind the suffrage state to the signed block.
-/
namespace Mitum.C13
open Mitum.FixedTree Mitum.SuffrageProof

/-- **accepted_is_committed.**  A suffrage proof accepted by `IsValid` and `Prove` (repaired
code) has: the state at the manifest's height holding a suffrage; a tree proof of the state's
hash whose root is the manifest's states-tree root; and, except at genesis, a state that directly
follows the given previous suffrage state. -/
theorem accepted_is_committed (sp : SP) (prev : Option Prev) (h : accept true sp prev = true) :
    sp.stHeight = sp.manifestHeight ∧ sp.isSuffrage = true ∧
    FixedTree.prove snh sp.proof sp.stKey = true ∧
    proofRoot sp.proof = sp.statesTree ∧ sp.statesTree.isSome = true ∧
    ((sp.manifestHeight = 0 ∧ prev = none) ∨
     (sp.manifestHeight ≠ 0 ∧ ∃ p, prev = some p ∧ p.height < sp.stHeight ∧ sp.stPrev = some p.hash ∧
        p.isSuffrage = true ∧ sp.sufHeight = p.sufHeight + 1)) := by
  unfold accept SuffrageProof.isValid at h
  simp only [Bool.and_eq_true, decide_eq_true_eq] at h
  obtain ⟨⟨hh, hs⟩, hp⟩ := h
  refine ⟨hh, hs, ?_⟩
  unfold SuffrageProof.prove at hp
  by_cases hg : sp.manifestHeight = 0
  · simp only [hg, if_true] at hp
    split at hp
    · cases hp
    · split at hp
      · cases hp
      · split at hp
        · cases hp
        · rename_i hpr
          split at hp
          · cases hp
          · rename_i hroot
            simp only [Bool.true_and, Bool.not_eq_true', Bool.and_eq_false_iff, decide_eq_false_iff_not, not_or, Bool.not_eq_false,
              Decidable.not_not] at hroot
            rename_i hprev _
            refine ⟨by simpa using hpr, hroot.1, hroot.2, Or.inl ⟨hg, ?_⟩⟩
            cases prev with
            | none => rfl
            | some p => simp at hprev
  · simp only [hg, if_false] at hp
    cases prev with
    | none => simp at hp
    | some p =>
      simp only at hp
      split at hp
      · cases hp
      · rename_i h1
        split at hp
        · cases hp
        · rename_i h2
          split at hp
          · cases hp
          · rename_i h3
            split at hp
            · cases hp
            · rename_i h4
              split at hp
              · cases hp
              · rename_i hpr
                split at hp
                · cases hp
                · rename_i hroot
                  simp only [Bool.true_and, Bool.not_eq_true', Bool.and_eq_false_iff, decide_eq_false_iff_not, not_or,
                    Bool.not_eq_false, Decidable.not_not] at hroot
                  refine ⟨by simpa using hpr, hroot.1, hroot.2, Or.inr ⟨hg, p, rfl, by omega, ?_, by simpa using h3, by simpa using h4⟩⟩
                  simpa using h2

/-- The root binds the tree (C12): when the accepted proof's root is the root of the block's
valid states tree `t`, any other valid tree of that size with the proof's root has, node by node,
the same keys as the block's tree — the proof cannot come from a different tree. -/
theorem root_is_the_blocks_tree (t t' : List (Node SHash)) (sp : SP)
    (hv : FixedTree.isValid snh t = true) (hv' : FixedTree.isValid snh t' = true) (hlen : t.length = t'.length)
    (hblock : sp.statesTree = childHash t 0) (hproof : proofRoot sp.proof = childHash t' 0)
    (hacc : proofRoot sp.proof = sp.statesTree) :
    ∀ (j : Nat) (n n' : Node SHash), t[j]? = some n → t'[j]? = some n' → n.key = n'.key :=
  fun j n n' hj hj' =>
    (Mitum.C12.root_binds_keys snh Mitum.C12.snh_inj t t' hv hv' hlen (by rw [← hblock, ← hproof, hacc]) j n n' hj hj').1

/-! ### the code before the repair -/

def foreignProof : SP :=
  { manifestHeight := 0, statesTree := some (.both [1] (.leaf [2]) (.leaf [3])), stHeight := 0, stKey := [2], stPrev := none,
    isSuffrage := true, sufHeight := 0,
    proof := [none, none, some { key := [2], hash := .leaf [2] }] }

/-- without the root comparison a proof taken from any other tree that contains the state's hash
(here: the one-node tree) is accepted although its root is not the manifest's states tree -/
theorem foreign_tree_witness :
    accept false foreignProof none = true ∧ proofRoot foreignProof.proof ≠ foreignProof.statesTree ∧
    accept true foreignProof none = false := by
  decide

/-- **accepted_partial** — what the code as it is guarantees (no root comparison in `Prove`):
everything of `accepted_is_committed` except that the proof's root is the manifest's states tree. -/
theorem accepted_partial (rc : Bool) (sp : SP) (prev : Option Prev) (h : accept rc sp prev = true) :
    sp.stHeight = sp.manifestHeight ∧ sp.isSuffrage = true ∧
    FixedTree.prove snh sp.proof sp.stKey = true ∧
    ((sp.manifestHeight = 0 ∧ prev = none) ∨
     (sp.manifestHeight ≠ 0 ∧ ∃ p, prev = some p ∧ p.height < sp.stHeight ∧ sp.stPrev = some p.hash ∧
        p.isSuffrage = true ∧ sp.sufHeight = p.sufHeight + 1)) := by
  cases rc with
  | true =>
    obtain ⟨a, b, c, _, _, d⟩ := accepted_is_committed sp prev h
    exact ⟨a, b, c, d⟩
  | false =>
    unfold accept SuffrageProof.isValid at h
    simp only [Bool.and_eq_true, decide_eq_true_eq] at h
    obtain ⟨⟨hh, hs⟩, hp⟩ := h
    refine ⟨hh, hs, ?_⟩
    unfold SuffrageProof.prove at hp
    by_cases hg : sp.manifestHeight = 0
    · simp only [hg, if_true, Bool.false_and, Bool.false_eq_true, if_false] at hp
      split at hp
      · cases hp
      · split at hp
        · cases hp
        · split at hp
          · cases hp
          · rename_i hprev _ hpr
            refine ⟨by simpa using hpr, Or.inl ⟨hg, ?_⟩⟩
            cases prev with
            | none => rfl
            | some p => simp at hprev
    · simp only [hg, if_false, Bool.false_and, Bool.false_eq_true] at hp
      cases prev with
      | none => simp at hp
      | some p =>
        simp only at hp
        split at hp
        · cases hp
        · rename_i h1
          split at hp
          · cases hp
          · rename_i h2
            split at hp
            · cases hp
            · rename_i h3
              split at hp
              · cases hp
              · rename_i h4
                split at hp
                · cases hp
                · rename_i hpr
                  exact ⟨by simpa using hpr, Or.inr ⟨hg, p, rfl, by omega, by simpa using h2, by simpa using h3, by simpa using h4⟩⟩

theorem facts_ok : Gen.C13.followsChecked = true ∧ Gen.C13.extractErrors = [] := by decide

theorem source_pinned : Gen.C13.pins = Pins.C13 := by decide

end Mitum.C13
