import MitumModel.Model.BallotStore
import MitumModel.Gen.C05
import MitumModel.Pins
/-!
C05  Ballotbox keeps stage points isolated and releases finished ones.
-/
namespace Mitum.C05
open Mitum.BallotStore

def ids (s : Store) : List Nat := s.vrs.map (·.2)
def keys (s : Store) : List Key := s.vrs.map (·.1)

structure Inv (s : Store) : Prop where
  ids_nodup : (ids s).Nodup
  keys_nodup : (keys s).Nodup
  fresh : (∀ id ∈ ids s, id < s.next) ∧ (∀ id ∈ s.removed, id < s.next) ∧ (∀ id ∈ s.pool, id < s.next)
  pool_nodup : s.pool.Nodup
  removed_nodup : s.removed.Nodup
  removed_out : ∀ id ∈ s.removed, id ∉ ids s ∧ id ∉ s.pool
  pool_out : ∀ id ∈ s.pool, id ∉ ids s
  own : ∀ e ∈ s.vrs, (s.recs e.2).sp = e.1.1 ∧ (s.recs e.2).isSC = e.1.2 ∧ e.1.1 ≠ 0

theorem inv_init : Inv {} := by
  constructor <;> simp [ids, keys]

theorem lookup_some (vrs : List (Key × Nat)) (k : Key) (id : Nat) (h : lookup vrs k = some id) : (k, id) ∈ vrs := by
  unfold lookup at h
  cases hf : vrs.find? (fun e => e.1 = k) with
  | none => simp [hf] at h
  | some e =>
    simp [hf] at h
    have hm := List.mem_of_find?_eq_some hf
    have hk := List.find?_some hf
    simp at hk
    rw [← hk, ← h]; exact hm

theorem lookup_none (vrs : List (Key × Nat)) (k : Key) (h : lookup vrs k = none) : k ∉ vrs.map (·.1) := by
  unfold lookup at h
  cases hf : vrs.find? (fun e => e.1 = k) with
  | some e => simp [hf] at h
  | none =>
    intro hm
    obtain ⟨e, he, hek⟩ := List.mem_map.mp hm
    have := List.find?_eq_none.mp hf e he
    simp at this
    exact this hek

theorem inv_setRec_voted (s : Store) (id : Nat) (v : List Nat) (h : Inv s) :
    Inv (setRec s id { s.recs id with voted := v }) := by
  refine ⟨h.1, h.2, h.3, h.4, h.5, h.6, h.7, ?_⟩
  intro e he
  have := h.own e he
  simp only [setRec]
  by_cases hj : e.2 = id
  · simp only [hj, if_true]; rw [← hj]; exact this
  · simp only [hj, if_false]; exact this

theorem inv_vote (s : Store) (k : Key) (node : Nat) (h : Inv s) (hk : k.1 ≠ 0) : Inv (vote s k node) := by
  unfold vote
  cases hl : lookup s.vrs k with
  | some id => exact inv_setRec_voted s id _ h
  | none =>
    have hkn := lookup_none s.vrs k hl
    have hfresh : s.next ∉ ids s := fun hm => Nat.lt_irrefl _ (h.fresh.1 _ hm)
    constructor
    · simp only [ids, setRec, List.map_append, List.map_cons, List.map_nil]
      rw [List.nodup_append]
      refine ⟨h.ids_nodup, by simp, ?_⟩
      intro a ha b hb hab
      simp at hb; subst hb; subst hab; exact hfresh ha
    · simp only [keys, setRec, List.map_append, List.map_cons, List.map_nil]
      rw [List.nodup_append]
      refine ⟨h.keys_nodup, by simp, ?_⟩
      intro a ha b hb hab
      simp at hb; subst hb; subst hab; exact hkn ha
    · refine ⟨?_, ?_, ?_⟩
      · intro id hid
        simp only [ids, setRec, List.map_append, List.map_cons, List.map_nil, List.mem_append, List.mem_singleton] at hid
        rcases hid with hid | hid
        · have := h.fresh.1 id hid; simp only [setRec]; omega
        · simp only [setRec]; omega
      · intro id hid; have := h.fresh.2.1 id hid; simp only [setRec] at hid ⊢; omega
      · intro id hid; have := h.fresh.2.2 id hid; simp only [setRec] at hid ⊢; omega
    · exact h.pool_nodup
    · exact h.removed_nodup
    · intro id hid
      have hr := h.removed_out id hid
      have hlt := h.fresh.2.1 id hid
      refine ⟨?_, hr.2⟩
      simp only [ids, setRec, List.map_append, List.map_cons, List.map_nil, List.mem_append, List.mem_singleton]
      rintro (hm | hm)
      · exact hr.1 hm
      · omega
    · intro id hid
      have hp := h.pool_out id hid
      have hlt := h.fresh.2.2 id hid
      simp only [ids, setRec, List.map_append, List.map_cons, List.map_nil, List.mem_append, List.mem_singleton]
      rintro (hm | hm)
      · exact hp hm
      · omega
    · intro e he
      simp only [setRec, List.mem_append, List.mem_singleton] at he ⊢
      rcases he with he | he
      · have := h.own e he
        have hne : e.2 ≠ s.next := fun heq => hfresh (heq ▸ List.mem_map_of_mem (f := (·.2)) he)
        simp only [hne, if_false]; exact this
      · subst he; simp; exact hk

/-- zeroing records that are not in the map keeps the invariant's `own` part -/
theorem zero_fold_recs (l : List Nat) (s : Store) (j : Nat) (hj : j ∉ l) :
    (l.foldl (fun acc id => setRec acc id { (acc.recs id) with sp := 0, voted := [] }) s).recs j = s.recs j := by
  induction l generalizing s with
  | nil => rfl
  | cons a r ih =>
    simp only [List.foldl_cons]
    rw [ih _ (fun h => hj (List.mem_cons_of_mem _ h))]
    have : j ≠ a := fun e => hj (e ▸ List.mem_cons_self)
    simp [setRec, this]

theorem zero_fold_fields (l : List Nat) (s : Store) :
    let s' := l.foldl (fun acc id => setRec acc id { (acc.recs id) with sp := 0, voted := [] }) s
    s'.vrs = s.vrs ∧ s'.removed = s.removed ∧ s'.pool = s.pool ∧ s'.last = s.last ∧ s'.next = s.next := by
  induction l generalizing s with
  | nil => simp
  | cons a r ih =>
    simp only [List.foldl_cons]
    have := ih (setRec s a { (s.recs a) with sp := 0, voted := [] })
    simpa [setRec] using this

theorem inj_of_nodup_map {α β : Type} (f : α → β) : ∀ (l : List α), (l.map f).Nodup →
    ∀ a b, a ∈ l → b ∈ l → f a = f b → a = b := by
  intro l
  induction l with
  | nil => intro _ a b ha; cases ha
  | cons x r ih =>
    intro h a b ha hb hab
    simp only [List.map_cons, List.nodup_cons] at h
    rcases List.mem_cons.mp ha with ha | ha
    · rcases List.mem_cons.mp hb with hb | hb
      · rw [ha, hb]
      · exfalso; apply h.1; rw [← ha, hab]; exact List.mem_map_of_mem hb
    · rcases List.mem_cons.mp hb with hb | hb
      · exfalso; apply h.1; rw [← hb, ← hab]; exact List.mem_map_of_mem ha
      · exact ih h.2 a b ha hb hab

/-- an entry of a key-duplicate-free map is determined by its key -/
theorem entry_of_key (vrs : List (Key × Nat)) (h : (vrs.map (·.1)).Nodup) (e e' : Key × Nat) (he : e ∈ vrs) (he' : e' ∈ vrs)
    (hk : e.1 = e'.1) : e = e' := inj_of_nodup_map (·.1) vrs h e e' he he' hk

theorem inv_clean (s : Store) (h : Inv s) : Inv (clean true s) := by
  unfold clean
  -- state after handing `removed` to the pool
  have hf := zero_fold_fields s.removed { s with pool := s.pool ++ s.removed, removed := [] }
  simp only at hf
  obtain ⟨hv, hr, hp, hl, hn⟩ := hf
  have hrecs : ∀ j, j ∉ s.removed →
      (s.removed.foldl (fun acc id => setRec acc id { (acc.recs id) with sp := 0, voted := [] })
        { s with pool := s.pool ++ s.removed, removed := [] }).recs j = s.recs j :=
    fun j hj => zero_fold_recs s.removed _ j hj
  generalize hs1 : (s.removed.foldl (fun acc id => setRec acc id { (acc.recs id) with sp := 0, voted := [] })
        { s with pool := s.pool ++ s.removed, removed := [] }) = s1 at hv hr hp hl hn hrecs
  have hown1 : ∀ e ∈ s1.vrs, (s1.recs e.2).sp = e.1.1 ∧ (s1.recs e.2).isSC = e.1.2 ∧ e.1.1 ≠ 0 := by
    intro e he
    rw [hv] at he
    have hnot : e.2 ∉ s.removed := fun hm => (h.removed_out _ hm).1 (List.mem_map_of_mem (f := (·.2)) he)
    rw [hrecs _ hnot]; exact h.own e he
  have hinv1 : Inv s1 := by
    refine ⟨by simpa [ids, hv] using h.ids_nodup, by simpa [keys, hv] using h.keys_nodup, ?_, ?_, by simp [hr], ?_, ?_, hown1⟩
    · refine ⟨?_, by simp [hr], ?_⟩
      · intro id hid; rw [hn]; exact h.fresh.1 id (by simpa [ids, hv] using hid)
      · intro id hid; rw [hn]; rw [hp] at hid
        rcases List.mem_append.mp hid with hm | hm
        · exact h.fresh.2.2 id hm
        · exact h.fresh.2.1 id hm
    · rw [hp, List.nodup_append]
      refine ⟨h.pool_nodup, h.removed_nodup, ?_⟩
      intro a ha b hb hab; subst hab; exact (h.removed_out _ hb).2 ha
    · intro id hid; simp [hr] at hid
    · intro id hid; rw [hp] at hid
      simp only [ids, hv]
      rcases List.mem_append.mp hid with hm | hm
      · exact h.pool_out id hm
      · exact (h.removed_out id hm).1
  by_cases hz : s1.last = 0
  · simp only [hz, if_true]; exact hinv1
  · simp only [hz, if_false]
    -- the key computed from a collected record is the key it is stored under
    have hkeys : ∀ e ∈ s1.vrs, ((List.filterMap (fun id => cleanKey true (s1.recs id))
        ((s1.vrs.filter (fun e => decide ((s1.recs e.2).sp < s1.last))).map (·.2))).contains e.1) =
        decide ((s1.recs e.2).sp < s1.last) := by
      intro e he
      apply Bool.eq_iff_iff.mpr
      simp only [List.contains_eq_mem, decide_eq_true_eq, List.mem_filterMap, List.mem_map, List.mem_filter]
      constructor
      · rintro ⟨id, ⟨e', ⟨he', hc⟩, rfl⟩, hk⟩
        have ho := hown1 e' he'
        simp only [cleanKey, Bool.not_true, Bool.and_false, Bool.false_eq_true, if_false, Option.some.injEq] at hk
        have hkk : e'.1 = e.1 := by rw [← hk]; exact Prod.ext ho.1.symm ho.2.1.symm
        have := entry_of_key s1.vrs hinv1.keys_nodup e' e he' he hkk
        rw [← this]; exact hc
      · intro hc
        refine ⟨e.2, ⟨e, ⟨he, hc⟩, rfl⟩, ?_⟩
        have ho := hown1 e he
        simp only [cleanKey, Bool.not_true, Bool.and_false, Bool.false_eq_true, if_false, Option.some.injEq]
        exact Prod.ext ho.1 ho.2.1
    have hfilter : s1.vrs.filter (fun e => !(List.filterMap (fun id => cleanKey true (s1.recs id))
        ((s1.vrs.filter (fun e => decide ((s1.recs e.2).sp < s1.last))).map (·.2))).contains e.1) =
        s1.vrs.filter (fun e => !decide ((s1.recs e.2).sp < s1.last)) := by
      apply List.filter_congr
      intro e he; rw [hkeys e he]
    rw [hfilter]
    have hsub : ∀ (p : Key × Nat → Bool), (s1.vrs.filter p).Sublist s1.vrs := fun p => List.filter_sublist
    constructor
    · exact List.Nodup.sublist (List.Sublist.map _ (hsub _)) hinv1.ids_nodup
    · exact List.Nodup.sublist (List.Sublist.map _ (hsub _)) hinv1.keys_nodup
    · refine ⟨?_, ?_, hinv1.fresh.2.2⟩
      · intro id hid
        obtain ⟨e, he, rfl⟩ := List.mem_map.mp hid
        exact hinv1.fresh.1 _ (List.mem_map_of_mem (f := (·.2)) (List.mem_filter.mp he).1)
      · intro id hid
        obtain ⟨e, he, rfl⟩ := List.mem_map.mp hid
        exact hinv1.fresh.1 _ (List.mem_map_of_mem (f := (·.2)) (List.mem_filter.mp he).1)
    · exact hinv1.pool_nodup
    · exact List.Nodup.sublist (List.Sublist.map _ (hsub _)) hinv1.ids_nodup
    · intro id hid
      obtain ⟨e, he, rfl⟩ := List.mem_map.mp hid
      have hem := (List.mem_filter.mp he)
      refine ⟨?_, ?_⟩
      · intro hm
        obtain ⟨e', he', hid'⟩ := List.mem_map.mp hm
        have hem' := List.mem_filter.mp he'
        -- same id, ids duplicate-free ⇒ same entry; but one satisfies the condition and the other does not
        have : e' = e := by
          have hnd := hinv1.ids_nodup
          simp only [ids] at hnd
          exact inj_of_nodup_map (·.2) s1.vrs hnd e' e hem'.1 hem.1 hid'
        rw [this] at hem'
        simp at hem'
        have := hem.2; simp at this
        exact absurd this (by simpa using hem'.2)
      · intro hm
        exact hinv1.pool_out _ hm (List.mem_map_of_mem (f := (·.2)) hem.1)
    · intro id hid hm
      obtain ⟨e, he, rfl⟩ := List.mem_map.mp hm
      exact hinv1.pool_out _ hid (List.mem_map_of_mem (f := (·.2)) (List.mem_filter.mp he).1)
    · intro e he
      exact hown1 e (List.mem_filter.mp he).1

theorem inv_step (s : Store) (op : Op) (h : Inv s) : Inv (step true s op) := by
  cases op with
  | vote sp isSC node =>
    simp only [step]
    by_cases h0 : sp = 0
    · simp [h0]; exact h
    · simp only [h0, if_false]; exact inv_vote s (sp, isSC) node h h0
  | setLast q =>
    simp only [step, setLast]
    split
    · exact ⟨h.1, h.2, h.3, h.4, h.5, h.6, h.7, h.8⟩
    · exact h
  | clean => exact inv_clean s h

theorem inv_reach (ops : List Op) : Inv (run true ops) := by
  have : ∀ (s : Store), Inv s → Inv (ops.foldl (step true) s) := by
    induction ops with
    | nil => intro s h; exact h
    | cons o r ih => intro s h; exact ih _ (inv_step s o h)
  exact this _ inv_init

/-- **released_once.**  Whatever the votes, advances and cleanups, no record is handed back to the
pool twice, and a record in the pool (or waiting in `removed`) is not reachable from the map any more. -/
theorem released_once (ops : List Op) :
    (run true ops).pool.Nodup ∧ (∀ id ∈ (run true ops).pool, id ∉ ids (run true ops)) ∧
    (∀ id ∈ (run true ops).removed, id ∉ ids (run true ops)) :=
  let h := inv_reach ops
  ⟨h.pool_nodup, h.pool_out, fun id hid => (h.removed_out id hid).1⟩

/-- **isolation.**  A vote for one stage point (and kind) changes the votes recorded for no other. -/
theorem isolation (ops : List Op) (k k' : Key) (node : Nat) (hk : k.1 ≠ 0) (hne : k' ≠ k) :
    votedAt (vote (run true ops) k node) k' = votedAt (run true ops) k' := by
  have h := inv_reach ops
  generalize run true ops = s at h
  unfold vote
  cases hl : lookup s.vrs k with
  | some id =>
    simp only [votedAt, setRec]
    cases hl' : lookup s.vrs k' with
    | none => rfl
    | some id' =>
      simp only
      have hne' : id' ≠ id := by
        intro e; subst e
        have e1 := lookup_some _ _ _ hl
        have e2 := lookup_some _ _ _ hl'
        have hnd := h.ids_nodup
        simp only [ids] at hnd
        have := inj_of_nodup_map (·.2) s.vrs hnd _ _ e2 e1 rfl
        exact hne (Prod.mk.inj this).1
      simp [hne']
  | none =>
    have hkn := lookup_none s.vrs k hl
    simp only [votedAt]
    have hlk : lookup (s.vrs ++ [(k, s.next)]) k' = lookup s.vrs k' := by
      unfold lookup
      rw [List.find?_append]
      cases hf : s.vrs.find? (fun e => e.1 = k') with
      | some e => simp
      | none => simp [List.find?, hne.symm]
    simp only [setRec, hlk]
    cases hl' : lookup s.vrs k' with
    | none => rfl
    | some id' =>
      have hlt := h.fresh.1 id' (List.mem_map_of_mem (f := (·.2)) (lookup_some _ _ _ hl'))
      have : id' ≠ s.next := by omega
      simp [this]

/-- after a cleanup nothing below the last point is left in the map -/
theorem not_consulted (s : Store) (h : Inv s) (hl : s.last ≠ 0) :
    ∀ e ∈ (clean true s).vrs, ¬ ((clean true s).recs e.2).sp < (clean true s).last := by
  have hi := inv_clean s h
  intro e he hlt
  -- `e` survived the filter although it satisfies the collection condition: impossible by `own`
  have ho := hi.own e he
  revert he hlt ho
  unfold clean
  have hf := zero_fold_fields s.removed { s with pool := s.pool ++ s.removed, removed := [] }
  simp only at hf
  generalize (s.removed.foldl (fun acc id => setRec acc id { (acc.recs id) with sp := 0, voted := [] })
        { s with pool := s.pool ++ s.removed, removed := [] }) = s1 at hf
  have hz : ¬ s1.last = 0 := by rw [hf.2.2.2.1]; exact hl
  simp only [hz, if_false]
  intro he hlt ho
  have hmem := List.mem_filter.mp he
  have hcontains := hmem.2
  simp only [Bool.not_eq_true', List.contains_eq_mem, decide_eq_false_iff_not, List.mem_filterMap, List.mem_map,
    List.mem_filter, decide_eq_true_eq, not_exists, not_and] at hcontains
  exact hcontains e.2 ⟨e, ⟨hmem.1, hlt⟩, rfl⟩ (by simp [cleanKey, ho.1, ho.2.1])

/-! ### the code before the repair: `"sign-"` instead of `"sf-"` -/

/-- a suffrage-confirm record below the last point stays in the map, is handed to the pool at the
next cleanup while still reachable, and again at the one after -/
theorem sc_double_release_witness :
    let s := run false [.vote 1 true 7, .setLast 2, .clean, .clean, .clean]
    s.pool = [0, 0] ∧ lookup s.vrs (1, true) = some 0 := by
  decide

theorem facts_ok :
    Gen.C05.scPrefixInsert = Gen.C05.scPrefixRemove ∧ Gen.C05.scPrefixInsert = Gen.C05.scPrefixLookup ∧
    Gen.C05.scPrefixInsert ≠ "" ∧ Gen.C05.extractErrors = [] := by decide

theorem source_pinned : Gen.C05.pins = Pins.C05 := by decide

end Mitum.C05
