import MitumModel.Common
/-
Model of `base.FindMajority` and `base.FindVoteResult` (base/vote.go).

Counts are `Nat` (Go: `uint`; sums of vote counts are far below 2^64).  The
"missing votes" term is `quorum - sum` truncated at 0, which is what the code
computes (`if quorum > sum { missing = quorum - sum }`).

Go iterates the `count` map in an unspecified order; the model takes that order
as the explicit argument `order` (the distinct voted keys in iteration order).
-/
namespace Mitum.Vote

inductive Res where
  | majority (key : String)
  | draw
  | notYet
deriving Repr, DecidableEq

/-- `FindMajority`: index of the first element reaching the (clamped) threshold, else
    `-2` (draw) or `-1` (not yet).  `set` is scanned in the given order; the draw test uses
    the largest element (the code sorts descending and takes `set[0]`). -/
def findMajority (quorum threshold : Nat) (set : List Nat) : Int :=
  let th := min threshold quorum
  match set with
  | [] => -1
  | _ =>
    match set.findIdx? (fun n => decide (th ≤ n)) with
    | some i => (i : Int)
    | none =>
      let sum := set.sum
      let sorted := sortBy (fun a b => decide (b ≤ a)) set
      let top := sorted.headD 0
      let missing := quorum - sum
      if missing + top < th then -2 else -1

/-- last key in `order` whose count equals `c` (`keys[c] = j` is overwritten while iterating) -/
def keyOfCount (votes : List String) (order : List String) (c : Nat) : String :=
  ((order.filter (fun k => votes.count k = c)).getLast?).getD ""

/-- `FindVoteResult` for a given map iteration order -/
def findVoteResult (quorum threshold : Nat) (votes : List String) (order : List String) : Res :=
  let th := min threshold quorum
  match votes with
  | [] => Res.notYet
  | _ =>
    let set := order.map (fun k => votes.count k)
    let sorted := sortBy (fun a b => decide (b ≤ a)) set
    match findMajority quorum th sorted with
    | -1 => Res.notYet
    | -2 => Res.draw
    | Int.ofNat i => Res.majority (keyOfCount votes order (sorted.getD i 0))
    | _ => Res.notYet

/-- distinct keys in first-occurrence order (one admissible iteration order) -/
def keysOf (votes : List String) : List String := votes.eraseDups

/-- Specification, directly from the statement. `th' = min threshold quorum`. -/
def isMajority (quorum threshold : Nat) (votes : List String) (f : String) : Prop :=
  min threshold quorum ≤ votes.count f

def isDraw (quorum threshold : Nat) (votes : List String) : Prop :=
  ∀ f, votes.count f + (quorum - votes.length) < min threshold quorum

end Mitum.Vote
