package main

import (
	"bytes"
	"fmt"
	"sort"
	"strings"
	"sync"
	"time"

	"github.com/spikeekips/mitum/base"
	"github.com/spikeekips/mitum/isaac"
	isaacstates "github.com/spikeekips/mitum/isaac/states"
	"github.com/spikeekips/mitum/util"
	"github.com/spikeekips/mitum/util/valuehash"
)

func init() { register("C04", runC04) }

type c04env struct {
	members   []base.LocalNode // ids 1..n
	wrongkey  []base.LocalNode // id 100+i: the address of member i under another key
	outsider  []base.LocalNode // ids 8, 9
	suf       base.Suffrage
	point     base.Point
	prev      util.Hash
	props     map[string]util.Hash
	id        map[string]int // address -> member id
	known     bool
	mu        sync.Mutex
	emptyFact *isaac.EmptyProposalINITBallotFact
	avp       base.ACCEPTVoteproof // the ACCEPT voteproof of the previous height, carried by the ballots that bring expels
}

// carried: the voteproof a 0 round INIT ballot carries (a ballot without one is not a valid ballot; the box keeps the
// carried voteproof per node, and that is also how it knows the node has voted)
func (e *c04env) carried() base.ACCEPTVoteproof {
	e.mu.Lock()
	defer e.mu.Unlock()
	if e.avp == nil {
		afact := isaac.NewACCEPTBallotFact(e.point.PrevHeight(), valuehash.RandomSHA256(), e.prev, nil)
		sfs := make([]base.BallotSignFact, len(e.members))
		for i, m := range e.members {
			sf := isaac.NewACCEPTBallotSignFact(afact)
			_ = sf.NodeSign(m.Privatekey(), hNetworkID, m.Address())
			sfs[i] = sf
		}
		avp := isaac.NewACCEPTVoteproof(afact.Point().Point)
		avp.SetMajority(afact).SetSignFacts(sfs).SetThreshold(base.Threshold(67)).Finish()
		e.avp = avp
	}
	return e.avp
}

func c04newEnv(n int) (*c04env, error) {
	e := &c04env{point: base.NewPoint(base.Height(33), base.Round(0)), prev: valuehash.RandomSHA256(), props: map[string]util.Hash{}, id: map[string]int{}, known: true}
	nodes := make([]base.Node, n)
	for i := 0; i < n; i++ {
		ln := base.RandomLocalNode()
		e.members = append(e.members, ln)
		e.wrongkey = append(e.wrongkey, isaac.NewLocalNode(base.NewMPrivatekey(), ln.Address()))
		e.id[ln.Address().String()] = i + 1
		nodes[i] = ln
	}
	e.outsider = []base.LocalNode{base.RandomLocalNode(), base.RandomLocalNode()}
	e.id[e.outsider[0].Address().String()] = 8
	e.id[e.outsider[1].Address().String()] = 9
	suf, err := isaac.NewSuffrage(nodes)
	if err != nil {
		return nil, err
	}
	e.suf = suf
	return e, nil
}

func (e *c04env) node(id int) base.LocalNode {
	switch {
	case id >= 1 && id <= len(e.members):
		return e.members[id-1]
	case id == 8 || id == 9:
		return e.outsider[id-8]
	case id > 100 && id-100 <= len(e.members):
		return e.wrongkey[id-101]
	}
	return nil
}

// the id of the signer of a sign fact: member id, or 100+id when the key is not the member's key
func (e *c04env) signerID(sf base.BallotSignFact) int {
	id := e.id[sf.Node().String()]
	if id >= 1 && id <= len(e.members) && !e.members[id-1].Publickey().Equal(sf.Signer()) {
		return 100 + id
	}
	return id
}

func (e *c04env) proposal(name string) util.Hash {
	if _, ok := e.props[name]; !ok {
		e.props[name] = valuehash.RandomSHA256()
	}
	return e.props[name]
}

func (e *c04env) factName(h util.Hash) string {
	for k, v := range e.props {
		if v.Equal(h) {
			return k
		}
	}
	return "?"
}

// expel operations for the given members, each signed by every other member; the bad ones are signed by a node that
// is not in the suffrage (well-formed, and refused by the validation against the suffrage)
func (e *c04env) expels(ids []int, bad bool) ([]base.SuffrageExpelOperation, []util.Hash) {
	var ops []base.SuffrageExpelOperation
	var facts []util.Hash
	for _, x := range ids {
		reason := "dead"
		if bad {
			reason = "dead, says a stranger"
		}
		f := isaac.NewSuffrageExpelFact(e.node(x).Address(), e.point.Height()-1, e.point.Height()+5, reason)
		op := isaac.NewSuffrageExpelOperation(f)
		for i := range e.members {
			if i+1 != x && !bad {
				_ = op.NodeSign(e.members[i].Privatekey(), hNetworkID, e.members[i].Address())
			}
		}
		if bad {
			_ = op.NodeSign(e.outsider[0].Privatekey(), hNetworkID, e.outsider[0].Address())
		}
		ops = append(ops, op)
		facts = append(facts, f.Hash())
	}
	return ops, facts
}

type c04emitted struct {
	vp   base.Voteproof
	line string
}

func (e *c04env) describe(vp base.Voteproof) string {
	if vp.Point().Stage() != base.StageINIT {
		return fmt.Sprintf("carried[%v]", vp.Point())
	}
	var vs []string
	for _, sf := range vp.SignFacts() {
		bf := sf.Fact().(base.INITBallotFact)
		vs = append(vs, fmt.Sprintf("%d=%s", e.signerID(sf), e.factName(bf.Proposal())))
	}
	sort.Slice(vs, func(i, j int) bool {
		var a, b int
		fmt.Sscanf(vs[i], "%d", &a)
		fmt.Sscanf(vs[j], "%d", &b)
		return a < b
	})
	m := "-"
	if vp.Majority() != nil {
		m = e.factName(vp.Majority().(base.INITBallotFact).Proposal())
	}
	var xs []string
	if w, ok := vp.(base.HasExpels); ok {
		for _, x := range w.Expels() {
			xs = append(xs, fmt.Sprint(e.id[x.ExpelFact().Node().String()]))
		}
		sort.Strings(xs)
	}
	return fmt.Sprintf("%s[%s]x[%s]", m, strings.Join(vs, ","), strings.Join(xs, ","))
}

// the property's statement on one emitted voteproof, decided by the real validators
func (e *c04env) oracle(c *Ctx, vp base.Voteproof, what string, input map[string]interface{}) {
	if e.avp != nil && vp.Point().Equal(e.avp.Point()) && bytes.Equal(vp.HashBytes(), e.avp.HashBytes()) {
		// the voteproof the ballots carried, handed on by the box: judged as another node judges it
		if err := isaac.IsValidVoteproofWithSuffrage(vp, e.suf); err != nil {
			c.Violation("C04:carried-voteproof-fails-validation", fmt.Sprintf("%s: the carried %v fails IsValidVoteproofWithSuffrage: %s", what, vp.Point(), c16short(err)), input)
		}
		return
	}
	input["voteproof"] = e.describe(vp)
	if !vp.Point().Point.Equal(e.point) || vp.Point().Stage() != base.StageINIT {
		c.Violation("C04:voteproof-of-unvoted-point", fmt.Sprintf("%s: emitted a voteproof of %v", what, vp.Point()), input)
		return
	}
	seen := map[string]bool{}
	for _, sf := range vp.SignFacts() {
		if seen[sf.Node().String()] {
			c.Violation("C04:node-twice-in-voteproof", fmt.Sprintf("%s: node %d twice", what, e.id[sf.Node().String()]), input)
			return
		}
		seen[sf.Node().String()] = true
		if !e.suf.ExistsPublickey(sf.Node(), sf.Signer()) {
			cls := "C04:unchecked-signer-key"
			if !e.suf.Exists(sf.Node()) {
				cls = "C04:outsider-in-voteproof"
			}
			c.Violation(cls, fmt.Sprintf("%s: emitted voteproof %s holds the sign fact of %d, who is not a suffrage node under that key", what, e.describe(vp), e.signerID(sf)), input)
			return
		}
	}
	if err := vp.IsValid(hNetworkID); err != nil {
		c.Violation("C04:emitted-voteproof-invalid", fmt.Sprintf("%s: %s fails IsValid: %s", what, e.describe(vp), c16short(err)), input)
		return
	}
	if err := isaac.IsValidVoteproofWithSuffrage(vp, e.suf); err != nil {
		cls := "C04:emitted-voteproof-fails-validation"
		// the recorded disagreement of the two expel rules: no more expels than the tolerable faulty nodes, counted over the
		// full suffrage by the box and over the reduced one, at 100 %, by the validation
		n := uint(e.suf.Len())
		if w, ok := vp.(base.HasExpels); ok && len(w.Expels()) > 0 && uint(len(w.Expels())) <= n-base.DefaultThreshold.Threshold(n) &&
			strings.Contains(err.Error(), "wrong result") {
			cls = "C04:expel-recount-mismatch"
		} else if vp.Result() == base.VoteResultDraw && vp.Majority() == nil {
			// the recount's majority is an empty-proposal fact (SetMajority does not set it)
			set, m := base.CountBallotSignFacts(vp.SignFacts())
			if res, key := vp.Threshold().VoteResult(uint(e.suf.Len()), set); res == base.VoteResultMajority {
				if _, ok := m[key].(isaac.EmptyProposalINITBallotFact); ok {
					cls = "C04:empty-proposal-majority-recounts-as-majority"
				}
			}
		}
		c.Violation(cls, fmt.Sprintf("%s: %s fails IsValidVoteproofWithSuffrage: %s", what, e.describe(vp), c16short(err)), input)
	}
}

func (e *c04env) newBox(th base.Threshold) *isaacstates.Ballotbox {
	return isaacstates.NewBallotbox(e.members[0].Address(), func() base.Threshold { return th },
		func(base.Height) (base.Suffrage, bool, error) {
			e.mu.Lock()
			defer e.mu.Unlock()
			if !e.known {
				return nil, false, nil
			}
			return e.suf, true, nil
		})
}

func (e *c04env) ballot(id int, fact string, expelIDs []int) base.Ballot {
	return e.ballotX(id, fact, expelIDs, false)
}

func (e *c04env) ballotX(id int, fact string, expelIDs []int, bad bool) base.Ballot {
	ops, efacts := e.expels(expelIDs, bad)
	var f base.INITBallotFact = isaac.NewINITBallotFact(e.point, e.prev, e.proposal(fact), efacts)
	if fact == "E" && len(expelIDs) == 0 {
		// the fact a node votes when it has no proposal to offer.  Every node makes its own (the fact carries a random
		// string), so honest nodes never agree on one; "E" is ONE such fact that several nodes sign (the only node of a
		// one-node suffrage, or nodes that sign a fact they received)
		e.mu.Lock()
		if e.emptyFact == nil {
			x := isaac.NewEmptyProposalINITBallotFact(e.point, e.prev, e.proposal(fact))
			e.emptyFact = &x
		}
		f = *e.emptyFact
		e.mu.Unlock()
	}
	sf := isaac.NewINITBallotSignFact(f)
	ln := e.node(id)
	_ = sf.NodeSign(ln.Privatekey(), hNetworkID, ln.Address())
	if len(expelIDs) > 0 {
		return isaac.NewINITBallot(e.carried(), sf, ops)
	}
	return isaac.NewINITBallot(nil, sf, ops)
}

func c04drain(box *isaacstates.Ballotbox, wait time.Duration) []base.Voteproof {
	var out []base.Voteproof
	for {
		select {
		case vp := <-box.Voteproof():
			out = append(out, vp)
		case <-time.After(wait):
			return out
		}
	}
}

func runC04(c *Ctx) error {
	n := 250
	if c.Thorough() {
		n = 6000
	}
	// the recorded witness of the two expel rules disagreeing, replayed on every run
	{
		e, err := c04newEnv(7)
		if err != nil {
			return err
		}
		box := e.newBox(base.Threshold(67))
		var toks []string
		for id, fact := range map[int]string{1: "A", 2: "A", 3: "A", 4: "A", 5: "A", 6: "B"} {
			_, _ = box.Vote(e.ballot(id, fact, []int{7}))
			toks = append(toks, fmt.Sprintf("v:%d:%s:x7", id, fact))
		}
		sort.Strings(toks)
		box.Count()
		for _, vp := range c04drain(box, 3*time.Millisecond) {
			e.oracle(c, vp, "script "+strings.Join(toks, " ")+" c", map[string]interface{}{"suffrage": 7, "t10": 670, "script": toks})
		}
		c.Eval(1)
	}
	// the recorded witness of an empty-proposal majority, replayed on every run
	{
		e, err := c04newEnv(3)
		if err != nil {
			return err
		}
		box := e.newBox(base.Threshold(67))
		toks := []string{"v:1:E", "v:2:E", "v:3:E"}
		for id := 1; id <= 3; id++ {
			_, _ = box.Vote(e.ballot(id, "E", nil))
		}
		box.Count()
		var total []string
		for _, vp := range c04drain(box, 3*time.Millisecond) {
			total = append(total, e.describe(vp))
			e.oracle(c, vp, "script "+strings.Join(toks, " ")+" c", map[string]interface{}{"suffrage": 3, "t10": 670, "script": toks})
		}
		res := "-"
		if len(total) > 0 {
			res = strings.Join(total, "+")
		}
		c.Case("box 3 670 1 ; "+strings.Join(toks, " ")+" c", res)
	}
	// more expels than tolerable faulty nodes: the box counts over the reduced suffrage at 100 %, as the validation does
	{
		e, err := c04newEnv(6)
		if err != nil {
			return err
		}
		box := e.newBox(base.Threshold(67))
		toks := []string{"v:1:A:x5.6", "v:2:A:x5.6", "v:3:A:x5.6", "v:4:B:x5.6"}
		for id, fact := range map[int]string{1: "A", 2: "A", 3: "A", 4: "B"} {
			_, _ = box.Vote(e.ballot(id, fact, []int{5, 6}))
		}
		box.Count()
		for _, vp := range c04drain(box, 3*time.Millisecond) {
			c.Count("directed", "two-expels-of-six-split-3-1:"+e.describe(vp)+":"+vp.Result().String())
			e.oracle(c, vp, "script "+strings.Join(toks, " ")+" c", map[string]interface{}{"suffrage": 6, "t10": 670, "script": toks})
		}
		c.Eval(1)
	}
	// a ballot with expels the suffrage does not accept, kept while the suffrage was unknown and dropped by the count:
	// nothing of it may come back with a later ballot of the same node
	{
		e, err := c04newEnv(4)
		if err != nil {
			return err
		}
		e.known = false
		box := e.newBox(base.Threshold(67))
		toks := []string{"v:4:A:xb3", "k", "c", "v:4:A", "v:1:A", "v:2:A", "v:3:A", "c"}
		_, _ = box.Vote(e.ballotX(4, "A", []int{3}, true))
		e.mu.Lock()
		e.known = true
		e.mu.Unlock()
		box.Count()
		got := c04drain(box, 2*time.Millisecond)
		for _, id := range []int{4, 1, 2, 3} {
			_, _ = box.Vote(e.ballot(id, "A", nil))
			got = append(got, c04drain(box, time.Millisecond)...)
		}
		box.Count()
		got = append(got, c04drain(box, 3*time.Millisecond)...)
		for _, vp := range got {
			c.Count("directed", "dropped-ballot-with-bad-expels:"+e.describe(vp)+":"+vp.Result().String())
			e.oracle(c, vp, "script "+strings.Join(toks, " "), map[string]interface{}{"suffrage": 4, "t10": 670, "script": toks})
		}
		c.Eval(1)
	}
	for i := 0; i < n; i++ {
		size := 1 + c.Intn(7)
		e, err := c04newEnv(size)
		if err != nil {
			return err
		}
		withEmpty := c.Chance(1, 5) // some nodes have no proposal to offer and vote the empty-proposal fact
		t10 := []int{670, 670, 670, 600, 1000, 510}[c.Intn(6)]
		th := base.Threshold(float64(t10) / 10)
		e.known = !c.Chance(1, 5)
		knownFromStart := e.known
		box := e.newBox(th)
		withExpels := c.Chance(1, 4) && size >= 3
		var expelIDs []int
		if withExpels {
			k := 1
			if size >= 5 && c.Bool() {
				k = 2
			}
			if size >= 6 && c.Chance(1, 3) {
				k = 3
			}
			for _, x := range c.Perm(size)[:k] {
				if x+1 != 1 { // never the local node
					expelIDs = append(expelIDs, x+1)
				}
			}
			sort.Ints(expelIDs)
			withExpels = len(expelIDs) > 0
		}
		var toks, outs []string
		var all []base.Voteproof
		nops := 2 + c.Intn(2*size+3)
		for st := 0; st < nops; st++ {
			var tok string
			switch k := c.Intn(12); {
			case k < 8:
				id := 1 + c.Intn(size)
				switch c.Intn(14) {
				case 0:
					id = 100 + id // the member's address under a foreign key
				case 1:
					id = 8 + c.Intn(2)
				}
				fact := []string{"A", "A", "A", "B", "C"}[c.Intn(5)]
				if withEmpty && !withExpels && c.Chance(2, 3) {
					fact = "E"
				}
				tok = fmt.Sprintf("v:%d:%s", id, fact)
				var x []int
				bad := false
				if withExpels && c.Chance(3, 4) {
					x = expelIDs
					bad = !e.known && c.Chance(1, 3) // only a ballot kept for later can carry expels the suffrage refuses
					var xs []string
					for _, y := range x {
						xs = append(xs, fmt.Sprint(y))
					}
					tok += ":x" + map[bool]string{true: "b", false: ""}[bad] + strings.Join(xs, ".")
				}
				if len(x) == 0 && c.Chance(1, 3) { // a bare sign fact, as the SendBallots handler hands it over
					tok = "s" + tok[1:]
					_, _ = box.VoteSignFact(e.ballot(id, fact, nil).SignFact())
				} else {
					_, _ = box.Vote(e.ballotX(id, fact, x, bad))
				}
			case k < 10:
				tok = "c"
				box.Count()
			default:
				if !e.known {
					tok = "k" // the suffrage of the height becomes known
					e.mu.Lock()
					e.known = true
					e.mu.Unlock()
				} else {
					tok = "c"
					box.Count()
				}
			}
			// the vote's own count runs in a goroutine: let it finish, then count once more ourselves
			got := c04drain(box, 400*time.Microsecond)
			toks = append(toks, tok)
			var ds []string
			for _, vp := range got {
				ds = append(ds, e.describe(vp))
				all = append(all, vp)
			}
			if len(ds) == 0 {
				outs = append(outs, "-")
			} else {
				outs = append(outs, strings.Join(ds, "+"))
			}
			c.Count("op", tok[:1])
		}
		all = append(all, c04drain(box, 2*time.Millisecond)...)
		head := fmt.Sprintf("box %d %d %s ;", size, t10, b01(e.known || true))
		input := map[string]interface{}{"suffrage": size, "t10": t10, "script": toks}
		for _, vp := range all {
			e.oracle(c, vp, "script "+strings.Join(toks, " "), input)
		}
		c.Count("emitted", fmt.Sprint(len(all)))
		// what was emitted, in total (the moment of emission depends on the vote's own goroutine)
		var total []string
		for _, vp := range all {
			total = append(total, e.describe(vp))
		}
		res := "-"
		if len(total) > 0 {
			res = strings.Join(total, "+")
		}
		switch {
		case withExpels:
			c.Eval(1)
			c.Count("scripts", "with-expels-oracle-only")
		case !knownFromStart:
			c.Eval(1)
			c.Count("scripts", "suffrage-known-later-oracle-only")
		default:
			c.Case(head+" "+strings.Join(toks, " "), res)
		}
		c.Nontrivial(head + strings.Join(toks, " "))
		if i%40 == 0 {
			c.Sample(map[string]interface{}{"suffrage": size, "t10": t10, "script": toks, "emitted": total, "per_step": outs})
		}
	}
	// long runs: one box, consecutive stage points with honest votes; every voteproof is judged when it is emitted
	// AND again at the end, when the records it came from have long been recycled
	runs := 3
	if c.Thorough() {
		runs = 60
	}
	for r := 0; r < runs; r++ {
		size := 3 + c.Intn(4)
		e, err := c04newEnv(size)
		if err != nil {
			return err
		}
		box := e.newBox(base.Threshold(67))
		type kept struct {
			vp   base.Voteproof
			desc string
		}
		var keep []kept
		prev := valuehash.RandomSHA256()
		heights := 6 + c.Intn(8)
		for h := 0; h < heights; h++ {
			round := base.Round(0)
			voteAll := func(point base.Point, stage base.Stage, a, b util.Hash, split bool) []base.Voteproof {
				for j, id := range c.Perm(size) {
					ln := e.members[id]
					var sf base.BallotSignFact
					if stage == base.StageINIT {
						proposal := a
						if split && j%2 == 1 {
							proposal = valuehash.RandomSHA256() // every second node votes for a proposal of its own
						}
						x := isaac.NewINITBallotSignFact(isaac.NewINITBallotFact(point, prev, proposal, nil))
						_ = x.NodeSign(ln.Privatekey(), hNetworkID, ln.Address())
						sf = x
					} else {
						x := isaac.NewACCEPTBallotSignFact(isaac.NewACCEPTBallotFact(point, a, b, nil))
						_ = x.NodeSign(ln.Privatekey(), hNetworkID, ln.Address())
						sf = x
					}
					_, _ = box.VoteSignFact(sf)
				}
				box.Count()
				return c04drain(box, 500*time.Microsecond)
			}
			if c.Chance(1, 3) {
				// round 0 ends in an INIT draw: the ACCEPT stage of that round is over before it began
				point := base.NewPoint(base.Height(int64(33+h)), round)
				proposal, newblock := valuehash.RandomSHA256(), valuehash.RandomSHA256()
				var drew bool
				for _, vp := range voteAll(point, base.StageINIT, proposal, nil, true) {
					keep = append(keep, kept{vp: vp, desc: c04describeAny(e, vp)})
					if vp.Point().Stage() == base.StageINIT && vp.Result() == base.VoteResultDraw {
						drew = true
					}
				}
				c.Count("long-run-round0", map[bool]string{true: "init-draw", false: "split-without-draw"}[drew])
				if drew {
					for _, vp := range voteAll(point, base.StageACCEPT, proposal, newblock, false) {
						keep = append(keep, kept{vp: vp, desc: c04describeAny(e, vp)})
						if vp.Point().Point.Equal(point) {
							c.Violation("C04:voteproof-of-a-finished-round", fmt.Sprintf("long run: after the INIT draw of %v the box still votes on its ACCEPT ballots and emits %v (%v)", point, vp.Point(), vp.Result()),
								map[string]interface{}{"suffrage": size, "point": point.String(), "emitted": vp.Point().String()})
						}
					}
					round = 1
				}
			}
			point := base.NewPoint(base.Height(int64(33+h)), round)
			proposal, newblock := valuehash.RandomSHA256(), valuehash.RandomSHA256()
			for _, stage := range []base.Stage{base.StageINIT, base.StageACCEPT} {
				a, b := proposal, util.Hash(nil)
				if stage == base.StageACCEPT {
					b = newblock
				}
				for _, vp := range voteAll(point, stage, a, b, false) {
					keep = append(keep, kept{vp: vp, desc: c04describeAny(e, vp)})
				}
			}
			prev = newblock
		}
		c.Eval(len(keep))
		c.Count("long-run-voteproofs", fmt.Sprint(len(keep)))
		for i, k := range keep {
			in := map[string]interface{}{"suffrage": size, "heights": heights, "voteproof_index": i, "of": len(keep), "point": k.vp.Point().String()}
			if now := c04describeAny(e, k.vp); now != k.desc {
				c.Violation("C04:emitted-voteproof-changes-later", fmt.Sprintf("long run over %d heights: voteproof %d of %d (%s) read %q when it was emitted and reads %q at the end", heights, i, len(keep), k.vp.Point(), k.desc, now), in)
				continue
			}
			if err := k.vp.IsValid(hNetworkID); err != nil {
				c.Violation("C04:emitted-voteproof-invalid", fmt.Sprintf("long run: voteproof %d (%s) fails IsValid at the end: %s", i, k.vp.Point(), c16short(err)), in)
				continue
			}
			if err := isaac.IsValidVoteproofWithSuffrage(k.vp, e.suf); err != nil {
				c.Violation("C04:emitted-voteproof-fails-validation", fmt.Sprintf("long run: voteproof %d (%s) fails IsValidVoteproofWithSuffrage at the end: %s", i, k.vp.Point(), c16short(err)), in)
			}
		}
	}
	// concurrent voters: only the oracle
	rounds := 40
	if c.Thorough() {
		rounds = 800
	}
	for r := 0; r < rounds; r++ {
		size := 3 + c.Intn(5)
		e, err := c04newEnv(size)
		if err != nil {
			return err
		}
		box := e.newBox(base.Threshold(67))
		var wg sync.WaitGroup
		var desc []string
		for id := 1; id <= size; id++ {
			fact := []string{"A", "A", "B"}[c.Intn(3)]
			who := id
			if c.Chance(1, 12) {
				who = 100 + id
			}
			desc = append(desc, fmt.Sprintf("%d:%s", who, fact))
			bl := e.ballot(who, fact, nil)
			wg.Add(1)
			go func() {
				defer wg.Done()
				_, _ = box.Vote(bl)
				box.Count()
			}()
		}
		wg.Wait()
		got := c04drain(box, 3*time.Millisecond)
		c.Eval(1)
		c.Count("concurrent-emitted", fmt.Sprint(len(got)))
		if len(got) > 1 {
			c.Violation("C04:two-voteproofs-for-one-stage-point", fmt.Sprintf("concurrent voters %v: %d voteproofs emitted for one stage point", desc, len(got)), map[string]interface{}{"voters": desc})
		}
		for _, vp := range got {
			e.oracle(c, vp, fmt.Sprintf("concurrent voters %v", desc), map[string]interface{}{"voters": desc, "suffrage": size})
		}
	}
	return c04carried(c)
}

// a voteproof of any stage point: its point, result and the (signer, fact hash prefix) pairs
func c04describeAny(e *c04env, vp base.Voteproof) string {
	var vs []string
	for _, sf := range vp.SignFacts() {
		vs = append(vs, fmt.Sprintf("%d=%s@%s", e.signerID(sf), sf.Fact().Hash().String()[:6], sf.Fact().(base.BallotFact).Point()))
	}
	sort.Strings(vs)
	m := "-"
	if vp.Majority() != nil {
		m = vp.Majority().Hash().String()[:6]
	}
	return fmt.Sprintf("%s %s %s[%s]", vp.Point(), vp.Result(), m, strings.Join(vs, ","))
}
