def hello := "world"
