import MitumModel.Common
import MitumModel.Model.Vote
import MitumModel.Model.Threshold
/-
Model of the validation other nodes apply to a voteproof for a given suffrage:
`isaac.IsValidVoteproofWithSuffrage` (isaac/voteproof_isvalid.go) with
`IsValidExpelWithSuffrage`, `NewSuffrageWithExpels` (isaac/suffrage.go),
`base.IsValidVoteproofWithSuffrage` (recount) and the structural checks of
`IsValid` that matter for counting (distinct sign nodes, distinct expelled nodes,
no vote of an expelled node, distinct signers of an expel, at least one node
sign).

A node is a number: the pair (address, key) registered in the suffrage; a sign
with a key that is not the suffrage's key for that address is a node outside the
suffrage.  A ballot fact is its hash (a string).  A stuck voteproof is not
recounted; it must carry no majority (`stuckNoMajority`: the repaired
`baseStuckVoteproof.isValid`; the code before the repair did not check that).
-/
namespace Mitum.Voteproof
open Mitum.Vote Mitum.Threshold

structure Expel where
  node : Nat
  signers : List Nat          -- nodes of all signs of the operation
deriving Repr, DecidableEq

/-- `SuffrageExpelOperation.NodeSigns`: the expelled node's own sign does not count -/
def Expel.nodeSigns (e : Expel) : List Nat := e.signers.filter (· ≠ e.node)

structure VP where
  votes : List (Nat × String)   -- sign facts: (node, fact)
  expels : List Expel
  majority : Option String      -- `none` = draw
  stuck : Bool := false
  /-- some sign fact, or the majority, is a fact of another stage point (height, round or stage) -/
  offPoint : Bool := false
deriving Repr, DecidableEq

def VP.expelled (vp : VP) : List Nat := vp.expels.map (·.node)

/-- `NewSuffrageWithExpels`: number of node signs every expel needs -/
def expelSignThreshold (n t10 k : Nat) : Nat :=
  let th := required n t10
  if n - th < k then n - k else th

def nodup (l : List Nat) : Bool := decide l.Nodup

def expelOK (S : List Nat) (th : Nat) (e : Expel) : Bool :=
  S.contains e.node && nodup e.signers && !e.nodeSigns.isEmpty &&
  e.nodeSigns.all (S.contains ·) && decide (th ≤ e.nodeSigns.length)

/-- the suffrage the votes are counted in, and the threshold (tenths of a percent) -/
def reduced (S : List Nat) (t10 : Nat) (vp : VP) : List Nat × Nat :=
  if vp.expels.isEmpty then (S, t10) else (S.filter (fun x => !vp.expelled.contains x), 1000)

def expectedRes (vp : VP) : Res :=
  match vp.majority with
  | some f => .majority f
  | none => .draw

/-- accepted by `IsValid` (counting-relevant part) and `IsValidVoteproofWithSuffrage`;
`order` is the iteration order of the vote-count map -/
def validWith (S : List Nat) (t10 : Nat) (order : List String) (vp : VP) (stuckNoMajority : Bool := true) : Bool :=
  let rs := reduced S t10 vp
  !vp.votes.isEmpty &&
  nodup (vp.votes.map (·.1)) &&
  (vp.expels.isEmpty ||
    (nodup vp.expelled &&
     vp.votes.all (fun v => !vp.expelled.contains v.1) &&
     vp.expels.all (expelOK S (expelSignThreshold S.length t10 vp.expels.length)))) &&
  vp.votes.all (fun v => rs.1.contains v.1) &&
  (vp.stuck || decide (findVoteResult rs.1.length (required rs.1.length rs.2) (vp.votes.map (·.2)) order = expectedRes vp)) &&
  (!vp.stuck ||
    (!vp.expels.isEmpty && decide (t10 = 1000) && decide (S.length = vp.votes.length + vp.expels.length) &&
     (!stuckNoMajority || vp.majority.isNone) &&
     -- `isValidVoteproofVoteResult`: a declared majority must be one of the sign facts
     (match vp.majority with | some f => (vp.votes.map (·.2)).contains f | none => true))) &&
  -- `isValidFactInVoteproof`: every sign fact and the majority are facts of the voteproof's stage point
  !vp.offPoint

def valid (S : List Nat) (t10 : Nat) (vp : VP) (stuckNoMajority : Bool := true) : Bool :=
  validWith S t10 (keysOf (vp.votes.map (·.2))) vp stuckNoMajority

/-- nodes that signed `x` in `A` and `y` in `B` -/
def votersFor (vp : VP) (f : String) : List Nat := (vp.votes.filter (fun v => v.2 = f)).map (·.1)

def equivocators (A B : VP) (x y : String) : List Nat :=
  (votersFor A x).filter (fun n => (votersFor B y).contains n)

end Mitum.Voteproof
