package main

import (
	"bytes"
	"context"
	"encoding/hex"
	"fmt"
	"io"
	"strings"

	"github.com/pkg/errors"
	"github.com/spikeekips/mitum/base"
	isaacnetwork "github.com/spikeekips/mitum/isaac/network"
	"github.com/spikeekips/mitum/launch"
	"github.com/spikeekips/mitum/network/quicstream"
	quicstreamheader "github.com/spikeekips/mitum/network/quicstream/header"
	"github.com/spikeekips/mitum/util/encoder"
	jsonenc "github.com/spikeekips/mitum/util/encoder/json"
	"github.com/spikeekips/mitum/util/valuehash"
)

func init() { register("C30", runC30) }

// a reader that hands out the stream in the given chunks; the end of the
// stream is reported after the last chunk (n=0, io.EOF), or together with the
// last bytes when eofWithData is set (oracle-only cases)
type c30reader struct {
	chunks      [][]byte
	eofWithData bool
}

func (r *c30reader) Read(p []byte) (int, error) {
	for len(r.chunks) > 0 && len(r.chunks[0]) == 0 {
		r.chunks = r.chunks[1:]
	}
	if len(r.chunks) == 0 {
		return 0, io.EOF
	}
	n := copy(p, r.chunks[0])
	r.chunks[0] = r.chunks[0][n:]
	if r.eofWithData && len(r.chunks) == 1 && len(r.chunks[0]) == 0 {
		r.chunks = nil
		return n, io.EOF
	}
	return n, nil
}

type c30nopCloser struct{ *bytes.Buffer }

func (c30nopCloser) Close() error { return nil }

type c30head struct {
	payload []byte
	kind    int // 1 request, 3 response, 0 = does not decode
	token   string
}

type c30env struct {
	encs   *encoder.Encoders
	enc    encoder.Encoder
	pool   []c30head
	prefix quicstream.HandlerPrefix
}

func c30token(h quicstreamheader.Header) (int, string) {
	switch t := h.(type) {
	case isaacnetwork.BlockMapRequestHeader:
		return 1, fmt.Sprintf("bm%d", t.Height())
	case isaacnetwork.OperationRequestHeader:
		return 1, "op" + t.Operation().String()[:8]
	case isaacnetwork.StateRequestHeader:
		return 1, "st" + t.Key()
	case quicstreamheader.DefaultResponseHeader:
		e := ""
		if t.Err() != nil {
			e = t.Err().Error()
		}
		return 3, fmt.Sprintf("res%v%s", t.OK(), e)
	}
	if _, ok := h.(quicstreamheader.RequestHeader); ok {
		return 1, "req"
	}
	if _, ok := h.(quicstreamheader.ResponseHeader); ok {
		return 3, "res"
	}
	return 0, "?"
}

func c30newEnv() (*c30env, error) {
	enc := jsonenc.NewEncoder()
	encs := encoder.NewEncoders(enc, enc)
	if err := launch.LoadHinters(encs); err != nil {
		return nil, err
	}
	e := &c30env{encs: encs, enc: enc, prefix: quicstream.HashPrefix("verif-handler")}
	hs := []quicstreamheader.Header{
		isaacnetwork.NewBlockMapRequestHeader(base.Height(33)),
		isaacnetwork.NewBlockMapRequestHeader(base.Height(7)),
		isaacnetwork.NewOperationRequestHeader(valuehash.RandomSHA256()),
		isaacnetwork.NewStateRequestHeader("k1", valuehash.RandomSHA256()),
		quicstreamheader.NewDefaultResponseHeader(true, nil),
		quicstreamheader.NewDefaultResponseHeader(false, errors.New("tok17")),
		quicstreamheader.NewDefaultResponseHeader(false, nil),
	}
	for _, h := range hs {
		b, err := enc.Marshal(h)
		if err != nil {
			return nil, err
		}
		e.pool = append(e.pool, c30head{payload: b})
	}
	for _, raw := range []string{`{}`, `null`, `{"_hint":"no-such-thing-v0.0.1"}`, `[1,2`, `"x"`, ``, `{"_hint":"quicstream-default-response-header-v0.0.1","ok":"yes"}`,
		`{"_hint":"block-map-request-header-v0.0.1","height":-5}`} {
		e.pool = append(e.pool, c30head{payload: []byte(raw)})
	}
	for i := range e.pool {
		var h quicstreamheader.Header
		func() {
			defer func() {
				if r := recover(); r != nil {
					e.pool[i].kind, e.pool[i].token = 0, "decode-panic"
				}
			}()
			if err := encoder.Decode(enc, e.pool[i].payload, &h); err != nil || h == nil {
				e.pool[i].kind, e.pool[i].token = 0, "-"
				return
			}
			e.pool[i].kind, e.pool[i].token = c30token(h)
		}()
	}
	return e, nil
}

func c30hex(b []byte) string {
	if len(b) == 0 {
		return "-"
	}
	return hex.EncodeToString(b)
}

func c30be64(n uint64) []byte {
	b := make([]byte, 8)
	for i := 0; i < 8; i++ {
		b[7-i] = byte(n >> (8 * uint(i)))
	}
	return b
}

// written by the real writer side
func (e *c30env) writeHead(pi int) ([]byte, error) {
	var h quicstreamheader.Header
	if err := encoder.Decode(e.enc, e.pool[pi].payload, &h); err != nil {
		return nil, err
	}
	buf := &bytes.Buffer{}
	switch t := h.(type) {
	case quicstreamheader.RequestHeader:
		b := quicstreamheader.NewClientBroker(e.encs, e.enc, bytes.NewReader(nil), c30nopCloser{buf})
		if err := b.WriteRequestHead(context.Background(), t); err != nil {
			return nil, err
		}
		return buf.Bytes()[len(e.prefix):], nil // the prefix is consumed by the prefix handler
	case quicstreamheader.ResponseHeader:
		b := quicstreamheader.NewHandlerBroker(e.encs, e.enc, bytes.NewReader(nil), c30nopCloser{buf})
		if err := b.WriteResponseHead(context.Background(), t); err != nil {
			return nil, err
		}
		return buf.Bytes(), nil
	}
	return nil, errors.Errorf("not a header")
}

func (e *c30env) writeBody(bt quicstreamheader.BodyType, payload []byte) ([]byte, error) {
	buf := &bytes.Buffer{}
	b := quicstreamheader.NewHandlerBroker(e.encs, e.enc, bytes.NewReader(nil), c30nopCloser{buf})
	var r io.Reader
	if bt != quicstreamheader.EmptyBodyType {
		r = bytes.NewReader(payload)
	}
	if err := b.WriteBody(context.Background(), bt, uint64(len(payload)), r); err != nil {
		return nil, err
	}
	return buf.Bytes(), nil
}

func (e *c30env) rawHead(dt byte, hint []byte, payload []byte) []byte {
	var b []byte
	b = append(b, dt)
	b = append(b, c30be64(uint64(len(hint)))...)
	b = append(b, hint...)
	b = append(b, c30be64(uint64(len(payload)))...)
	return append(b, payload...)
}

// one reading call on the real brokers
func (e *c30env) readOp(op string, hb *quicstreamheader.HandlerBroker, cb *quicstreamheader.ClientBroker) (out string, ok bool) {
	defer func() {
		if r := recover(); r != nil {
			out, ok = "panic", false
		}
	}()
	ctx := context.Background()
	switch op {
	case "rq":
		h, err := hb.ReadRequestHead(ctx)
		if err != nil {
			return "error", false
		}
		_, tok := c30token(h)
		return fmt.Sprintf("head:1:%s:%s", c30hex(hb.Encoder.Hint().Bytes()), tok), true
	case "rs":
		enc, h, err := cb.ReadResponseHead(ctx)
		if err != nil {
			return "error", false
		}
		_, tok := c30token(h)
		return fmt.Sprintf("head:3:%s:%s", c30hex(enc.Hint().Bytes()), tok), true
	default:
		bt, n, body, enc, res, err := cb.ReadBody(ctx)
		switch {
		case err != nil:
			return "error", false
		case res != nil:
			_, tok := c30token(res)
			return fmt.Sprintf("head:3:%s:%s", c30hex(enc.Hint().Bytes()), tok), true
		}
		var p []byte
		if body != nil {
			p, _ = io.ReadAll(body)
		}
		return fmt.Sprintf("body:%d:%d:%s", bt[0], n, c30hex(p)), true
	}
}

func (c *Ctx) c30chunks(b []byte) [][]byte {
	var cs [][]byte
	for len(b) > 0 {
		n := 1 + c.Intn(40)
		if c.Chance(1, 4) {
			n = 1 + c.Intn(3)
		}
		if c.Chance(1, 10) {
			cs = append(cs, []byte{})
		}
		if n > len(b) {
			n = len(b)
		}
		cs = append(cs, b[:n])
		b = b[n:]
	}
	return cs
}

func runC30(c *Ctx) error {
	env, err := c30newEnv()
	if err != nil {
		return err
	}
	n := 400
	if c.Thorough() {
		n = 12000
	}
	hint := env.enc.Hint().Bytes()
	var known, heads []string
	known = append(known, c30hex(hint))
	for _, h := range env.pool {
		heads = append(heads, fmt.Sprintf("%s=%d=%s", c30hex(h.payload), h.kind, h.token))
	}
	tab := fmt.Sprintf("2147483647 K:%s H:%s", strings.Join(known, ","), strings.Join(heads, ","))
	for i := 0; i < n; i++ {
		// an exchange written by the real writers (valid heads), or raw heads built by hand (hostile)
		var stream []byte
		var ops []string
		written := map[int]string{} // index of the reading call -> what the writer was given (bodies)
		hostile := c.Chance(1, 2)
		nm := 1 + c.Intn(4)
		for m := 0; m < nm; m++ {
			switch k := c.Intn(10); {
			case k < 5: // a head
				pi := c.Intn(len(env.pool))
				if !hostile {
					for env.pool[pi].kind == 0 {
						pi = c.Intn(len(env.pool))
					}
				}
				var b []byte
				if env.pool[pi].kind != 0 && !hostile {
					if b, err = env.writeHead(pi); err != nil {
						return err
					}
				} else {
					dt := byte(1)
					if c.Bool() {
						dt = 3
					}
					if env.pool[pi].kind != 0 && c.Chance(2, 3) {
						dt = byte(env.pool[pi].kind)
					}
					ht := hint
					if c.Chance(1, 8) {
						ht = []byte("unknown-encoder-v0.0.1")
					} else if c.Chance(1, 12) {
						ht = []byte{}
					}
					b = env.rawHead(dt, ht, env.pool[pi].payload)
				}
				stream = append(stream, b...)
				switch {
				case b[0] == 1:
					ops = append(ops, "rq")
				case c.Bool():
					ops = append(ops, "rs")
				default:
					ops = append(ops, "rb")
				}
				c.Count("message", fmt.Sprintf("head-kind%d", env.pool[pi].kind))
			default:
				bt := []quicstreamheader.BodyType{quicstreamheader.EmptyBodyType, quicstreamheader.FixedLengthBodyType, quicstreamheader.StreamBodyType}[c.Intn(3)]
				payload := c.Bytes(c.Intn(60))
				if c.Chance(1, 6) {
					payload = nil
				}
				if bt == quicstreamheader.StreamBodyType && m != nm-1 {
					bt = quicstreamheader.FixedLengthBodyType
				}
				b, err := env.writeBody(bt, payload)
				if err != nil {
					return err
				}
				stream = append(stream, b...)
				ops = append(ops, "rb")
				written[len(ops)-1] = fmt.Sprintf("body:%d:%d:%s", bt[0], map[bool]int{true: 0, false: len(payload)}[bt != quicstreamheader.FixedLengthBodyType], c30hex(map[bool][]byte{true: nil, false: payload}[bt == quicstreamheader.EmptyBodyType]))
				c.Count("message", fmt.Sprintf("body%d", bt[0]))
			}
		}
		if hostile {
			switch c.Intn(6) {
			case 0: // truncate
				if len(stream) > 0 {
					stream = stream[:c.Intn(len(stream))]
				}
				c.Count("hostile", "truncated")
			case 1: // wrong order of reading calls
				for j := range ops {
					ops[j] = []string{"rq", "rs", "rb"}[c.Intn(3)]
				}
				c.Count("hostile", "wrong-call")
			case 2: // a bad data/body type byte at the front
				stream = append([]byte{byte(c.Intn(256))}, stream...)
				c.Count("hostile", "leading-byte")
			case 3: // a fixed body announcing more (or absurdly more) than it carries
				stream = append(stream, 2, 2)
				stream = append(stream, c30be64([]uint64{5, 1 << 31, 1 << 40, 1<<63 + 5, ^uint64(0)}[c.Intn(5)])...)
				stream = append(stream, c.Bytes(c.Intn(4))...)
				ops = append(ops, "rb")
				c.Count("hostile", "overlong-fixed-body")
			case 4: // a lengthed field announcing a huge size
				stream = append(stream, byte(1+2*c.Intn(2)))
				stream = append(stream, c30be64([]uint64{1 << 31, 1 << 40, 1<<63 + 5, ^uint64(0)}[c.Intn(4)])...)
				ops = append(ops, []string{"rq", "rs", "rb"}[c.Intn(3)])
				c.Count("hostile", "huge-lengthed")
			default:
				ops = append(ops, []string{"rq", "rs", "rb"}[c.Intn(3)]) // read past the end
				c.Count("hostile", "read-past-end")
			}
		}
		chunks := c.c30chunks(stream)
		var cs []string
		for _, ch := range chunks {
			cs = append(cs, c30hex(ch))
		}
		rd := &c30reader{chunks: append([][]byte{}, chunks...)}
		hb := quicstreamheader.NewHandlerBroker(env.encs, env.enc, rd, c30nopCloser{&bytes.Buffer{}})
		cb := quicstreamheader.NewClientBroker(env.encs, env.enc, rd, c30nopCloser{&bytes.Buffer{}})
		var outs []string
		alive := true
		for _, op := range ops {
			if !alive {
				outs = append(outs, "skip")
				continue
			}
			o, ok := env.readOp(op, hb, cb)
			outs = append(outs, o)
			alive = ok
			// what the real writer was given is what the real reader hands back: kind, announced length, payload
			if w, isBody := written[len(outs)-1]; isBody && !hostile && o != w {
				c.Violation("C30:body-not-read-back-as-written", fmt.Sprintf("message %d of the stream: written %s, read %s", len(outs)-1, w, o), map[string]interface{}{"stream": c30hex(stream), "ops": ops, "written": w, "read": o})
			}
			if o == "panic" {
				c.Violation("C30:panic", fmt.Sprintf("reading call %s panicked on stream %s", op, c30hex(stream)), map[string]interface{}{"stream": c30hex(stream), "ops": ops})
			}
		}
		c.Case(fmt.Sprintf("read %s S:%s ; %s", tab, strings.Join(cs, ","), strings.Join(ops, " ")), strings.Join(outs, " "))
		c.Nontrivial(c30hex(stream) + strings.Join(ops, ""))
		c.Count("hostile-stream", b01(hostile))
		if i%100 == 0 {
			c.Sample(map[string]interface{}{"stream": c30hex(stream), "chunks": len(chunks), "ops": ops, "results": outs})
		}
		// the same stream delivered with the end-of-stream signalled together with the last bytes, and as pure noise: no panic
		for variant := 0; variant < 2; variant++ {
			s2 := stream
			if variant == 1 {
				s2 = c.Bytes(1 + c.Intn(30))
				if c.Bool() && len(s2) > 9 { // keep announced sizes out of the range that only costs memory
					s2[1], s2[2], s2[3], s2[4], s2[5] = 0, 0, 0, 0, 0
					s2[6], s2[7] = 0, byte(c.Intn(2))
				}
			}
			rd2 := &c30reader{chunks: c.c30chunks(s2), eofWithData: true}
			hb2 := quicstreamheader.NewHandlerBroker(env.encs, env.enc, rd2, c30nopCloser{&bytes.Buffer{}})
			cb2 := quicstreamheader.NewClientBroker(env.encs, env.enc, rd2, c30nopCloser{&bytes.Buffer{}})
			for _, op := range append(append([]string{}, ops...), "rb") {
				o, ok := env.readOp(op, hb2, cb2)
				c.Eval(1)
				if o == "panic" {
					c.Violation("C30:panic", fmt.Sprintf("reading call %s panicked on stream %s (end of stream delivered with the last bytes)", op, c30hex(s2)), map[string]interface{}{"stream": c30hex(s2), "ops": ops})
				}
				if !ok {
					break
				}
			}
		}
	}
	return nil
}
