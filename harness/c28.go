package main

import (
	"encoding/json"
	"fmt"
	"sort"
	"strings"
	"time"

	"github.com/spikeekips/mitum/base"
	"github.com/spikeekips/mitum/isaac"
	"github.com/spikeekips/mitum/launch"
	"github.com/spikeekips/mitum/util"
	"github.com/spikeekips/mitum/util/encoder"
	jsonenc "github.com/spikeekips/mitum/util/encoder/json"
	"github.com/spikeekips/mitum/util/valuehash"
)

func init() { register("C28", runC28) }

type c28obj struct {
	kind string
	v    interface{}
}

func c28build(c *Ctx, kind string, networkID base.NetworkID) (interface{}, error) {
	hNetworkID := networkID
	node := base.RandomLocalNode()
	point := base.NewPoint(base.Height(int64(2+c.Intn(1000))), base.Round(uint64(c.Intn(5))))
	if (kind == "init" || kind == "emptyproposal") && c.Chance(1, 4) {
		point = base.GenesisPoint // the genesis INIT ballot
	}
	h := func() util.Hash { return valuehash.RandomSHA256() }
	var expels []util.Hash
	if c.Bool() || kind == "sc" {
		expels = []util.Hash{h()}
		if c.Bool() {
			expels = append(expels, h())
		}
	}
	switch kind {
	case "init", "sc", "emptyproposal":
		var fact base.INITBallotFact
		switch kind {
		case "init":
			fact = isaac.NewINITBallotFact(point, h(), h(), expels)
		case "sc":
			fact = isaac.NewSuffrageConfirmBallotFact(point, h(), h(), expels)
		default:
			fact = isaac.NewEmptyProposalINITBallotFact(point, h(), h())
		}
		sf := isaac.NewINITBallotSignFact(fact)
		if err := sf.NodeSign(node.Privatekey(), hNetworkID, node.Address()); err != nil {
			return nil, err
		}
		return sf, nil
	case "accept":
		fact := isaac.NewACCEPTBallotFact(point, h(), h(), expels)
		sf := isaac.NewACCEPTBallotSignFact(fact)
		if err := sf.NodeSign(node.Privatekey(), hNetworkID, node.Address()); err != nil {
			return nil, err
		}
		return sf, nil
	case "proposal":
		var ops [][2]util.Hash
		for i := 0; i < c.Intn(4); i++ {
			ops = append(ops, [2]util.Hash{h(), h()})
		}
		fact := isaac.NewProposalFact(point, node.Address(), h(), ops)
		sf := isaac.NewProposalSignFact(fact)
		if err := sf.Sign(node.Privatekey(), hNetworkID); err != nil {
			return nil, err
		}
		return sf, nil
	case "expel":
		target := base.RandomAddress("t-")
		f := isaac.NewSuffrageExpelFact(target, point.Height(), point.Height()+base.Height(int64(1+c.Intn(5))), "no response")
		op := isaac.NewSuffrageExpelOperation(f)
		for i := 0; i < 1+c.Intn(3); i++ {
			n := base.RandomLocalNode()
			if err := op.NodeSign(n.Privatekey(), hNetworkID, n.Address()); err != nil {
				return nil, err
			}
		}
		return op, nil
	}
	return nil, fmt.Errorf("unknown kind %s", kind)
}

type c28leaf struct {
	path string
	set  func(v interface{})
	val  interface{}
}

// leaves of a decoded JSON tree, with setters
func c28leaves(prefix string, node interface{}, set func(interface{}), out *[]c28leaf) {
	switch t := node.(type) {
	case map[string]interface{}:
		keys := make([]string, 0, len(t))
		for k := range t {
			keys = append(keys, k)
		}
		sort.Strings(keys)
		for _, k := range keys {
			k := k
			c28leaves(prefix+"/"+k, t[k], func(v interface{}) { t[k] = v }, out)
		}
	case []interface{}:
		for i := range t {
			i := i
			c28leaves(fmt.Sprintf("%s/#", prefix), t[i], func(v interface{}) { t[i] = v }, out)
		}
	default:
		*out = append(*out, c28leaf{path: prefix, set: set, val: node})
	}
}

// a different value of the same shape (same width for hashes, keys, addresses and times)
func c28mutate(c *Ctx, path string, v interface{}) (interface{}, string) {
	switch t := v.(type) {
	case bool:
		return !t, "flip"
	case float64:
		return t + 1, "plus1"
	case string:
		switch {
		case strings.HasSuffix(path, "_hint"):
			return nil, ""
		case strings.HasSuffix(t, "Z") && strings.Contains(t, "T") && len(t) > 18: // a time
			if tm, err := time.Parse(time.RFC3339Nano, t); err == nil {
				return tm.Add(time.Millisecond).UTC().Format(time.RFC3339Nano), "time+1ms"
			}
		case strings.HasSuffix(t, "-mca") || strings.HasSuffix(t, "mpu") || strings.HasSuffix(t, "mpr"):
			b := []byte(t)
			i := c.Intn(len(b) - 4)
			if b[i] == 'a' {
				b[i] = 'b'
			} else {
				b[i] = 'a'
			}
			return string(b), "char"
		default:
			if raw, err := util.DecodeHash(t); err == nil && len(raw) >= 16 {
				raw[c.Intn(len(raw))] ^= 0x01
				return util.EncodeHash(raw), "hashbit"
			}
		}
		return t + "x", "append"
	}
	return nil, ""
}

func c28verdict(enc encoder.Encoder, b []byte, networkID base.NetworkID) (detected bool, how string) {
	defer func() {
		if r := recover(); r != nil {
			detected, how = true, "panic"
		}
	}()
	i, err := enc.Decode(b)
	if err != nil {
		return true, "decode"
	}
	iv, ok := i.(util.IsValider)
	if !ok {
		return true, "not-isvalider"
	}
	if err := iv.IsValid(networkID); err != nil {
		return true, "isvalid"
	}
	return false, "accepted"
}

// JSON path -> the field name of the hash function (per kind)
func c28field(kind, path string) string {
	switch {
	case strings.HasSuffix(path, "/signer"):
		return "signer"
	case strings.HasSuffix(path, "/signature"):
		return "signature"
	case strings.HasSuffix(path, "/signed_at"):
		return "signedAt"
	case path == "/sign/node" || path == "/signs/#/node":
		return "signNode"
	case path == "/hash":
		return "opHash"
	case path == "/fact/hash":
		return "hash"
	case path == "/fact/token":
		return "token"
	case path == "/fact/point/stage":
		return "stage"
	case strings.HasPrefix(path, "/fact/point/"):
		return "point"
	case path == "/fact/expel_facts/#":
		return "expelfacts"
	case path == "/fact/previous_block":
		return "previousBlock"
	case path == "/fact/proposal":
		return "proposal"
	case path == "/fact/new_block":
		return "newBlock"
	case path == "/fact/r":
		return "r"
	case path == "/fact/proposer":
		return "proposer"
	case path == "/fact/proposed_at":
		return "proposedAt"
	case path == "/fact/operations/#/#", path == "/fact/operations/#":
		return "operations"
	case path == "/signs/#":
		return "signs"
	case path == "/fact/node":
		return "node"
	case path == "/fact/start":
		return "start"
	case path == "/fact/end":
		return "end"
	case path == "/fact/reason":
		return "reason"
	}
	return "?" + path
}

func runC28(c *Ctx) error {
	enc := jsonenc.NewEncoder()
	encs := encoder.NewEncoders(enc, enc)
	if err := launch.LoadHinters(encs); err != nil {
		return err
	}
	per := 8
	if c.Thorough() {
		per = 200
	}
	kinds := []string{"init", "accept", "sc", "emptyproposal", "proposal", "expel"}
	seen := map[string]bool{}
	report := func(kind, field, mut string, detected bool, js []byte) {
		key := kind + " " + field
		if !seen[key+b01(detected)] {
			seen[key+b01(detected)] = true
			c.Case("det "+kind+" "+field, b01(detected))
		}
		c.Count("field", key)
		if detected {
			return
		}
		cls := "C28:mutation-undetected"
		switch {
		case kind == "emptyproposal" && (field == "point" || field == "previousBlock" || field == "proposal" || field == "r" || field == "expelfacts"):
			cls = "C28:hash-not-recomputed"
		case kind == "expel" && field == "reason":
			cls = "C28:field-not-in-hash"
		}
		c.Violation(cls, fmt.Sprintf("%s: changing %s (%s) leaves the signed object valid", kind, field, mut), map[string]interface{}{"kind": kind, "field": field, "mutated_json": string(js)})
	}
	for _, kind := range kinds {
		for n := 0; n < per; n++ {
			// short and long network ids (the limit is 300 bytes)
			hNetworkID := hNetworkID
			if n%2 == 1 {
				hNetworkID = base.NetworkID("verif-network-with-a-long-identifier-0123456789-abcdefghij-" + fmt.Sprint(n%7))
			}
			obj, err := c28build(c, kind, hNetworkID)
			if err != nil {
				return err
			}
			b, err := enc.Marshal(obj)
			if err != nil {
				return err
			}
			if det, how := c28verdict(enc, b, hNetworkID); det {
				return fmt.Errorf("fresh %s object does not validate: %s", kind, how)
			}
			c.Nontrivial(string(b))
			// other network ids: unrelated, the same with a trailing zero byte, the same up to the last byte, a prefix
			others := []base.NetworkID{base.NetworkID("other-network"), append(append(base.NetworkID{}, hNetworkID...), 0),
				append(append(base.NetworkID{}, hNetworkID[:len(hNetworkID)-1]...), hNetworkID[len(hNetworkID)-1]^1),
				append(base.NetworkID{}, hNetworkID[:len(hNetworkID)-1]...)}
			detN := true
			for _, o := range others {
				d, _ := c28verdict(enc, b, o)
				c.Eval(1)
				if !d {
					detN = false
					c.Violation("C28:network-id-not-bound", fmt.Sprintf("%s signed under network id %q validates under %q", kind, string(hNetworkID), string(o)), map[string]interface{}{"kind": kind, "json": string(b)})
				}
			}
			if n < 2 {
				c.Case("netid "+kind, b01(detN))
			}
			var tree interface{}
			if err := json.Unmarshal(b, &tree); err != nil {
				return err
			}
			var leaves []c28leaf
			c28leaves("", tree, func(interface{}) {}, &leaves)
			for li := range leaves {
				var t2 interface{}
				_ = json.Unmarshal(b, &t2)
				var l2 []c28leaf
				c28leaves("", t2, func(interface{}) {}, &l2)
				nv, mut := c28mutate(c, l2[li].path, l2[li].val)
				if mut == "" {
					continue
				}
				l2[li].set(nv)
				mb, _ := json.Marshal(t2)
				det, how := c28verdict(enc, mb, hNetworkID)
				c.Eval(1)
				c.Count("verdict", how)
				report(kind, c28field(kind, l2[li].path), mut, det, mb)
			}
			// the order of a list that is hashed (signs of an operation, expel facts, operations of a proposal): rotate it
			{
				var paths []string
				var walk func(prefix string, node interface{})
				walk = func(prefix string, node interface{}) {
					switch t := node.(type) {
					case map[string]interface{}:
						for k, v := range t {
							walk(prefix+"/"+k, v)
						}
					case []interface{}:
						if len(t) >= 2 {
							a, _ := json.Marshal(t[0])
							z, _ := json.Marshal(t[len(t)-1])
							if string(a) != string(z) {
								paths = append(paths, prefix)
							}
						}
						for _, v := range t {
							walk(prefix+"/#", v)
						}
					}
				}
				walk("", tree)
				sort.Strings(paths)
				for _, path := range paths {
					var t2 interface{}
					_ = json.Unmarshal(b, &t2)
					// descend to the list at `path` (paths with /# inside are lists within lists: only top-level lists are rotated)
					if strings.Contains(path, "/#") {
						continue
					}
					cur := t2
					keys := strings.Split(strings.TrimPrefix(path, "/"), "/")
					var parent map[string]interface{}
					for _, k := range keys {
						parent, _ = cur.(map[string]interface{})
						if parent == nil {
							break
						}
						cur = parent[k]
					}
					lst, ok := cur.([]interface{})
					if !ok || parent == nil {
						continue
					}
					rot := append(append([]interface{}{}, lst[1:]...), lst[0])
					parent[keys[len(keys)-1]] = rot
					mb, _ := json.Marshal(t2)
					det, how := c28verdict(enc, mb, hNetworkID)
					c.Eval(1)
					c.Count("verdict", "order:"+how)
					report(kind, c28field(kind, path+"/#")+"[order]", "rotated", det, mb)
				}
			}
			// relabel the fact's kind: INIT ballot fact <-> suffrage-confirm ballot fact
			if kind == "init" || kind == "sc" {
				var t2 map[string]interface{}
				_ = json.Unmarshal(b, &t2)
				fact := t2["fact"].(map[string]interface{})
				if ef, ok := fact["expel_facts"].([]interface{}); kind == "sc" || (ok && len(ef) > 0) {
					old := fact["_hint"].(string)
					nh := isaac.SuffrageConfirmBallotFactHint.String()
					if kind == "sc" {
						nh = isaac.INITBallotFactHint.String()
					}
					fact["_hint"] = nh
					mb, _ := json.Marshal(t2)
					det, _ := c28verdict(enc, mb, hNetworkID)
					c.Eval(1)
					if !seen["relabel"+kind+b01(det)] {
						seen["relabel"+kind+b01(det)] = true
						c.Case("relabel "+kind, b01(det))
					}
					if !det {
						c.Violation("C28:kind-not-in-fact-hash", fmt.Sprintf("a signed %s ballot fact relabelled from %s to %s keeps its hash and its sign", kind, old, nh),
							map[string]interface{}{"kind": kind, "mutated_json": string(mb)})
					}
				}
			}
			// move the last byte of previous_block to the front of proposal: same concatenation
			if kind == "init" || kind == "sc" {
				var t2 map[string]interface{}
				_ = json.Unmarshal(b, &t2)
				fact := t2["fact"].(map[string]interface{})
				pb, e1 := util.DecodeHash(fact["previous_block"].(string))
				pr, e2 := util.DecodeHash(fact["proposal"].(string))
				if e1 == nil && e2 == nil && len(pb) > 1 {
					fact["previous_block"] = util.EncodeHash(pb[:len(pb)-1])
					fact["proposal"] = util.EncodeHash(append([]byte{pb[len(pb)-1]}, pr...))
					mb, _ := json.Marshal(t2)
					det, _ := c28verdict(enc, mb, hNetworkID)
					c.Eval(1)
					if !seen["shift"+kind+b01(det)] {
						seen["shift"+kind+b01(det)] = true
						c.Case("shift "+kind, b01(det))
					}
					if !det {
						c.Violation("C28:unframed-concatenation", fmt.Sprintf("%s ballot fact: previous_block shortened by one byte and proposal extended by it (two different hashes) keeps the fact hash and the sign", kind),
							map[string]interface{}{"kind": kind, "mutated_json": string(mb)})
					}
				}
			}
		}
	}
	return nil
}
