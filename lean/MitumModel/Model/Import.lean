import MitumModel.Model.BatchWork
/-
Model of `isaacblock.ImportBlocks` (isaac/block/import_block.go): per batch the
`pref` callback saves the importers of the *previous* batch; after the loop the
importers of the last batch are saved under the regenerated condition
`finalSave` (the unrepaired code: only when the last batch is shorter than the
batch limit).
-/
namespace Mitum.Import
open Mitum.BatchWork

inductive FinalSave where
  | lenLtLimit     -- `if int64(len(ims)) < batchlimit`
  | lenPos         -- `if len(ims) > 0`
  | always
deriving Repr, DecidableEq

/-- heights of one batch: `from + first … from + last` -/
def batchHeights (frm : Nat) (b : Batch) : List Nat := (List.range' b.first (b.last + 1 - b.first)).map (· + frm)

/-- the heights saved (in save order) by a successful run over the given batches -/
def savedBy (fs : FinalSave) (frm limit : Nat) : List Batch → Option Batch → List Nat
  | [], pending =>
    match pending with
    | none => []
    | some b =>
      let len := b.last + 1 - b.first
      match fs with
      | .lenLtLimit => if len < limit then batchHeights frm b else []
      | .lenPos => if 0 < len then batchHeights frm b else []
      | .always => batchHeights frm b
  | b :: rest, pending =>
    (match pending with | some p => batchHeights frm p | none => []) ++ savedBy fs frm limit rest (some b)

/-- `ImportBlocks(from, to, limit)` when no importer fails: the saved heights -/
def run (fs : FinalSave) (frm to limit : Nat) : Option (List Nat) :=
  (plan (to + 1 - frm) limit).map (fun bs => savedBy fs frm limit bs none)

end Mitum.Import
