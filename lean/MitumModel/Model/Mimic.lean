import MitumModel.Common
/-
Model of the local node's ballot for ONE stage point (and suffrage-confirm flag) while it
mimics incoming ballots (isaac/states/states.go mimicBallotFunc) through the ballot
broadcaster (isaac/states/ballot.go DefaultBallotBroadcaster over the pool's first-writer-wins
SetBallot).  Every voted incoming ballot starts its own goroutine ("delivery"):

  check   read the pool; when local already has a ballot of the stage point the delivery ends
  (sign)  sign a mimic ballot of the delivered fact            -- no shared effect
  set     SetBallot: the first ballot of the stage point stays  -- under the broadcaster's lock
  send    hand a ballot to the network

Other stage points use other pool keys and do not interact; handlers and re-broadcast timers
go through the same `Broadcast` (set; send).  `Code.sendStored` says which ballot `send` hands
over: the one just signed (the code before the repair) or the one the pool holds;
`Code.stopsOnSetError` whether a failed pool write ends the broadcast; `Code.keysAgree` whether the
pool writes a ballot under the key it is read from.  A delivery's pool write may fail
(`Delivery.setFails`: no space left, storage closed).
-/
namespace Mitum.Mimic

structure Delivery where
  fact : Nat
  pc : Nat          -- 0 = before check, 1 = before set, 2 = before send, 3 = done
  setFails : Bool   -- the pool write of this delivery returns an error (no space left, storage closed)
deriving Repr, DecidableEq

/-- which clauses the code has (extracted from the source on every run) -/
structure Code where
  sendStored : Bool        -- `Broadcast` hands the ballot the pool holds to the network, not the one just signed
  stopsOnSetError : Bool   -- `Broadcast` returns when `set` fails
  keysAgree : Bool         -- `SetBallot` writes under the key `Ballot` reads (same suffrage-confirm flag)
deriving Repr, DecidableEq

structure St where
  pool : Option Nat
  sent : List Nat           -- facts handed to the network by the local node, oldest first
  ds : List Delivery
deriving Repr, DecidableEq

def setAt (ds : List Delivery) (i : Nat) (d : Delivery) : List Delivery := ds.set i d

/-- what a read of the pool under the reader's key sees -/
def seen (c : Code) (s : St) : Option Nat := if c.keysAgree then s.pool else none

/-- one step of delivery `i` (nothing happens when `i` is out of range or the delivery is done) -/
def step (c : Code) (s : St) (i : Nat) : St :=
  match s.ds[i]? with
  | none => s
  | some d =>
    match d.pc with
    | 0 => match seen c s with
      | some _ => { s with ds := setAt s.ds i { d with pc := 3 } }      -- local has one already
      | none => { s with ds := setAt s.ds i { d with pc := 1 } }
    | 1 =>
      if d.setFails then
        { s with ds := setAt s.ds i { d with pc := if c.stopsOnSetError then 3 else 2 } }
      else
        { s with pool := (match s.pool with | some f => some f | none => some d.fact),
                 ds := setAt s.ds i { d with pc := 2 } }
    | 2 =>
      let f := if c.sendStored then (match seen c s with | some f => f | none => d.fact) else d.fact
      { s with sent := s.sent ++ [f], ds := setAt s.ds i { d with pc := 3 } }
    | _ => s

def run (c : Code) (s : St) : List Nat → St
  | [] => s
  | i :: r => run c (step c s i) r

/-- deliveries of the given facts; the flag says whether the delivery's pool write fails -/
def startF (facts : List (Nat × Bool)) : St :=
  { pool := none, sent := [], ds := facts.map (fun f => { fact := f.1, pc := 0, setFails := f.2 }) }

def start (facts : List Nat) : St := startF (facts.map (fun f => (f, false)))

def fixed : Code := { sendStored := true, stopsOnSetError := true, keysAgree := true }

end Mitum.Mimic
