package main

import (
	"bytes"
	"encoding/json"
	"fmt"
	"net/url"
	"os"
	"reflect"
	"regexp"
	"sort"
	"strings"
	"time"

	"github.com/spikeekips/mitum/base"
	"github.com/spikeekips/mitum/isaac"
	isaacblock "github.com/spikeekips/mitum/isaac/block"
	isaacnetwork "github.com/spikeekips/mitum/isaac/network"
	isaacoperation "github.com/spikeekips/mitum/isaac/operation"
	isaacstates "github.com/spikeekips/mitum/isaac/states"
	"github.com/spikeekips/mitum/launch"
	"github.com/spikeekips/mitum/network/quicmemberlist"
	"github.com/spikeekips/mitum/network/quicstream"
	quicstreamheader "github.com/spikeekips/mitum/network/quicstream/header"
	"github.com/spikeekips/mitum/util"
	"github.com/spikeekips/mitum/util/encoder"
	jsonenc "github.com/spikeekips/mitum/util/encoder/json"
	"github.com/spikeekips/mitum/util/fixedtree"
	"github.com/spikeekips/mitum/util/hint"
	"github.com/spikeekips/mitum/util/valuehash"
)

func init() { register("C27", runC27) }

type c27gen struct {
	name string
	f    func(c *Ctx) (interface{}, error)
}

// free text as it may arrive from anywhere: plain, unicode, characters JSON escapes, bytes that are not UTF-8
func c27text(c *Ctx, base string) string {
	return base + []string{"", "", " plain", " é✓ 한글", " \"quoted\" back\\slash\n\ttab", " <html> & more", " \xff\xfe", " \xed\xa0\x80 half", " nul\x00", " \xc3("}[c.Intn(10)]
}

func c27point(c *Ctx) base.Point {
	return base.NewPoint(base.Height(int64(1+c.Intn(500))), base.Round(uint64(c.Intn(4))))
}

func c27hashes(c *Ctx, n int) []util.Hash {
	var hs []util.Hash
	for i := 0; i < n; i++ {
		hs = append(hs, valuehash.RandomSHA256())
	}
	return hs
}

func c27expels(c *Ctx, point base.Point, nodes []base.LocalNode, n int) ([]base.SuffrageExpelOperation, []util.Hash) {
	var ops []base.SuffrageExpelOperation
	var facts []util.Hash
	for i := 0; i < n; i++ {
		target := base.RandomAddress("x-")
		if len(nodes) > 1 && c.Chance(1, 3) { // one of the signers is expelled: its own sign stays in the operation (and is not counted)
			target = nodes[c.Intn(len(nodes))].Address()
		}
		f := isaac.NewSuffrageExpelFact(target, point.Height()-1, point.Height()+base.Height(int64(c.Intn(5))), c27text(c, "no response"))
		op := isaac.NewSuffrageExpelOperation(f)
		for _, nd := range nodes {
			_ = op.NodeSign(nd.Privatekey(), hNetworkID, nd.Address())
		}
		ops = append(ops, op)
		facts = append(facts, f.Hash())
	}
	return ops, facts
}

func c27gens(nodes []base.LocalNode) []c27gen {
	h := func() util.Hash { return valuehash.RandomSHA256() }
	initVP := func(c *Ctx, kind int) (base.INITVoteproof, error) {
		point := c27point(c)
		var expels []base.SuffrageExpelOperation
		var efacts []util.Hash
		if kind > 0 {
			expels, efacts = c27expels(c, point, nodes[:2], 1+c.Intn(2))
		}
		var fact base.INITBallotFact = isaac.NewINITBallotFact(point, h(), h(), efacts)
		if kind == 3 {
			fact = isaac.NewSuffrageConfirmBallotFact(point, h(), h(), efacts)
		}
		var sfs []base.BallotSignFact
		for _, nd := range nodes[:2+c.Intn(len(nodes)-1)] {
			sf := isaac.NewINITBallotSignFact(fact)
			if err := sf.NodeSign(nd.Privatekey(), hNetworkID, nd.Address()); err != nil {
				return nil, err
			}
			sfs = append(sfs, sf)
		}
		switch kind {
		case 0:
			vp := isaac.NewINITVoteproof(point)
			switch k := c.Intn(10); {
			case k < 7:
				vp.SetMajority(fact)
			case k < 8: // a majority that none of the sign facts carries
				vp.SetMajority(isaac.NewINITBallotFact(point, h(), h(), nil))
			}
			vp.SetSignFacts(sfs).SetThreshold(base.Threshold(67)).Finish()
			return vp, nil
		case 2:
			vp := isaac.NewINITStuckVoteproof(point)
			vp.SetSignFacts(sfs)
			vp.SetExpels(expels)
			vp.Finish()
			return vp, nil
		default:
			vp := isaac.NewINITExpelVoteproof(point)
			vp.SetMajority(fact).SetSignFacts(sfs).SetThreshold(base.Threshold(67))
			vp.SetExpels(expels)
			vp.Finish()
			return vp, nil
		}
	}
	acceptVP := func(c *Ctx, kind int) (base.ACCEPTVoteproof, error) {
		point := c27point(c)
		var expels []base.SuffrageExpelOperation
		var efacts []util.Hash
		if kind > 0 {
			expels, efacts = c27expels(c, point, nodes[:2], 1)
		}
		fact := isaac.NewACCEPTBallotFact(point, h(), h(), efacts)
		var sfs []base.BallotSignFact
		for _, nd := range nodes[:2+c.Intn(len(nodes)-1)] {
			sf := isaac.NewACCEPTBallotSignFact(fact)
			if err := sf.NodeSign(nd.Privatekey(), hNetworkID, nd.Address()); err != nil {
				return nil, err
			}
			sfs = append(sfs, sf)
		}
		switch kind {
		case 0:
			vp := isaac.NewACCEPTVoteproof(point)
			switch k := c.Intn(10); {
			case k < 7:
				vp.SetMajority(fact)
			case k < 8: // a majority that none of the sign facts carries
				vp.SetMajority(isaac.NewACCEPTBallotFact(point, h(), h(), nil))
			}
			vp.SetSignFacts(sfs).SetThreshold(base.Threshold(67)).Finish()
			return vp, nil
		case 2:
			vp := isaac.NewACCEPTStuckVoteproof(point)
			vp.SetSignFacts(sfs)
			vp.SetExpels(expels)
			vp.Finish()
			return vp, nil
		default:
			vp := isaac.NewACCEPTExpelVoteproof(point)
			vp.SetMajority(fact).SetSignFacts(sfs).SetThreshold(base.Threshold(67))
			vp.SetExpels(expels)
			vp.Finish()
			return vp, nil
		}
	}
	validAVP := func(c *Ctx, kind int) (base.ACCEPTVoteproof, error) {
		for {
			vp, err := acceptVP(c, kind)
			if err != nil {
				return nil, err
			}
			if vp.BallotMajority() != nil && vp.IsValid(hNetworkID) == nil {
				return vp, nil
			}
		}
	}
	validIVP := func(c *Ctx, kind int) (base.INITVoteproof, error) {
		for {
			vp, err := initVP(c, kind)
			if err != nil {
				return nil, err
			}
			if vp.BallotMajority() != nil && vp.IsValid(hNetworkID) == nil {
				return vp, nil
			}
		}
	}
	manifest := func(c *Ctx) isaac.Manifest {
		var prev util.Hash = h()
		return isaac.NewManifest(base.Height(int64(c.Intn(100))), prev, h(), h(), h(), h(), time.Now().UTC())
	}
	blockmap := func(c *Ctx) (isaacblock.BlockMap, error) {
		m := isaacblock.NewBlockMap()
		m.SetManifest(manifest(c))
		for _, t := range []base.BlockItemType{base.BlockItemProposal, base.BlockItemOperations, base.BlockItemOperationsTree, base.BlockItemStates, base.BlockItemStatesTree, base.BlockItemVoteproofs} {
			if err := m.SetItem(isaacblock.NewBlockMapItem(t, c27text(c, util.UUID().String()))); err != nil {
				return m, err
			}
		}
		return m, m.Sign(nodes[0].Address(), nodes[0].Privatekey(), hNetworkID)
	}
	sufStateAt := func(c *Ctx, height base.Height) base.State {
		var svs []base.SuffrageNodeStateValue
		for _, nd := range nodes[:1+c.Intn(len(nodes))] {
			svs = append(svs, isaac.NewSuffrageNodeStateValue(nd, base.Height(int64(c.Intn(30)))))
		}
		return base.NewBaseState(height, isaac.SuffrageStateKey, isaac.NewSuffrageNodesStateValue(base.Height(int64(c.Intn(20))), svs), h(), c27hashes(c, 1+c.Intn(3)))
	}
	sufState := func(c *Ctx) base.State { return sufStateAt(c, base.Height(int64(33+c.Intn(10)))) }
	return []c27gen{
		{"init-voteproof", func(c *Ctx) (interface{}, error) { return initVP(c, 0) }},
		{"init-expel-voteproof", func(c *Ctx) (interface{}, error) { return initVP(c, 1) }},
		{"init-stuck-voteproof", func(c *Ctx) (interface{}, error) { return initVP(c, 2) }},
		{"init-sc-voteproof", func(c *Ctx) (interface{}, error) { return initVP(c, 3) }},
		{"accept-voteproof", func(c *Ctx) (interface{}, error) { return acceptVP(c, 0) }},
		{"accept-expel-voteproof", func(c *Ctx) (interface{}, error) { return acceptVP(c, 1) }},
		{"accept-stuck-voteproof", func(c *Ctx) (interface{}, error) { return acceptVP(c, 2) }},
		{"init-ballot", func(c *Ctx) (interface{}, error) {
			avp, err := validAVP(c, 0)
			if err != nil {
				return nil, err
			}
			point := base.NewPoint(avp.Point().Height()+1, 0)
			expels, efacts := c27expels(c, point, nodes[:2], c.Intn(2))
			fact := isaac.NewINITBallotFact(point, avp.BallotMajority().NewBlock(), h(), efacts)
			sf := isaac.NewINITBallotSignFact(fact)
			if err := sf.NodeSign(nodes[0].Privatekey(), hNetworkID, nodes[0].Address()); err != nil {
				return nil, err
			}
			return isaac.NewINITBallot(avp, sf, expels), nil
		}},
		{"init-ballot-under-expel-voteproof", func(c *Ctx) (interface{}, error) {
			// the ballot itself carries no expels, the ACCEPT voteproof it follows does
			avp, err := validAVP(c, 1)
			if err != nil {
				return nil, err
			}
			fact := isaac.NewINITBallotFact(base.NewPoint(avp.Point().Height()+1, 0), avp.BallotMajority().NewBlock(), h(), nil)
			sf := isaac.NewINITBallotSignFact(fact)
			if err := sf.NodeSign(nodes[0].Privatekey(), hNetworkID, nodes[0].Address()); err != nil {
				return nil, err
			}
			return isaac.NewINITBallot(avp, sf, nil), nil
		}},
		{"suffrage-confirm-ballot", func(c *Ctx) (interface{}, error) {
			// follows the INIT expel voteproof of its own point; its fact names the expel facts, its body has no expels
			ivp, err := validIVP(c, 1)
			if err != nil {
				return nil, err
			}
			var efacts []util.Hash
			if w, ok := ivp.(base.HasExpels); ok {
				for _, e := range w.Expels() {
					efacts = append(efacts, e.Fact().Hash())
				}
			}
			mfact := ivp.BallotMajority()
			fact := isaac.NewSuffrageConfirmBallotFact(ivp.Point().Point, mfact.PreviousBlock(), mfact.Proposal(), efacts)
			sf := isaac.NewINITBallotSignFact(fact)
			if err := sf.NodeSign(nodes[1].Privatekey(), hNetworkID, nodes[1].Address()); err != nil {
				return nil, err
			}
			return isaac.NewINITBallot(ivp, sf, nil), nil
		}},
		{"accept-ballot-under-expel-voteproof", func(c *Ctx) (interface{}, error) {
			ivp, err := validIVP(c, 1)
			if err != nil {
				return nil, err
			}
			fact := isaac.NewACCEPTBallotFact(ivp.Point().Point, ivp.BallotMajority().Proposal(), h(), nil)
			sf := isaac.NewACCEPTBallotSignFact(fact)
			if err := sf.NodeSign(nodes[1].Privatekey(), hNetworkID, nodes[1].Address()); err != nil {
				return nil, err
			}
			return isaac.NewACCEPTBallot(ivp, sf, nil), nil
		}},
		{"init-ballot-empty-proposal", func(c *Ctx) (interface{}, error) {
			avp, err := validAVP(c, 0)
			if err != nil {
				return nil, err
			}
			fact := isaac.NewEmptyProposalINITBallotFact(base.NewPoint(avp.Point().Height()+1, 0), avp.BallotMajority().NewBlock(), h())
			sf := isaac.NewINITBallotSignFact(fact)
			if err := sf.NodeSign(nodes[0].Privatekey(), hNetworkID, nodes[0].Address()); err != nil {
				return nil, err
			}
			return isaac.NewINITBallot(avp, sf, nil), nil
		}},
		{"accept-ballot", func(c *Ctx) (interface{}, error) {
			ivp, err := validIVP(c, 0)
			if err != nil {
				return nil, err
			}
			pr := ivp.BallotMajority().Proposal()
			var fact base.ACCEPTBallotFact = isaac.NewACCEPTBallotFact(ivp.Point().Point, pr, h(), nil)
			switch c.Intn(4) {
			case 0:
				fact = isaac.NewEmptyOperationsACCEPTBallotFact(ivp.Point().Point, pr)
			case 1:
				fact = isaac.NewNotProcessedACCEPTBallotFact(ivp.Point().Point, pr)
			}
			sf := isaac.NewACCEPTBallotSignFact(fact)
			if err := sf.NodeSign(nodes[1].Privatekey(), hNetworkID, nodes[1].Address()); err != nil {
				return nil, err
			}
			return isaac.NewACCEPTBallot(ivp, sf, nil), nil
		}},
		{"proposal-sign-fact", func(c *Ctx) (interface{}, error) {
			var ops [][2]util.Hash // nil: the empty proposal of ProposalMaker.preferEmpty
			switch k := c.Intn(6); {
			case k < 1:
			case k < 2: // empty, not nil: a proposer whose pool had nothing to offer
				ops = [][2]util.Hash{}
			default:
				for i := 0; i < 1+c.Intn(4); i++ {
					ops = append(ops, [2]util.Hash{h(), h()})
				}
			}
			sf := isaac.NewProposalSignFact(isaac.NewProposalFact(c27point(c), nodes[0].Address(), h(), ops))
			return sf, sf.Sign(nodes[0].Privatekey(), hNetworkID)
		}},
		{"suffrage-expel-operation", func(c *Ctx) (interface{}, error) {
			ops, _ := c27expels(c, c27point(c), nodes, 1)
			return ops[0], nil
		}},
		{"suffrage-candidate-operation", func(c *Ctx) (interface{}, error) {
			nd := base.RandomLocalNode()
			op := isaacoperation.NewSuffrageCandidate(isaacoperation.NewSuffrageCandidateFact(util.UUID().Bytes(), nd.Address(), nd.Publickey()))
			return op, op.NodeSign(nd.Privatekey(), hNetworkID, nd.Address())
		}},
		{"suffrage-join-operation", func(c *Ctx) (interface{}, error) {
			nd := base.RandomLocalNode()
			op := isaacoperation.NewSuffrageJoin(isaacoperation.NewSuffrageJoinFact(util.UUID().Bytes(), nd.Address(), base.Height(int64(c.Intn(100)))))
			if err := op.NodeSign(nd.Privatekey(), hNetworkID, nd.Address()); err != nil {
				return nil, err
			}
			return op, op.NodeSign(nodes[0].Privatekey(), hNetworkID, nodes[0].Address())
		}},
		{"suffrage-genesis-join-operation", func(c *Ctx) (interface{}, error) {
			fact := isaacoperation.NewSuffrageGenesisJoinFact([]base.Node{isaac.NewNode(nodes[0].Publickey(), nodes[0].Address()), isaac.NewNode(nodes[1].Publickey(), nodes[1].Address())}, hNetworkID)
			op := isaacoperation.NewSuffrageGenesisJoin(fact)
			return op, op.Sign(nodes[0].Privatekey(), hNetworkID)
		}},
		{"suffrage-disjoin-operation", func(c *Ctx) (interface{}, error) {
			op := isaacoperation.NewSuffrageDisjoin(isaacoperation.NewSuffrageDisjoinFact(util.UUID().Bytes(), nodes[2].Address(), base.Height(int64(c.Intn(100)))))
			return op, op.NodeSign(nodes[2].Privatekey(), hNetworkID, nodes[2].Address())
		}},
		{"genesis-network-policy-operation", func(c *Ctx) (interface{}, error) {
			pol := isaac.DefaultNetworkPolicy()
			pol.SetMaxOperationsInProposal(uint64(10 + c.Intn(1000)))
			op := isaacoperation.NewGenesisNetworkPolicy(isaacoperation.NewGenesisNetworkPolicyFact(pol))
			return op, op.Sign(nodes[0].Privatekey(), hNetworkID)
		}},
		{"network-policy-operation", func(c *Ctx) (interface{}, error) {
			pol := isaac.DefaultNetworkPolicy()
			pol.SetMaxOperationsInProposal(uint64(10 + c.Intn(1000)))
			op := isaacoperation.NewNetworkPolicy(isaacoperation.NewNetworkPolicyFact(util.UUID().Bytes(), pol))
			for _, nd := range nodes[:2] {
				if err := op.NodeSign(nd.Privatekey(), hNetworkID, nd.Address()); err != nil {
					return nil, err
				}
			}
			return op, nil
		}},
		{"suffrage-state", func(c *Ctx) (interface{}, error) { return sufState(c), nil }},
		{"candidates-state", func(c *Ctx) (interface{}, error) {
			var cvs []base.SuffrageCandidateStateValue
			for i := 0; i < 1+c.Intn(3); i++ {
				cvs = append(cvs, isaac.NewSuffrageCandidateStateValue(c27node(), base.Height(int64(c.Intn(30))), base.Height(int64(30+c.Intn(30)))))
			}
			return base.NewBaseState(base.Height(int64(33)), isaac.SuffrageCandidateStateKey, isaac.NewSuffrageCandidatesStateValue(cvs), h(), c27hashes(c, 1)), nil
		}},
		{"network-policy-state", func(c *Ctx) (interface{}, error) {
			pol := isaac.DefaultNetworkPolicy()
			pol.SetMaxOperationsInProposal(uint64(10 + c.Intn(1000)))
			var prev util.Hash
			if c.Bool() {
				prev = h()
			}
			return base.NewBaseState(base.Height(int64(c.Intn(50))), isaac.NetworkPolicyStateKey, isaac.NewNetworkPolicyStateValue(pol), prev, c27hashes(c, 1+c.Intn(2))), nil
		}},
		{"state-free-key", func(c *Ctx) (interface{}, error) {
			pol := isaac.DefaultNetworkPolicy()
			pol.SetMaxOperationsInProposal(uint64(10 + c.Intn(1000)))
			return base.NewBaseState(base.Height(int64(c.Intn(50))), c27text(c, "account-"+util.UUID().String()), isaac.NewNetworkPolicyStateValue(pol), h(), c27hashes(c, 1+c.Intn(2))), nil
		}},
		{"manifest", func(c *Ctx) (interface{}, error) { return manifest(c), nil }},
		{"blockmap", func(c *Ctx) (interface{}, error) { return blockmap(c) }},
		{"suffrage-proof", func(c *Ctx) (interface{}, error) {
			m, err := blockmap(c)
			if err != nil {
				return nil, err
			}
			st := sufStateAt(c, m.Manifest().Height())
			keys := []string{st.Hash().String()}
			for i := 0; i < c.Intn(5); i++ {
				keys = append(keys, h().String())
			}
			tr, err := c12tree(keys)
			if err != nil {
				return nil, err
			}
			proof, err := fixedtree.NewProofFromNodes(tr.Nodes(), st.Hash().String())
			if err != nil {
				return nil, err
			}
			return isaacblock.NewSuffrageProof(m, st, proof), nil
		}},
		{"request-header", func(c *Ctx) (interface{}, error) {
			switch c.Intn(8) {
			case 0:
				return isaacnetwork.NewOperationRequestHeader(h()), nil
			case 1:
				return isaacnetwork.NewBlockMapRequestHeader(base.Height(int64(c.Intn(100)))), nil
			case 2:
				return isaacnetwork.NewStateRequestHeader(c27text(c, "k"+util.UUID().String()), h()), nil
			case 3:
				return isaacnetwork.NewSuffrageProofRequestHeader(base.Height(int64(c.Intn(100)))), nil
			case 4:
				return isaacnetwork.NewLastBlockMapRequestHeader(h()), nil
			case 5:
				return isaacnetwork.NewProposalRequestHeader(h()), nil
			case 6:
				return isaacnetwork.NewExistsInStateOperationRequestHeader(h()), nil
			default:
				return isaacnetwork.NewBlockItemRequestHeader(base.Height(int64(c.Intn(100))), base.BlockItemStates), nil
			}
		}},
		{"block-item-files", func(c *Ctx) (interface{}, error) {
			items := map[base.BlockItemType]base.BlockItemFile{}
			for _, t := range []base.BlockItemType{base.BlockItemMap, base.BlockItemProposal, base.BlockItemOperations, base.BlockItemOperationsTree, base.BlockItemStates, base.BlockItemStatesTree, base.BlockItemVoteproofs} {
				switch c.Intn(3) {
				case 0:
					items[t] = isaac.NewLocalFSBlockItemFile(string(t)+".json", "gz")
				case 1:
					items[t] = isaac.NewFileBlockItemFile("/data/"+string(t)+".ndjson", "")
				default:
					u, _ := url.Parse("https://a.b/" + util.UUID().String() + "?x=1#f")
					items[t] = isaac.NewBlockItemFile(*u, "gz")
				}
			}
			return isaac.NewBlockItemFiles(items), nil
		}},
		{"more-request-headers", func(c *Ctx) (interface{}, error) {
			ci := quicstream.RandomConnInfo()
			switch c.Intn(18) {
			case 0:
				return isaacnetwork.NewSendOperationRequestHeader(), nil
			case 1:
				return isaacnetwork.NewRequestProposalRequestHeader(c27point(c), nodes[0].Address(), h()), nil
			case 2:
				return isaacnetwork.NewLastSuffrageProofRequestHeader(h()), nil
			case 3:
				return isaacnetwork.NewBlockItemFilesRequestHeader(base.Height(int64(c.Intn(100))), nodes[0].Publickey()), nil
			case 4:
				return isaacnetwork.NewNodeChallengeRequestHeader(util.UUID().Bytes(), nodes[0].Address(), nodes[0].Publickey()), nil
			case 5:
				return isaacnetwork.NewSuffrageNodeConnInfoRequestHeader(), nil
			case 6:
				return isaacnetwork.NewSyncSourceConnInfoRequestHeader(), nil
			case 7:
				return isaacnetwork.NewNodeInfoRequestHeader(), nil
			case 8:
				return isaacnetwork.NewSendBallotsHeader(), nil
			case 9:
				return isaacnetwork.NewSetAllowConsensusHeader(c.Bool()), nil
			case 10:
				return isaacnetwork.NewStreamOperationsHeader(util.UUID().Bytes()), nil
			case 11:
				return isaacnetwork.NewStartHandoverHeader(ci, nodes[0].Address(), nodes[0].Publickey()), nil
			case 12:
				return isaacnetwork.NewCheckHandoverHeader(ci, nodes[0].Address(), nodes[0].Publickey()), nil
			case 13:
				return isaacnetwork.NewAskHandoverHeader(ci, nodes[0].Address()), nil
			case 14:
				return isaacnetwork.NewCancelHandoverHeader(nodes[0].Publickey()), nil
			case 15:
				return isaacnetwork.NewHandoverMessageHeader(), nil
			case 16:
				return isaacnetwork.NewCheckHandoverXHeader(nodes[0].Address()), nil
			default:
				return launch.NewEventLoggingHeader(launch.AllEventLogger, [2]int64{int64(c.Intn(10)), int64(10 + c.Intn(10))}, uint64(c.Intn(100)), c.Bool(), nodes[0].Publickey()), nil
			}
		}},
		{"more-response-headers", func(c *Ctx) (interface{}, error) {
			var err error
			ok := c.Bool()
			if !ok {
				err = fmt.Errorf("failed %d", c.Intn(100))
			}
			switch c.Intn(2) {
			case 0:
				return isaacnetwork.NewAskHandoverResponseHeader(ok, err, util.UUID().String()), nil
			default:
				u, _ := url.Parse("https://a.b/" + util.UUID().String())
				return isaacnetwork.NewBlockItemResponseHeader(ok, err, *u, "gz"), nil
			}
		}},
		{"node-rw-headers", func(c *Ctx) (interface{}, error) {
			if c.Bool() {
				return launch.NewWriteNodeHeader("k/"+util.UUID().String(), nodes[0].Publickey()), nil
			}
			return launch.NewReadNodeHeader("k/"+util.UUID().String(), nodes[0].Publickey()), nil
		}},
		{"handover-messages", func(c *Ctx) (interface{}, error) {
			id := util.UUID().String()
			sp := base.NewStagePoint(c27point(c), base.StageINIT)
			switch c.Intn(7) {
			case 0:
				var err error
				if c.Bool() {
					err = fmt.Errorf("hehehe %d", c.Intn(10))
				}
				return isaacstates.NewHandoverMessageCancel(id, err), nil
			case 1:
				var err error
				ok := c.Bool()
				if !ok {
					err = fmt.Errorf("hehehe %d", c.Intn(10))
				}
				return isaacstates.VerifHandoverMessageChallengeResponse(id, sp, ok, err), nil
			case 2:
				vp, err := initVP(c, 0)
				if err != nil {
					return nil, err
				}
				sf := isaac.NewProposalSignFact(isaac.NewProposalFact(vp.Point().Point, nodes[0].Address(), h(), [][2]util.Hash{{h(), h()}}))
				if err := sf.Sign(nodes[0].Privatekey(), hNetworkID); err != nil {
					return nil, err
				}
				return isaacstates.VerifHandoverMessageFinish(id, vp, sf), nil
			case 3:
				return isaacstates.VerifHandoverMessageChallengeStagePoint(id, sp), nil
			case 4:
				m, err := blockmap(c)
				if err != nil {
					return nil, err
				}
				return isaacstates.VerifHandoverMessageChallengeBlockMap(id, base.NewStagePoint(base.NewPoint(m.Manifest().Height(), 0), base.StageACCEPT), m), nil
			case 5:
				vp, err := acceptVP(c, c.Intn(3))
				if err != nil {
					return nil, err
				}
				return isaacstates.VerifHandoverMessageData(id, isaacstates.HandoverMessageDataTypeVoteproof, vp), nil
			default:
				ops, _ := c27expels(c, c27point(c), nodes[:2], 1)
				return isaacstates.VerifHandoverMessageData(id, isaacstates.HandoverMessageDataTypeSuffrageVoting, ops[0]), nil
			}
		}},
		{"missing-ballots-request", func(c *Ctx) (interface{}, error) {
			var addrs []base.Address
			for _, nd := range nodes[:1+c.Intn(3)] {
				addrs = append(addrs, nd.Address())
			}
			return isaacstates.NewMissingBallotsRequestsMessage(base.NewStagePoint(c27point(c), base.StageINIT), addrs, quicstream.RandomConnInfo()), nil
		}},
		{"memberlist-messages", func(c *Ctx) (interface{}, error) {
			ci := quicstream.RandomConnInfo()
			switch c.Intn(4) {
			case 0:
				return quicmemberlist.NewConnInfoBroadcastMessage(util.UUID().String(), ci), nil
			case 1:
				return quicmemberlist.NewCallbackBroadcastMessageHeader(util.UUID().String(), quicstream.HashPrefix("callback")), nil
			case 2:
				return quicmemberlist.NewEnsureBroadcastMessageHeader(util.UUID().String(), quicstream.HashPrefix("ensure"), nodes[0].Address(), nodes[0].Privatekey(), hNetworkID)
			default:
				return quicmemberlist.NewMember(util.UUID().String(), ci.UDPAddr(), nodes[0].Address(), nodes[0].Publickey(), "1.2.3.4:4321", c.Bool())
			}
		}},
		{"node-info", func(c *Ctx) (interface{}, error) {
			u := isaacnetwork.NewNodeInfoUpdater(hNetworkID, isaac.NewNode(nodes[0].Publickey(), nodes[0].Address()), util.MustNewVersion("v1.2.3"))
			u.SetConsensusState(isaacstates.StateConsensus)
			u.SetLastManifest(manifest(c))
			u.SetSuffrageHeight(base.Height(int64(c.Intn(30))))
			u.SetNetworkPolicy(isaac.DefaultNetworkPolicy())
			u.SetLocalParams(isaac.DefaultParams(hNetworkID))
			u.SetConnInfo("1.2.3.4:4321")
			u.SetConsensusNodes([]base.Node{c27node(), c27node()})
			u.SetLastVote(base.NewStagePoint(c27point(c), base.StageACCEPT), base.VoteResultMajority)
			return u.NodeInfo(), nil
		}},
		{"default-node-info", func(c *Ctx) (interface{}, error) {
			return launch.NewDefaultNodeInfo(util.ULID().String(), hNetworkID, util.MustNewVersion("v0.1.2-alpha+x")), nil
		}},
		{"params", func(c *Ctx) (interface{}, error) {
			p := isaac.DefaultParams(hNetworkID)
			_ = p.SetThreshold(base.Threshold(float64(67 + c.Intn(30))))
			_ = p.SetIntervalBroadcastBallot(time.Duration(1+c.Intn(5000)) * time.Millisecond)
			return p, nil
		}},
		{"network-policy", func(c *Ctx) (interface{}, error) {
			pol := isaac.DefaultNetworkPolicy()
			pol.SetMaxOperationsInProposal(uint64(10 + c.Intn(1000)))
			return pol, nil
		}},
		{"candidate-limiter-rule", func(c *Ctx) (interface{}, error) {
			return isaac.NewFixedSuffrageCandidateLimiterRule(uint64(1 + c.Intn(100))), nil
		}},
		{"keys-and-address", func(c *Ctx) (interface{}, error) {
			switch c.Intn(4) {
			case 0:
				return base.NewMPrivatekey(), nil
			case 1:
				return base.NewMPrivatekey().Publickey(), nil
			case 2:
				return base.NewStringAddress(util.UUID().String()), nil
			default:
				return c27node(), nil
			}
		}},
		{"fixedtree-nodes", func(c *Ctx) (interface{}, error) {
			switch c.Intn(4) {
			case 0:
				return base.NewInStateOperationFixedtreeNode(h(), ""), nil
			case 1:
				return base.NewNotInStateOperationFixedtreeNode(h(), c27text(c, "bad operation")), nil
			case 2:
				return base.NewBaseOperationProcessReason(c27text(c, "bad operation "+util.UUID().String())), nil
			default:
				return fixedtree.NewBaseNode(c27text(c, h().String())), nil
			}
		}},
		{"response-header", func(c *Ctx) (interface{}, error) {
			if c.Bool() {
				return quicstreamheader.NewDefaultResponseHeader(true, nil), nil
			}
			return quicstreamheader.NewDefaultResponseHeader(false, fmt.Errorf("failed %d", c.Intn(100))), nil
		}},
	}
}

// decoding as the readers of each kind do: keys and addresses are strings carrying their hint as
// a suffix; a few hinted types are written without "_hint" and are read with the hint the reader
// knows (tree nodes by the tree's hint, members by MemberHint); Params never carry the network id
// and get it from their reader
func c27decode(enc *jsonenc.Encoder, obj interface{}, b []byte) (interface{}, error) {
	var str string
	switch obj.(type) {
	case base.Privatekey:
		if err := enc.Unmarshal(b, &str); err != nil {
			return nil, err
		}
		return base.DecodePrivatekeyFromString(str, enc)
	case base.Publickey:
		if err := enc.Unmarshal(b, &str); err != nil {
			return nil, err
		}
		return base.DecodePublickeyFromString(str, enc)
	case base.Address:
		if err := enc.Unmarshal(b, &str); err != nil {
			return nil, err
		}
		return base.DecodeAddress(str, enc)
	}
	switch obj.(type) {
	case fixedtree.BaseNode:
		return enc.DecodeWithHint(b, base.StateFixedtreeHint)
	case base.OperationFixedtreeNode:
		return enc.DecodeWithHint(b, base.OperationFixedtreeHint)
	}
	if !bytes.Contains(b, []byte(`"_hint"`)) || !c27topHint(b) {
		if hr, ok := obj.(hint.Hinter); ok {
			return enc.DecodeWithHint(b, hr.Hint())
		}
	}
	dec, err := enc.Decode(b)
	if p, ok := dec.(*isaac.Params); ok && err == nil {
		_ = p.SetNetworkID(hNetworkID)
	}
	return dec, err
}

// whether the outermost JSON object has a "_hint" member
var c27hintRx = regexp.MustCompile(`"_hint":"([a-z0-9-]+)-v(\d+)\.(\d+)\.(\d+)"`)

// every "_hint" of the encoding with its patch version raised by 7
func c27bumpHints(b []byte) []byte {
	return c27hintRx.ReplaceAllFunc(b, func(m []byte) []byte {
		sm := c27hintRx.FindSubmatch(m)
		var patch int
		fmt.Sscanf(string(sm[4]), "%d", &patch)
		return []byte(fmt.Sprintf(`"_hint":"%s-v%s.%s.%d"`, sm[1], sm[2], sm[3], patch+7))
	})
}

func c27firstDiff(a, b []byte) int {
	for i := 0; i < len(a) && i < len(b); i++ {
		if a[i] != b[i] {
			return i
		}
	}
	return min(len(a), len(b))
}

func c27around(b []byte, i int) string {
	lo, hi := max(0, i-30), min(len(b), i+30)
	return string(b[lo:hi])
}

func c27topHint(b []byte) bool {
	var m map[string]json.RawMessage
	if err := json.Unmarshal(b, &m); err != nil {
		return false
	}
	_, ok := m["_hint"]
	return ok
}

func c27node() base.Node {
	n := base.RandomLocalNode()
	return isaac.NewNode(n.Publickey(), n.Address())
}

type c27hasher interface{ Hash() util.Hash }
type c27hashBytes interface{ HashBytes() []byte }

func c27ident(i interface{}) string {
	switch t := i.(type) {
	case c27hasher:
		if h := t.Hash(); h != nil {
			return "hash:" + h.String()
		}
	}
	if t, ok := i.(c27hashBytes); ok {
		return "hb:" + valuehash.NewSHA256(t.HashBytes()).String()
	}
	if t, ok := i.(interface{ SignFact() base.BallotSignFact }); ok { // ballots
		return "sf:" + valuehash.NewSHA256(t.SignFact().HashBytes()).String()
	}
	return ""
}

func runC27(c *Ctx) error {
	enc := jsonenc.NewEncoder()
	encs := encoder.NewEncoders(enc, enc)
	if err := launch.LoadHinters(encs); err != nil {
		return err
	}
	nodes := []base.LocalNode{base.RandomLocalNode(), base.RandomLocalNode(), base.RandomLocalNode(), base.RandomLocalNode()}
	per := 12
	if c.Thorough() {
		per = 400
	}
	gens := c27gens(nodes)
	sort.Slice(gens, func(i, j int) bool { return gens[i].name < gens[j].name })
	seenHints := map[string]bool{}
	type shape struct {
		members map[string]bool
		ok      bool
	}
	shapes := map[string]*shape{}
	note := func(h string, members []string, ok bool) *shape {
		sh := shapes[h]
		if sh == nil {
			sh = &shape{members: map[string]bool{}, ok: true}
			shapes[h] = sh
		}
		for _, m := range members {
			sh.members[m] = true
		}
		sh.ok = sh.ok && ok
		return sh
	}
	// every hinted JSON object inside an encoding, with its member names
	var walk func(v interface{})
	walk = func(v interface{}) {
		switch t := v.(type) {
		case map[string]interface{}:
			if h, ok := t["_hint"].(string); ok {
				var ms []string
				for k := range t {
					ms = append(ms, k)
				}
				seenHints[h] = true
				note(h, ms, true)
			}
			for _, x := range t {
				walk(x)
			}
		case []interface{}:
			for _, x := range t {
				walk(x)
			}
		}
	}
	for _, g := range gens {
		for n := 0; n < per; n++ {
			obj, err := g.f(c)
			if err != nil {
				return fmt.Errorf("%s: build: %w", g.name, err)
			}
			c.Eval(1)
			c.Count("kind", g.name)
			top := fmt.Sprintf("%T", obj)
			switch t := obj.(type) {
			case fixedtree.BaseNode:
				top = base.StateFixedtreeHint.String()
			case hint.Hinter:
				top = t.Hint().String()
			}
			seenHints[top] = true
			sh := note(top, nil, true)
			fail := func(cls, detail string, js []byte) {
				sh.ok = false
				c.Violation(cls, g.name+" ("+top+"): "+detail, map[string]interface{}{"kind": g.name, "hint": top, "json": string(js)})
			}
			valid := "-"
			if iv, is := obj.(util.IsValider); is {
				verr := iv.IsValid(hNetworkID)
				valid = fmt.Sprint(verr == nil)
				if verr != nil && os.Getenv("C27_DEBUG") != "" && n == 0 {
					fmt.Fprintf(os.Stderr, "INVALID %s: %v\n", g.name, verr)
				}
			}
			c.Count("valid-before-encoding", valid)
			if valid == "false" {
				c.Count("invalid-before-encoding", g.name)
			}
			b1, err := enc.Marshal(obj)
			if err != nil {
				fail("C27:encode-error", err.Error(), nil)
				continue
			}
			c.Nontrivial(string(b1))
			var generic interface{}
			if err := json.Unmarshal(b1, &generic); err == nil {
				if m, ok := generic.(map[string]interface{}); ok {
					var ms []string
					for k := range m {
						ms = append(ms, k)
					}
					note(top, ms, true)
				}
				walk(generic)
			}
			dec, err := func() (i interface{}, err error) {
				defer func() {
					if r := recover(); r != nil {
						err = fmt.Errorf("panic: %v", r)
					}
				}()
				return c27decode(enc, obj, b1)
			}()
			if err != nil {
				if valid == "false" && !strings.Contains(err.Error(), "panic") { // an invalid object may be refused by the decoder
					c.Count("invalid-object", "refused-by-the-decoder")
					continue
				}
				fail("C27:decode-error", err.Error(), b1)
				continue
			}
			b2, err := enc.Marshal(dec)
			if err != nil {
				fail("C27:reencode-error", err.Error(), b1)
				continue
			}
			if !bytes.Equal(b1, b2) {
				fail("C27:reencoded-bytes-differ", fmt.Sprintf("first encoding %d bytes, encoding of the decoded object %d bytes", len(b1), len(b2)), b1)
			}
			if a, b := c27ident(obj), c27ident(dec); a != b {
				fail("C27:hash-differs-after-decode", a+" vs "+b, b1)
			}
			v2 := "-"
			if iv, is := dec.(util.IsValider); is {
				v2 = fmt.Sprint(iv.IsValid(hNetworkID) == nil)
			}
			if valid != v2 {
				fail("C27:validity-differs-after-decode", fmt.Sprintf("IsValid before %s, after %s", valid, v2), b1)
			}
			if reflect.TypeOf(obj) != reflect.TypeOf(dec) && reflect.TypeOf(obj) != reflect.PtrTo(reflect.TypeOf(dec)) && reflect.PtrTo(reflect.TypeOf(obj)) != reflect.TypeOf(dec) {
				fail("C27:type-differs-after-decode", fmt.Sprintf("%T decoded as %T", obj, dec), b1)
			}
			// the same encoding under compatible hints (a newer patch version than the registered one): what decodes
			// must encode to those bytes again
			if b3 := c27bumpHints(b1); !bytes.Equal(b3, b1) {
				c.Eval(1)
				dec3, err := func() (i interface{}, err error) {
					defer func() {
						if r := recover(); r != nil {
							err = fmt.Errorf("panic: %v", r)
						}
					}()
					return c27decode(enc, obj, b3)
				}()
				switch {
				case err != nil:
					c.Count("compatible-hint", "refused")
				default:
					b4, err := enc.Marshal(dec3)
					switch {
					case err != nil:
						fail("C27:reencode-error", "compatible hints: "+err.Error(), b3)
					case !bytes.Equal(b3, b4):
						c.Count("compatible-hint", "differs")
						fail("C27:compatible-hint-not-kept", fmt.Sprintf("encoded under newer patch versions of its hints, decoded, encoded again: %d bytes become %d bytes (first difference at byte %d: %q vs %q)",
							len(b3), len(b4), c27firstDiff(b3, b4), c27around(b3, c27firstDiff(b3, b4)), c27around(b4, c27firstDiff(b3, b4))), b3)
					default:
						c.Count("compatible-hint", "kept")
					}
				}
			}
			if n == 0 {
				c.Sample(map[string]interface{}{"kind": g.name, "hint": top, "bytes": len(b1), "valid": valid})
			}
		}
	}
	var hs []string
	for h := range shapes {
		hs = append(hs, h)
	}
	sort.Strings(hs)
	for _, h := range hs {
		var ms []string
		for m := range shapes[h].members {
			ms = append(ms, m)
		}
		sort.Strings(ms)
		mt := "-"
		if len(ms) > 0 {
			mt = strings.Join(ms, ",")
		}
		c.Case(fmt.Sprintf("shape %s %s", h, mt), map[bool]string{true: "roundtrip", false: "broken"}[shapes[h].ok])
	}
	var missing []string
	all := append(append([]encoder.DecodeDetail{}, launch.Hinters...), launch.SupportedProposalOperationFactHinters...)
	for i := range all {
		if !seenHints[all[i].Hint.String()] {
			missing = append(missing, all[i].Hint.String())
		}
	}
	sort.Strings(missing)
	c.Count("registered-hints", fmt.Sprintf("exercised %d of %d", len(all)-len(missing), len(all)))
	if len(missing) > 0 {
		c.Note("registered hints never produced by the generators: " + strings.Join(missing, ", "))
	}
	return nil
}
