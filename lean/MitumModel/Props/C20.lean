import MitumModel.Model.Reopen
import MitumModel.Gen.C20
import MitumModel.Pins
/-!
C20  Reopening storage returns exactly what was stored.
-/
namespace Mitum.C20
open Mitum.Reopen

/-- **reopen_reads_equal.**  A loader that assigns object, hdr and body rebuilds exactly the in-memory
copy the write left, so every read — object and raw bytes — answers as before closing. -/
theorem reopen_reads_equal (f : Frame) :
    load true (persist f).2 = (persist f).1 ∧
    readObject (load true (persist f).2) = readObject (persist f).1 ∧
    readBytes (load true (persist f).2) = readBytes (persist f).1 := by
  simp [load, persist, readObject, readBytes]

/-- a loader that drops the body still serves the object, but the bytes served to peers are empty -/
theorem body_dropped_witness :
    let f : Frame := { enchint := "json", hdr := [1], body := [7, 8, 9] }
    readObject (load false (persist f).2) = readObject (persist f).1 ∧
    readBytes (load false (persist f).2) = ([1], []) ∧ readBytes (persist f).1 = ([1], [7, 8, 9]) := by
  decide

theorem body_needed (f : Frame) (h : f.body ≠ []) : readBytes (load false (persist f).2) ≠ readBytes (persist f).1 := by
  simp [load, persist, readBytes]
  exact fun e => h e

theorem facts_ok :
    Gen.C20.blockMapLoaderKeepsBody = true ∧ Gen.C20.proofLoaderKeepsBody = true ∧ Gen.C20.extractErrors = [] := by decide

theorem source_pinned : Gen.C20.pins = Pins.C20 := by decide

end Mitum.C20
