import MitumModel.Model.Hint
import MitumModel.Gen.C31
import MitumModel.Pins
/-!
C31  Hint strings are an unambiguous encoding.
-/
namespace Mitum.C31
open Mitum.Hint

/-! ### print / parse -/

theorem markerAt_append (t rest : List Char) (h2 : 3 ≤ t.length) : markerAt (t ++ rest) = markerAt t := by
  match t, h2 with
  | a :: b :: c :: _, _ => rfl

theorem findMarker_print : ∀ (t v : List Char), hasMarker t = false → versionShape v = true →
    findMarker (t ++ '-' :: v) = some t.length := by
  intro t
  induction t with
  | nil =>
    intro v _ hv
    match v, hv with
    | a :: d :: _, hv =>
      simp only [versionShape, Bool.and_eq_true] at hv
      simp [findMarker, markerAt, hv.1, hv.2]
  | cons c cs ih =>
    intro v hm hv
    simp only [hasMarker, Bool.or_eq_false_iff] at hm
    obtain ⟨hm1, hm2⟩ := hm
    have hnot : markerAt ((c :: cs) ++ '-' :: v) = false := by
      match cs, hm1 with
      | [], _ =>
        match v with
        | [] => rfl
        | w :: ws =>
          simp only [List.cons_append, List.nil_append, markerAt]
          have : ('-' == 'v') = false := by decide
          simp [this]
      | [x], _ =>
        simp only [List.cons_append, List.nil_append, markerAt]
        have : isDigit '-' = false := by decide
        simp [this]
      | x :: y :: zs, hm1 =>
        rw [markerAt_append (c :: x :: y :: zs) _ (by simp)]; exact hm1
    simp only [List.cons_append] at hnot ⊢
    unfold findMarker
    simp only [hnot, Bool.false_eq_true, if_false]
    rw [ih v hm2 hv]
    simp

/-- ✦ every hint made from a valid type and a printed version parses back to the same type
    and version — for all types and versions (any length). Needs the regenerated fact that
    types containing `-v<digit>` are rejected. -/
theorem parse_print (minLen maxLen : Nat) (t v : List Char)
    (ht : typeValid true minLen maxLen t = true) (hv : versionShape v = true) :
    parse (print t v) = some (t, v) := by
  have hm : hasMarker t = false := by
    unfold typeValid at ht
    simp only [Bool.and_eq_true, Bool.true_and, Bool.not_eq_true'] at ht
    exact ht.2
  unfold parse print
  rw [findMarker_print t v hm hv]
  simp

theorem findMarker_spec : ∀ (s : List Char) (i : Nat), findMarker s = some i →
    i < s.length ∧ s[i]? = some '-' := by
  intro s
  induction s with
  | nil => intro i h; simp [findMarker] at h
  | cons c cs ih =>
    intro i h
    unfold findMarker at h
    by_cases hm : markerAt (c :: cs) = true
    · simp only [hm, if_true] at h
      injection h with h; subst h
      refine ⟨by simp, ?_⟩
      match cs, hm with
      | b :: d :: _, hm =>
        simp only [markerAt, Bool.and_eq_true, beq_iff_eq] at hm
        simp [hm.1.1]
    · simp only [hm, Bool.false_eq_true, if_false] at h
      cases hf : findMarker cs with
      | none => simp [hf] at h
      | some j =>
        simp only [hf, Option.map_some, Option.some.injEq] at h
        subst h
        have := ih j hf
        exact ⟨by simp; omega, by simpa using this.2⟩

/-- ✦ parsing never invents text: a parsed string is exactly the print of what was parsed. -/
theorem parse_sound (s t v : List Char) (h : parse s = some (t, v)) : s = print t v := by
  unfold parse at h
  cases hf : findMarker s with
  | none => simp [hf] at h
  | some i =>
    simp only [hf, Option.some.injEq, Prod.mk.injEq] at h
    obtain ⟨rfl, rfl⟩ := h
    obtain ⟨hlt, hget⟩ := findMarker_spec s i hf
    unfold print
    have h1 : s = s.take i ++ s.drop i := (List.take_append_drop i s).symm
    have h2 : s.drop i = '-' :: s.drop (i + 1) := by
      rw [List.drop_eq_getElem_cons hlt]
      congr 1
      have := List.getElem?_eq_getElem hlt
      rw [this] at hget; injection hget
    conv => lhs; rw [h1, h2]

/-- ✦ hence parsing never returns a valid hint that differs from the one that was printed. -/
theorem parse_printed_unique (minLen maxLen : Nat) (t v t' v' : List Char)
    (ht : typeValid true minLen maxLen t = true) (hv : versionShape v = true)
    (h : parse (print t v) = some (t', v')) : t' = t ∧ v' = v := by
  rw [parse_print minLen maxLen t v ht hv] at h
  injection h with h; injection h with h1 h2
  exact ⟨h1.symm, h2.symm⟩

/-- ✗ why the fact matters: without the marker rule the valid type `ab-v1` with version
    `v0.0.1` prints `ab-v1-v0.0.1`, which parses as type `ab`, version text `v1-v0.0.1`
    (a valid, different hint: semver 1.0.0 with prerelease `v0.0.1`). -/
theorem type_with_version_marker_witness :
    typeValid false 2 100 "ab-v1".toList = true ∧
    parse (print "ab-v1".toList "v0.0.1".toList) = some ("ab".toList, "v1-v0.0.1".toList) := by decide

/-! ### CompatibleSet: cached answers equal cache-free answers -/

def valOf : CVal → Option Nat
  | .notFound => none
  | .found _ v => some v

/-- the single cache entry, if any, agrees with what a cache-free lookup returns now -/
def CacheOK (s : CSet) : Prop :=
  match s.cache.1 with
  | none => True
  | some (.inl (t, v)) => valOf s.cache.2 = valOf (findPlain s { t := t, v := v })
  | some (.inr t) => valOf s.cache.2 = valOf (findByTypePlain s t)

theorem lookupKey_upsert_eq {κ β : Type} [DecidableEq κ] (k : κ) (v : β) (l : List (κ × β)) :
    lookupKey k (upsert k v l) = some v := by
  unfold upsert
  induction l with
  | nil => simp [lookupKey]
  | cons e rest ih =>
    obtain ⟨k', v'⟩ := e
    by_cases h : k' = k
    · simp [List.filter_cons, h, ih]
    · simp [List.filter_cons, h, lookupKey, ih]

theorem cacheOK_empty : CacheOK CSet.empty := by simp [CacheOK, CSet.empty]

/-- `add` keeps the cache consistent — given the fact that it caches the value kept in the set -/
theorem cacheOK_add (s : CSet) (h : H) (val : Nat) (hs : CacheOK s) : CacheOK (add true s h val).1 := by
  cases hl : lookupKey (h.t, h.v.major) s.set with
  | none =>
    simp only [add, hl]
    simp only [CacheOK, findPlain, lookupKey_upsert_eq, valOf]
  | some e =>
    obtain ⟨eh, ev⟩ := e
    by_cases heq : eh = h
    · simp only [add, hl, heq, if_true]; exact hs
    · by_cases hlt : eh.v.lt h.v = true
      · simp only [add, hl, heq, if_false, hlt, if_true]
        simp only [CacheOK, findPlain, lookupKey_upsert_eq, valOf]
      · simp only [add, hl, heq, if_false, hlt, Bool.false_eq_true, if_true]
        simp only [CacheOK, findPlain, hl, valOf]

theorem cacheOK_find (s : CSet) (h : H) (hs : CacheOK s) :
    CacheOK (find s h).1 ∧ valOf (find s h).2 = valOf (findPlain s h) := by
  unfold find
  by_cases hc : s.cache.1 = some (.inl (h.t, h.v))
  · simp only [hc, if_true]
    refine ⟨hs, ?_⟩
    unfold CacheOK at hs
    rw [hc] at hs
    exact hs
  · simp only [hc, if_false]
    constructor
    · unfold CacheOK
      simp only
      rfl
    · trivial

theorem cacheOK_findByType (s : CSet) (t : String) (hs : CacheOK s) :
    CacheOK (findByType s t).1 ∧ valOf (findByType s t).2 = valOf (findByTypePlain s t) := by
  unfold findByType
  by_cases hc : s.cache.1 = some (.inr t)
  · simp only [hc, if_true]
    refine ⟨hs, ?_⟩
    unfold CacheOK at hs
    rw [hc] at hs
    exact hs
  · simp only [hc, if_false]
    constructor
    · unfold CacheOK
      simp only
      rfl
    · trivial

inductive Op where
  | add (h : H) (val : Nat)
  | find (h : H)
  | findByType (t : String)
deriving Repr

def step (s : CSet) : Op → CSet
  | .add h v => (add true s h v).1
  | .find h => (find s h).1
  | .findByType t => (findByType s t).1

/-- ✦ `find_refines_spec`: after any history of `Add`/`Find`/`FindBytType`, a cached lookup
    answers exactly like the cache-free lookup on the current registrations. -/
theorem find_refines_spec (ops : List Op) (h : H) (t : String) :
    let s := ops.foldl step CSet.empty
    valOf (find s h).2 = valOf (findPlain s h) ∧
    valOf (findByType s t).2 = valOf (findByTypePlain s t) := by
  have inv : ∀ (ops : List Op) (s : CSet), CacheOK s → CacheOK (ops.foldl step s) := by
    intro ops
    induction ops with
    | nil => intro s hs; exact hs
    | cons op rest ih =>
      intro s hs
      apply ih
      cases op with
      | add h v => exact cacheOK_add s h v hs
      | find h => exact (cacheOK_find s h hs).1
      | findByType t => exact (cacheOK_findByType s t hs).1
  have := inv ops CSet.empty cacheOK_empty
  exact ⟨(cacheOK_find _ h this).2, (cacheOK_findByType _ t this).2⟩

theorem identsLt_irrefl (l : List (List Char)) : identsLt l l = false := by
  induction l with
  | nil => rfl
  | cons x xs ih => simp [identsLt, ih]

theorem ver_lt_irrefl (v : Ver) : v.lt v = false := by
  unfold Ver.lt
  cases hp : v.pre with
  | nil => simp
  | cons x xs => simp [identsLt_irrefl]

/-- ✦ the registration kept for a (type, major) never goes down in version: after an `add` the
    stored hint is not lower than the added one nor than the previously stored one. -/
theorem add_keeps_highest (ce : Bool) (s : CSet) (h : H) (val : Nat) (hok : (add ce s h val).2 = true) :
    ∃ sh sv, lookupKey (h.t, h.v.major) (add ce s h val).1.set = some (sh, sv) ∧
      sh.v.lt h.v = false ∧
      (∀ eh ev, lookupKey (h.t, h.v.major) s.set = some (eh, ev) → sh.v.lt eh.v = false ∨ sh = h) := by
  have vlt_irrefl := ver_lt_irrefl
  cases hl : lookupKey (h.t, h.v.major) s.set with
  | none =>
    simp only [add, hl]
    exact ⟨h, val, lookupKey_upsert_eq _ _ _, vlt_irrefl _, by intro eh ev hh; cases hh⟩
  | some e =>
    obtain ⟨eh, ev⟩ := e
    by_cases heq : eh = h
    · simp [add, hl, heq] at hok
    · by_cases hlt : eh.v.lt h.v = true
      · simp only [add, hl, heq, if_false, hlt, if_true]
        exact ⟨h, val, lookupKey_upsert_eq _ _ _, vlt_irrefl _, fun _ _ _ => Or.inr rfl⟩
      · simp only [add, hl, heq, if_false, hlt, Bool.false_eq_true]
        refine ⟨eh, ev, rfl, by simpa using hlt, ?_⟩
        intro eh' ev' hh; injection hh with hh; injection hh with h1 _
        left; subst h1; exact vlt_irrefl _

/-- ✗ why the cache fact matters: caching the value passed to `Add` makes
    `Add(t-v1.2.0,A); Add(t-v1.1.0,B); Find(t-v1.1.0)` answer `B` although `A` is registered. -/
theorem add_lower_version_cache_witness :
    let s1 := (add false CSet.empty ⟨"t", ⟨1, 2, 0, []⟩⟩ 100).1
    let s2 := (add false s1 ⟨"t", ⟨1, 1, 0, []⟩⟩ 200).1
    valOf (find s2 ⟨"t", ⟨1, 1, 0, []⟩⟩).2 = some 200 ∧ valOf (findPlain s2 ⟨"t", ⟨1, 1, 0, []⟩⟩) = some 100 := by decide

/-- ✦ facts of the current source -/
theorem facts_ok :
    Gen.C31.extractErrors = [] ∧ Gen.C31.regVersion = "\\-v\\d+" ∧
    Gen.C31.reTypeAllowedChars = "^[a-z0-9][a-z0-9\\-_\\+]*[a-z0-9]$" ∧
    Gen.C31.minTypeLength = 2 ∧ Gen.C31.maxTypeLength = 100 ∧
    Gen.C31.typeRejectsMarker = true ∧ Gen.C31.addCachesEffective = true ∧ Gen.C31.cacheSize = 1 ∧
    Gen.C31.cacheKeySpacesSeparate = true ∧ Gen.C31.pins = Pins.C31 := by
  refine ⟨by decide, by decide, by decide, by decide, by decide, by decide, by decide, by decide, by decide, by decide⟩

/-- semver precedence examples the unrepaired comparison got wrong (first character of the first
    identifier skipped; equal-length numerics never compared) -/
example : identsLt [['a', 'b']] [['b', 'a']] = true ∧ identsLt [['1']] [['2']] = true ∧ identsLt [['2']] [['1']] = false ∧
    identsLt [['a']] [['a'], ['1']] = true ∧ identsLt [['9']] [['1', '0']] = true ∧ identsLt [['1']] [['a']] = true := by decide

example : typeValid true 2 100 "sh-w_m+e".toList = true ∧ versionShape "v1.2.3-alpha".toList = true := by decide
example : typeValid true 2 100 "ab-v1".toList = false := by decide

end Mitum.C31
