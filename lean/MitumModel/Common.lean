/-
Common helpers shared by the executable models (core-only, no Mathlib).
-/
namespace Mitum

/-- Split a protocol line into space-separated tokens (empty tokens dropped). -/
def tokens (s : String) : List String :=
  (s.splitOn " ").filter (fun t => !t.isEmpty)

def natTok? (s : String) : Option Nat := s.toNat?

def intTok? (s : String) : Option Int := s.toInt?

/-- all tokens as naturals, `none` if any fails -/
def natToks? (ts : List String) : Option (List Nat) := ts.mapM natTok?

def boolStr (b : Bool) : String := if b then "1" else "0"

def joinSp (xs : List String) : String := " ".intercalate xs

end Mitum

namespace Mitum

/-- insertion into a list sorted by `le` (structural, so `decide` can evaluate it) -/
def insertBy {α : Type} (le : α → α → Bool) (x : α) : List α → List α
  | [] => [x]
  | y :: ys => if le x y then x :: y :: ys else y :: insertBy le x ys

/-- insertion sort; used wherever the Go code calls `sort.Slice` on totally ordered keys -/
def sortBy {α : Type} (le : α → α → Bool) : List α → List α
  | [] => []
  | x :: xs => insertBy le x (sortBy le xs)

end Mitum
