package main

import (
	"fmt"
	"strings"
	"sync"
	"sync/atomic"

	"github.com/spikeekips/mitum/base"
	"github.com/spikeekips/mitum/launch"
	"github.com/spikeekips/mitum/util/encoder"
	jsonenc "github.com/spikeekips/mitum/util/encoder/json"
)

func init() { register("C35", runC35) }

// perm tokens: "-" absent, else the YAML text of the permission
var c35PermTexts = []string{"-", "x", "o", "oo", "s"}

func c35PermValue(t string) int {
	switch t {
	case "x":
		return 1
	case "s":
		return 79
	default:
		return len(t) + 1
	}
}

// C35: exhaustive tables over the default user and one named user, two scopes
// (one named scope + `_default`), permission texts {absent,x,o,oo,s}; every
// table is imported through the real YAMLACL.Import (real glue: YAML, perm
// text parsing, IsValid) and queried for 4 users x 2 scopes x 5 requirements.
// Plus all 256 permission values through ACLPerm.String / UnmarshalText.
func runC35(c *Ctx) error {
	enc := jsonenc.NewEncoder()
	if err := enc.Add(encoder.DecodeDetail{Hint: base.MPublickeyHint, Instance: &base.MPublickey{}}); err != nil {
		return err
	}
	super := base.NewMPrivatekey().Publickey().String()
	userU := base.NewMPrivatekey().Publickey().String()
	userV := base.NewMPrivatekey().Publickey().String()
	userNames := []string{"_default", userU, userV, super} // ids 0..3
	scopeNames := []string{"_default", "s", "t"}           // ids 0..2
	requireds := []uint8{0, 1, 2, 3, 79}
	if c.Thorough() {
		requireds = []uint8{0, 1, 2, 3, 4, 78, 79, 80, 255}
		c35PermTexts = []string{"-", "x", "o", "oo", "ooo", strings.Repeat("o", 77), strings.Repeat("o", 78), "s"}
	}

	// user row options: nil = user absent; else [scope s perm, scope _default perm]
	type row = c35srow
	var rows []*row
	rows = append(rows, nil)
	for _, ps := range c35PermTexts {
		for _, pd := range c35PermTexts {
			if ps == "-" && pd == "-" {
				continue
			}
			rows = append(rows, &row{ps, pd})
		}
	}
	rowTok := func(r *row) string {
		if r == nil {
			return "- -"
		}
		f := func(t string) string {
			if t == "-" {
				return "0"
			}
			return fmt.Sprint(c35PermValue(t))
		}
		return f(r.s) + " " + f(r.d)
	}
	yamlRow := func(name string, r *row) string {
		if r == nil {
			return ""
		}
		s := name + ":\n"
		if r.s != "-" {
			s += "  s: " + r.s + "\n"
		}
		if r.d != "-" {
			s += "  _default: " + r.d + "\n"
		}
		return s
	}

	for _, rd := range rows {
		for _, ru := range rows {
			acl, err := launch.NewACL(9, super)
			if err != nil {
				return err
			}
			y := yamlRow("_default", rd) + yamlRow(userU, ru)
			if len(y) > 0 {
				if _, err := launch.NewYAMLACL(acl).Import([]byte(y), enc); err != nil {
					return fmt.Errorf("import %q: %w", y, err)
				}
			}
			for ui := range userNames {
				for si := 1; si <= 2; si++ {
					for _, req := range requireds {
						assigned, allow := acl.Allow(userNames[ui], launch.ACLScope(scopeNames[si]), launch.ACLPerm(req))
						line := fmt.Sprintf("allow %s %s %d %d %d", rowTok(rd), rowTok(ru), ui, si, req)
						a := 0
						if allow {
							a = 1
						}
						c.Case(line, fmt.Sprintf("%d %d", assigned, a))
						// oracle: the documented precedence, computed independently here
						c35Oracle(c, rd2(rd), rd2(ru), ui, si, int(req), int(assigned), allow, line)
						if rd != nil && ru != nil && ui <= 2 {
							c.Nontrivial(line)
						}
						if c.cases%4000 == 7 {
							c.Sample(map[string]interface{}{"yaml": y, "user": ui, "scope": scopeNames[si], "required": req, "assigned": assigned, "allow": allow})
						}
						c.Count("required", fmt.Sprint(req))
						c.Count("decision", fmt.Sprintf("assigned=%d allow=%v", assigned, allow))
					}
				}
			}
		}
	}
	// permission text round trip, all 256 values
	for p := 0; p < 256; p++ {
		perm := launch.ACLPerm(uint8(p))
		s := perm.String()
		var q launch.ACLPerm
		res := ""
		if err := q.UnmarshalText([]byte(s)); err != nil {
			res = "err"
		} else {
			res = fmt.Sprint(uint8(q))
		}
		c.Case(fmt.Sprintf("perm %d", p), fmt.Sprintf("%d %s", len(s), res))
		if perm.IsValid(nil) == nil {
			c.Nontrivial(fmt.Sprintf("perm %d", p))
			if res != fmt.Sprint(p) {
				c.Violation("C35:perm-text-roundtrip", fmt.Sprintf("perm %d prints %q parses %s", p, s, res), map[string]interface{}{"perm": p})
			}
		}
	}
	c.Extra("exhaustive_grid", true)
	// reloads: ONE ACL and one importer, several sources one after the other (users come and go); every decision must
	// follow from the table loaded last
	nre := 150
	if c.Thorough() {
		nre = 3000
	}
	for i := 0; i < nre; i++ {
		acl, err := launch.NewACL(9, super)
		if err != nil {
			return err
		}
		yacl := launch.NewYAMLACL(acl)
		var loads []string
		for t := 0; t < 2+c.Intn(3); t++ {
			rd, ru, rv := rows[c.Intn(len(rows))], rows[c.Intn(len(rows))], rows[c.Intn(len(rows))]
			if c.Chance(1, 2) { // one of the two users, so that they replace each other from load to load
				if t%2 == 0 {
					rv = nil
				} else {
					ru = nil
				}
			}
			y := yamlRow("_default", rd) + yamlRow(userU, ru) + yamlRow(userV, rv)
			if len(y) == 0 {
				continue
			}
			if _, err := yacl.Import([]byte(y), enc); err != nil {
				return fmt.Errorf("import %q: %w", y, err)
			}
			loads = append(loads, fmt.Sprintf("[%s | U %s | V %s]", rowTok(rd), rowTok(ru), rowTok(rv)))
			for _, q := range []struct {
				name string
				r    *row
			}{{userU, ru}, {userV, rv}} {
				for si := 1; si <= 2; si++ {
					for _, req := range requireds {
						assigned, allow := acl.Allow(q.name, launch.ACLScope(scopeNames[si]), launch.ACLPerm(req))
						// the same question asked of a table that holds only the default user and this user
						line := fmt.Sprintf("allow %s %s %d %d %d", rowTok(rd), rowTok(q.r), 1, si, req)
						c.Case(line, fmt.Sprintf("%d %s", assigned, b01(allow)))
						c35Oracle(c, rd2(rd), rd2(q.r), 1, si, int(req), int(assigned), allow, "after the loads "+strings.Join(loads, " then ")+": "+line)
					}
				}
			}
		}
		c.Count("reload-sequences", fmt.Sprint(len(loads)))
	}
	// a reload while decisions are asked for: every source prohibits the target user explicitly (the default user
	// grants), so no decision may ever allow
	{
		target := base.NewMPrivatekey().Publickey().String()
		fillers := make([]string, 300)
		for i := range fillers {
			fillers[i] = base.NewMPrivatekey().Publickey().String()
		}
		source := func(perm string) []byte {
			var sb strings.Builder
			sb.WriteString("_default:\n  s: oo\n")
			for _, f := range fillers {
				sb.WriteString(f + ":\n  s: " + perm + "\n")
			}
			sb.WriteString(target + ":\n  s: x\n")
			return []byte(sb.String())
		}
		sources := [][]byte{source("o"), source("oo")}
		acl, err := launch.NewACL(33, "")
		if err != nil {
			return err
		}
		yacl := launch.NewYAMLACL(acl)
		if _, err := yacl.Import(sources[0], enc); err != nil {
			return err
		}
		var stop, bad atomic.Bool
		var asked atomic.Int64
		var wg sync.WaitGroup
		for g := 0; g < 4; g++ {
			wg.Add(1)
			go func() {
				defer wg.Done()
				for !stop.Load() {
					if _, allow := acl.Allow(target, launch.ACLScope("s"), launch.ACLPerm(2)); allow {
						bad.Store(true)
					}
					asked.Add(1)
				}
			}()
		}
		reloads := 60
		if c.Thorough() {
			reloads = 400
		}
		for i := 1; i <= reloads && !bad.Load(); i++ {
			if _, err := yacl.Import(sources[i%2], enc); err != nil {
				return err
			}
		}
		stop.Store(true)
		wg.Wait()
		c.Eval(int(asked.Load()))
		c.Count("concurrent-reload", "run")
		if bad.Load() {
			c.Violation("C35:decision-from-a-half-loaded-table", fmt.Sprintf("while the table is reloaded (%d users, every source prohibits the target user, the default user grants) a decision allowed the target user", len(fillers)+2),
				map[string]interface{}{"users": len(fillers) + 2, "reloads": reloads})
		}
	}
	return nil
}

type c35row struct {
	present bool
	s, d    int // 0 = absent
}

func rd2(r *c35srow) c35row {
	if r == nil {
		return c35row{}
	}
	f := func(t string) int {
		if t == "-" {
			return 0
		}
		return c35PermValue(t)
	}
	return c35row{true, f(r.s), f(r.d)}
}

func c35Oracle(c *Ctx, def, usr c35row, ui, si, req, assigned int, allow bool, line string) {
	if req == 1 { // a request for prohibit is always denied
		if allow {
			c.Violation("C35:prohibit-required-allowed", line, map[string]interface{}{"line": line})
		}
		return
	}
	if ui == 3 { // superuser
		if !allow {
			c.Violation("C35:superuser-denied", line, map[string]interface{}{"line": line})
		}
		return
	}
	own := func(r c35row, scopeIsS bool) int {
		if !r.present {
			return 0
		}
		if scopeIsS && r.s != 0 {
			return r.s
		}
		return r.d
	}
	eff := 0
	if ui == 1 {
		eff = own(usr, si == 1)
	}
	if ui == 0 {
		eff = own(def, si == 1)
	}
	if eff == 0 {
		eff = own(def, si == 1)
	}
	wantAllow := eff != 0 && eff >= req
	if eff == 1 && req >= 2 {
		wantAllow = false
	}
	if allow != wantAllow || assigned != eff {
		c.Violation("C35:precedence", fmt.Sprintf("%s: got assigned=%d allow=%v, chain says perm=%d allow=%v", line, assigned, allow, eff, wantAllow),
			map[string]interface{}{"line": line})
	}
}

type c35srow struct{ s, d string }
