import MitumModel.Common
import MitumModel.Model.Threshold
/-
Line-protocol driver: one case per line on stdin, `<area> <args…>`; one
canonical result per line on stdout.  Unknown / malformed lines give `bad-op`.
-/
namespace Mitum.Driver
open Mitum

def stepC02 (ts : List String) : String :=
  match natToks? ts with
  | some [n, t10] => toString (Threshold.required n t10)
  | _ => "bad-op"

end Mitum.Driver
