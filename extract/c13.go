package main

import "strings"

func init() { register("C13", genC13) }

func genC13(o *Out) {
	f := o.pinFile("isaac/block/suffrage.go", "SuffrageProof.IsValid", "SuffrageProof.Prove", "SuffrageProof.Suffrage", "SuffrageProof.SuffrageHeight")
	_ = o.pinFile("util/fixedtree/proof.go", "Proof.Prove", "Proof.filterNodes", "ExtractProofMaterial", "Proof.IsValid")
	if f == nil {
		return
	}
	root, follows := false, false
	if fd := f.Func("SuffrageProof", "Prove"); fd != nil {
		src := normSpace(f.Src(fd.Body))
		root = strings.Contains(src, "nodes[len(nodes)-1].Hash().Equal(s.m.Manifest().StatesTree())") &&
			strings.Index(src, "s.proof.Prove(s.st.Hash().String())") >= 0
		follows = strings.Contains(src, "case s.st.Height() <= previousState.Height():") &&
			strings.Contains(src, "case !s.st.Previous().Equal(previousState.Hash()):") &&
			strings.Contains(src, "if current.Height() != previous.Height()+1 {") &&
			strings.Contains(src, "case previousState != nil: return e.Errorf(")
	}
	o.boolean("rootCompared", root)
	o.boolean("followsChecked", follows)
}
