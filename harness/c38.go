package main

import (
	"context"
	"fmt"
	"runtime"
	"strings"
	"sync"
	"time"

	"github.com/spikeekips/mitum/base"
	"github.com/spikeekips/mitum/isaac"
	"github.com/spikeekips/mitum/util"
	"github.com/spikeekips/mitum/util/valuehash"
)

func init() { register("C38", runC38) }

func c38checkOps(c *Ctx, pr base.ProposalSignFact, where string) {
	seenO, seenF := map[string]bool{}, map[string]bool{}
	for _, e := range pr.ProposalFact().Operations() {
		if seenO[e[0].String()] {
			c.Violation("C38:duplicate-operation-in-proposal", where, map[string]interface{}{"where": where})
		}
		if seenF[e[1].String()] {
			c.Violation("C38:duplicate-fact-in-proposal", where, map[string]interface{}{"where": where})
		}
		seenO[e[0].String()], seenF[e[1].String()] = true, true
	}
}

func runC38(c *Ctx) error {
	env, err := newPoolEnv()
	if err != nil {
		return err
	}
	local := base.RandomLocalNode()
	others := []base.LocalNode{base.RandomLocalNode(), base.RandomLocalNode()}
	prevs := []util.Hash{valuehash.RandomSHA256(), valuehash.RandomSHA256()}
	privs := []base.Privatekey{base.NewMPrivatekey(), base.NewMPrivatekey()}
	ctx := context.Background()
	nhist := 120
	if c.Thorough() {
		nhist = 3000
	}
	for hi := 0; hi < nhist; hi++ {
		pool, err := env.newPool()
		if err != nil {
			return err
		}
		// last block = height 30 with hash prevs[0]: Make for 31 with prevs[0] makes a full proposal, for 31 with
		// prevs[1] or for 32+ an empty one (preferEmpty path inside Make); height 29 is accepted, below is too old
		lastBM := base.NewDummyBlockMap(base.NewDummyManifest(base.Height(30), prevs[0]))
		maker := isaac.NewProposalMaker(local, hNetworkID, func(ctx context.Context, h base.Height) ([][2]util.Hash, error) {
			return pool.OperationHashes(ctx, h, 5, nil)
		}, pool, func() (base.BlockMap, bool, error) { return lastBM, true, nil })
		dP, _ := pool.VerifCleanDeeps()
		facts := make([]isaac.DummyOperationFact, 3)
		for i := range facts {
			facts[i] = isaac.NewDummyOperationFact(util.UUID().Bytes(), util.BytesToByter(c.Bytes(4)))
		}
		ids := map[string]int{}
		next := 1
		var toks, outs []string
		nsteps := 4 + c.Intn(12)
		for st := 0; st < nsteps; st++ {
			h, r, pv := 29+c.Intn(6), c.Intn(2), c.Intn(2)
			point := base.NewPoint(base.Height(h), base.Round(uint64(r)))
			k := c.Intn(11)
			if k == 10 { // proposal cleanup (as the pool's periodic cleaner does)
				if _, err := pool.VerifCleanProposals(); err != nil {
					return err
				}
				toks = append(toks, fmt.Sprintf("c:%d", dP))
				outs = append(outs, "-")
				// a proposal re-made in the same millisecond for the same position is byte-identical (same
				// proposedAt/signedAt, deterministic signature); let the clock advance so that "made again
				// after the pool forgot it" is distinguishable
				time.Sleep(2 * time.Millisecond)
				continue
			}
			switch {
			case k < 5:
				var pr base.ProposalSignFact
				var err error
				kind := "m"
				if c.Chance(1, 3) {
					kind = "e"
					pr, err = maker.PreferEmpty(ctx, point, prevs[pv])
				} else {
					pr, err = maker.Make(ctx, point, prevs[pv])
				}
				if err != nil {
					return err
				}
				sig := string(pr.Signs()[0].Signature())
				id, ok := ids[sig]
				if !ok {
					id = next
					next++
					ids[sig] = id
				}
				f := pr.ProposalFact()
				if !f.Point().Equal(point) || !f.Proposer().Equal(local.Address()) || !f.PreviousBlock().Equal(prevs[pv]) {
					c.Violation("C38:wrong-position", strings.Join(toks, " "), map[string]interface{}{"history": toks})
				}
				if err := pr.IsValid(hNetworkID); err != nil {
					c.Violation("C38:invalid-proposal", err.Error(), map[string]interface{}{"history": toks})
				}
				c38checkOps(c, pr, strings.Join(toks, " "))
				toks = append(toks, fmt.Sprintf("%s:%d.%d.0.%d", kind, h, r, pv))
				outs = append(outs, fmt.Sprint(id))
			case k < 7: // a proposal of another proposer for the same point enters the pool
				oi := c.Intn(len(others))
				pr, err := hProposal(point, others[oi], prevs[pv], nil)
				if err != nil {
					return err
				}
				if _, err := pool.SetProposal(pr); err != nil {
					return err
				}
				toks = append(toks, fmt.Sprintf("f:%d.%d.%d.%d", h, r, oi+1, pv))
				outs = append(outs, "-")
			default: // operations arrive (duplicated facts re-signed)
				op, err := isaac.NewDummyOperation(facts[c.Intn(len(facts))], privs[c.Intn(2)], hNetworkID)
				if err != nil {
					return err
				}
				if _, err := pool.SetOperation(ctx, op); err != nil {
					return err
				}
				toks = append(toks, "o")
				outs = append(outs, "-")
			}
		}
		c.Case("seq "+strings.Join(toks, " "), strings.Join(outs, " "))
		if next > 2 {
			c.Nontrivial(strings.Join(toks, " "))
		}
		if hi%40 == 0 {
			c.Sample(map[string]string{"history": strings.Join(toks, " "), "proposal ids": strings.Join(outs, " ")})
		}
		_ = pool.Close()
	}
	// concurrent: many goroutines ask for the same few positions while operations arrive
	rounds := 30
	if c.Thorough() {
		rounds = 600
	}
	for ri := 0; ri < rounds; ri++ {
		pool, err := env.newPool()
		if err != nil {
			return err
		}
		lastBM := base.NewDummyBlockMap(base.NewDummyManifest(base.Height(40), prevs[0]))
		var lbm func() (base.BlockMap, bool, error)
		if ri%2 == 0 { // half of the rounds with a known last block: heights 41 (next) and 42 (unreachable)
			lbm = func() (base.BlockMap, bool, error) {
				runtime.Gosched()
				return lastBM, true, nil
			}
		}
		maker := isaac.NewProposalMaker(local, hNetworkID, func(ctx context.Context, h base.Height) ([][2]util.Hash, error) {
			return pool.OperationHashes(ctx, h, 4, nil)
		}, pool, lbm)
		fact := isaac.NewDummyOperationFact(util.UUID().Bytes(), util.BytesToByter(c.Bytes(4)))
		var mu sync.Mutex
		got := map[string]map[string]bool{}
		var wg sync.WaitGroup
		seeds := make([]uint64, 8)
		for i := range seeds {
			seeds[i] = c.U64()
		}
		for g := 0; g < 8; g++ {
			wg.Add(1)
			go func(g int) {
				defer wg.Done()
				s := seeds[g]
				for k := 0; k < 6; k++ {
					s = s*6364136223846793005 + 1442695040888963407
					h, pv := 41+int(s>>33)%2, int(s>>40)%2
					point := base.NewPoint(base.Height(h), 0)
					if g == 0 { // operations arrive concurrently
						op, _ := isaac.NewDummyOperation(fact, privs[k%2], hNetworkID)
						_, _ = pool.SetOperation(ctx, op)
					}
					var pr base.ProposalSignFact
					var err error
					if (s>>50)%3 == 0 {
						pr, err = maker.PreferEmpty(ctx, point, prevs[pv])
					} else {
						pr, err = maker.Make(ctx, point, prevs[pv])
					}
					if err != nil {
						continue
					}
					key := fmt.Sprintf("%d/%d", h, pv)
					mu.Lock()
					if got[key] == nil {
						got[key] = map[string]bool{}
					}
					got[key][string(pr.Signs()[0].Signature())] = true
					mu.Unlock()
					c38checkOps(c, pr, "concurrent")
				}
			}(g)
		}
		wg.Wait()
		c.Eval(48)
		for key, sigs := range got {
			if len(sigs) > 1 {
				c.Violation("C38:two-proposals-for-one-position", fmt.Sprintf("position %s got %d different signed proposals under concurrent Make/PreferEmpty", key, len(sigs)),
					map[string]interface{}{"position": key, "round": ri})
			}
		}
		_ = pool.Close()
	}
	// a pool whose proposal writes fail now and then (disk full, storage closing): a proposal that could not be kept
	// must not be handed out, or the next call for the position makes another one
	nfail := 60
	if c.Thorough() {
		nfail = 1500
	}
	for hi := 0; hi < nfail; hi++ {
		pool, err := env.newPool()
		if err != nil {
			return err
		}
		fp := &c38failingPool{ProposalPool: pool}
		lastBM := base.NewDummyBlockMap(base.NewDummyManifest(base.Height(30), prevs[0]))
		maker := isaac.NewProposalMaker(local, hNetworkID, func(ctx context.Context, h base.Height) ([][2]util.Hash, error) {
			return pool.OperationHashes(ctx, h, 5, nil)
		}, fp, func() (base.BlockMap, bool, error) { return lastBM, true, nil })
		got := map[string]map[string]bool{}
		var toks, mtoks, mouts []string // mtoks/mouts: the same history for the Lean model of the maker
		mids := map[string]int{}
		for st := 0; st < 4+c.Intn(8); st++ {
			h, r, pv := 30+c.Intn(3), c.Intn(2), c.Intn(2)
			point := base.NewPoint(base.Height(h), base.Round(uint64(r)))
			fp.fail = c.Chance(1, 3)
			var pr base.ProposalSignFact
			var err error
			kind := "m"
			if c.Chance(1, 3) {
				kind = "e"
				pr, err = maker.PreferEmpty(ctx, point, prevs[pv])
			} else {
				pr, err = maker.Make(ctx, point, prevs[pv])
			}
			tok := fmt.Sprintf("%s:%d.%d.%d%s", kind, h, r, pv, map[bool]string{true: "!", false: ""}[fp.fail])
			toks = append(toks, tok)
			mtoks = append(mtoks, fmt.Sprintf("%s:%d.%d.0.%d%s", kind, h, r, pv, map[bool]string{true: "!", false: ""}[fp.fail]))
			time.Sleep(2 * time.Millisecond) // a proposal made again gets another signing time
			if err != nil || pr == nil {
				mouts = append(mouts, "err")
				continue
			}
			{
				sig := string(pr.Signs()[0].Signature())
				id, ok := mids[sig]
				if !ok {
					id = len(mids) + 1
					mids[sig] = id
				}
				mouts = append(mouts, fmt.Sprint(id))
			}
			key := fmt.Sprintf("%d.%d.%d", h, r, pv)
			if got[key] == nil {
				got[key] = map[string]bool{}
			}
			got[key][string(pr.Signs()[0].Signature())] = true
		}
		c.Case("seq "+strings.Join(mtoks, " "), strings.Join(mouts, " "))
		c.Count("failing-pool-histories", "run")
		for key, sigs := range got {
			if len(sigs) > 1 {
				c.Violation("C38:two-proposals-for-one-position", fmt.Sprintf("position %s got %d different signed proposals over a pool whose proposal writes fail now and then (! = the write of that call fails): %s", key, len(sigs), strings.Join(toks, " ")),
					map[string]interface{}{"position": key, "history": toks})
			}
		}
		_ = pool.Close()
	}
	return nil
}

type c38failingPool struct {
	isaac.ProposalPool
	fail bool
}

func (p *c38failingPool) SetProposal(pr base.ProposalSignFact) (bool, error) {
	if p.fail {
		return false, fmt.Errorf("no space left on device")
	}
	return p.ProposalPool.SetProposal(pr)
}
